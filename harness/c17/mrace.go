package main

import (
	"fmt"
	"math"
	"math/rand"
	"runtime"
	rtdebug "runtime/debug"
	"sort"
	"strings"
	"sync/atomic"
	"time"

	"github.com/iotaledger/hive.go/runtime/debug"
	"verif/harness/internal/gdump"
)

// Mutex racing-release family. A fresh StarvingMutex / DAGMutex is taken by
// "holders" (one writer, or 1-3 readers, on DAG mutexes optionally a second
// entity); then N single-shot acquirers (Lock / RLock / multi-entity RLock,
// each followed by its unlock), a few passing readers and the holders'
// releases are let go from one barrier. A release is triggered by the k-th
// acquirer announcing (in harness code, right before the call) that it is
// about to call Lock/RLock, plus a seeded spin/Gosched delay - so releases
// land around the moment a contended acquire finds the mutex busy and starts
// to wait. Nothing happens afterwards, so a wake-up that is lost in the window
// between "found busy" and "parked" is lost for good: at structural quiescence
// every goroutine must have finished (well-formed single-step programs,
// readers only ever wait for writers, writers never wait while holding).
// Exclusion is judged by an atomic shadow holder set at every grant.
//
// The same rounds (and the scripted arrival orders and the contention stress)
// also run in children with the repository's process-global debug mode enabled
// (runtime/debug.SetEnabled(true)): StarvingMutex then runs its dead-lock
// detection (stack capture, detection goroutine) on Lock/RLock. The detection
// goroutine sits in a select on a done channel and a timer of
// debug.DeadlockDetectionTimeout; the harness sets that time-out to the
// maximum duration, so the timer never fires (nothing is printed) and such a
// goroutine is structurally parked like any other - the snapshot rules stay
// valid; the Go runtime's own "all goroutines are asleep" verdict is not used
// in these children (a pending timer disables it).

// enableDebugMode switches the process to the repository's debug mode.
func enableDebugMode() {
	debug.DeadlockDetectionTimeout = time.Duration(math.MaxInt64)
	debug.SetEnabled(true)
	// every Lock/RLock now allocates a 1 MiB stack buffer: collect less often (speed only, no verdict depends on it)
	rtdebug.SetGCPercent(800)
}

type mraceCfg struct {
	Seed  int64 `json:"seed"`
	Run   int   `json:"run"`
	Debug bool  `json:"debug_mode"`
}

type mraceResult struct {
	Cfg      mraceCfg  `json:"cfg"`
	Target   string    `json:"target"`
	Mode     string    `json:"mode"`
	Holders  []string  `json:"holders"`
	Waiters  []string  `json:"acquirers"`
	Passing  int       `json:"passing_readers"`
	Findings []finding `json:"-"`
	Stuck    []string  `json:"stuck,omitempty"`

	Grants       int    `json:"grants"`
	Across       int    `json:"acquires_in_flight_across_last_release"` // called before the last release began, returned after it ended
	During       int    `json:"acquires_called_during_last_release"`
	BeforeRel    int    `json:"acquires_returned_before_last_release"`
	AfterRel     int    `json:"acquires_called_after_last_release"`
	RelInAcquire int    `json:"releases_begun_while_a_conflicting_acquire_was_in_flight"`
	Shape        string `json:"shape"`
}

type mholder struct {
	o       op
	trigger int  // release once this many acquirers have announced their call; -1: after all acquirers were observed parked/returned
	yieldy  bool // wait for the trigger with Gosched (else mostly spinning)
	spins   int  // delay after the trigger: busy iterations
	yields  int  // ... and Gosched calls
}

var spinSink atomic.Uint64

func busy(n int) {
	for i := 0; i < n; i++ {
		spinSink.Add(1)
	}
}

func conflicts(held op, want op) bool {
	if held.K == "RL" && want.K == "RL" {
		return false
	}
	for _, a := range held.E {
		for _, b := range want.E {
			if a == b {
				return true
			}
		}
	}
	return false
}

func relOf(o op) op {
	if o.K == "L" {
		return op{"U", o.E}
	}
	return op{"RU", o.E}
}

func runMRace(cfg mraceCfg) (res mraceResult) {
	res.Cfg = cfg
	rng := rand.New(rand.NewSource(cfg.Seed*49979687 + int64(cfg.Run)*3 + 1))
	res.Target = []string{"starving", "dag"}[cfg.Run%2]
	ents := 1
	if res.Target == "dag" {
		ents = 1 + rng.Intn(2)
	}
	// ---- holders
	var holders []mholder
	switch rng.Intn(5) {
	case 0, 1:
		holders = append(holders, mholder{o: op{"L", []int{0}}})
	case 2, 3:
		holders = append(holders, mholder{o: op{"RL", []int{0}}})
	default:
		for i, k := 0, 2+rng.Intn(2); i < k; i++ {
			holders = append(holders, mholder{o: op{"RL", []int{0}}})
		}
	}
	if ents == 2 && rng.Intn(2) == 0 {
		holders = append(holders, mholder{o: op{[]string{"L", "RL"}[rng.Intn(2)], []int{1}}})
	}
	// ---- acquirers
	n := 1
	if rng.Intn(3) != 0 {
		n = 1 + rng.Intn(5)
	}
	waiters := make([]op, n)
	for j := range waiters {
		e := rng.Intn(ents)
		switch k := rng.Intn(5); {
		case k < 2 || (j == 0 && holders[0].o.K == "RL"):
			waiters[j] = op{"L", []int{e}}
		case k == 4 && ents == 2:
			waiters[j] = op{"RL", [][]int{{0, 1}, {1, 0}}[rng.Intn(2)]}
		default:
			waiters[j] = op{"RL", []int{e}}
		}
	}
	if !conflicts(holders[0].o, waiters[0]) {
		waiters[0].E = []int{0} // acquirer 0 always conflicts with the holder(s) of entity 0
	}
	passing := 0
	if rng.Intn(3) == 0 {
		passing = 1 + rng.Intn(2)
	}
	res.Passing = passing
	res.Mode = "race"
	if rng.Intn(10) == 0 {
		res.Mode = "parkfirst"
	}
	for i := range holders {
		h := &holders[i]
		h.trigger = rng.Intn(n + 1)
		if rng.Intn(2) == 0 {
			h.trigger = 1 + rng.Intn(n) // right after some acquirer's announcement
		}
		if res.Mode == "parkfirst" {
			h.trigger = -1
		}
		h.yieldy = rng.Intn(4) == 0
		switch rng.Intn(6) {
		case 0:
		case 1:
			h.spins = rng.Intn(16)
		case 2:
			h.spins = rng.Intn(256)
		case 3:
			h.spins = rng.Intn(4096)
		case 4:
			h.spins = rng.Intn(32768)
		default:
			h.yields = 1 + rng.Intn(4)
		}
		res.Holders = append(res.Holders, fmt.Sprintf("%s release@arrival=%d spins=%d yields=%d", h.o, h.trigger, h.spins, h.yields))
	}
	for _, w := range waiters {
		res.Waiters = append(res.Waiters, w.String())
	}

	tg := newTarget(res.Target)
	before := idSet(gdump.Snapshot())
	var bad atomic.Pointer[finding]
	report := func(fp, f string, a ...any) { bad.CompareAndSwap(nil, &finding{fp, fmt.Sprintf(f, a...)}) }
	sh := make([]shadow, 2)
	var grants atomic.Int64
	grant := func(o op, who string) {
		grants.Add(1)
		for _, e := range o.E {
			s := &sh[e]
			if o.K == "L" {
				if w := s.writers.Add(1); w != 1 {
					report("exclusion/write-lock-granted-while-conflicting-lock-held", "racing release: %s of %s granted while another writer holds entity %d", o, who, e)
				}
				if r := s.readers.Load(); r != 0 {
					report("exclusion/write-lock-granted-while-conflicting-lock-held", "racing release: %s of %s granted while %d reader(s) hold entity %d", o, who, r, e)
				}
			} else {
				s.readers.Add(1)
				if w := s.writers.Load(); w != 0 {
					report("exclusion/read-lock-granted-while-conflicting-lock-held", "racing release: %s of %s granted while a writer holds entity %d", o, who, e)
				}
			}
		}
	}
	ungrant := func(o op) {
		for _, e := range o.E {
			if o.K == "L" {
				sh[e].writers.Add(-1)
			} else {
				sh[e].readers.Add(-1)
			}
		}
	}

	start := make(chan struct{})
	goRelease := make(chan struct{})
	var held, arrived, left atomic.Int32
	nh := len(holders)
	left.Store(int32(nh + n + passing))
	hState := make([]atomic.Int32, nh) // 0 acquiring, 1 holding, 2 releasing, 3 done
	rel0 := make([]atomic.Uint64, nh)
	rel1 := make([]atomic.Uint64, nh)
	for i := range holders {
		i, h := i, holders[i]
		go func() {
			defer left.Add(-1)
			tg.do(h.o)
			grant(h.o, "a holder")
			hState[i].Store(1)
			held.Add(1)
			<-start
			if h.trigger < 0 {
				<-goRelease
			} else {
				for k := 1; arrived.Load() < int32(h.trigger); k++ {
					if h.yieldy || k%64 == 0 {
						runtime.Gosched()
					}
				}
			}
			busy(h.spins)
			for k := 0; k < h.yields; k++ {
				runtime.Gosched()
			}
			rel0[i].Store(now())
			hState[i].Store(2)
			ungrant(h.o)
			tg.do(relOf(h.o))
			rel1[i].Store(now())
			hState[i].Store(3)
		}()
	}
	gs := waitQuiescent()
	if int(held.Load()) != nh {
		res.Stuck = stuckStacks(gs, before, "hive.go/runtime/syncutils.")
		for i := range holders {
			if hState[i].Load() == 0 {
				cl := "Lock-parked-while-nothing-held"
				if holders[i].o.K == "RL" {
					cl = "RLock-parked-while-no-writer-holds"
				}
				res.Findings = append(res.Findings, finding{"lost-wakeup/" + cl, fmt.Sprintf("racing release: %s on a fresh mutex (other holders: %v) is parked for ever: %v", holders[i].o, res.Holders, res.Stuck)})
				break
			}
		}
		if f := bad.Load(); f != nil {
			res.Findings = append(res.Findings, *f)
		}
		return
	}
	// ---- acquirers and passing readers
	total := n + passing
	ops := append(append([]op{}, waiters...), make([]op, passing)...)
	for j := n; j < total; j++ {
		ops[j] = op{"RL", []int{0}}
	}
	wState := make([]atomic.Int32, total) // 0 not called, 1 in acquire, 2 holding/releasing, 3 done
	call := make([]atomic.Uint64, total)
	ret := make([]atomic.Uint64, total)
	for j := 0; j < total; j++ {
		j, o, jit, hold := j, ops[j], rng.Intn(6), rng.Intn(3)
		iters := 1
		if j >= n {
			iters = 1 + rng.Intn(5)
		}
		go func() {
			defer left.Add(-1)
			<-start
			for k := 0; k < jit; k++ {
				runtime.Gosched()
			}
			for it := 0; it < iters; it++ {
				if it == 0 {
					call[j].Store(now())
				}
				wState[j].Store(1)
				if j < n {
					arrived.Add(1)
				}
				tg.do(o)
				if it == 0 {
					ret[j].Store(now())
				}
				wState[j].Store(2)
				grant(o, "an acquirer")
				spin(hold)
				ungrant(o)
				tg.do(relOf(o))
				if it+1 < iters {
					runtime.Gosched()
				}
			}
			wState[j].Store(3)
		}()
	}
	close(start)
	gs = waitQuiescent()
	if res.Mode == "parkfirst" {
		close(goRelease)
		gs = waitQuiescent()
	}
	res.Grants = int(grants.Load())
	// ---- overlap statistics relative to the last release (logical ticks)
	last := 0
	for i := range holders {
		if rel0[i].Load() > rel0[last].Load() {
			last = i
		}
	}
	l0, l1 := rel0[last].Load(), rel1[last].Load()
	shape := make([]byte, 0, n)
	for j := 0; j < n; j++ {
		c, r := call[j].Load(), ret[j].Load()
		switch {
		case l0 == 0 || c == 0:
			shape = append(shape, '?')
		case r != 0 && r < l0:
			res.BeforeRel++
			shape = append(shape, 'b')
		case l1 != 0 && c > l1:
			res.AfterRel++
			shape = append(shape, 'a')
		case c < l0 && (r == 0 || (l1 != 0 && r > l1)):
			res.Across++
			shape = append(shape, 'x')
		default:
			res.During++
			shape = append(shape, 'd')
		}
	}
	for i := range holders {
		r0 := rel0[i].Load()
		if r0 == 0 {
			continue
		}
		for j := 0; j < n; j++ {
			if c, r := call[j].Load(), ret[j].Load(); c != 0 && c < r0 && (r == 0 || r > r0) && conflicts(holders[i].o, waiters[j]) {
				res.RelInAcquire++
				break
			}
		}
	}
	hk := make([]string, 0, nh)
	for _, h := range holders {
		hk = append(hk, h.o.String())
	}
	wk := make([]string, 0, n)
	for j, w := range waiters {
		wk = append(wk, w.String()+string(shape[j]))
	}
	sort.Strings(wk)
	res.Shape = res.Target + "|" + strings.Join(hk, " ") + "|" + strings.Join(wk, " ")

	// ---- verdict: everything is well-formed, so everybody must be done
	if left.Load() != 0 {
		res.Stuck = stuckStacks(gs, before, "hive.go/runtime/syncutils.")
		heldNow := ""
		for e := 0; e < ents; e++ {
			heldNow += fmt.Sprintf(" e%d{w:%d r:%d}", e, sh[e].writers.Load(), sh[e].readers.Load())
		}
		partial := func(e, except int) bool { // a stuck multi-entity RLock may hold part of its entities
			for j := 0; j < total; j++ {
				if j != except && wState[j].Load() == 1 && len(ops[j].E) > 1 {
					for _, x := range ops[j].E {
						if x == e {
							return true
						}
					}
				}
			}
			return false
		}
		for i := range holders {
			if hState[i].Load() == 2 {
				res.Findings = append(res.Findings, finding{"script/unlock-blocked", fmt.Sprintf("racing release: the release of %s is parked for ever; shadow holders:%s; %v", holders[i].o, heldNow, res.Stuck)})
			}
		}
		for j := 0; j < total && len(res.Findings) == 0; j++ {
			if wState[j].Load() != 1 {
				continue
			}
			o, free, cl := ops[j], true, "Lock-parked-while-nothing-held"
			for _, e := range o.E {
				if sh[e].writers.Load() != 0 || (o.K == "L" && (sh[e].readers.Load() != 0 || partial(e, j))) {
					free = false
				}
			}
			if o.K == "RL" {
				cl = "RLock-parked-while-no-writer-holds"
			}
			if free {
				res.Findings = append(res.Findings, finding{"lost-wakeup/" + cl, fmt.Sprintf("racing release (%s, holders %v, acquirers %v, %d passing readers, %s): every holder has released and every other goroutine is gone, but %s is parked for ever (acquirers vs last release: %s); shadow holders:%s; %v",
					res.Target, res.Holders, res.Waiters, passing, res.Mode, o, string(shape), heldNow, res.Stuck)})
			}
		}
		if len(res.Findings) == 0 {
			res.Findings = append(res.Findings, finding{"lost-wakeup/racing-release-goroutines-parked-for-ever", fmt.Sprintf("racing release (%s, holders %v, acquirers %v): %d goroutine(s) parked for ever; shadow holders:%s; %v", res.Target, res.Holders, res.Waiters, left.Load(), heldNow, res.Stuck)})
		}
	}
	if f := bad.Load(); f != nil {
		res.Findings = append(res.Findings, *f)
	}
	return
}
