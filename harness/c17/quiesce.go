package main

import (
	"runtime"
	"strconv"
	"strings"
	"time"

	"verif/harness/internal/gdump"
)

// Structural quiescence, stricter than gdump.Quiescent: a goroutine dumped as
// [semacquire] counts as parked only when it sits in a sync-package semaphore
// (WaitGroup.Wait ...). A goroutine that is about to start a GC cycle parks on
// a runtime-internal semaphore (worldsema is held by the very snapshot that
// observes it) and is dumped as [semacquire] with an arbitrary allocation site
// on top; the runtime wakes it by itself, so it is NOT blocked for ever.

func trulyParked(g gdump.G) bool {
	if !g.Parked() {
		return false
	}
	if strings.HasPrefix(g.State, "semacquire") {
		return len(g.Frames) > 0 && strings.HasPrefix(g.Frames[0], "sync.runtime_Semacquire")
	}
	return true
}

func sysG(g gdump.G) bool {
	for _, f := range g.Frames {
		if strings.HasPrefix(f, "os/signal.") || strings.HasPrefix(f, "runtime.ensureSigM") || strings.HasPrefix(f, "runtime.bgsweep") ||
			strings.HasPrefix(f, "runtime.bgscavenge") || strings.HasPrefix(f, "runtime.gcBgMarkWorker") || strings.HasPrefix(f, "runtime.forcegchelper") ||
			strings.HasPrefix(f, "runtime.runfinq") {
			return true
		}
	}
	return false
}

func quiescent(gs []gdump.G) bool {
	running := 0
	for _, g := range gs {
		if g.State == "running" {
			running++
			continue
		}
		if sysG(g) {
			continue
		}
		if !trulyParked(g) {
			return false
		}
	}
	return running <= 1
}

// waitQuiescent spins until two consecutive snapshots are quiescent with the
// same goroutine states and returns the last one. Scenarios must be timer-free.
func waitQuiescent() []gdump.G {
	var last string
	for i := 0; ; i++ {
		if i < 20 {
			runtime.Gosched()
		} else {
			time.Sleep(time.Duration(min(i, 200)) * 5 * time.Microsecond)
		}
		gs := gdump.Snapshot()
		if !quiescent(gs) {
			last = ""
			continue
		}
		var b strings.Builder
		for _, g := range gs {
			if g.State == "running" {
				continue
			}
			b.WriteString(strconv.FormatUint(g.ID, 10))
			b.WriteString(g.State)
			if len(g.Frames) > 0 {
				b.WriteString(g.Frames[0])
			}
		}
		if k := b.String(); k == last {
			return gs
		} else {
			last = k
		}
	}
}

// do hands f to the actor and waits until it has returned or the whole
// process is structurally quiescent with the actor still inside f.
func do(a *gdump.Actor, f func()) gdump.Status {
	a.Start(f)
	return settle(a)
}

func settle(a *gdump.Actor) gdump.Status {
	for i := 0; i < 4; i++ {
		if !a.Busy() {
			return gdump.Returned
		}
		runtime.Gosched()
	}
	if !a.Busy() {
		return gdump.Returned
	}
	waitQuiescent()
	if !a.Busy() {
		return gdump.Returned
	}
	return gdump.Blocked
}

func yield() { runtime.Gosched() }
