package main

import (
	"fmt"
	"math/rand"
	"strings"
	"sync/atomic"

	"github.com/iotaledger/hive.go/runtime/syncutils"
	"verif/harness/internal/gdump"
)

// waitCfg identifies one deterministic Counter / Stack / not-held scenario (replay format).
type waitCfg struct {
	Kind string `json:"kind"` // counter | stack | special:<name> | notheld:<name>
	Seed int64  `json:"seed"`
	Idx  int    `json:"idx"`
}

type waitResult struct {
	Cfg      waitCfg   `json:"cfg"`
	Trace    []string  `json:"trace"`
	Findings []finding `json:"-"`
	Checks   int       `json:"checks"`   // waiter evaluations at quiescent points
	Parked   int       `json:"parked"`   // ... that found the waiter (rightly) parked
	Returned int       `json:"returned"` // ... that found it (rightly) returned
	Inconcl  string    `json:"inconclusive,omitempty"`
}

func (r *waitResult) tr(f string, a ...any) { r.Trace = append(r.Trace, fmt.Sprintf(f, a...)) }
func (r *waitResult) viol(fp, f string, a ...any) {
	r.Findings = append(r.Findings, finding{fp, fmt.Sprintf(f, a...)})
	r.tr("VIOLATION "+fp+": "+f, a...)
}

// ---------------------------------------------------------------- Counter

type cwaiter struct {
	a      *gdump.Actor
	fn     string // WaitIsZero | WaitIsBelow | WaitIsAbove
	t      int
	issued bool
}

func (w *cwaiter) pred(v int) bool {
	switch w.fn {
	case "WaitIsZero":
		return v < 1
	case "WaitIsBelow":
		return v < w.t
	default:
		return v > w.t
	}
}

func (w *cwaiter) name() string {
	if w.fn == "WaitIsZero" {
		return "WaitIsZero()"
	}
	return fmt.Sprintf("%s(%d)", w.fn, w.t)
}

func (w *cwaiter) call(c *syncutils.Counter) func() {
	switch w.fn {
	case "WaitIsZero":
		return c.WaitIsZero
	case "WaitIsBelow":
		return func() { c.WaitIsBelow(w.t) }
	default:
		return func() { c.WaitIsAbove(w.t) }
	}
}

// runCounter: seeded sequence of atomic value changes with up to three waiters.
// Every change is followed by structural quiescence, so the set of values the
// counter has had since a waiter's call is known exactly: the waiter must have
// returned iff one of them satisfied its condition.
func runCounter(cfg waitCfg) (res waitResult) {
	res.Cfg = cfg
	rng := rand.New(rand.NewSource(cfg.Seed*2654435761 + int64(cfg.Idx)))
	c := syncutils.NewCounter()
	v := 0
	var subCalls atomic.Int64
	if rng.Intn(2) == 0 {
		c.Subscribe(func(o, n int) { subCalls.Add(1) })
	}
	drv := gdump.NewActor("driver")
	defer drv.Close()
	ws := make([]*cwaiter, 1+rng.Intn(3))
	for i := range ws {
		ws[i] = &cwaiter{a: gdump.NewActor(fmt.Sprintf("waiter%d", i))}
	}
	defer func() {
		for _, w := range ws {
			w.a.Close()
		}
	}()
	drive := func(desc string, f func(), nv int) bool {
		if do(drv, f) != gdump.Returned {
			res.viol("counter/update-blocked", "%s is parked for ever", desc)
			return false
		}
		v = nv
		res.tr("%s -> value %d", desc, v)
		return true
	}
	evalParked := func(at string) {
		waitQuiescent()
		for _, w := range ws {
			if !w.issued {
				continue
			}
			res.Checks++
			if w.a.Busy() {
				if w.pred(v) {
					res.viol("counter/"+w.fn+"/parked-although-condition-holds", "%s is still parked at quiescence after %s although the value is %d (lost wake-up)", w.name(), at, v)
				} else {
					res.Parked++
				}
				continue
			}
			w.issued = false
			if !w.pred(v) {
				res.viol("counter/"+w.fn+"/returned-without-condition", "%s returned during %s although the value went to %d and the condition has not held since the call", w.name(), at, v)
			} else {
				res.Returned++
			}
		}
	}
	steps := 8 + rng.Intn(8)
	for s := 0; s < steps && len(res.Findings) == 0; s++ {
		var free []*cwaiter
		for _, w := range ws {
			if !w.issued {
				free = append(free, w)
			}
		}
		if len(free) > 0 && rng.Intn(3) == 0 {
			w := free[rng.Intn(len(free))]
			w.fn = []string{"WaitIsZero", "WaitIsBelow", "WaitIsAbove"}[rng.Intn(3)]
			w.t = rng.Intn(5) - 1
			st := do(w.a, w.call(c))
			res.Checks++
			res.tr("%s called at value %d -> %s", w.name(), v, stName(st))
			if st == gdump.Returned {
				res.Returned++
				if !w.pred(v) {
					res.viol("counter/"+w.fn+"/returned-without-condition", "%s called at value %d returned immediately", w.name(), v)
				}
			} else {
				w.issued = true
				res.Parked++
				if w.pred(v) {
					res.viol("counter/"+w.fn+"/parked-although-condition-holds", "%s called at value %d does not return", w.name(), v)
				}
			}
			continue
		}
		var desc string
		switch rng.Intn(5) {
		case 0:
			desc = "Increase()"
			if !drive(desc, func() { c.Increase() }, v+1) {
				return
			}
		case 1:
			desc = "Decrease()"
			if !drive(desc, func() { c.Decrease() }, v-1) {
				return
			}
		case 2, 3:
			d := rng.Intn(7) - 3
			desc = fmt.Sprintf("Update(%d)", d)
			if !drive(desc, func() { c.Update(d) }, v+d) {
				return
			}
		default:
			n := rng.Intn(7) - 2
			desc = fmt.Sprintf("Set(%d)", n)
			if !drive(desc, func() { c.Set(n) }, n) {
				return
			}
		}
		evalParked(desc)
		if g := c.Get(); g != v {
			res.viol("counter/value-mismatch", "Get()=%d after %s, expected %d", g, desc, v)
		}
	}
	// make every remaining condition true and keep it true: all must return
	for _, w := range ws {
		if !w.issued || len(res.Findings) > 0 {
			continue
		}
		n := w.t - 1
		if w.fn == "WaitIsZero" {
			n = 0
		} else if w.fn == "WaitIsAbove" {
			n = w.t + 1
		}
		if !drive(fmt.Sprintf("Set(%d) [release]", n), func() { c.Set(n) }, n) {
			return
		}
		evalParked("the releasing Set")
	}
	return
}

// runCounterContended: three updates, the first one held inside its subscriber
// callback (i.e. inside the counter's critical section) while the others and
// the woken waiter queue up on the counter mutex. Whatever the hand-over order,
// once all updates are done and the condition holds, the waiter must return.
func runCounterContended(cfg waitCfg) (res waitResult) {
	res.Cfg = cfg
	up := cfg.Idx%2 == 1
	useSet := (cfg.Idx/2)%2 == 1
	c := syncutils.NewCounter()
	start, delta := 3, -1
	w := &cwaiter{a: gdump.NewActor("waiter"), fn: "WaitIsZero"}
	if up {
		start, delta = 0, 1
		w.fn, w.t = "WaitIsAbove", 2
	}
	c.Set(start)
	gate := make(chan struct{})
	var first atomic.Bool
	first.Store(true)
	c.Subscribe(func(o, n int) {
		if first.CompareAndSwap(true, false) {
			<-gate
		}
	})
	acts := []*gdump.Actor{gdump.NewActor("u0"), gdump.NewActor("u1"), gdump.NewActor("u2")}
	defer func() {
		for _, a := range append(acts, w.a) {
			a.Close()
		}
	}()
	st := do(w.a, w.call(c))
	res.tr("%s at value %d -> %s", w.name(), start, stName(st))
	if st != gdump.Blocked {
		res.viol("counter/"+w.fn+"/returned-without-condition", "%s at value %d returned immediately", w.name(), start)
		return
	}
	for i, a := range acts {
		i := i
		var f func()
		if useSet {
			// Set is absolute: serialise the targets by construction (each actor sets start+(i+1)*delta);
			// they queue on the mutex in issue order
			f = func() { c.Set(start + (i+1)*delta) }
		} else {
			f = func() { c.Update(delta) }
		}
		st := do(a, f)
		res.tr("update %d issued -> %s", i, stName(st))
	}
	close(gate)
	waitQuiescent()
	v := c.Get()
	res.tr("gate in the first update's subscriber callback opened; quiescent value %d", v)
	for i, a := range acts {
		if a.Busy() {
			res.viol("counter/update-blocked", "update %d is parked for ever", i)
			return
		}
	}
	res.Checks++
	if w.pred(v) && w.a.Busy() {
		res.viol("counter/"+w.fn+"/parked-although-condition-holds", "%s is still parked at quiescence although the value is %d after three contended updates (lost wake-up)", w.name(), v)
	} else if !w.pred(v) {
		// Set hand-over order may leave another final value; release
		res.Parked++
		n := 0
		if up {
			n = 3
		}
		c.Set(n)
		waitQuiescent()
		if w.a.Busy() {
			res.viol("counter/"+w.fn+"/parked-although-condition-holds", "%s is still parked after Set(%d)", w.name(), n)
		}
	} else {
		res.Returned++
	}
	return
}

// ---------------------------------------------------------------- Stack

type swaiter struct {
	a         *gdump.Actor
	fn        string // WaitIsEmpty | WaitSizeIsBelow | WaitSizeIsAbove | PopOrWait
	t         int
	issued    bool
	falseSeen bool // PopOrWait: the wait condition has been false at some quiescent point since the call
	signalled bool // PopOrWait: SignalShutdown was called while the condition was false, after the call
	gotElem   atomic.Int64
	gotOK     atomic.Int32 // 0 none, 1 true, 2 false
}

func (w *swaiter) pred(size int) bool {
	switch w.fn {
	case "WaitIsEmpty":
		return size < 1
	case "WaitSizeIsBelow":
		return size < w.t
	default:
		return size > w.t
	}
}

func (w *swaiter) name() string {
	switch w.fn {
	case "WaitIsEmpty":
		return "WaitIsEmpty()"
	case "PopOrWait":
		return "PopOrWait(running)"
	}
	return fmt.Sprintf("%s(%d)", w.fn, w.t)
}

// runStack: seeded Push / Pop / flag / SignalShutdown steps with size waiters and PopOrWait callers.
func runStack(cfg waitCfg) (res waitResult) {
	res.Cfg = cfg
	rng := rand.New(rand.NewSource(cfg.Seed*40503 + int64(cfg.Idx)))
	s := syncutils.NewStack[int]()
	var running atomic.Bool
	running.Store(true)
	inQ := map[int]bool{}
	size := 0
	nextElem := 1
	drv := gdump.NewActor("driver")
	defer drv.Close()
	ws := make([]*swaiter, 1+rng.Intn(3))
	for i := range ws {
		ws[i] = &swaiter{a: gdump.NewActor(fmt.Sprintf("waiter%d", i))}
	}
	defer func() {
		for _, w := range ws {
			w.a.Close()
		}
	}()
	takeElem := func(w *swaiter, at string) {
		e := int(w.gotElem.Load())
		if !inQ[e] {
			res.viol("stack/PopOrWait/returned-unknown-or-duplicate-element", "%s returned element %d during %s which is not in the stack (popped twice or never pushed)", w.name(), e, at)
			return
		}
		delete(inQ, e)
		size--
	}
	// evaluate after a driver step; lo..hi = sizes the stack may have had during the step
	eval := func(at string, lo, hi int) {
		waitQuiescent()
		// poppers first: they change the size
		for _, w := range ws {
			if !w.issued || w.fn != "PopOrWait" || w.a.Busy() {
				continue
			}
			res.Checks++
			w.issued = false
			switch w.gotOK.Load() {
			case 1:
				res.Returned++
				takeElem(w, at)
			case 2:
				if !w.falseSeen {
					res.viol("stack/PopOrWait/returned-false-although-condition-true", "%s returned false during %s although its wait condition has been true since the call", w.name(), at)
				} else {
					res.Returned++
				}
			}
		}
		lo = min(lo, size)
		for _, w := range ws {
			if !w.issued {
				continue
			}
			res.Checks++
			if w.fn == "PopOrWait" {
				switch {
				case size > 0:
					res.viol("stack/PopOrWait/parked-although-element-available", "%s is still parked at quiescence after %s although the stack holds %d element(s)", w.name(), at, size)
				case w.signalled:
					res.viol("stack/PopOrWait/parked-after-SignalShutdown", "%s is still parked at quiescence after %s although its wait condition is false and SignalShutdown() has been called since", w.name(), at)
				default:
					res.Parked++
				}
				continue
			}
			if w.a.Busy() {
				if w.pred(size) {
					res.viol("stack/"+w.fn+"/parked-although-condition-holds", "%s is still parked at quiescence after %s although the size is %d (lost wake-up)", w.name(), at, size)
				} else {
					res.Parked++
				}
				continue
			}
			w.issued = false
			ok := false
			for x := lo; x <= hi; x++ {
				ok = ok || w.pred(x)
			}
			if !ok {
				res.viol("stack/"+w.fn+"/returned-without-condition", "%s returned during %s although the size stayed within [%d,%d]", w.name(), at, lo, hi)
			} else {
				res.Returned++
			}
		}
		if g := s.Size(); g != size {
			res.viol("stack/size-mismatch", "Size()=%d after %s, expected %d", g, at, size)
		}
	}
	steps := 8 + rng.Intn(10)
	for st := 0; st < steps && len(res.Findings) == 0; st++ {
		var free []*swaiter
		for _, w := range ws {
			if !w.issued {
				free = append(free, w)
			}
		}
		if len(free) > 0 && rng.Intn(3) == 0 {
			w := free[rng.Intn(len(free))]
			w.fn = []string{"WaitIsEmpty", "WaitSizeIsBelow", "WaitSizeIsAbove", "PopOrWait", "PopOrWait"}[rng.Intn(5)]
			w.t = rng.Intn(4)
			w.falseSeen, w.signalled = !running.Load(), false
			w.gotOK.Store(0)
			var f func()
			switch w.fn {
			case "WaitIsEmpty":
				f = s.WaitIsEmpty
			case "WaitSizeIsBelow":
				f = func() { s.WaitSizeIsBelow(w.t) }
			case "WaitSizeIsAbove":
				f = func() { s.WaitSizeIsAbove(w.t) }
			default:
				f = func() {
					e, ok := s.PopOrWait(running.Load)
					w.gotElem.Store(int64(e))
					if ok {
						w.gotOK.Store(1)
					} else {
						w.gotOK.Store(2)
					}
				}
			}
			stt := do(w.a, f)
			res.Checks++
			res.tr("%s called at size %d running=%v -> %s", w.name(), size, running.Load(), stName(stt))
			if w.fn == "PopOrWait" {
				switch {
				case stt == gdump.Blocked:
					w.issued = true
					res.Parked++
					if size > 0 || !running.Load() {
						res.viol("stack/PopOrWait/parked-although-element-available", "%s called at size %d running=%v does not return", w.name(), size, running.Load())
					}
				case w.gotOK.Load() == 1:
					res.Returned++
					if size == 0 {
						res.viol("stack/PopOrWait/returned-unknown-or-duplicate-element", "%s returned an element from an empty stack", w.name())
					} else {
						takeElem(w, "its own call")
					}
				default:
					res.Returned++
					if size > 0 || running.Load() {
						res.viol("stack/PopOrWait/returned-false-although-condition-true", "%s called at size %d running=%v returned false", w.name(), size, running.Load())
					}
				}
				continue
			}
			if stt == gdump.Returned {
				res.Returned++
				if !w.pred(size) {
					res.viol("stack/"+w.fn+"/returned-without-condition", "%s called at size %d returned immediately", w.name(), size)
				}
			} else {
				w.issued = true
				res.Parked++
				if w.pred(size) {
					res.viol("stack/"+w.fn+"/parked-although-condition-holds", "%s called at size %d does not return", w.name(), size)
				}
			}
			continue
		}
		before := size
		switch k := rng.Intn(10); {
		case k < 4:
			e := nextElem
			nextElem++
			if do(drv, func() { s.Push(e) }) != gdump.Returned {
				res.viol("stack/push-blocked", "Push is parked for ever")
				return
			}
			inQ[e] = true
			size++
			res.tr("Push(%d)", e)
			eval(fmt.Sprintf("Push(%d)", e), before, before+1)
		case k < 7:
			var e int
			var ok bool
			if do(drv, func() { e, ok = s.Pop() }) != gdump.Returned {
				res.viol("stack/pop-blocked", "Pop is parked for ever")
				return
			}
			res.tr("Pop() -> %d,%v", e, ok)
			if ok != (size > 0) {
				res.viol("stack/Pop/wrong-success", "Pop() returned success=%v at size %d", ok, size)
				return
			}
			if ok {
				if !inQ[e] {
					res.viol("stack/Pop/returned-unknown-or-duplicate-element", "Pop() returned %d which is not in the stack", e)
					return
				}
				delete(inQ, e)
				size--
			}
			eval("Pop()", size, before)
		case k == 7:
			running.Store(false)
			for _, w := range ws {
				if w.issued && w.fn == "PopOrWait" {
					w.falseSeen = true
				}
			}
			res.tr("running=false (no signal)")
			eval("running=false without signal", size, size)
		case k == 8:
			desc := fmt.Sprintf("SignalShutdown() with running=%v", running.Load())
			if do(drv, s.SignalShutdown) != gdump.Returned {
				res.viol("stack/signalshutdown-blocked", "SignalShutdown is parked for ever")
				return
			}
			if !running.Load() {
				for _, w := range ws {
					if w.issued && w.fn == "PopOrWait" {
						w.signalled = true
					}
				}
			}
			res.tr(desc)
			eval(desc, size, size)
		default:
			// only while no popper has seen "false": keeps the model of falseSeen exact
			ok := true
			for _, w := range ws {
				ok = ok && !(w.issued && w.fn == "PopOrWait")
			}
			if ok {
				running.Store(true)
				res.tr("running=true")
			}
		}
	}
	// release everybody: stop, signal, drain
	if len(res.Findings) == 0 {
		running.Store(false)
		for _, w := range ws {
			if w.issued && w.fn == "PopOrWait" {
				w.falseSeen, w.signalled = true, true
			}
		}
		do(drv, s.SignalShutdown)
		res.tr("running=false; SignalShutdown() [release]")
		eval("final SignalShutdown", size, size)
		for size > 0 && len(res.Findings) == 0 {
			before := size
			var e int
			var ok bool
			do(drv, func() { e, ok = s.Pop() })
			if !ok || !inQ[e] {
				res.viol("stack/Pop/returned-unknown-or-duplicate-element", "draining: Pop() returned %d,%v at size %d", e, ok, size)
				break
			}
			delete(inQ, e)
			size--
			eval("draining Pop()", size, before)
		}
		for k := 0; k < 2 && len(res.Findings) == 0; k++ {
			any := false
			for _, w := range ws {
				if w.issued && w.fn == "WaitSizeIsAbove" {
					any = true
				}
			}
			if !any {
				break
			}
			for i := 0; i < 5; i++ {
				e := nextElem
				nextElem++
				do(drv, func() { s.Push(e) })
				inQ[e] = true
				size++
			}
			eval("5 releasing pushes", size-5, size)
		}
	}
	return
}

// ---------------------------------------------------------------- special Stack scenarios

// gate for the syncutils yield point
type sgate struct {
	armed   atomic.Bool
	reached atomic.Bool
	release chan struct{}
}

var curSGate atomic.Pointer[sgate]

var hookJitter atomic.Uint64 // != 0: seeded Gosched jitter at the yield point (stress children)

func stackHook(point string) {
	if point != "stack.popOrWait.beforeWait" {
		return
	}
	if g := curSGate.Load(); g != nil {
		if g.armed.CompareAndSwap(true, false) {
			g.reached.Store(true)
			<-g.release
		}
		return
	}
	if j := hookJitter.Load(); j != 0 {
		n := hookJitter.Add(0x9e3779b97f4a7c15)
		n ^= n >> 29
		for k := uint64(0); k < n%6; k++ {
			yield()
		}
	}
}

func runSpecial(cfg waitCfg) (res waitResult) {
	res.Cfg = cfg
	name := strings.TrimPrefix(cfg.Kind, "special:")
	s := syncutils.NewStack[int]()
	var running atomic.Bool
	running.Store(true)
	pop := gdump.NewActor("popper")
	sig := gdump.NewActor("signaller")
	defer pop.Close()
	defer sig.Close()
	var gotOK atomic.Int32
	result := func(e int, ok bool) {
		if ok {
			gotOK.Store(1)
		} else {
			gotOK.Store(2)
		}
	}
	judge := func(how string) {
		waitQuiescent()
		res.Checks++
		if sig.Busy() {
			res.viol("stack/signalshutdown-blocked", "SignalShutdown() is parked for ever (%s)", how)
			return
		}
		if pop.Busy() {
			res.viol("stack/PopOrWait/lost-SignalShutdown-wakeup", "PopOrWait is parked for ever although its wait condition is false and SignalShutdown() was called: %s", how)
			return
		}
		if gotOK.Load() != 2 {
			res.viol("stack/PopOrWait/returned-unknown-or-duplicate-element", "PopOrWait returned an element from an empty stack (%s)", how)
			return
		}
		res.Returned++
	}
	switch name {
	case "stale-true-callback":
		// the wait condition itself reproduces "Shutdown runs between the read of the flag and the
		// return of IsRunning": first evaluation flips the flag, lets another goroutine call
		// SignalShutdown (until it has returned or is parked on the stack mutex) and returns the stale true.
		first := true
		stepDone := make(chan struct{})
		cond := func() bool {
			if first {
				first = false
				running.Store(false)
				st := do(sig, s.SignalShutdown)
				res.tr("inside the wait condition: running=false; SignalShutdown() on another goroutine -> %s; returning stale true", stName(st))
				close(stepDone)
				return true
			}
			return running.Load()
		}
		pop.Start(func() { result(s.PopOrWait(cond)) })
		<-stepDone
		judge("the condition was evaluated to a stale true just before SignalShutdown, PopOrWait had not parked yet")
	case "stale-true-hook":
		g := &sgate{release: make(chan struct{})}
		g.armed.Store(true)
		curSGate.Store(g)
		defer curSGate.Store(nil)
		pop.Start(func() { result(s.PopOrWait(running.Load)) })
		waitQuiescent()
		if !g.reached.Load() {
			res.Inconcl = "PopOrWait never reached stack.popOrWait.beforeWait"
			close(g.release)
			return
		}
		res.tr("PopOrWait evaluated running()==true and is held at stack.popOrWait.beforeWait (stack mutex held)")
		running.Store(false)
		st := do(sig, s.SignalShutdown)
		res.tr("running=false; SignalShutdown() -> %s", stName(st))
		close(g.release)
		judge("PopOrWait was between evaluating its wait condition and parking when SignalShutdown ran")
	case "signal-after-park":
		st := do(pop, func() { result(s.PopOrWait(running.Load)) })
		res.tr("PopOrWait -> %s", stName(st))
		if st != gdump.Blocked {
			res.viol("stack/PopOrWait/returned-false-although-condition-true", "PopOrWait on an empty stack with a true condition returned")
			return
		}
		running.Store(false)
		waitQuiescent()
		if !pop.Busy() {
			res.viol("stack/PopOrWait/returned-false-although-condition-true", "PopOrWait returned although nothing signalled it")
			return
		}
		res.Parked++
		do(sig, s.SignalShutdown)
		judge("PopOrWait was parked when SignalShutdown ran")
	case "chain-stack-held":
		// Waiter B's condition becomes true only through the completion of consumers A that were parked in
		// PopOrWait. A helper PopOrWait whose wait condition blocks on a harness gate holds the stack mutex, so
		// that the pushes and then B queue up on the mutex BEFORE the woken consumers: B sees the elements and parks.
		k := 1 + cfg.Idx%2
		t := 1
		bName, bCall := "WaitIsEmpty", s.WaitIsEmpty
		if cfg.Idx/2 == 1 {
			t = k
			bName, bCall = "WaitSizeIsBelow", func() { s.WaitSizeIsBelow(t) }
		}
		var acts []*gdump.Actor
		mk := func(n string) *gdump.Actor { a := gdump.NewActor(n); acts = append(acts, a); return a }
		defer func() {
			for _, a := range acts {
				a.Close()
			}
		}()
		var cons []*gdump.Actor
		for i := 0; i < k; i++ {
			a := mk("consumer")
			cons = append(cons, a)
			if do(a, func() { s.PopOrWait(running.Load) }) != gdump.Blocked {
				res.viol("stack/PopOrWait/returned-false-although-condition-true", "PopOrWait on an empty stack with a true condition returned")
				return
			}
		}
		gate := make(chan struct{})
		holder := mk("mutex-holder")
		holder.Start(func() { s.PopOrWait(func() bool { <-gate; return false }) })
		waitQuiescent()
		for i := 0; i < k; i++ {
			i := i
			mk("pusher").Start(func() { s.Push(i) })
			waitQuiescent()
		}
		b := mk("waiterB")
		b.Start(bCall)
		waitQuiescent()
		res.tr("%d consumer(s) parked in PopOrWait; helper holds the stack mutex inside its wait condition; %d Push and then %s queued on the mutex", k, k, bName)
		close(gate)
		waitQuiescent()
		res.Checks++
		for _, a := range cons {
			if a.Busy() {
				res.viol("stack/PopOrWait/parked-although-element-available", "a consumer is still parked in PopOrWait after %d Push for %d consumers", k, k)
				return
			}
		}
		if sz := s.Size(); sz >= t {
			res.viol("stack/size-mismatch", "size %d after %d pushes and %d consumers", sz, k, k)
		} else if b.Busy() {
			res.viol("stack/"+bName+"/parked-although-condition-holds", "%s is parked for ever although the size is %d for good: the element(s) were removed by PopOrWait caller(s) that had been parked, which did not wake the size waiters", bName, sz)
		} else {
			res.Returned++
		}
	case "chain-stack-bfirst":
		// other arrival order: B parked on a non-empty stack first, then the PopOrWait consumer arrives
		bName, bCall := "WaitIsEmpty", s.WaitIsEmpty
		if cfg.Idx%2 == 1 {
			bName, bCall = "WaitSizeIsBelow", func() { s.WaitSizeIsBelow(1) }
		}
		s.Push(1)
		b := gdump.NewActor("waiterB")
		defer b.Close()
		if do(b, bCall) != gdump.Blocked {
			res.viol("stack/"+bName+"/returned-without-condition", "%s returned on a stack of size 1", bName)
			return
		}
		res.Parked++
		do(pop, func() { result(s.PopOrWait(running.Load)) })
		waitQuiescent()
		res.Checks++
		if gotOK.Load() != 1 {
			res.viol("stack/PopOrWait/parked-although-element-available", "PopOrWait on a stack of size 1 did not deliver the element")
		} else if b.Busy() {
			res.viol("stack/"+bName+"/parked-although-condition-holds", "%s is parked for ever although a PopOrWait caller emptied the stack", bName)
		} else {
			res.Returned++
		}
	case "chain-counter":
		// A: WaitIsAbove(0) then Decrease; B: WaitIsZero. Idx 0: A parked first; Idx 1: B parked first.
		c := syncutils.NewCounter()
		a, b := gdump.NewActor("waiterA"), gdump.NewActor("waiterB")
		defer a.Close()
		defer b.Close()
		gateA := make(chan struct{})
		if cfg.Idx%2 == 0 {
			a.Start(func() { c.WaitIsAbove(0); <-gateA; c.Decrease() })
			waitQuiescent()
			c.Increase()
			waitQuiescent() // A woken, now held at the harness gate before its Decrease
			if do(b, c.WaitIsZero) != gdump.Blocked {
				res.viol("counter/WaitIsZero/returned-without-condition", "WaitIsZero returned at value 1")
				return
			}
			res.Parked++
			close(gateA)
		} else {
			c.Increase()
			if do(b, c.WaitIsZero) != gdump.Blocked {
				res.viol("counter/WaitIsZero/returned-without-condition", "WaitIsZero returned at value 1")
				return
			}
			res.Parked++
			close(gateA)
			a.Start(func() { c.WaitIsAbove(0); <-gateA; c.Decrease() })
		}
		waitQuiescent()
		res.Checks++
		if a.Busy() {
			res.viol("counter/WaitIsAbove/parked-although-condition-holds", "WaitIsAbove(0) is parked although the value was raised to 1")
		} else if b.Busy() {
			res.viol("counter/WaitIsZero/parked-although-condition-holds", "WaitIsZero is parked for ever although the woken WaitIsAbove waiter decremented the value to %d", c.Get())
		} else {
			res.Returned++
		}
	case "push-beats-condition":
		st := do(pop, func() { result(s.PopOrWait(running.Load)) })
		if st != gdump.Blocked {
			res.viol("stack/PopOrWait/returned-false-although-condition-true", "PopOrWait on an empty stack with a true condition returned")
			return
		}
		running.Store(false)
		do(sig, func() { s.Push(7) })
		waitQuiescent()
		res.Checks++
		if pop.Busy() {
			res.viol("stack/PopOrWait/parked-although-element-available", "PopOrWait is still parked after Push")
		} else if gotOK.Load() != 1 {
			res.viol("stack/PopOrWait/returned-false-although-condition-true", "PopOrWait returned false although an element was pushed while it was parked")
		} else {
			res.Returned++
		}
	}
	return
}

// ---------------------------------------------------------------- unlocking something that is not held

// tryOp runs f on an actor and reports (panicMessage, parked).
func tryOp(a *gdump.Actor, f func()) (string, bool) {
	st := do(a, f)
	return a.TakePanic(), st == gdump.Blocked
}

var notHeldNames = []string{
	"starving/RUnlock-free", "starving/Unlock-free", "starving/Unlock-while-read-held", "starving/RUnlock-while-write-held", "starving/RUnlock-once-too-often",
	"dag/Unlock-never-locked", "dag/RUnlock-never-locked", "dag/Unlock-while-read-held-by-other", "dag/RUnlock-while-write-held-by-other", "dag/Unlock-while-two-readers",
}

// runNotHeld: an unlock of something that is not held must panic or leave the
// observable state unchanged; "state" is probed through the lock operations
// themselves (would a conflicting request be granted?).
func runNotHeld(cfg waitCfg) (res waitResult) {
	res.Cfg = cfg
	name := strings.TrimPrefix(cfg.Kind, "notheld:")
	A, B, C := gdump.NewActor("holder"), gdump.NewActor("intruder"), gdump.NewActor("prober")
	defer A.Close()
	defer B.Close()
	defer C.Close()
	sm := syncutils.NewStarvingMutex()
	dm := syncutils.NewDAGMutex[int]()
	// probe: issue a conflicting acquire; it must park while the holder still holds, and be granted after the holder's release
	probe := func(what string, acquire, releaseProbe, holderRelease func(), fpBase string) {
		res.Checks++
		_, parked := tryOp(C, acquire)
		res.tr("probe %s while the original holder still holds -> parked=%v", what, parked)
		if !parked {
			res.viol(fpBase+"/releases-foreign-lock", "after the foreign unlock (which did not panic) %s is granted although the original holder never released: the held lock was silently dropped", what)
			return
		}
		res.Parked++
		p, blocked := tryOp(A, holderRelease)
		waitQuiescent()
		if p != "" {
			res.viol("notheld/rightful-release-panics-after-mismatched-unlock", "the rightful holder's release panics after the mismatched unlock (%s): %s", fpBase, p)
			return
		}
		if blocked || C.Busy() {
			res.viol("notheld/rightful-release-blocks-after-mismatched-unlock", "after the mismatched unlock (%s) the rightful holder's release is parked for ever = %v, the conflicting %s still parked = %v: the mutex is unusable", fpBase, blocked, what, C.Busy())
			return
		}
		res.Returned++
		tryOp(C, releaseProbe)
	}
	mustHold := func(p string, parked bool, what string) bool {
		if parked {
			res.viol("notheld/"+name+"/blocks", "%s is parked for ever", what)
			return false
		}
		res.tr("%s -> panic=%q", what, p)
		return true
	}
	switch name {
	case "starving/RUnlock-free":
		p, pk := tryOp(B, sm.RUnlock)
		if !mustHold(p, pk, "RUnlock() of a free StarvingMutex") {
			return
		}
		if p == "" {
			// no panic: state must be unchanged, i.e. a writer can still lock and readers are not negative
			if _, parked := tryOp(C, sm.Lock); parked {
				res.viol("notheld/starving/RUnlock-free/state-corrupted", "after RUnlock() of a free mutex (no panic) Lock() is parked for ever")
				return
			}
			tryOp(C, sm.Unlock)
			if !strings.Contains(sm.String(), "ReadersActive: 0") {
				res.viol("notheld/starving/RUnlock-free/state-corrupted", "after RUnlock() of a free mutex (no panic): %s", strings.Join(strings.Fields(sm.String()), " "))
			}
		}
		res.Checks++
	case "starving/Unlock-free":
		p, pk := tryOp(B, sm.Unlock)
		if !mustHold(p, pk, "Unlock() of a free StarvingMutex") {
			return
		}
		// accepted either way; state must be that of a free mutex
		for _, f := range []func(){sm.Lock, sm.Unlock, sm.RLock, sm.RUnlock} {
			if p2, parked := tryOp(C, f); parked || p2 != "" {
				res.viol("notheld/starving/Unlock-free/state-corrupted", "after Unlock() of a free mutex a Lock/Unlock/RLock/RUnlock round does not work (parked=%v panic=%q)", parked, p2)
				return
			}
		}
		res.Checks++
	case "starving/Unlock-while-read-held":
		tryOp(A, sm.RLock)
		p, pk := tryOp(B, sm.Unlock)
		if !mustHold(p, pk, "Unlock() while another goroutine holds a read lock") {
			return
		}
		res.Checks++
		// panic or not: the read lock must still be held and everything must go on working
		probe("Lock()", sm.Lock, sm.Unlock, sm.RUnlock, "notheld/starving/Unlock-while-read-held")
	case "starving/RUnlock-while-write-held":
		tryOp(A, sm.Lock)
		p, pk := tryOp(B, sm.RUnlock)
		if !mustHold(p, pk, "RUnlock() while another goroutine holds the write lock") {
			return
		}
		res.Checks++
		probe("RLock()", sm.RLock, sm.RUnlock, sm.Unlock, "notheld/starving/RUnlock-while-write-held")
	case "starving/RUnlock-once-too-often":
		tryOp(A, sm.RLock)
		tryOp(A, sm.RLock)
		tryOp(A, sm.RUnlock)
		tryOp(A, sm.RUnlock)
		p, pk := tryOp(B, sm.RUnlock)
		if !mustHold(p, pk, "third RUnlock() after two RLock()") {
			return
		}
		res.Checks++
		if p == "" && !strings.Contains(sm.String(), "ReadersActive: 0") {
			res.viol("notheld/starving/RUnlock-once-too-often/state-corrupted", "no panic and %s", strings.Join(strings.Fields(sm.String()), " "))
		}
	case "dag/Unlock-never-locked", "dag/RUnlock-never-locked":
		f := func() { dm.Unlock(5) }
		if strings.Contains(name, "RUnlock") {
			f = func() { dm.RUnlock(5) }
		}
		p, pk := tryOp(B, f)
		if !mustHold(p, pk, name) {
			return
		}
		res.Checks++
		if p == "" {
			res.viol("notheld/"+name+"/no-panic", "DAGMutex unlock of an entity that was never locked returns normally")
		}
	case "dag/Unlock-while-read-held-by-other":
		tryOp(A, func() { dm.RLock(1) })
		p, pk := tryOp(B, func() { dm.Unlock(1) })
		if !mustHold(p, pk, "DAGMutex.Unlock(1) while another goroutine holds RLock(1)") {
			return
		}
		probe("Lock(1)", func() { dm.Lock(1) }, func() { dm.Unlock(1) }, func() { dm.RUnlock(1) }, "notheld/dag/Unlock-while-read-held-by-other")
		res.Checks++
	case "dag/RUnlock-while-write-held-by-other":
		tryOp(A, func() { dm.Lock(1) })
		p, pk := tryOp(B, func() { dm.RUnlock(1) })
		if !mustHold(p, pk, "DAGMutex.RUnlock(1) while another goroutine holds Lock(1)") {
			return
		}
		probe("RLock(1)", func() { dm.RLock(1) }, func() { dm.RUnlock(1) }, func() { dm.Unlock(1) }, "notheld/dag/RUnlock-while-write-held-by-other")
		if len(res.Findings) == 0 { // and a second writer must wait for the first one
			tryOp(A, func() { dm.Lock(1) })
			tryOp(B, func() { dm.RUnlock(1) })
			if _, parked := tryOp(C, func() { dm.Lock(1) }); !parked {
				res.viol("notheld/dag/RUnlock-while-write-held-by-other/conflicting-lock-granted-after-panic", "after the mismatched RUnlock(1), a second Lock(1) is granted although the first writer still holds entity 1")
			} else {
				tryOp(A, func() { dm.Unlock(1) })
				waitQuiescent()
				if C.Busy() {
					res.viol("notheld/rightful-release-blocks-after-mismatched-unlock", "after the mismatched RUnlock(1) the second Lock(1) is never granted although the first writer released")
				} else {
					tryOp(C, func() { dm.Unlock(1) })
				}
			}
		}
		res.Checks++
	case "dag/Unlock-while-two-readers":
		tryOp(A, func() { dm.RLock(1) })
		tryOp(A, func() { dm.RLock(1) })
		p, pk := tryOp(B, func() { dm.Unlock(1) })
		if !mustHold(p, pk, "DAGMutex.Unlock(1) while two read locks on 1 are held") {
			return
		}
		res.Checks++
		if p == "" {
			probe("Lock(1)", func() { dm.Lock(1) }, func() { dm.Unlock(1) }, func() { dm.RUnlock(1); dm.RUnlock(1) }, "notheld/dag/Unlock-while-two-readers")
		}
	}
	return
}

func stName(s gdump.Status) string {
	if s == gdump.Returned {
		return "returned"
	}
	return "parked"
}

// ---------------------------------------------------------------- Counter subscriptions

// runSubscribers: N subscriptions (some with several callbacks) come and go
// between value changes. Every change must reach every CURRENT callback exactly
// once with the right (old, new) pair, and a removed subscription none: an
// unsubscribe removes exactly its own subscription.
func runSubscribers(cfg waitCfg) (res waitResult) {
	res.Cfg = cfg
	rng := rand.New(rand.NewSource(cfg.Seed*69069 + int64(cfg.Idx)))
	c := syncutils.NewCounter()
	v := 0
	type cb struct {
		calls        int
		lastO, lastN int
	}
	type sub struct {
		id     int
		cbs    []*cb
		unsub  func()
		active bool
	}
	var subs []*sub
	newSub := func() {
		s := &sub{id: len(subs), active: true}
		var fs []func(int, int)
		for k := 0; k < 1+rng.Intn(2); k++ {
			x := &cb{}
			s.cbs = append(s.cbs, x)
			fs = append(fs, func(o, n int) { x.calls++; x.lastO, x.lastN = o, n })
		}
		s.unsub = c.Subscribe(fs...)
		subs = append(subs, s)
		res.tr("subscription #%d with %d callback(s)", s.id, len(s.cbs))
	}
	for i := 0; i < 1+rng.Intn(3); i++ {
		newSub()
	}
	steps := 10 + rng.Intn(12)
	for st := 0; st < steps && len(res.Findings) == 0; st++ {
		switch k := rng.Intn(6); {
		case k == 0:
			newSub()
		case k == 1:
			var act []*sub
			for _, s := range subs {
				if s.active {
					act = append(act, s)
				}
			}
			if len(act) > 0 {
				s := act[rng.Intn(len(act))]
				s.unsub()
				s.active = false
				res.tr("unsubscribe #%d", s.id)
				if rng.Intn(4) == 0 {
					s.unsub() // a second call must be harmless
				}
			}
		default:
			before := make(map[*cb]int)
			for _, s := range subs {
				for _, x := range s.cbs {
					before[x] = x.calls
				}
			}
			old := v
			switch rng.Intn(3) {
			case 0:
				d := 1 + rng.Intn(3)
				if rng.Intn(2) == 0 {
					d = -d
				}
				c.Update(d)
				v += d
			case 1:
				c.Increase()
				v++
			default:
				n := v + 1 + rng.Intn(4)
				c.Set(n)
				v = n
			}
			res.tr("value %d -> %d", old, v)
			for _, s := range subs {
				for _, x := range s.cbs {
					got := x.calls - before[x]
					res.Checks++
					switch {
					case s.active && got == 0:
						res.viol("counter/subscribe/subscriber-missed-update", "subscription #%d is still subscribed but was not called for the change %d -> %d (an unsubscribe of ANOTHER subscription removed it?)", s.id, old, v)
					case s.active && got > 1:
						res.viol("counter/subscribe/called-more-than-once", "subscription #%d was called %d times for one change", s.id, got)
					case s.active && (x.lastO != old || x.lastN != v):
						res.viol("counter/subscribe/wrong-values", "subscription #%d was called with (%d,%d) for the change %d -> %d", s.id, x.lastO, x.lastN, old, v)
					case !s.active && got > 0:
						res.viol("counter/subscribe/unsubscribed-subscriber-still-called", "subscription #%d was unsubscribed but is still called (%d -> %d)", s.id, old, v)
					case s.active:
						res.Returned++
					default:
						res.Parked++
					}
				}
			}
		}
	}
	return
}
