package main

import (
	"fmt"
	"math/rand"
	"regexp"
	"sort"
	"strconv"
	"strings"

	"github.com/iotaledger/hive.go/runtime/syncutils"
	"verif/harness/internal/gdump"
)

// ---------------------------------------------------------------- scripts

// op is one request of an actor: L/U (write lock / unlock of one entity),
// RL/RU (read lock / unlock of one or, for the DAGMutex, several entities).
type op struct {
	K string `json:"k"`
	E []int  `json:"e"`
}

func (o op) String() string {
	s := make([]string, len(o.E))
	for i, e := range o.E {
		s[i] = strconv.Itoa(e)
	}
	return o.K + "(" + strings.Join(s, ",") + ")"
}

// scriptCfg: the programs of the actors on one fresh mutex (replay format
// together with the arrival order).
type scriptCfg struct {
	Target   string `json:"target"` // starving | dag
	Programs [][]op `json:"programs"`
}

func (c scriptCfg) key() string {
	var b strings.Builder
	b.WriteString(c.Target)
	for _, p := range c.Programs {
		b.WriteString(" |")
		for _, o := range p {
			b.WriteString(" " + o.String())
		}
	}
	return b.String()
}

type scriptReplay struct {
	Cfg   scriptCfg `json:"cfg"`
	Order []int     `json:"arrival_order"` // actor index per step
	Probe *probeRec `json:"mismatched_unlock,omitempty"`
	Trace []string  `json:"trace,omitempty"`
}

// probeRec: a mismatched unlock issued by an extra goroutine after `AfterStep` requests of the script.
type probeRec struct {
	AfterStep int `json:"after_step"`
	Op        op  `json:"op"`
}

// mutex under test, uniform interface
type target interface {
	do(o op)
	str() string // "" if unavailable
}

type starvingT struct{ m *syncutils.StarvingMutex }

func (t starvingT) do(o op) {
	switch o.K {
	case "L":
		t.m.Lock()
	case "U":
		t.m.Unlock()
	case "RL":
		t.m.RLock()
	case "RU":
		t.m.RUnlock()
	}
}
func (t starvingT) str() string { return t.m.String() }

type dagT struct{ m *syncutils.DAGMutex[int] }

func (t dagT) do(o op) {
	switch o.K {
	case "L":
		t.m.Lock(o.E[0])
	case "U":
		t.m.Unlock(o.E[0])
	case "RL":
		t.m.RLock(o.E...)
	case "RU":
		t.m.RUnlock(o.E...)
	}
}
func (t dagT) str() string { return "" }

func newTarget(kind string) target {
	if kind == "dag" {
		return dagT{syncutils.NewDAGMutex[int]()}
	}
	return starvingT{syncutils.NewStarvingMutex()}
}

// ---------------------------------------------------------------- reference model

type entState struct {
	writer  int         // actor holding the write lock, -1 none
	readers map[int]int // actor -> read locks held (completed RLock ops)
}

type model struct {
	ents    map[int]*entState
	parked  map[int]op // actor -> pending (issued, not yet returned) acquire
	nActors int
}

func newModel(n int) *model {
	return &model{ents: map[int]*entState{}, parked: map[int]op{}, nActors: n}
}

func (m *model) ent(e int) *entState {
	s := m.ents[e]
	if s == nil {
		s = &entState{writer: -1, readers: map[int]int{}}
		m.ents[e] = s
	}
	return s
}

func (m *model) nReaders(e int) (n int) {
	for _, k := range m.ent(e).readers {
		n += k
	}
	return
}

// grant applies a completed acquire; it returns a safety violation or "".
func (m *model) grant(a int, o op) string {
	switch o.K {
	case "L":
		s := m.ent(o.E[0])
		bad := ""
		if s.writer != -1 {
			bad = fmt.Sprintf("write lock on entity %d granted to actor %d while actor %d holds the write lock", o.E[0], a, s.writer)
		} else if n := m.nReaders(o.E[0]); n > 0 {
			bad = fmt.Sprintf("write lock on entity %d granted to actor %d while %d read lock(s) are held", o.E[0], a, n)
		}
		s.writer = a
		return bad
	case "RL":
		bad := ""
		for _, e := range o.E {
			s := m.ent(e)
			if s.writer != -1 && bad == "" {
				bad = fmt.Sprintf("read lock on entity %d granted to actor %d while actor %d holds the write lock", e, a, s.writer)
			}
			s.readers[a]++
		}
		return bad
	}
	return ""
}

func (m *model) release(a int, o op) {
	switch o.K {
	case "U":
		m.ent(o.E[0]).writer = -1
	case "RU":
		for _, e := range o.E {
			s := m.ent(e)
			if s.readers[a]--; s.readers[a] <= 0 {
				delete(s.readers, a)
			}
		}
	}
}

// mayHoldPartially: entity e may be read-held by a parked multi-entity RLock.
func (m *model) mayHoldPartially(e int, except int) bool {
	for a, o := range m.parked {
		if a == except || o.K != "RL" || len(o.E) < 2 {
			continue
		}
		for _, x := range o.E {
			if x == e {
				return true
			}
		}
	}
	return false
}

func (m *model) writerPending(e int) bool {
	for _, o := range m.parked {
		if o.K == "L" && o.E[0] == e {
			return true
		}
	}
	return false
}

// unjustified returns a description if the parked acquire of actor a is not
// explained by a conflicting holder (lost wake-up), else "".
func (m *model) unjustified(a int) (class, what string) {
	o := m.parked[a]
	switch o.K {
	case "L":
		e := o.E[0]
		s := m.ent(e)
		if s.writer != -1 || m.nReaders(e) > 0 || m.mayHoldPartially(e, a) {
			return "", ""
		}
		return "Lock-parked-while-nothing-held", fmt.Sprintf("actor %d is parked in Lock(%d) at quiescence although no lock on entity %d is held", a, e, e)
	case "RL":
		for _, e := range o.E {
			s := m.ent(e)
			if s.writer != -1 {
				return "", ""
			}
			// documented writer preference: readers may be held back while a writer is pending
			if (m.nReaders(e) > 0 || m.mayHoldPartially(e, a)) && m.writerPending(e) {
				return "", ""
			}
		}
		return "RLock-parked-while-no-writer-holds", fmt.Sprintf("actor %d is parked in %s at quiescence although no write lock is held (and no writer is pending behind readers) on any of its entities", a, o)
	}
	return "", ""
}

// ---------------------------------------------------------------- one run (one arrival order)

var reStr = regexp.MustCompile(`(?s)WriterActive:\s*(\w+).*ReadersActive:\s*(-?\d+).*PendingWriters:\s*(-?\d+)`)

type runner struct {
	cfg          scriptCfg
	tg           target
	m            *model
	actors       []*gdump.Actor
	pc           []int
	order        []int
	trace        []string
	useStr       bool // compare String() at quiescent points (plain build, starving target)
	strOK        int
	bad          []finding
	grants       int
	parkObs      int
	probe        *probeRec
	probeOutcome string // "" none | panicked | silent
	probeParked  bool   // requests were parked when the probe was issued
	ended        bool   // the run cannot continue (the probe panicked: hive.go leaves the mutex' internal lock held)
}

type finding struct{ FP, What string }

// actor pool reused across runs; actors that are still busy (stuck) are abandoned.
var actorPool []*gdump.Actor

func getActors(n int) []*gdump.Actor {
	var out []*gdump.Actor
	keep := actorPool[:0]
	for _, a := range actorPool {
		if !a.Busy() {
			keep = append(keep, a)
		}
	}
	actorPool = keep
	for len(actorPool) < n {
		actorPool = append(actorPool, gdump.NewActor(fmt.Sprintf("actor%d", len(actorPool))))
	}
	out = append(out, actorPool[:n]...)
	return out
}

func newRunner(cfg scriptCfg, useStr bool) *runner {
	n := len(cfg.Programs)
	r := &runner{cfg: cfg, tg: newTarget(cfg.Target), m: newModel(n), actors: getActors(n), pc: make([]int, n), useStr: useStr && cfg.Target == "starving"}
	for _, a := range r.actors {
		a.TakePanic()
	}
	return r
}

func (r *runner) viol(fp, f string, a ...any) {
	what := fmt.Sprintf(f, a...)
	if r.probeOutcome == "panicked" {
		// after a recovered mismatched unlock the state must be unchanged: the rightful holders release normally
		// and every request is granted once its conflicts are gone
		switch {
		case fp == "script/unlock-blocked", fp == "script/cannot-complete", strings.HasPrefix(fp, "lost-wakeup/"), fp == "state/String-disagrees-with-model" && r.busy():
			fp = "notheld/rightful-release-blocks-after-mismatched-unlock"
			what = fmt.Sprintf("after the mismatched %s panicked (and was recovered) the mutex is unusable: %s", r.probe.Op, what)
		case fp == "script/unexpected-panic":
			fp = "notheld/rightful-release-panics-after-mismatched-unlock"
			what = fmt.Sprintf("after the mismatched %s panicked (and was recovered): %s", r.probe.Op, what)
		}
	}
	r.bad = append(r.bad, finding{fp, what})
}

// options: actors that are not parked and have operations left.
func (r *runner) options() []int {
	var o []int
	for a := range r.actors {
		if _, p := r.m.parked[a]; !p && r.pc[a] < len(r.cfg.Programs[a]) {
			o = append(o, a)
		}
	}
	return o
}

func (r *runner) done() bool {
	for a := range r.actors {
		if r.pc[a] < len(r.cfg.Programs[a]) {
			return false
		}
	}
	return len(r.m.parked) == 0
}

// issue lets actor a make its next request and brings the system to quiescence.
func (r *runner) issue(a int) {
	o := r.cfg.Programs[a][r.pc[a]]
	r.pc[a]++
	r.order = append(r.order, a)
	isAcq := o.K == "L" || o.K == "RL"
	if !isAcq {
		r.m.release(a, o) // takes effect when issued
	}
	tg := r.tg
	r.actors[a].Start(func() { tg.do(o) })
	if isAcq {
		r.m.parked[a] = o
	}
	r.quiesce(fmt.Sprintf("a%d:%s", a, o))
	if p := r.actors[a].TakePanic(); p != "" {
		r.viol("script/unexpected-panic", "well-formed script: %s by actor %d panicked: %s", o, a, p)
		delete(r.m.parked, a)
	}
	if !isAcq && r.actors[a].Busy() {
		r.viol("script/unlock-blocked", "%s by actor %d is parked for ever", o, a)
	}
}

func (r *runner) busy() bool {
	for _, a := range r.actors {
		if a.Busy() {
			return true
		}
	}
	return false
}

func (r *runner) quiesce(what string) {
	for k := 0; k < 4 && r.busy(); k++ {
		yield()
	}
	if r.busy() {
		waitQuiescent()
	}
	// grants: parked acquires whose actor has come back
	var granted []int
	for a := range r.m.parked {
		if !r.actors[a].Busy() {
			granted = append(granted, a)
		}
	}
	sort.Ints(granted)
	ev := what + " ->"
	for _, a := range granted {
		o := r.m.parked[a]
		delete(r.m.parked, a)
		r.grants++
		if bad := r.m.grant(a, o); bad != "" {
			kind := "read"
			if o.K == "L" {
				kind = "write"
			}
			r.viol("exclusion/"+kind+"-lock-granted-while-conflicting-lock-held", "%s (after %s)", bad, what)
		}
		ev += fmt.Sprintf(" granted a%d:%s", a, o)
	}
	var pk []int
	for a := range r.m.parked {
		pk = append(pk, a)
	}
	sort.Ints(pk)
	for _, a := range pk {
		r.parkObs++
		ev += fmt.Sprintf(" parked a%d:%s", a, r.m.parked[a])
		if class, w := r.m.unjustified(a); class != "" {
			r.viol("lost-wakeup/"+class, "%s (after %s)", w, what)
		}
	}
	if r.useStr {
		if mm := reStr.FindStringSubmatch(r.tg.str()); mm != nil {
			s := r.m.ent(0)
			wantW := strconv.FormatBool(s.writer != -1)
			wantR := strconv.Itoa(r.m.nReaders(0))
			wantP := 0
			for _, o := range r.m.parked {
				if o.K == "L" {
					wantP++
				}
			}
			if mm[1] != wantW || mm[2] != wantR || mm[3] != strconv.Itoa(wantP) {
				r.viol("state/String-disagrees-with-model", "after %s String() reports writerActive=%s readersActive=%s pendingWriters=%s, the holder model has %s/%s/%d", what, mm[1], mm[2], mm[3], wantW, wantR, wantP)
			} else {
				r.strOK++
			}
		}
	}
	r.trace = append(r.trace, ev)
}

// finish: a well-formed script must run to completion.
func (r *runner) finish() {
	if len(r.bad) > 0 || r.ended {
		return
	}
	if !r.done() {
		var left []string
		for a, o := range r.m.parked {
			left = append(left, fmt.Sprintf("a%d:%s", a, o))
		}
		sort.Strings(left)
		r.viol("script/cannot-complete", "no actor can act any more but the script is not finished; parked: %s", strings.Join(left, " "))
	}
}

func (r *runner) replay() scriptReplay {
	return scriptReplay{Cfg: r.cfg, Order: append([]int(nil), r.order...), Probe: r.probe, Trace: r.trace}
}

// ---------------------------------------------------------------- mismatched unlocks from arbitrary reachable states

// probeCandidates lists the unlock calls that are mismatched in the current
// model state (unlocking something that is not held in that mode).
func (r *runner) probeCandidates() (out []op) {
	ents := []int{0}
	if r.cfg.Target == "dag" {
		ents = []int{0, 1, 2}
	}
	for _, e := range ents {
		if r.m.mayHoldPartially(e, -1) {
			continue // a parked multi-entity RLock may hold e: state not exactly known
		}
		s := r.m.ent(e)
		nr := r.m.nReaders(e)
		pendingOnE := false
		for _, o := range r.m.parked {
			for _, x := range o.E {
				pendingOnE = pendingOnE || x == e
			}
		}
		switch {
		case s.writer != -1:
			out = append(out, op{"RU", []int{e}}) // read-unlock while a writer holds
		case nr > 0:
			out = append(out, op{"U", []int{e}}) // write-unlock while readers hold
		case !pendingOnE:
			out = append(out, op{"RU", []int{e}}, op{"U", []int{e}}) // nothing held at all
		}
	}
	if r.cfg.Target == "dag" {
		// multi-id RUnlock of ids none of which is read-locked: held in the other mode / never seen, in both orders
		var ru []int
		for _, o := range out {
			if o.K == "RU" {
				ru = append(ru, o.E[0])
			}
		}
		for i := range ru {
			for j := range ru {
				if i != j {
					out = append(out, op{"RU", []int{ru[i], ru[j]}})
				}
			}
		}
		if len(ru) > 0 {
			out = append(out, op{"RU", []int{ru[0], 7}}, op{"RU", []int{7, ru[0]}}, op{"U", []int{7}}) // 7: an id never seen
		}
	}
	return
}

var intruder *gdump.Actor

// doProbe issues the mismatched call on an extra goroutine. It must panic or
// leave the observable state unchanged; the script then continues under the
// usual safety / wake-up checks (if it panicked the run ends: hive.go panics
// with the mutex' internal lock held, so nothing can continue on it).
func (r *runner) doProbe(o op) {
	if intruder == nil || intruder.Busy() {
		intruder = gdump.NewActor("intruder")
	}
	intruder.TakePanic()
	r.probe = &probeRec{AfterStep: len(r.order), Op: o}
	r.probeParked = len(r.m.parked) > 0
	before := ""
	if r.useStr {
		before = r.tg.str()
	}
	free := r.cfg.Target == "dag"
	for _, e := range o.E {
		free = free && r.m.ent(e).writer == -1 && r.m.nReaders(e) == 0
	}
	tg := r.tg
	intruder.Start(func() { tg.do(o) })
	for k := 0; k < 4 && (r.busy() || intruder.Busy()); k++ {
		yield()
	}
	if r.busy() || intruder.Busy() {
		waitQuiescent()
	}
	what := fmt.Sprintf("mismatched %s by an extra goroutine", o)
	if p := intruder.TakePanic(); p != "" {
		r.probeOutcome = "panicked"
		r.trace = append(r.trace, what+" -> panic: "+p+" (recovered; the script continues: the state must be unchanged)")
		r.quiesce(what) // a grant caused by the call is judged by the model
		return
	}
	if intruder.Busy() {
		r.viol("notheld/"+o.K+"-blocks", "%s is parked for ever", what)
		r.ended = true
		return
	}
	r.probeOutcome = "silent"
	r.trace = append(r.trace, what+" -> returned without panic")
	if free {
		r.viol("notheld/dag/"+o.K+"-never-locked/no-panic", "DAGMutex %s of an entity that nobody holds or waits for returns normally", o)
		return
	}
	if r.useStr {
		if after := r.tg.str(); after != before {
			r.viol("notheld/"+o.K+"-changed-state", "%s did not panic and changed the state from %s to %s", what, strings.Join(strings.Fields(before), " "), strings.Join(strings.Fields(after), " "))
			return
		}
	}
	// grants caused by the call are judged by the model (a silently released foreign lock shows up as an unsafe grant)
	r.quiesce(what)
}

// ---------------------------------------------------------------- exploration of arrival orders

type exploreStats struct {
	Leaves, Steps, Grants, ParkObs, StrOK, Nondet          int
	Probes, ProbesPanicked, ProbesSilent, ProbesWithParked int
	Exhaustive                                             bool
	Findings                                               []finding
	Replays                                                []scriptReplay
}

type frame struct {
	opts []int
	idx  int
}

func sameInts(a, b []int) bool {
	if len(a) != len(b) {
		return false
	}
	for i := range a {
		if a[i] != b[i] {
			return false
		}
	}
	return true
}

// exploreAll enumerates every feasible arrival order of cfg by stateless
// depth-first search (each order is executed from scratch on a fresh mutex);
// at most maxLeaves orders (then Exhaustive=false).
func exploreAll(cfg scriptCfg, useStr bool, maxLeaves int) (st exploreStats) {
	var stack []frame
	st.Exhaustive = true
	for {
		r := newRunner(cfg, useStr)
		depth := 0
		for len(r.bad) == 0 {
			opts := r.options()
			if len(opts) == 0 {
				break
			}
			if depth == len(stack) {
				stack = append(stack, frame{opts: opts})
			} else if !sameInts(stack[depth].opts, opts) {
				// the implementation chose differently than in an earlier execution of the same prefix
				st.Nondet++
				stack = append(stack[:depth], frame{opts: opts})
			}
			r.issue(stack[depth].opts[stack[depth].idx])
			depth++
		}
		stack = stack[:min(depth, len(stack))]
		r.finish()
		st.add(r)
		for len(stack) > 0 && stack[len(stack)-1].idx == len(stack[len(stack)-1].opts)-1 {
			stack = stack[:len(stack)-1]
		}
		if len(stack) == 0 {
			return
		}
		stack[len(stack)-1].idx++
		if st.Leaves >= maxLeaves {
			st.Exhaustive = false
			return
		}
	}
}

// exploreRandom executes n seeded random arrival orders.
func exploreRandom(cfg scriptCfg, useStr bool, n int, rng *rand.Rand) (st exploreStats) {
	for i := 0; i < n; i++ {
		r := newRunner(cfg, useStr)
		for len(r.bad) == 0 {
			opts := r.options()
			if len(opts) == 0 {
				break
			}
			r.issue(opts[rng.Intn(len(opts))])
		}
		r.finish()
		st.add(r)
	}
	return
}

// exploreProbe executes n seeded random arrival orders, each with one
// mismatched unlock injected at a seeded quiescent point (states with parked
// requests preferred).
func exploreProbe(cfg scriptCfg, useStr bool, n int, rng *rand.Rand) (st exploreStats) {
	total := totalOps(cfg)
	for i := 0; i < n; i++ {
		r := newRunner(cfg, useStr)
		fireAt := rng.Intn(total) // earliest step at which the probe may fire
		wantParked := rng.Intn(3) != 0
		for len(r.bad) == 0 && !r.ended {
			if r.probe == nil && len(r.order) >= fireAt {
				if c := r.probeCandidates(); len(c) > 0 && (!wantParked || len(r.m.parked) > 0 || len(r.order) >= total-1) {
					r.doProbe(c[rng.Intn(len(c))])
					continue
				}
			}
			opts := r.options()
			if len(opts) == 0 {
				break
			}
			r.issue(opts[rng.Intn(len(opts))])
		}
		r.finish()
		st.add(r)
	}
	return
}

// runOrder executes one given arrival order (replay).
func runOrder(cfg scriptCfg, order []int, useStr bool, probe *probeRec) (st exploreStats) {
	r := newRunner(cfg, useStr)
	if probe != nil && probe.AfterStep == 0 {
		r.doProbe(probe.Op)
	}
	for _, a := range order {
		if len(r.bad) > 0 || r.ended {
			break
		}
		ok := false
		for _, x := range r.options() {
			ok = ok || x == a
		}
		if !ok {
			r.viol("replay/order-not-feasible", "actor %d cannot act at step %d (parked or finished)", a, len(r.order))
			break
		}
		r.issue(a)
		if probe != nil && r.probe == nil && len(r.order) == probe.AfterStep && len(r.bad) == 0 {
			r.doProbe(probe.Op)
		}
	}
	if len(r.order) == len(order) {
		r.finish()
	}
	st.add(r)
	return
}

func (st *exploreStats) add(r *runner) {
	if r.probe != nil {
		st.Probes++
		if r.probeParked {
			st.ProbesWithParked++
		}
		switch r.probeOutcome {
		case "panicked":
			st.ProbesPanicked++
		case "silent":
			st.ProbesSilent++
		}
	}
	st.Leaves++
	st.Steps += len(r.order)
	st.Grants += r.grants
	st.ParkObs += r.parkObs
	st.StrOK += r.strOK
	for _, f := range r.bad {
		n := 0
		for _, g := range st.Findings {
			if g.FP == f.FP {
				n++
			}
		}
		if n < 3 {
			st.Findings = append(st.Findings, f)
			st.Replays = append(st.Replays, r.replay())
		}
	}
}

// ---------------------------------------------------------------- configuration lists

func W(e int) []op { return []op{{"L", []int{e}}, {"U", []int{e}}} }
func R(e ...int) []op {
	return []op{{"RL", e}, {"RU", e}}
}
func seq(a, b []op) []op { return append(append([]op{}, a...), b...) }
func nest(outer, inner []op) []op {
	return []op{outer[0], inner[0], inner[1], outer[1]}
}

// starvingPrograms: 1 or 2 sequential lock/unlock pairs on the single entity.
func starvingPrograms(maxPairs int) [][]op {
	p := [][]op{W(0), R(0)}
	if maxPairs >= 2 {
		p = append(p, seq(W(0), W(0)), seq(W(0), R(0)), seq(R(0), W(0)), seq(R(0), R(0)))
	}
	return p
}

// multisets of size k over n items (non-decreasing index vectors).
func multisets(n, k int) [][]int {
	var out [][]int
	var rec func(start int, cur []int)
	rec = func(start int, cur []int) {
		if len(cur) == k {
			out = append(out, append([]int(nil), cur...))
			return
		}
		for i := start; i < n; i++ {
			rec(i, append(cur, i))
		}
	}
	rec(0, nil)
	return out
}

type job struct {
	Cfg    scriptCfg
	Mode   string // all | random
	N      int    // max leaves (all) / number of orders (random)
	Weight int
}

func totalOps(c scriptCfg) (n int) {
	for _, p := range c.Programs {
		n += len(p)
	}
	return
}

func starvingJobs(quick bool) []job {
	var jobs []job
	p2 := starvingPrograms(2)
	mk := func(idx []int) scriptCfg {
		c := scriptCfg{Target: "starving"}
		for _, i := range idx {
			c.Programs = append(c.Programs, p2[i])
		}
		return c
	}
	for _, ms := range multisets(len(p2), 2) {
		jobs = append(jobs, job{Cfg: mk(ms), Mode: "all", N: 1 << 30})
	}
	for _, ms := range multisets(len(p2), 3) {
		c := mk(ms)
		if totalOps(c) <= 8 || !quick {
			jobs = append(jobs, job{Cfg: c, Mode: "all", N: 1 << 30})
		} else {
			jobs = append(jobs, job{Cfg: c, Mode: "random", N: 60})
		}
	}
	for _, ms := range multisets(len(p2), 4) {
		c := mk(ms)
		switch {
		case totalOps(c) <= 8 && !quick:
			jobs = append(jobs, job{Cfg: c, Mode: "all", N: 1 << 30})
		case totalOps(c) <= 8:
			jobs = append(jobs, job{Cfg: c, Mode: "random", N: 120})
		case totalOps(c) <= 10 && !quick:
			jobs = append(jobs, job{Cfg: c, Mode: "all", N: 1 << 30})
		case !quick:
			jobs = append(jobs, job{Cfg: c, Mode: "random", N: 400})
		case totalOps(c) <= 10:
			jobs = append(jobs, job{Cfg: c, Mode: "random", N: 20})
		}
	}
	return jobs
}

// dagTemplates: programs along the acyclic order 0 < 1 < 2.
func dagTemplates() [][]op {
	var t [][]op
	for e := 0; e < 3; e++ {
		t = append(t, W(e), R(e))
	}
	for a := 0; a < 3; a++ {
		for b := a + 1; b < 3; b++ {
			t = append(t, R(a, b), nest(W(a), W(b)), nest(W(a), R(b)), nest(R(a), W(b)), seq(W(a), W(b)), seq(R(b), W(a)))
		}
	}
	t = append(t, R(0, 1, 2))
	// repeated ids inside ONE RLock call (all occurrences acquired within the call), released in matching or
	// permuted order; the holder model counts occurrences
	ru := func(e ...int) op { return op{"RU", e} }
	rl := func(e ...int) op { return op{"RL", e} }
	t = append(t,
		[]op{rl(0, 0), ru(0, 0)},
		[]op{rl(1, 1), ru(1, 1)},
		[]op{rl(0, 0, 1), ru(0, 1, 0)},
		[]op{rl(0, 1, 1), ru(1, 0, 1)},
		[]op{rl(1, 1, 2), ru(2, 1, 1)},
		[]op{rl(0, 0, 0), ru(0, 0, 0)},
		[]op{rl(0, 0), ru(0), ru(0)}, // released by two separate calls
	)
	return t
}

func dagJobs(rng *rand.Rand, quick bool) []job {
	t := dagTemplates()
	var jobs []job
	seen := map[string]bool{}
	add := func(c scriptCfg, mode string, n int) {
		if k := c.key(); !seen[k] {
			seen[k] = true
			jobs = append(jobs, job{Cfg: c, Mode: mode, N: n})
		}
	}
	// every pair of templates, exhaustively
	for _, ms := range multisets(len(t), 2) {
		add(scriptCfg{Target: "dag", Programs: [][]op{t[ms[0]], t[ms[1]]}}, "all", 1<<30)
	}
	n3, n4 := 150, 0
	if !quick {
		n3, n4 = 500, 500
	}
	for i := 0; i < n3; i++ {
		c := scriptCfg{Target: "dag", Programs: [][]op{t[rng.Intn(len(t))], t[rng.Intn(len(t))], t[rng.Intn(len(t))]}}
		if quick {
			add(c, "random", 25)
		} else {
			add(c, "all", 1500)
		}
	}
	for i := 0; i < n4; i++ {
		c := scriptCfg{Target: "dag", Programs: [][]op{t[rng.Intn(len(t))], t[rng.Intn(len(t))], t[rng.Intn(len(t))], t[rng.Intn(len(t))]}}
		add(c, "random", 150)
	}
	return jobs
}
