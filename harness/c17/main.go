// C17 – StarvingMutex / DAGMutex exclusion and wake-ups for every arrival
// order; Counter / Stack condition waits.
//
// Oracles: (1) scripted arrival orders: every request is issued only after the
// previous one has returned or its goroutine is structurally parked (goroutine
// snapshots), a reader/writer holder model runs in lock-step (safety of every
// grant, no parked request whose conflicts have gone, scripts complete,
// String() == model in plain builds); (2) deterministic Counter/Stack wait
// scenarios with exact "returned iff the condition has held since the call";
// (3) unlock-of-something-not-held probes; (4) free-running contention with a
// shadow holder set, plain and -race; (5) mutex racing releases (mrace.go):
// pre-held mutex, releases raced against fresh Lock/RLock calls, everybody must
// finish; (1), (4) on the mutexes and (5) also run in children with the
// repository's process-global debug mode enabled (dead-lock detection active).
package main

import (
	"encoding/json"
	"fmt"
	"hash/fnv"
	"os"
	"runtime"
	"sort"
	"strconv"
	"strings"
	"sync"
	"time"

	"github.com/iotaledger/hive.go/runtime/syncutils"
	"verif/harness/internal/vf"
)

type replayRec struct {
	Mode   string          `json:"mode"` // script | wait | stress | race
	Script *scriptReplay   `json:"script,omitempty"`
	Wait   *waitCfg        `json:"wait,omitempty"`
	Stress *stressCfg      `json:"stress,omitempty"`
	Racing *raceCfg        `json:"racing,omitempty"`
	MRace  *mraceCfg       `json:"mutex_racing,omitempty"`
	Debug  bool            `json:"debug_mode,omitempty"` // the child ran with runtime/debug.SetEnabled(true)
	Detail json.RawMessage `json:"detail,omitempty"`
}

func detail(v any) json.RawMessage { b, _ := json.Marshal(v); return b }
func atoi(s string) int            { n, _ := strconv.Atoi(s); return n }

func allJobs(c *vf.Ctx) []job {
	jobs := append(starvingJobs(c.Quick()), dagJobs(c.Rand("dag"), c.Quick())...)
	// every configuration again with a mismatched unlock injected at a seeded reachable state
	n := len(jobs)
	for _, j := range jobs[:n] {
		k := c.Pick(8, 40)
		if len(j.Cfg.Programs) > 2 {
			k = c.Pick(10, 30)
		}
		jobs = append(jobs, job{Cfg: j.Cfg, Mode: "probe", N: k})
	}
	return jobs
}

// debugMode: this child runs with the repository's debug mode enabled (process-global, set once at child start).
var debugMode bool

func reportExplore(c *vf.Ctx, j job, st exploreStats) {
	c.Count("evaluations", st.Leaves)
	if debugMode {
		c.Count("arrival_orders_debug_mode", st.Leaves)
		c.Count("lock_requests_granted_debug_mode", st.Grants)
		c.Count("parked_request_observations_debug_mode", st.ParkObs)
	}
	c.Count("arrival_orders:"+j.Cfg.Target, st.Leaves)
	c.Count("requests_issued", st.Steps)
	c.Count("lock_requests_granted", st.Grants)
	c.Count("parked_request_observations", st.ParkObs)
	c.Count("string_vs_model_checks", st.StrOK)
	if j.Mode == "probe" {
		c.Count("mismatched_unlock_probes", st.Probes)
		c.Count("mismatched_unlock_probes:"+j.Cfg.Target, st.Probes)
		c.Count("mismatched_unlock_probes_panicked", st.ProbesPanicked)
		c.Count("mismatched_unlock_probes_silent_state_unchanged", st.ProbesSilent)
		c.Count("mismatched_unlock_probes_with_parked_requests", st.ProbesWithParked)
	}
	for _, p := range j.Cfg.Programs {
		dup := false
		for _, o := range p {
			for x := range o.E {
				for y := range o.E[:x] {
					dup = dup || o.E[x] == o.E[y]
				}
			}
		}
		if dup {
			c.Count("arrival_orders_with_repeated_ids_in_one_RLock", st.Leaves)
			break
		}
	}
	c.Count("script_configs", 1)
	if st.Nondet > 0 {
		c.Count("dfs_prefix_replayed_differently", st.Nondet)
	}
	if j.Mode == "all" && st.Exhaustive {
		c.Count("script_configs_enumerated_exhaustively", 1)
	}
	if st.ParkObs > 0 {
		c.Distinct("nontrivial", j.Cfg.key())
	}
	c.Distinct("configs_"+fmt.Sprint(len(j.Cfg.Programs))+"actors", j.Cfg.key())
	for i, f := range st.Findings {
		rp := st.Replays[i]
		fp := j.Cfg.Target + "/" + f.FP
		if strings.HasPrefix(f.FP, "notheld/rightful-") {
			fp = f.FP // one defect of StarvingMutex, whichever front end reaches it
		}
		c.Violation(fp, f.What+" [programs: "+j.Cfg.key()+"; arrival order "+fmt.Sprint(rp.Order)+dbgNote()+"]", replayRec{Mode: "script", Script: &rp, Debug: debugMode})
	}
}

func reportWait(c *vf.Ctx, r waitResult) {
	c.Count("evaluations", 1)
	c.Count("wait_scenarios", 1)
	c.Count("wait_scenarios:"+strings.SplitN(r.Cfg.Kind, ":", 2)[0], 1)
	c.Count("waiter_checks", r.Checks)
	c.Count("waiter_observed_parked", r.Parked)
	c.Count("waiter_observed_returned", r.Returned)
	if r.Inconcl != "" {
		c.Inconclusive(r.Cfg.Kind + ": " + r.Inconcl)
	}
	if r.Parked > 0 && r.Returned > 0 {
		h := fnv.New64a()
		fmt.Fprintf(h, "%s/%d/%d", r.Cfg.Kind, r.Cfg.Seed, r.Cfg.Idx)
		c.DistinctHash("nontrivial", h.Sum64())
	}
	if len(r.Findings) == 0 && strings.HasPrefix(r.Cfg.Kind, "special:stale") && c.WantSample() {
		c.Sample(map[string]any{"scenario": r.Cfg.Kind, "trace": r.Trace})
	}
	seen := map[string]bool{}
	for _, f := range r.Findings {
		if seen[f.FP] {
			continue
		}
		seen[f.FP] = true
		c.Violation(f.FP, f.What+fmt.Sprintf(" [scenario %s seed %d idx %d]", r.Cfg.Kind, r.Cfg.Seed, r.Cfg.Idx), replayRec{Mode: "wait", Wait: &r.Cfg, Detail: detail(r)})
	}
}

func reportStress(c *vf.Ctx, r stressResult, race bool) {
	c.Count("evaluations", 1)
	c.Count("stress_runs", 1)
	c.Count("stress_runs:"+r.Cfg.Kind, 1)
	if race {
		c.Count("stress_runs_race_build", 1)
	}
	if debugMode {
		c.Count("stress_runs_debug_mode", 1)
		c.Count("stress_grants_under_contention_debug_mode", int(r.Overlaps))
	}
	c.Count("stress_grants", int(r.Grants))
	c.Count("stress_grants_under_contention", int(r.Overlaps))
	if r.Overlaps > 0 || r.Cfg.Kind == "counter" || r.Cfg.Kind == "stack" {
		c.Distinct("nontrivial", fmt.Sprintf("stress/%s/%d/%d/%v", r.Cfg.Kind, r.Cfg.Seed, r.Cfg.Run, race))
	}
	seen := map[string]bool{}
	for _, f := range r.Findings {
		if seen[f.FP] {
			continue
		}
		seen[f.FP] = true
		fp := f.FP
		if r.Cfg.Kind == "starving" || r.Cfg.Kind == "dag" {
			fp = r.Cfg.Kind + "/" + fp
		}
		c.Violation(fp, f.What+fmt.Sprintf(" [stress %s run %d seed %d race=%v%s]", r.Cfg.Kind, r.Cfg.Run, r.Cfg.Seed, race, dbgNote()), replayRec{Mode: "stress", Stress: &r.Cfg, Detail: detail(r), Debug: debugMode})
	}
}

func reportRacing(c *vf.Ctx, r raceResult, race bool) {
	c.Count("evaluations", 1)
	c.Count("racing_rounds", 1)
	c.Count("racing_rounds:"+r.Cfg.Prim, 1)
	c.Count("racing_rounds_mode:"+r.Cfg.Mode, 1)
	if race {
		c.Count("racing_rounds_race_build", 1)
	}
	c.Count("racing_waiters", r.Cfg.N)
	c.Count("racing_waiters_called_before_change", r.Before)
	c.Count("racing_waiters_called_during_change", r.Overlap)
	c.Count("racing_waiters_called_after_change", r.After)
	if r.Cfg.Mode == "race" && r.Before > 0 && r.After+r.Overlap > 0 {
		c.Count("racing_rounds_with_waiters_on_both_sides:"+r.Cfg.Prim, 1)
		c.Distinct("nontrivial", fmt.Sprintf("racing/%d/%d/%v", r.Cfg.Seed, r.Cfg.Run, race))
	}
	seen := map[string]bool{}
	for _, f := range r.Findings {
		if seen[f.FP] {
			continue
		}
		seen[f.FP] = true
		c.Violation(f.FP, f.What+fmt.Sprintf(" [racing run %d seed %d race=%v]", r.Cfg.Run, r.Cfg.Seed, race), replayRec{Mode: "racing", Racing: &r.Cfg, Detail: detail(r)})
	}
}

func dbgNote() string {
	if debugMode {
		return "; debug mode enabled (runtime/debug.SetEnabled(true))"
	}
	return ""
}

func reportMRace(c *vf.Ctx, r mraceResult, race bool) {
	c.Count("evaluations", 1)
	c.Count("mutex_racing_rounds", 1)
	c.Count("mutex_racing_rounds:"+r.Target, 1)
	c.Count("mutex_racing_rounds_mode:"+r.Mode, 1)
	sfx := ""
	if r.Cfg.Debug {
		sfx = "_debug_mode"
		c.Count("mutex_racing_rounds_debug_mode", 1)
	}
	if race {
		c.Count("mutex_racing_rounds_race_build", 1)
	}
	c.Count("mutex_racing_grants", r.Grants)
	c.Count("mutex_racing_acquires_in_flight_across_last_release"+sfx, r.Across)
	c.Count("mutex_racing_acquires_called_during_last_release"+sfx, r.During)
	c.Count("mutex_racing_acquires_returned_before_last_release", r.BeforeRel)
	c.Count("mutex_racing_acquires_called_after_last_release", r.AfterRel)
	c.Count("mutex_racing_releases_begun_while_conflicting_acquire_in_flight"+sfx, r.RelInAcquire)
	if r.Across+r.During > 0 {
		c.Count("mutex_racing_rounds_with_acquire_in_flight_at_last_release"+sfx, 1)
		c.Distinct("nontrivial", fmt.Sprintf("mrace/%d/%d/%v/%v", r.Cfg.Seed, r.Cfg.Run, r.Cfg.Debug, race))
	}
	c.Distinct("mutex_racing_shapes", r.Shape)
	seen := map[string]bool{}
	for _, f := range r.Findings {
		if seen[f.FP] {
			continue
		}
		seen[f.FP] = true
		cfg := r.Cfg
		c.Violation(r.Target+"/"+f.FP, f.What+fmt.Sprintf(" [mutex racing run %d seed %d race=%v%s]", r.Cfg.Run, r.Cfg.Seed, race, dbgNote()), replayRec{Mode: "mrace", MRace: &cfg, Detail: detail(r), Debug: r.Cfg.Debug})
	}
}

// waitList: the deterministic scenario list of a tier.
func waitList(c *vf.Ctx) []waitCfg {
	var l []waitCfg
	for _, n := range []string{"stale-true-callback", "stale-true-hook", "signal-after-park", "push-beats-condition"} {
		l = append(l, waitCfg{Kind: "special:" + n, Seed: c.Seed})
	}
	for i := 0; i < 4; i++ {
		l = append(l, waitCfg{Kind: "special:chain-stack-held", Seed: c.Seed, Idx: i})
	}
	for i := 0; i < 2; i++ {
		l = append(l, waitCfg{Kind: "special:chain-stack-bfirst", Seed: c.Seed, Idx: i}, waitCfg{Kind: "special:chain-counter", Seed: c.Seed, Idx: i})
	}
	for _, n := range notHeldNames {
		l = append(l, waitCfg{Kind: "notheld:" + n, Seed: c.Seed})
	}
	for i := 0; i < 4; i++ {
		l = append(l, waitCfg{Kind: "special:counter-contended", Seed: c.Seed, Idx: i})
	}
	for i := 0; i < c.Pick(400, 4000); i++ {
		l = append(l, waitCfg{Kind: "subscribers", Seed: c.Seed, Idx: i})
	}
	n := c.Pick(1500, 12000)
	for i := 0; i < n; i++ {
		l = append(l, waitCfg{Kind: "counter", Seed: c.Seed, Idx: i}, waitCfg{Kind: "stack", Seed: c.Seed, Idx: i})
	}
	return l
}

func runWait(w waitCfg) waitResult {
	switch {
	case w.Kind == "subscribers":
		return runSubscribers(w)
	case w.Kind == "counter":
		return runCounter(w)
	case w.Kind == "stack":
		return runStack(w)
	case w.Kind == "special:counter-contended":
		return runCounterContended(w)
	case strings.HasPrefix(w.Kind, "special:"):
		return runSpecial(w)
	default:
		return runNotHeld(w)
	}
}

func child(c *vf.Ctx) {
	syncutils.VerifYield = stackHook
	mode := ""
	if len(c.ChildArgs) > 0 {
		mode = c.ChildArgs[len(c.ChildArgs)-1] // plain | race | debug | debug+race
	}
	race := mode == "race" || mode == "debug+race"
	if mode == "debug" || mode == "debug+race" {
		debugMode = true
		enableDebugMode()
	}
	switch c.Child {
	case "scripts":
		k, n := atoi(c.ChildArgs[0]), atoi(c.ChildArgs[1])
		for i, j := range allJobs(c) {
			if i%n != k {
				continue
			}
			c.Mark(j.Cfg.key())
			var st exploreStats
			if j.Mode == "all" {
				st = exploreAll(j.Cfg, !race, j.N)
			} else if j.Mode == "probe" {
				st = exploreProbe(j.Cfg, !race, j.N, c.Rand("probe/"+j.Cfg.key()))
			} else {
				st = exploreRandom(j.Cfg, !race, j.N, c.Rand("order/"+j.Cfg.key()))
			}
			reportExplore(c, j, st)
			if st.Leaves > 0 && len(st.Findings) == 0 && c.WantSample() && st.ParkObs > 0 && i%7 == 0 {
				r := runOrderSample(j.Cfg, !race, c)
				if r != nil {
					c.Sample(r)
				}
			}
			if i%40 == 0 {
				c.FlushStats()
			}
		}
	case "script1":
		var r scriptReplay
		json.Unmarshal([]byte(c.ChildArgs[0]), &r)
		st := runOrder(r.Cfg, r.Order, !race, r.Probe)
		reportExplore(c, job{Cfg: r.Cfg}, st)
	case "waits":
		lo, hi := atoi(c.ChildArgs[0]), atoi(c.ChildArgs[1])
		l := waitList(c)
		for i := lo; i < hi && i < len(l); i++ {
			c.Mark(fmt.Sprintf("%s/%d", l[i].Kind, l[i].Idx))
			reportWait(c, runWait(l[i]))
		}
	case "wait1":
		var w waitCfg
		json.Unmarshal([]byte(c.ChildArgs[0]), &w)
		reportWait(c, runWait(w))
	case "stress":
		lo, hi := atoi(c.ChildArgs[0]), atoi(c.ChildArgs[1])
		hookJitter.Store(uint64(c.Seed)*2654435761 + 1)
		for i := lo; i < hi; i++ {
			cfg := genStress(c.Seed, i)
			if debugMode && cfg.Kind != "starving" && cfg.Kind != "dag" {
				continue // the debug mode only concerns the mutexes
			}
			if debugMode {
				cfg.Iters = 6 + cfg.Iters/6 // every Lock/RLock captures a stack trace into a fresh 1 MiB buffer
			}
			c.Mark(string(detail(cfg)))
			reportStress(c, runStress(cfg), race)
		}
	case "racing":
		lo, hi := atoi(c.ChildArgs[0]), atoi(c.ChildArgs[1])
		for i := lo; i < hi; i++ {
			cfg := genRace(c.Seed, i)
			if i%64 == 0 {
				c.Mark(string(detail(cfg)))
			}
			reportRacing(c, runRacing(cfg), race)
		}
	case "mrace":
		lo, hi := atoi(c.ChildArgs[0]), atoi(c.ChildArgs[1])
		for i := lo; i < hi; i++ {
			cfg := mraceCfg{Seed: c.Seed, Run: i, Debug: debugMode}
			if i%64 == 0 {
				c.Mark(string(detail(cfg)))
			}
			reportMRace(c, runMRace(cfg), race)
		}
	case "mrace1":
		var cfg mraceCfg
		json.Unmarshal([]byte(c.ChildArgs[0]), &cfg)
		cfg.Debug = debugMode
		for k := 0; k < 300; k++ { // free-running: repeat the recorded round
			reportMRace(c, runMRace(cfg), race)
		}
	case "racing1":
		var cfg raceCfg
		json.Unmarshal([]byte(c.ChildArgs[0]), &cfg)
		for k := 0; k < 300; k++ { // free-running: repeat the recorded round
			reportRacing(c, runRacing(cfg), race)
		}
	case "stress1":
		var cfg stressCfg
		json.Unmarshal([]byte(c.ChildArgs[0]), &cfg)
		hookJitter.Store(uint64(cfg.Seed)*2654435761 + 1)
		for k := 0; k < 30; k++ { // free-running: repeat the recorded case
			reportStress(c, runStress(cfg), race)
		}
	}
}

// runOrderSample re-executes one random order of a configuration to obtain a trace for the evidence file.
func runOrderSample(cfg scriptCfg, useStr bool, c *vf.Ctx) any {
	rng := c.Rand("sample/" + cfg.key())
	r := newRunner(cfg, useStr)
	for len(r.bad) == 0 {
		opts := r.options()
		if len(opts) == 0 {
			break
		}
		r.issue(opts[rng.Intn(len(opts))])
	}
	if len(r.bad) > 0 || r.parkObs == 0 {
		return nil
	}
	return map[string]any{"programs": cfg.key(), "arrival_order": r.order, "trace": r.trace}
}

// ---------------------------------------------------------------- parent

func isInside(fn string) bool { return strings.Contains(fn, "hive.go/runtime/syncutils") }

func raceOwners(text string) []string {
	head := text
	if i := strings.Index(text, "\nGoroutine "); i >= 0 {
		head = text[:i]
	}
	var owners []string
	for _, blk := range strings.Split(head, "\n\n") {
		lines := strings.Split(blk, "\n")
		isAccess := false
		for _, l := range lines {
			t := strings.TrimSpace(l)
			if strings.HasPrefix(t, "Read at") || strings.HasPrefix(t, "Write at") || strings.HasPrefix(t, "Previous read at") || strings.HasPrefix(t, "Previous write at") ||
				strings.HasPrefix(t, "Atomic") || strings.HasPrefix(t, "Previous atomic") {
				isAccess = true
			}
		}
		if !isAccess {
			continue
		}
		owner := ""
		for _, l := range lines {
			if !strings.HasPrefix(l, "  ") || strings.HasPrefix(l, "   ") {
				continue
			}
			fn := strings.TrimSpace(l)
			if j := strings.LastIndexByte(fn, '('); j > 0 {
				fn = fn[:j]
			}
			if strings.HasPrefix(fn, "runtime.") || strings.HasPrefix(fn, "sync.") || strings.HasPrefix(fn, "sync/atomic.") || strings.HasPrefix(fn, "container/") || strings.HasPrefix(fn, "internal/") {
				continue
			}
			owner = fn
			break
		}
		owners = append(owners, owner)
	}
	return owners
}

func stripGenerics(s string) string {
	for {
		i := strings.Index(s, "[")
		j := strings.Index(s, "]")
		if i < 0 || j < i {
			return s
		}
		s = s[:i] + s[j+1:]
	}
}

var raceMu sync.Mutex
var raceSeen = map[string]bool{}

func reportRaces(c *vf.Ctx, rs []vf.RaceReport) {
	for _, r := range rs {
		c.Count("race_reports", 1)
		ow := raceOwners(r.Text)
		for i := range ow {
			ow[i] = stripGenerics(ow[i])
		}
		sort.Strings(ow)
		key := strings.Join(ow, " <-> ")
		raceMu.Lock()
		dup := raceSeen[key]
		raceSeen[key] = true
		raceMu.Unlock()
		if dup {
			continue
		}
		txt := r.Text
		if len(txt) > 6000 {
			txt = txt[:6000]
		}
		switch {
		case len(ow) == 2 && isInside(ow[0]) && isInside(ow[1]):
			c.Violation("race:"+ow[0]+" <-> "+ow[1], "data race with both access stacks inside syncutils operations: "+key, replayRec{Mode: "race", Detail: detail(map[string]string{"report": txt})})
		case len(ow) == 2 && strings.HasPrefix(ow[0], "main.") && strings.HasPrefix(ow[1], "main."):
			c.Inconclusive("data race inside the harness itself: " + key)
		default:
			c.Note("race not (provably) between two syncutils operations: " + key)
		}
	}
}

func childDied(c *vf.Ctx, what string, res vf.ChildResult) {
	if strings.HasPrefix(res.Fatal, "panic:") && strings.Contains(res.Stderr, "hive.go/runtime/syncutils.") {
		i := strings.Index(res.Stderr, "panic:")
		c.Violation("panic-in-syncutils/"+strings.TrimPrefix(res.Fatal, "panic: "), "unrecovered "+res.Fatal+" killed the process ("+what+", last case "+res.LastMark+")", replayRec{Mode: "stress", Detail: detail(map[string]string{"mark": res.LastMark, "stderr": trunc(res.Stderr[i:], 6000)})})
		return
	}
	if res.Deadlock {
		c.Violation("process-deadlock", "Go runtime: all goroutines are asleep ("+what+", last case "+res.LastMark+")", replayRec{Mode: "stress", Detail: detail(map[string]string{"mark": res.LastMark, "stderr": trunc(res.Stderr, 12000)})})
		return
	}
	c.Inconclusive(fmt.Sprintf("%s did not finish (timeout=%v exit=%d %s) at %s", what, res.TimedOut, res.ExitCode, res.Fatal, res.LastMark))
}

// runChild retries a child whose process could not even be started (fork/exec
// failure on a loaded machine); nothing about a verdict depends on it.
func runChild(c *vf.Ctx, o vf.ChildOpts) vf.ChildResult {
	var res vf.ChildResult
	for try := 0; try < 4; try++ {
		res = c.RunChild(o)
		if !(res.ExitCode == -1 && strings.HasPrefix(res.Fatal, "start:")) {
			break
		}
		time.Sleep(time.Duration(try+1) * 500 * time.Millisecond)
	}
	return res
}

func trunc(s string, n int) string {
	if len(s) > n {
		return s[:n]
	}
	return s
}

func run(c *vf.Ctx) {
	if c.Replay != "" {
		var r replayRec
		if err := c.LoadReplay(&r); err != nil {
			fmt.Fprintln(os.Stderr, err)
			os.Exit(3)
		}
		var res vf.ChildResult
		m := "plain"
		if r.Debug {
			m = "debug"
		}
		switch r.Mode {
		case "script":
			b, _ := json.Marshal(r.Script)
			res = runChild(c, vf.ChildOpts{Name: "script1", Args: []string{string(b), m}, Timeout: time.Minute})
		case "mrace":
			b, _ := json.Marshal(r.MRace)
			res = runChild(c, vf.ChildOpts{Name: "mrace1", Args: []string{string(b), m}, Timeout: 3 * time.Minute})
		case "wait":
			b, _ := json.Marshal(r.Wait)
			res = runChild(c, vf.ChildOpts{Name: "wait1", Args: []string{string(b)}, Timeout: time.Minute})
		case "stress":
			b, _ := json.Marshal(r.Stress)
			res = runChild(c, vf.ChildOpts{Name: "stress1", Args: []string{string(b), m}, Timeout: 3 * time.Minute})
		case "racing":
			b, _ := json.Marshal(r.Racing)
			res = runChild(c, vf.ChildOpts{Name: "racing1", Args: []string{string(b)}, Timeout: 3 * time.Minute})
		case "race":
			res = runChild(c, vf.ChildOpts{Name: "stress", Args: []string{"0", "80", "race"}, Race: true, Timeout: 5 * time.Minute})
			reportRaces(c, res.Races)
		}
		if res.TimedOut {
			c.Inconclusive("replay child timed out")
		}
		return
	}
	c.SetRule("evaluations = arrival orders executed + wait/not-held scenarios + stress runs. An arrival order is one interleaving of the actors' lock/unlock programs in which every request is issued only after the previous one returned or its goroutine was observed parked; for a configuration (2-4 actors x 1-2 lock/unlock pairs, R or W, StarvingMutex: 1 entity, DAGMutex: 1-3 entities along the order 0<1<2 incl. nested and multi-entity read locks) all feasible orders are enumerated by depth-first search (quick: 2 actors and 3 actors with <=8 requests exhaustively, the rest seeded samples; thorough: 3 actors and 4 actors with <=10 requests exhaustively). A configuration is non-trivial if at least one request had to park in some order; wait scenarios are non-trivial if a waiter was observed both parked and returned; stress runs if a grant happened while another request on the entity was in flight. Mutex racing rounds (fresh StarvingMutex/DAGMutex pre-held by a writer or 1-3 readers; 1-5 single-shot Lock/RLock callers, passing readers and the holders' releases let go from one barrier, each release triggered by the k-th caller announcing its call plus a seeded spin/Gosched delay) are non-trivial if an acquire was in flight when the last release happened. Scripted arrival orders, mutex stress and mutex racing rounds also run in separate children with the repository's debug mode enabled (runtime/debug.SetEnabled(true), dead-lock detection time-out set to the maximum so that its timers never fire).")

	var wg sync.WaitGroup
	sem := make(chan struct{}, 12)
	spawn := func(f func()) {
		wg.Add(1)
		go func() {
			sem <- struct{}{}
			defer func() { <-sem; wg.Done() }()
			f()
		}()
	}
	finish := func(what string, res vf.ChildResult) {
		reportRaces(c, res.Races)
		if res.TimedOut || (res.ExitCode != 0 && !(res.ExitCode == 66 && len(res.Races) > 0)) {
			childDied(c, what, res)
		}
	}
	// ---- the deterministic special / not-held scenarios first, so that their replay files are the ones kept
	nSpecial := 0
	for _, w := range waitList(c) {
		if w.Kind != "counter" && w.Kind != "stack" && w.Kind != "subscribers" {
			nSpecial++
		}
	}
	finish("wait child (special scenarios)", runChild(c, vf.ChildOpts{Name: "waits", Args: []string{"0", strconv.Itoa(nSpecial), "plain"}, Timeout: 15 * time.Minute}))
	// ---- scripted arrival orders
	nChunks := c.Pick(32, 64)
	for k := 0; k < nChunks; k++ {
		k := k
		spawn(func() {
			finish(fmt.Sprintf("script child %d/%d", k, nChunks), runChild(c, vf.ChildOpts{Name: "scripts", Args: []string{strconv.Itoa(k), strconv.Itoa(nChunks), "plain"}, Timeout: 30 * time.Minute}))
		})
		if k%c.Pick(4, 6) == 0 {
			spawn(func() {
				finish(fmt.Sprintf("script child %d/%d (race)", k, nChunks), runChild(c, vf.ChildOpts{Name: "scripts", Args: []string{strconv.Itoa(k), strconv.Itoa(nChunks), "race"}, Race: true, Timeout: 30 * time.Minute}))
			})
		}
		// the same arrival orders with the repository's debug mode enabled (process-global: separate children)
		if k%c.Pick(8, 16) == 1 {
			spawn(func() {
				finish(fmt.Sprintf("script child %d/%d (debug mode)", k, nChunks), runChild(c, vf.ChildOpts{Name: "scripts", Args: []string{strconv.Itoa(k), strconv.Itoa(nChunks), "debug"}, Timeout: 30 * time.Minute}))
			})
		}
		if k%c.Pick(16, 32) == 5 {
			spawn(func() {
				finish(fmt.Sprintf("script child %d/%d (debug mode, race)", k, nChunks), runChild(c, vf.ChildOpts{Name: "scripts", Args: []string{strconv.Itoa(k), strconv.Itoa(nChunks), "debug+race"}, Race: true, Timeout: 30 * time.Minute}))
			})
		}
	}
	// ---- Counter / Stack waits, not-held probes
	wl := len(waitList(c))
	per := c.Pick(400, 1500)
	for lo := nSpecial; lo < wl; lo += per {
		lo := lo
		spawn(func() {
			finish(fmt.Sprintf("wait child [%d..)", lo), runChild(c, vf.ChildOpts{Name: "waits", Args: []string{strconv.Itoa(lo), strconv.Itoa(lo + per), "plain"}, Timeout: 25 * time.Minute}))
		})
	}
	spawn(func() { // the special and not-held scenarios and a slice of the random ones under -race
		finish("wait child (race)", runChild(c, vf.ChildOpts{Name: "waits", Args: []string{"0", strconv.Itoa(c.Pick(300, 3000)), "race"}, Race: true, Timeout: 25 * time.Minute}))
	})
	// ---- stress
	stress := func(n, per int, race bool, dbg ...bool) {
		for lo := 0; lo < n; lo += per {
			lo := lo
			spawn(func() {
				mode := "plain"
				if race {
					mode = "race"
				}
				if len(dbg) > 0 && dbg[0] {
					mode = map[bool]string{false: "debug", true: "debug+race"}[race]
				}
				finish(fmt.Sprintf("stress child [%d..) %s", lo, mode), runChild(c, vf.ChildOpts{Name: "stress", Args: []string{strconv.Itoa(lo), strconv.Itoa(min(lo+per, n)), mode}, Race: race, Timeout: 25 * time.Minute}))
			})
		}
	}
	racing := func(n, per int, race bool) {
		for lo := 0; lo < n; lo += per {
			lo := lo
			spawn(func() {
				mode := "plain"
				if race {
					mode = "race"
				}
				finish(fmt.Sprintf("racing child [%d..) %s", lo, mode), runChild(c, vf.ChildOpts{Name: "racing", Args: []string{strconv.Itoa(lo), strconv.Itoa(min(lo+per, n)), mode}, Race: race, Timeout: 25 * time.Minute}))
			})
		}
	}
	racing(c.Pick(24000, 480000), c.Pick(2000, 10000), false)
	racing(c.Pick(6000, 96000), c.Pick(1000, 5000), true)
	stress(c.Pick(800, 16000), c.Pick(100, 500), false)
	stress(c.Pick(240, 4000), c.Pick(40, 250), true)
	// ---- mutex racing releases, without and with the debug mode; contention stress of the mutexes in debug mode
	mrace := func(n, per int, mode string) {
		for lo := 0; lo < n; lo += per {
			lo := lo
			spawn(func() {
				finish(fmt.Sprintf("mutex racing child [%d..) %s", lo, mode), runChild(c, vf.ChildOpts{Name: "mrace", Args: []string{strconv.Itoa(lo), strconv.Itoa(min(lo+per, n)), mode}, Race: strings.HasSuffix(mode, "race"), Timeout: 25 * time.Minute}))
			})
		}
	}
	mrace(c.Pick(8000, 160000), c.Pick(2000, 10000), "plain")
	mrace(c.Pick(4000, 60000), c.Pick(800, 3000), "debug")
	mrace(c.Pick(2000, 32000), c.Pick(1000, 4000), "race")
	mrace(c.Pick(1000, 12000), c.Pick(500, 1500), "debug+race")
	stress(c.Pick(120, 3200), c.Pick(24, 200), false, true)
	stress(c.Pick(32, 800), c.Pick(16, 100), true, true)
	wg.Wait()

	c.Require("evaluations", c.Pick(15000, 500000))
	c.Require("arrival_orders:starving", c.Pick(5000, 200000))
	c.Require("arrival_orders:dag", c.Pick(5000, 200000))
	c.Require("lock_requests_granted", c.Pick(10000, 400000))
	c.Require("parked_request_observations", c.Pick(10000, 400000))
	c.Require("mismatched_unlock_probes:starving", c.Pick(600, 4000))
	c.Require("mismatched_unlock_probes:dag", c.Pick(4000, 25000))
	c.Require("mismatched_unlock_probes_with_parked_requests", c.Pick(1000, 8000))
	c.Require("mismatched_unlock_probes_panicked", c.Pick(2500, 15000))
	c.Require("arrival_orders_with_repeated_ids_in_one_RLock", c.Pick(2000, 50000))
	c.Require("string_vs_model_checks", c.Pick(20000, 500000))
	c.Require("waiter_observed_parked", c.Pick(3000, 50000))
	c.Require("waiter_observed_returned", c.Pick(3000, 50000))
	c.Require("wait_scenarios:special", 16)
	c.Require("wait_scenarios:notheld", len(notHeldNames))
	c.Require("wait_scenarios:subscribers", c.Pick(400, 4000))
	c.Require("stress_grants_under_contention", c.Pick(20000, 300000))
	for _, p := range racingPrims {
		c.Require("racing_rounds:"+p, c.Pick(1500, 30000))
		c.Require("racing_rounds_with_waiters_on_both_sides:"+p, c.Pick(100, 2000))
	}
	c.Require("racing_rounds_race_build", c.Pick(4500, 70000))
	c.Require("racing_rounds_mode:pretrue", c.Pick(1000, 20000))
	c.Require("racing_rounds_mode:nevertrue", c.Pick(1000, 20000))
	c.Require("racing_waiters_called_before_change", c.Pick(10000, 200000))
	c.Require("racing_waiters_called_after_change", c.Pick(10000, 200000))
	c.Require("stress_runs_race_build", c.Pick(200, 3000))
	cpus := min(runtime.NumCPU(), 4)
	for _, t := range []string{"starving", "dag"} {
		c.Require("mutex_racing_rounds:"+t, c.Pick(7000, 120000))
	}
	c.Require("mutex_racing_rounds_debug_mode", c.Pick(5000, 70000))
	c.Require("mutex_racing_rounds_race_build", c.Pick(3000, 40000))
	c.Require("mutex_racing_rounds_mode:parkfirst", c.Pick(800, 16000))
	c.Require("mutex_racing_rounds_with_acquire_in_flight_at_last_release", c.Pick(2000, 40000)*cpus/4)
	c.Require("mutex_racing_rounds_with_acquire_in_flight_at_last_release_debug_mode", c.Pick(1000, 30000)*cpus/4)
	c.Require("mutex_racing_releases_begun_while_conflicting_acquire_in_flight_debug_mode", c.Pick(1000, 30000)*cpus/4)
	c.Require("arrival_orders_debug_mode", c.Pick(2000, 40000))
	c.Require("parked_request_observations_debug_mode", c.Pick(2000, 40000))
	c.Require("stress_runs_debug_mode", c.Pick(70, 1800))
	c.Require("stress_grants_under_contention_debug_mode", c.Pick(1000, 40000)*cpus/4)
	c.Assume("a consistent runtime.Stack(all) snapshot in which every goroutine is parked on a sync primitive or channel (twice in a row, timer-free scenario) means no goroutine can ever run again")
	c.Assume("sync.Cond / sync.Mutex of the Go runtime are correct; Signal wakes the longest waiter")
}

func main() { vf.Main("C17", "exploration", run, child) }
