package main

import (
	"fmt"
	"math/rand"
	"runtime"
	"strings"
	"sync/atomic"

	"github.com/iotaledger/hive.go/runtime/syncutils"
)

// Racing family: N waiters are released from a barrier at the same moment as
// the single state change that makes their condition true and keeps it true
// (nothing happens afterwards), with read-lock contention and Gosched-only
// jitter. Once every other goroutine is gone or parked, a waiter still parked
// while the condition holds can never be woken: lost wake-up. This reaches
// check-then-park windows that "observe parked, then change" scenarios cannot.

var tick atomic.Uint64

func now() uint64 { return tick.Add(1) }

var racingPrims = []string{
	"counter/WaitIsZero", "counter/WaitIsBelow", "counter/WaitIsAbove",
	"stack/WaitIsEmpty", "stack/WaitSizeIsBelow", "stack/WaitSizeIsAbove", "stack/PopOrWait:shutdown", "stack/PopOrWait:push",
	// cross-primitive chains: the condition of the racing waiters becomes true only through the completion of
	// OTHER waiters that were parked before (woken PopOrWait consumers empty the stack, woken counter waiters move the value on)
	"chain/stack/PopOrWait->WaitIsEmpty", "chain/stack/PopOrWait->WaitSizeIsBelow",
	"chain/counter/WaitIsAbove+Decrease->WaitIsZero", "chain/counter/WaitIsZero+Increase->WaitIsAbove",
}

// raceCfg is one round (replay format).
type raceCfg struct {
	Seed       int64  `json:"seed"`
	Run        int    `json:"run"`
	Prim       string `json:"primitive"`
	Mode       string `json:"mode"` // race | pretrue | nevertrue
	N          int    `json:"waiters"`
	Contenders int    `json:"contenders"`
}

func genRace(seed int64, run int) raceCfg {
	rng := rand.New(rand.NewSource(seed*15485863 + int64(run)))
	c := raceCfg{Seed: seed, Run: run, Prim: racingPrims[run%len(racingPrims)]}
	switch k := rng.Intn(10); {
	case k == 0:
		c.Mode = "pretrue"
	case k == 1:
		c.Mode = "nevertrue"
	default:
		c.Mode = "race"
	}
	if strings.HasPrefix(c.Prim, "chain/") && c.Mode == "nevertrue" {
		c.Mode = "race" // without the change the chained conditions hold from the start
	}
	c.N = 4 + rng.Intn(13)
	c.Contenders = rng.Intn(5)
	return c
}

type raceResult struct {
	Cfg                    raceCfg   `json:"cfg"`
	Findings               []finding `json:"-"`
	Before, After, Overlap int       // waiters whose call started before / after / during the change (logical ticks)
	Returned, Parked       int       `json:"-"`
	Detail                 string    `json:"detail,omitempty"`
}

type round struct {
	fp           string          // fingerprint prefix, e.g. stack/WaitSizeIsAbove
	wait         func(i int)     // the waiter call
	change       func()          // the single change that makes the condition true for good
	contend      func()          // read-only operation on the same object
	holds        func() string   // "" if the condition holds now, else a description
	expectReturn func(n int) int // how many of n waiters must return after the change (n, or 1 for one pushed element)
	pre          func()          // chains: starts the first-stage waiters (parked before the barrier opens)
	preLeft      func() int      // chains: first-stage waiters that have not completed
	release      func()          // wakes waiters that are legitimately still parked (clean-up, judged)
}

func makeRound(cfg raceCfg, rng *rand.Rand) *round {
	all := func(n int) int { return n }
	if strings.HasPrefix(cfg.Prim, "chain/") {
		return makeChain(cfg, rng, all)
	}
	switch cfg.Prim {
	case "counter/WaitIsZero", "counter/WaitIsBelow", "counter/WaitIsAbove":
		c := syncutils.NewCounter()
		if rng.Intn(2) == 0 {
			c.Subscribe(func(o, n int) {
				if n&1 == 0 {
					runtime.Gosched() // inside the counter's critical section
				}
			})
		}
		t := rng.Intn(4)
		r := &round{fp: cfg.Prim, contend: func() { c.Get() }, expectReturn: all}
		useSet := rng.Intn(2) == 0
		switch cfg.Prim {
		case "counter/WaitIsZero":
			c.Set(1)
			r.wait = func(int) { c.WaitIsZero() }
			r.change = func() { c.Decrease() }
			if useSet {
				r.change = func() { c.Set(0) }
			}
			r.holds = func() string { return boolStr(c.Get() < 1, fmt.Sprintf("value %d", c.Get())) }
		case "counter/WaitIsBelow":
			c.Set(t)
			r.wait = func(int) { c.WaitIsBelow(t) }
			d := -1 - rng.Intn(2)
			r.change = func() { c.Update(d) }
			if useSet {
				r.change = func() { c.Set(t - 1) }
			}
			r.holds = func() string { return boolStr(c.Get() < t, fmt.Sprintf("value %d, threshold %d", c.Get(), t)) }
		default:
			c.Set(t)
			r.wait = func(int) { c.WaitIsAbove(t) }
			r.change = func() { c.Increase() }
			if useSet {
				r.change = func() { c.Set(t + 2) }
			}
			r.holds = func() string { return boolStr(c.Get() > t, fmt.Sprintf("value %d, threshold %d", c.Get(), t)) }
		}
		return r
	}
	s := syncutils.NewStack[int]()
	r := &round{fp: cfg.Prim, contend: func() { s.Size() }, expectReturn: all}
	switch cfg.Prim {
	case "stack/WaitIsEmpty":
		s.Push(1)
		r.wait = func(int) { s.WaitIsEmpty() }
		r.change = func() { s.Pop() }
		r.holds = func() string { return boolStr(s.Size() < 1, fmt.Sprintf("size %d", s.Size())) }
	case "stack/WaitSizeIsBelow":
		t := 1 + rng.Intn(3)
		for i := 0; i < t; i++ {
			s.Push(i)
		}
		r.wait = func(int) { s.WaitSizeIsBelow(t) }
		r.change = func() { s.Pop() }
		r.holds = func() string { return boolStr(s.Size() < t, fmt.Sprintf("size %d, threshold %d", s.Size(), t)) }
	case "stack/WaitSizeIsAbove":
		t := rng.Intn(3)
		for i := 0; i < t; i++ {
			s.Push(i)
		}
		r.wait = func(int) { s.WaitSizeIsAbove(t) }
		r.change = func() { s.Push(99) }
		r.holds = func() string { return boolStr(s.Size() > t, fmt.Sprintf("size %d, threshold %d", s.Size(), t)) }
	case "stack/PopOrWait:shutdown":
		var running atomic.Bool
		running.Store(true)
		r.fp = "stack/PopOrWait"
		r.wait = func(int) { s.PopOrWait(running.Load) }
		r.change = func() { running.Store(false); s.SignalShutdown() }
		r.holds = func() string { return boolStr(!running.Load(), "running still true") }
	default: // one element for many PopOrWait callers: exactly one must get it
		var running atomic.Bool
		running.Store(true)
		r.fp = "stack/PopOrWait"
		r.wait = func(int) { s.PopOrWait(running.Load) }
		r.change = func() { s.Push(7) }
		r.holds = func() string { return "" }
		r.expectReturn = func(n int) int { return min(n, 1) }
		r.release = func() { running.Store(false); s.SignalShutdown() }
	}
	return r
}

func boolStr(ok bool, what string) string {
	if ok {
		return ""
	}
	return what
}

func runRacing(cfg raceCfg) (res raceResult) {
	res.Cfg = cfg
	rng := rand.New(rand.NewSource(cfg.Seed*32452843 + int64(cfg.Run)*7 + 1))
	rd := makeRound(cfg, rng)
	start := make(chan struct{})
	var returned atomic.Int64
	callTick := make([]atomic.Uint64, cfg.N)
	var chg0, chg1 atomic.Uint64
	if rd.pre != nil {
		rd.pre()
		waitQuiescent() // every first-stage waiter is parked
	}
	if cfg.Mode == "pretrue" {
		rd.change()
		if rd.pre != nil {
			waitQuiescent()
		}
	}
	for i := 0; i < cfg.N; i++ {
		i, j := i, rng.Intn(6)
		go func() {
			<-start
			for k := 0; k < j; k++ {
				runtime.Gosched()
			}
			callTick[i].Store(now())
			rd.wait(i)
			returned.Add(1)
		}()
	}
	if cfg.Mode == "race" {
		j := rng.Intn(6)
		go func() {
			<-start
			for k := 0; k < j; k++ {
				runtime.Gosched()
			}
			chg0.Store(now())
			rd.change()
			chg1.Store(now())
		}()
	}
	for c := 0; c < cfg.Contenders; c++ {
		iters, every := 20+rng.Intn(120), 1+rng.Intn(4)
		go func() {
			<-start
			for k := 0; k < iters; k++ {
				rd.contend()
				if k%every == 0 {
					runtime.Gosched()
				}
			}
		}()
	}
	close(start)
	waitQuiescent() // changer and contenders are gone, every waiter has returned or is parked
	res.Returned = int(returned.Load())
	res.Parked = cfg.N - res.Returned
	if cfg.Mode == "race" {
		for i := range callTick {
			switch t := callTick[i].Load(); {
			case t < chg0.Load():
				res.Before++
			case t > chg1.Load():
				res.After++
			default:
				res.Overlap++
			}
		}
	}
	viol := func(fp, f string, a ...any) { res.Findings = append(res.Findings, finding{fp, fmt.Sprintf(f, a...)}) }
	lost := rd.fp + "/parked-although-condition-holds"
	if cfg.Prim == "stack/PopOrWait:shutdown" {
		lost = "stack/PopOrWait/lost-SignalShutdown-wakeup"
	} else if cfg.Prim == "stack/PopOrWait:push" {
		lost = "stack/PopOrWait/parked-although-element-available"
	}
	judgeTrue := func(when string) bool {
		if rd.preLeft != nil {
			if n := rd.preLeft(); n > 0 {
				viol(rd.fp+"/first-stage-waiter-parked", "chain round (%s, %s): %d first-stage waiter(s) are parked for ever although the change that satisfies them has happened", cfg.Prim, when, n)
				return false
			}
		}
		if why := rd.holds(); why != "" {
			viol(rd.fp+"/racing-harness-condition-not-established", "%s: %s", when, why)
			return false
		}
		want := rd.expectReturn(cfg.N)
		if got := int(returned.Load()); got < want {
			viol(lost, "racing round (%s, %d waiters, %d contenders, %s): the condition holds for good and every other goroutine is gone, but %d waiter(s) are parked for ever (arrived before/during/after the change: %d/%d/%d)", cfg.Prim, cfg.N, cfg.Contenders, when, want-got, res.Before, res.Overlap, res.After)
			return false
		} else if got > want {
			viol(rd.fp+"/returned-without-condition", "racing round (%s): %d waiters returned, at most %d can have been satisfied", cfg.Prim, got, want)
			return false
		}
		return true
	}
	switch cfg.Mode {
	case "race":
		if !judgeTrue("change raced with the waiters' calls") {
			return
		}
	case "pretrue":
		if !judgeTrue("condition made true before the calls") {
			return
		}
	case "nevertrue":
		if n := int(returned.Load()); n > 0 {
			viol(rd.fp+"/returned-without-condition", "racing round (%s): %d of %d waiters returned although the condition has never held", cfg.Prim, n, cfg.N)
			return
		}
		rd.change()
		waitQuiescent()
		if !judgeTrue("condition made true after all waiters had parked") {
			return
		}
	}
	if rd.release != nil {
		rd.release()
		waitQuiescent()
		if int(returned.Load()) != cfg.N {
			viol("stack/PopOrWait/lost-SignalShutdown-wakeup", "racing round (%s): after running=false + SignalShutdown() %d waiter(s) stay parked", cfg.Prim, cfg.N-int(returned.Load()))
		}
	}
	return
}

// makeChain builds a cross-primitive round: m first-stage waiters are parked
// before the barrier; the single harness-side change wakes them, and it is
// THEIR completion (removing the elements / moving the counter on) that makes
// the condition of the N racing second-stage waiters true for good.
func makeChain(cfg raceCfg, rng *rand.Rand, all func(int) int) *round {
	m := 1 + rng.Intn(4)
	if cfg.Prim == "chain/counter/WaitIsZero+Increase->WaitIsAbove" {
		m = 1 // the first Increase makes the first-stage condition false again: only one first-stage waiter can complete
	}
	var left atomic.Int64
	left.Store(int64(m))
	r := &round{expectReturn: all, preLeft: func() int { return int(left.Load()) }}
	switch cfg.Prim {
	case "chain/stack/PopOrWait->WaitIsEmpty", "chain/stack/PopOrWait->WaitSizeIsBelow":
		s := syncutils.NewStack[int]()
		var running atomic.Bool
		running.Store(true)
		t := 1
		r.fp = "stack/WaitIsEmpty"
		r.wait = func(int) { s.WaitIsEmpty() }
		if cfg.Prim == "chain/stack/PopOrWait->WaitSizeIsBelow" {
			t = 1 + rng.Intn(m)
			r.fp = "stack/WaitSizeIsBelow"
			r.wait = func(int) { s.WaitSizeIsBelow(t) }
		}
		r.pre = func() {
			for i := 0; i < m; i++ {
				go func() {
					s.PopOrWait(running.Load) // consumer: parked on the empty stack, takes one element when woken
					left.Add(-1)
				}()
			}
		}
		r.change = func() {
			for i := 0; i < m; i++ {
				s.Push(i)
			}
		}
		r.contend = func() { s.Size() }
		r.holds = func() string { return boolStr(s.Size() < t, fmt.Sprintf("size %d, threshold %d", s.Size(), t)) }
	case "chain/counter/WaitIsAbove+Decrease->WaitIsZero":
		c := syncutils.NewCounter()
		r.fp = "counter/WaitIsZero"
		r.wait = func(int) { c.WaitIsZero() }
		r.pre = func() {
			for i := 0; i < m; i++ {
				go func() {
					c.WaitIsAbove(0)
					c.Decrease()
					left.Add(-1)
				}()
			}
		}
		r.change = func() { c.Update(m) }
		r.contend = func() { c.Get() }
		r.holds = func() string { return boolStr(c.Get() < 1, fmt.Sprintf("value %d", c.Get())) }
	default: // chain/counter/WaitIsZero+Increase->WaitIsAbove
		c := syncutils.NewCounter()
		c.Set(1)
		r.fp = "counter/WaitIsAbove"
		r.wait = func(int) { c.WaitIsAbove(0) }
		r.pre = func() {
			for i := 0; i < m; i++ {
				go func() {
					c.WaitIsZero()
					c.Increase()
					left.Add(-1)
				}()
			}
		}
		r.change = func() { c.Decrease() }
		r.contend = func() { c.Get() }
		r.holds = func() string { return boolStr(c.Get() > 0, fmt.Sprintf("value %d", c.Get())) }
	}
	return r
}
