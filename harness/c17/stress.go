package main

import (
	"fmt"
	"math/rand"
	"runtime"
	"sort"
	"strings"
	"sync/atomic"

	"github.com/iotaledger/hive.go/runtime/syncutils"
	"verif/harness/internal/gdump"
)

// stressCfg: one free-running contention run (replay format).
type stressCfg struct {
	Kind  string `json:"kind"` // starving | dag | counter | stack
	Seed  int64  `json:"seed"`
	Run   int    `json:"run"`
	G     int    `json:"goroutines"`
	Iters int    `json:"iterations"`
	Ents  int    `json:"entities"`
}

func genStress(seed int64, run int) stressCfg {
	rng := rand.New(rand.NewSource(seed*104729 + int64(run)))
	c := stressCfg{Seed: seed, Run: run}
	c.Kind = []string{"starving", "dag", "counter", "stack"}[run%4]
	c.G = 4 + rng.Intn(13)
	c.Iters = 40 + rng.Intn(160)
	c.Ents = 1 + rng.Intn(3)
	return c
}

type stressResult struct {
	Cfg      stressCfg `json:"cfg"`
	Findings []finding `json:"-"`
	Grants   int64     `json:"grants"`
	Overlaps int64     `json:"grants_with_contention"` // grant observed while another request on the entity was in flight
	Stuck    []string  `json:"stuck,omitempty"`
}

// shadow holder set of one entity (atomics only)
type shadow struct {
	writers, readers atomic.Int32
	inflight         atomic.Int32
}

func spin(n int) {
	for i := 0; i < n; i++ {
		runtime.Gosched()
	}
}

func stuckStacks(gs []gdump.G, before map[uint64]bool, sub string) (out []string) {
	for _, g := range gs {
		if before[g.ID] || !g.Has(sub) {
			continue
		}
		n := min(6, len(g.Frames))
		var fr []string
		for _, f := range g.Frames[:n] {
			if i := strings.LastIndexByte(f, '/'); i >= 0 {
				f = f[i+1:]
			}
			fr = append(fr, f)
		}
		out = append(out, "["+g.State+"] "+strings.Join(fr, " < "))
	}
	sort.Strings(out)
	if len(out) > 6 {
		out = out[:6]
	}
	return
}

func idSet(gs []gdump.G) map[uint64]bool {
	m := make(map[uint64]bool, len(gs))
	for _, g := range gs {
		m[g.ID] = true
	}
	return m
}

func runStress(cfg stressCfg) (res stressResult) {
	res.Cfg = cfg
	before := idSet(gdump.Snapshot())
	var left atomic.Int64
	left.Store(int64(cfg.G))
	var bad atomic.Pointer[finding]
	report := func(fp, f string, a ...any) {
		bad.CompareAndSwap(nil, &finding{fp, fmt.Sprintf(f, a...)})
	}
	var grants, overlaps atomic.Int64
	sh := make([]shadow, 3)
	wGrant := func(e int) {
		s := &sh[e]
		if w := s.writers.Add(1); w != 1 {
			report("exclusion/write-lock-granted-while-conflicting-lock-held", "stress: write lock on entity %d granted while %d other writer(s) hold it", e, w-1)
		}
		if r := s.readers.Load(); r != 0 {
			report("exclusion/write-lock-granted-while-conflicting-lock-held", "stress: write lock on entity %d granted while %d reader(s) hold it", e, r)
		}
		grants.Add(1)
		if s.inflight.Load() > 1 {
			overlaps.Add(1)
		}
	}
	rGrant := func(e int) {
		s := &sh[e]
		s.readers.Add(1)
		if w := s.writers.Load(); w != 0 {
			report("exclusion/read-lock-granted-while-conflicting-lock-held", "stress: read lock on entity %d granted while a writer holds it", e)
		}
		grants.Add(1)
		if s.inflight.Load() > 1 {
			overlaps.Add(1)
		}
	}
	fin := func() { left.Add(-1) }

	switch cfg.Kind {
	case "starving":
		ms := make([]*syncutils.StarvingMutex, cfg.Ents)
		for i := range ms {
			ms[i] = syncutils.NewStarvingMutex()
		}
		for g := 0; g < cfg.G; g++ {
			rng := rand.New(rand.NewSource(cfg.Seed*7 + int64(cfg.Run)*1009 + int64(g)))
			go func() {
				defer fin()
				for i := 0; i < cfg.Iters; i++ {
					e := rng.Intn(cfg.Ents)
					m := ms[e]
					sh[e].inflight.Add(1)
					if rng.Intn(3) == 0 {
						m.Lock()
						wGrant(e)
						spin(rng.Intn(3))
						sh[e].writers.Add(-1)
						m.Unlock()
					} else {
						m.RLock()
						rGrant(e)
						spin(rng.Intn(3))
						sh[e].readers.Add(-1)
						m.RUnlock()
					}
					sh[e].inflight.Add(-1)
					spin(rng.Intn(2))
				}
			}()
		}
	case "dag":
		dm := syncutils.NewDAGMutex[int]()
		ents := max(cfg.Ents, 2)
		for g := 0; g < cfg.G; g++ {
			rng := rand.New(rand.NewSource(cfg.Seed*7 + int64(cfg.Run)*1009 + int64(g)))
			go func() {
				defer fin()
				for i := 0; i < cfg.Iters; i++ {
					a := rng.Intn(ents)
					b := rng.Intn(ents)
					if a > b {
						a, b = b, a
					}
					sh[a].inflight.Add(1)
					switch k := rng.Intn(6); {
					case k == 0: // single write lock
						dm.Lock(a)
						wGrant(a)
						spin(rng.Intn(3))
						sh[a].writers.Add(-1)
						dm.Unlock(a)
					case k == 1 && a != b: // nested write locks along the order a < b
						dm.Lock(a)
						wGrant(a)
						dm.Lock(b)
						wGrant(b)
						spin(rng.Intn(2))
						sh[b].writers.Add(-1)
						dm.Unlock(b)
						sh[a].writers.Add(-1)
						dm.Unlock(a)
					case k == 2 && a != b: // read a, write b
						dm.RLock(a)
						rGrant(a)
						dm.Lock(b)
						wGrant(b)
						sh[b].writers.Add(-1)
						dm.Unlock(b)
						sh[a].readers.Add(-1)
						dm.RUnlock(a)
					case k == 3 && a != b: // multi-entity read lock in order
						dm.RLock(a, b)
						rGrant(a)
						rGrant(b)
						spin(rng.Intn(2))
						sh[a].readers.Add(-1)
						sh[b].readers.Add(-1)
						dm.RUnlock(a, b)
					default:
						dm.RLock(a)
						rGrant(a)
						spin(rng.Intn(3))
						sh[a].readers.Add(-1)
						dm.RUnlock(a)
					}
					sh[a].inflight.Add(-1)
				}
			}()
		}
	case "counter":
		// every goroutine does Iters (+1, ..., -1) balanced updates; waiters wait for thresholds that the final
		// value 0 satisfies permanently, so all of them must have returned at quiescence
		c := syncutils.NewCounter()
		var waitersLeft atomic.Int64
		nw := 1 + cfg.Ents*2
		waitersLeft.Store(int64(nw))
		for w := 0; w < nw; w++ {
			w := w
			rng := rand.New(rand.NewSource(cfg.Seed*11 + int64(cfg.Run)*17 + int64(w)))
			go func() {
				defer waitersLeft.Add(-1)
				for i := 0; i < cfg.Iters/4+1; i++ {
					switch w % 3 {
					case 0:
						c.WaitIsZero()
					case 1:
						c.WaitIsBelow(1 + rng.Intn(3))
					default:
						c.WaitIsAbove(-1 - rng.Intn(2))
					}
					grants.Add(1)
					spin(rng.Intn(4))
				}
			}()
		}
		for g := 0; g < cfg.G; g++ {
			rng := rand.New(rand.NewSource(cfg.Seed*7 + int64(cfg.Run)*1009 + int64(g)))
			go func() {
				defer fin()
				for i := 0; i < cfg.Iters; i++ {
					d := 1 + rng.Intn(2)
					if rng.Intn(2) == 0 {
						c.Update(d)
					} else {
						for k := 0; k < d; k++ {
							c.Increase()
						}
					}
					spin(rng.Intn(3))
					if rng.Intn(2) == 0 {
						c.Update(-d)
					} else {
						for k := 0; k < d; k++ {
							c.Decrease()
						}
					}
				}
			}()
		}
		gs := waitQuiescent()
		if left.Load() != 0 {
			res.Stuck = stuckStacks(gs, before, "hive.go/runtime/syncutils.")
			res.Findings = append(res.Findings, finding{"counter/update-blocked", fmt.Sprintf("stress: %d updater goroutine(s) parked for ever: %v", left.Load(), res.Stuck)})
		} else if v := c.Get(); v != 0 {
			res.Findings = append(res.Findings, finding{"counter/value-mismatch", fmt.Sprintf("stress: balanced updates leave the counter at %d", v)})
		} else if n := waitersLeft.Load(); n != 0 {
			res.Stuck = stuckStacks(gs, before, "hive.go/runtime/syncutils.")
			res.Findings = append(res.Findings, finding{"counter/wait/parked-although-condition-holds", fmt.Sprintf("stress: the counter is 0 for good but %d waiter(s) (WaitIsZero / WaitIsBelow(>=1) / WaitIsAbove(<0)) are parked for ever: %v", n, res.Stuck)})
		}
		res.Grants = grants.Load()
		return
	case "stack":
		// producers push unique elements, consumers PopOrWait(running); at the end running=false + SignalShutdown:
		// every consumer must return and every element must have been delivered exactly once or still be in the stack
		s := syncutils.NewStack[int]()
		var running atomic.Bool
		running.Store(true)
		total := cfg.G * cfg.Iters
		seen := make([]atomic.Int32, total)
		nc := 1 + cfg.Ents*2
		var consLeft atomic.Int64
		consLeft.Store(int64(nc))
		for k := 0; k < nc; k++ {
			go func() {
				defer consLeft.Add(-1)
				for {
					e, ok := s.PopOrWait(running.Load)
					if !ok {
						return
					}
					if seen[e].Add(1) != 1 {
						report("stack/PopOrWait/returned-unknown-or-duplicate-element", "stress: element %d delivered twice", e)
					}
					grants.Add(1)
				}
			}()
		}
		for g := 0; g < cfg.G; g++ {
			g := g
			rng := rand.New(rand.NewSource(cfg.Seed*7 + int64(cfg.Run)*1009 + int64(g)))
			go func() {
				defer fin()
				for i := 0; i < cfg.Iters; i++ {
					s.Push(g*cfg.Iters + i)
					spin(rng.Intn(3))
				}
			}()
		}
		// a size waiter that the final state satisfies
		var emptyDone atomic.Bool
		go func() { s.WaitIsEmpty(); emptyDone.Store(true) }()
		// shutdown races with the consumers draining the last elements: no Push comes afterwards, so a
		// consumer that misses the SignalShutdown broadcast stays parked for ever
		go func() {
			for left.Load() != 0 {
				runtime.Gosched()
			}
			spin(int(cfg.Seed+int64(cfg.Run)) % 5)
			running.Store(false)
			s.SignalShutdown()
		}()
		gs := waitQuiescent()
		if left.Load() != 0 {
			res.Findings = append(res.Findings, finding{"stack/push-blocked", fmt.Sprintf("stress: producers parked for ever: %v", stuckStacks(gs, before, "hive.go/runtime/syncutils."))})
			return
		}
		if n := consLeft.Load(); n != 0 {
			res.Stuck = stuckStacks(gs, before, "hive.go/runtime/syncutils.")
			res.Findings = append(res.Findings, finding{"stack/PopOrWait/lost-SignalShutdown-wakeup", fmt.Sprintf("stress: running=false and SignalShutdown() called after the last Push, %d consumer(s) stay parked in PopOrWait: %v", n, res.Stuck)})
		}
		// drain what the consumers left behind: every element exactly once, then WaitIsEmpty must return
		for {
			e, ok := s.Pop()
			if !ok {
				break
			}
			if seen[e].Add(1) != 1 {
				report("stack/PopOrWait/returned-unknown-or-duplicate-element", "stress: element %d delivered twice", e)
			}
		}
		waitQuiescent()
		delivered := 0
		for i := range seen {
			delivered += int(seen[i].Load())
		}
		if delivered != total {
			res.Findings = append(res.Findings, finding{"stack/element-lost", fmt.Sprintf("stress: %d of %d pushed elements were delivered", delivered, total)})
		} else if !emptyDone.Load() {
			res.Findings = append(res.Findings, finding{"stack/WaitIsEmpty/parked-although-condition-holds", "stress: the stack is empty for good but WaitIsEmpty() is parked for ever"})
		}
		if f := bad.Load(); f != nil {
			res.Findings = append(res.Findings, *f)
		}
		res.Grants = grants.Load()
		return
	}
	// mutex kinds: everybody must finish (well-formed lock/unlock pairs along an acyclic order)
	gs := waitQuiescent()
	if n := left.Load(); n != 0 {
		res.Stuck = stuckStacks(gs, before, "hive.go/runtime/syncutils.")
		held := ""
		for e := range sh {
			held += fmt.Sprintf(" e%d{w:%d r:%d}", e, sh[e].writers.Load(), sh[e].readers.Load())
		}
		res.Findings = append(res.Findings, finding{"lost-wakeup/stress-goroutines-parked-for-ever", fmt.Sprintf("stress (%s): %d goroutine(s) parked for ever in lock operations; shadow holders:%s; %v", cfg.Kind, n, held, res.Stuck)})
	}
	if f := bad.Load(); f != nil {
		res.Findings = append(res.Findings, *f)
	}
	res.Grants, res.Overlaps = grants.Load(), overlaps.Load()
	return
}
