// Workload disciplines for C04 (see harness/DISCIPLINES.md): the caller of the
// store is not polite.
//
//  1. Held results and scribbling: every slice a Get returns and every key /
//     value an Iterate / IterateKeys consumer is handed is caller-owned. It is
//     either overwritten at once over its whole capacity (append within
//     capacity) and appended to beyond it, or kept untouched together with a
//     deep copy, compared after every following library call (and in every
//     following consumer invocation) and scribbled a few steps later; the
//     ordinary oracle then judges the store against the model. Argument
//     buffers of every operation are scribbled and recycled once the call has
//     returned.
//  2. Re-entrant user code: iteration consumers (and the debug wrapper's access
//     callback) call back into the store at the moment they are invoked – every
//     operation kind, on the iterated view, on parents, children and siblings,
//     through the wrappers, nested iterations with consumers that write again.
//     On the unchanged tree no lock is held while user code runs, so every such
//     call returns; the iteration delivers the entries that were present when
//     it started (snapshot), everything else sees the consumer's writes at once.
//     A call that never returns is decided by the Go runtime's dead-lock
//     detector: these histories run single-goroutine in a plain-build,
//     timer-free child process.
//  3. User code that panics: the consumer panics in its n-th invocation, the
//     debug callback panics before the call is forwarded; the harness recovers
//     and the history goes on with the same store (a lock left behind blocks the
//     next call → runtime dead-lock detector; the model knows what the aborted
//     call delivered). After a panicking debug callback the caller simply
//     retries the (idempotent) call, so the verdict does not depend on whether
//     the callback runs before or after the forwarded call.
package main

import (
	"bytes"
	"encoding/json"
	"fmt"
	"io"
	"os"
	"runtime"
	"strconv"
	"strings"
	"time"

	"github.com/iotaledger/hive.go/kvstore/debug"
	"verif/harness/internal/kvmodel"
	"verif/harness/internal/vf"
)

// userPanic is what the harness's user code panics with.
type userPanic struct{}

type heldRes struct {
	b    []byte // the slice the library handed out, extended to its capacity
	n    int    // its length
	want []byte // deep copy of b[:n] taken when it was handed out
	op   string
	what string
	left int // steps until it is scribbled
}

// disciplines is the part of the runner state that belongs to this file.
type disciplines struct {
	disc     bool // discipline history (runs in a child process)
	trace    func(kind string, v any)
	depth    int
	hook     func() // runs inside the next debug callback
	panicked bool   // guard caught the harness's own userPanic
	held     []*heldRes
	outer    []int // view indices of the operations whose user code is running
	sinceUP  int   // operations left to count as "use after a user panic"
}

// d counts into the discipline evidence.
func (r *runner) d(name string, n int) {
	if r.st.disc == nil {
		r.st.disc = map[string]int{}
	}
	r.st.disc[name] += n
}

// keep takes ownership of a slice the library returned or handed to a consumer.
func (r *runner) keep(op, what string, b []byte, hold int) {
	if b == nil {
		return
	}
	if hold <= 0 {
		r.scribbleOwned(b)
		return
	}
	r.held = append(r.held, &heldRes{b: b[:cap(b)], n: len(b), want: append([]byte{}, b...), op: op, what: what, left: hold})
	r.d("results_held", 1)
}

// scribbleOwned overwrites a caller-owned result: all of it, its spare
// capacity (what an append within capacity does) and appends beyond capacity.
func (r *runner) scribbleOwned(b []byte) {
	if spare := cap(b) - len(b); spare > 0 {
		r.d("result_spare_capacity_bytes_overwritten", spare)
	}
	r.st.scribbles += scribble(b)
	if r.disc {
		b = append(b[:cap(b)], scribbleByte, scribbleByte) // beyond capacity: a new array, nothing of the library's
		r.d("result_appends_beyond_capacity", 1)
		_ = b
	}
}

// checkHeld compares every kept result with its copy.
func (r *runner) checkHeld(op string) {
	for _, h := range r.held {
		r.d("held_results_rechecked", 1)
		if !bytes.Equal(h.b[:h.n], h.want) {
			r.failf(h.op+"/held-result-changed", "the %s that %s handed to the caller read %s; after %s it reads %s although the caller did not touch it (not a private copy)", h.what, h.op, q(h.want), op, q(h.b[:h.n]))
			copy(h.want, h.b[:h.n])
		}
	}
}

// ageHeld runs at the end of every top-level step.
func (r *runner) ageHeld() {
	keep := r.held[:0]
	for _, h := range r.held {
		h.left--
		if h.left > 0 {
			keep = append(keep, h)
			continue
		}
		r.d("held_results_scribbled_later", 1)
		r.scribbleOwned(h.b[:h.n])
	}
	r.held = keep
}

func (r *runner) userPanic(where string) {
	r.d("user_panics:"+where, 1)
	r.sinceUP = 6
	if r.trace != nil {
		r.trace("upanic", where)
	}
}

var opNames = map[string]string{"get": "Get", "has": "Has", "set": "Set", "delete": "Delete", "deleteprefix": "DeletePrefix", "clear": "Clear",
	"iterate": "Iterate", "iteratekeys": "IterateKeys", "newview": "WithRealm", "newbatch": "Batched", "bset": "batch.Set", "bdel": "batch.Delete",
	"commit": "batch.Commit", "cancel": "batch.Cancel", "realm": "Realm", "flush": "Flush", "close": "Close"}

func hookable(op string) bool {
	switch op {
	case "get", "has", "set", "delete", "deleteprefix", "clear", "bset", "bdel":
		return true
	}
	return false
}

// exec executes one step (top-level or made by user code).
func (r *runner) exec(s Step) {
	base := len(r.opBufs)
	if r.depth == 0 {
		r.opBufs = r.opBufs[:0]
		base = 0
	}
	if r.sinceUP > 0 {
		r.sinceUP--
		r.d("operations_after_user_panic", 1)
	}
	if hookable(s.Op) && (len(s.Sub) > 0 || s.Panic > 0) && !r.m.Closed {
		r.hook = func() { r.debugCallbackCalls(s) }
	}
	r.exec1(s)
	r.hook = nil
	if r.panicked {
		// the debug callback panicked: the caller recovers and issues the same call again
		r.panicked = false
		r.log = nil
		r.userPanic("debug-callback")
		retry := s
		retry.Sub, retry.Panic = nil, 0
		r.st.evals++
		r.exec1(retry)
	}
	if r.disc {
		// the argument buffers belong to the caller again
		for _, g := range r.opBufs[base:] {
			if !g.pooled && !r.persisted(g) {
				r.release(g)
				r.d("argument_buffers_recycled", 1)
			}
		}
	}
	r.opBufs = r.opBufs[:base]
	if r.depth == 0 {
		r.ageHeld()
		r.stepNo++
	}
}

func (r *runner) persisted(g *gbuf) bool {
	for _, p := range r.persist {
		if p == g {
			return true
		}
	}
	return false
}

func relation(outer, inner *view, same bool) string {
	switch {
	case same:
		return "same-view"
	case outer.realm == inner.realm:
		return "same-realm-other-view"
	case strings.HasPrefix(outer.realm, inner.realm):
		return "parent"
	case strings.HasPrefix(inner.realm, outer.realm):
		return "child"
	}
	return "sibling"
}

// nested executes the calls user code makes while the library is inside outer.
func (r *runner) nested(where string, outer Step, at int) {
	var subs []Step
	for _, x := range outer.Sub {
		if x.At == at {
			subs = append(subs, x)
		}
	}
	if len(subs) == 0 {
		return
	}
	saved := r.log
	hook := r.hook
	r.hook = nil
	ov := outer.V
	if outer.Op == "bset" || outer.Op == "bdel" {
		if outer.B >= 0 && outer.B < len(r.batches) {
			ov = r.batches[outer.B].view
		}
	}
	r.outer = append(r.outer, ov)
	r.depth++
	for _, x := range subs {
		if r.fail != nil {
			break
		}
		rel := "-"
		if x.V >= 0 && x.V < len(r.views) && ov < len(r.views) {
			rel = relation(r.views[ov], r.views[x.V], ov == x.V)
			if x.Op == "bset" || x.Op == "bdel" || x.Op == "commit" || x.Op == "cancel" {
				rel = "batch"
			}
		}
		r.d("reentrant_calls", 1)
		r.d("reentrant:"+where+":"+opNames[x.Op], 1)
		r.d("reentrant_target:"+rel, 1)
		if r.depth > 1 {
			r.d("reentrant_calls_depth2", 1)
		}
		if r.trace != nil {
			r.trace("nest", map[string]string{"outer": opNames[outer.Op], "where": where, "inner": opNames[x.Op], "rel": rel})
		}
		r.st.evals++
		r.exec(x)
		if r.trace != nil {
			r.trace("back", nil)
		}
	}
	r.depth--
	r.outer = r.outer[:len(r.outer)-1]
	r.log = saved
	r.hook = hook
}

// consumerCalls is what an iteration consumer does in its n-th invocation
// besides recording what it was handed.
func (r *runner) consumerCalls(name string, s Step, n int, snapshot []kvmodel.KV) {
	if len(s.Sub) == 0 && s.Panic == 0 {
		return
	}
	if n <= len(snapshot) && s.V < len(r.views) {
		// does the entry delivered now still look like that in the store? (the snapshot rule is exercised)
		e := snapshot[n-1]
		if cur, ok := r.m.Get(r.views[s.V].realm, e.K); !ok || cur != e.V {
			r.d("deliveries_of_entries_the_consumer_had_changed", 1)
		}
	}
	r.nested(name+"-consumer", s, n)
	if s.Panic == n {
		panic(userPanic{})
	}
}

// debugCallbackCalls runs inside the first debug callback of a call.
func (r *runner) debugCallbackCalls(s Step) {
	r.nested("debug-callback", s, 0)
	if s.Panic > 0 {
		panic(userPanic{})
	}
}

func describeUser(r *runner, s Step) string {
	if len(s.Sub) == 0 && s.Panic == 0 && s.Hold == 0 {
		return ""
	}
	var b strings.Builder
	b.WriteString(" {")
	if s.Hold > 0 {
		fmt.Fprintf(&b, "results kept %d steps; ", s.Hold)
	}
	for _, x := range s.Sub {
		who := fmt.Sprintf("consumer call %d", x.At)
		if x.At == 0 {
			who = "debug callback"
		}
		fmt.Fprintf(&b, "%s: %s; ", who, describe(r, x))
	}
	if s.Panic > 0 {
		if s.Op == "iterate" || s.Op == "iteratekeys" {
			fmt.Fprintf(&b, "consumer panics in call %d", s.Panic)
		} else {
			b.WriteString("debug callback panics, the call is retried")
		}
	}
	b.WriteString("}")
	return b.String()
}

// ---------------------------------------------------------------- generator

// fires reports whether a call of command cmd through view v reaches a debug callback.
func fires(v *view, cmd debug.Command) bool {
	for _, l := range v.layers {
		if l.kind == "debug" && !l.nil_ && l.mask&cmd != 0 {
			return true
		}
	}
	return false
}

var opCmd = map[string]debug.Command{"get": debug.GetCommand, "has": debug.HasCommand, "set": debug.SetCommand, "delete": debug.DeleteCommand,
	"deleteprefix": debug.DeletePrefixCommand, "clear": debug.ClearCommand, "bset": debug.SetCommand, "bdel": debug.DeleteCommand}

// discipline decorates a generated step with what the user code does.
func (g *gen) discipline(s *Step, depth int) {
	rng, r := g.rng, g.r
	if s.V < 0 || s.V >= len(r.views) || r.m.Closed {
		return
	}
	v := r.views[s.V]
	switch s.Op {
	case "iterate", "iteratekeys":
		s.Hold = rng.Intn(4)
		n := 3
		if depth == 0 {
			n = len(r.m.Iterate(v.realm, string(s.K), false))
			if s.Stop > 0 && n > s.Stop {
				n = s.Stop
			}
		}
		if n == 0 || depth > 1 {
			return
		}
		if rng.Intn(10) < 7 {
			for at := 1; at <= n && at <= 4; at++ {
				if rng.Intn(2) == 0 {
					continue
				}
				for j, m := 0, 1+rng.Intn(2); j < m; j++ {
					for _, x := range g.sub(s.V, depth+1) {
						x.At = at
						s.Sub = append(s.Sub, x)
					}
				}
			}
		}
		if rng.Intn(7) == 0 {
			s.Panic = 1 + rng.Intn(min(n, 3))
		}
	case "get", "has", "set", "delete", "deleteprefix", "clear", "bset", "bdel":
		if s.Op == "get" {
			s.Hold = rng.Intn(4)
		}
		bv := v
		if s.Op == "bset" || s.Op == "bdel" {
			if s.B < 0 || s.B >= len(r.batches) {
				return
			}
			bv = r.views[r.batches[s.B].view]
		}
		if depth > 1 || !fires(bv, opCmd[s.Op]) {
			return
		}
		if depth == 0 && rng.Intn(5) == 0 {
			// calls from the debug callback (top-level steps only: the model at hand is the state they will meet): chosen so that they commute with the call itself (the
			// statement does not say whether the callback sees the state before or after it)
			for j, m := 0, 1+rng.Intn(2); j < m; j++ {
				for try := 0; try < 4; try++ {
					x := g.simpleSub(s.V)
					if g.commutes(*s, append(append([]Step{}, s.Sub...), x)) {
						s.Sub = append(s.Sub, x)
						break
					}
				}
			}
		}
		if rng.Intn(10) == 0 {
			s.Panic = 1
		}
	}
}

func (g *gen) subView(outerV int) int {
	if g.rng.Intn(5) < 3 {
		return outerV
	}
	return g.rng.Intn(len(g.r.views))
}

// simpleSub is one call without user code of its own.
func (g *gen) simpleSub(outerV int) Step {
	rng, r := g.rng, g.r
	x := Step{V: g.subView(outerV)}
	v := r.views[x.V]
	switch k := rng.Intn(20); {
	case k < 4:
		x.Op = "get"
	case k < 6:
		x.Op = "has"
	case k < 12:
		x.Op = "set"
	case k < 15:
		x.Op = "delete"
	case k < 17:
		x.Op = "deleteprefix"
	case k < 18:
		x.Op = "clear"
	case k < 19:
		x.Op = "iterate"
	default:
		x.Op = "iteratekeys"
	}
	switch x.Op {
	case "get", "has", "delete":
		x.K = g.key(v)
	case "set":
		x.K, x.Val = g.key(v), g.value()
		x.VM = g.mode(x.Val)
	case "deleteprefix":
		x.K = g.prefix(v)
	case "iterate", "iteratekeys":
		x.K = g.prefix(v)
		if rng.Intn(2) == 0 {
			x.K = []byte{}
		}
		x.Dir = rng.Intn(3)
		if rng.Intn(3) == 0 {
			x.Stop = 1 + rng.Intn(3)
		}
	}
	if x.Op == "get" {
		x.Hold = rng.Intn(3)
	}
	x.KM = g.mode(x.K)
	return x
}

// sub generates one thing an iteration consumer does: a single call (possibly
// with user code of its own), a whole batch cycle, an operation on a batch that
// is open, or a new view.
func (g *gen) sub(outerV, depth int) []Step {
	rng, r := g.rng, g.r
	switch k := rng.Intn(20); {
	case k < 14:
		x := g.simpleSub(outerV)
		if depth < 2 {
			g.discipline(&x, depth)
		}
		return []Step{x}
	case k < 17:
		// Batched + Set/Delete + Commit
		v := g.subView(outerV)
		out := []Step{{Op: "newbatch", V: v}}
		for j, m := 0, 1+rng.Intn(3); j < m; j++ {
			x := Step{Op: "bset", V: v, B: -1, K: g.key(r.views[v])}
			if rng.Intn(3) == 0 {
				x.Op = "bdel"
			} else {
				x.Val = g.value()
				x.VM = g.mode(x.Val)
			}
			x.KM = g.mode(x.K)
			out = append(out, x)
		}
		fin := Step{Op: "commit", V: v, B: -1}
		if rng.Intn(5) == 0 {
			fin.Op = "cancel"
		}
		return append(out, fin)
	case k < 19:
		// an operation on a batch opened earlier by the history
		var open []int
		for i, b := range r.batches {
			if !b.done {
				open = append(open, i)
			}
		}
		if len(open) == 0 {
			return []Step{g.simpleSub(outerV)}
		}
		b := open[rng.Intn(len(open))]
		bv := r.batches[b].view
		x := Step{V: bv, B: b}
		switch rng.Intn(4) {
		case 0:
			x.Op, x.K, x.Val = "bset", g.key(r.views[bv]), g.value()
			x.KM, x.VM = g.mode(x.K), g.mode(x.Val)
		case 1:
			x.Op, x.K = "bdel", g.key(r.views[bv])
			x.KM = g.mode(x.K)
		default:
			x.Op, x.Keep = "commit", true
		}
		return []Step{x}
	}
	if len(r.views) >= 12 {
		return []Step{g.simpleSub(outerV)}
	}
	x := Step{Op: "newview", V: g.subView(outerV), Ext: rng.Intn(2) == 0, K: []byte(g.word())}
	x.KM = g.mode(x.K)
	return []Step{x}
}

// evalModel applies a simple call to a model and renders its result.
func (g *gen) evalModel(m *kvmodel.Model, s Step) string {
	if s.V < 0 || s.V >= len(g.r.views) {
		return ""
	}
	realm := g.r.views[s.V].realm
	switch s.Op {
	case "get":
		v, ok := m.Get(realm, string(s.K))
		return fmt.Sprintf("%q %v", v, ok)
	case "has":
		return fmt.Sprint(m.Has(realm, string(s.K)))
	case "set":
		m.Set(realm, string(s.K), string(s.Val))
	case "delete":
		m.Delete(realm, string(s.K))
	case "deleteprefix":
		m.DeletePrefix(realm, string(s.K))
	case "clear":
		m.Clear(realm)
	case "iterate", "iteratekeys":
		l := m.Iterate(realm, string(s.K), s.Dir == 2)
		if s.Stop > 0 && len(l) > s.Stop {
			l = l[:s.Stop]
		}
		if s.Op == "iteratekeys" {
			for i := range l {
				l[i].V = ""
			}
		}
		return fmtKV(l)
	}
	return "" // batch.Set / batch.Delete do not touch the store
}

// commutes: running subs before outer gives the same results and the same
// final state as running them after it.
func (g *gen) commutes(outer Step, subs []Step) bool {
	a, b := g.r.m.Clone(), g.r.m.Clone()
	var ra, rb []string
	for _, x := range subs {
		ra = append(ra, g.evalModel(a, x))
	}
	ra = append(ra, g.evalModel(a, outer))
	ro := g.evalModel(b, outer)
	for _, x := range subs {
		rb = append(rb, g.evalModel(b, x))
	}
	rb = append(rb, ro)
	return a.Canon() == b.Canon() && strings.Join(ra, "\x00") == strings.Join(rb, "\x00")
}

// ---------------------------------------------------------------- driver

type nestRec struct {
	Outer, Where, Inner, Rel string
}

// traceVerdict turns the records of a traced child that died into a fingerprint.
func traceVerdict(res vf.ChildResult) (steps []Step, fp, what string) {
	var stack []nestRec // calls made by user code that have not returned
	panicBefore := false
	for _, rec := range res.Records {
		switch rec.Kind {
		case "step":
			var s Step
			if json.Unmarshal(rec.V, &s) == nil {
				steps = append(steps, s)
			}
		case "nest":
			var n nestRec
			_ = json.Unmarshal(rec.V, &n)
			stack = append(stack, n)
		case "back":
			if len(stack) > 0 {
				stack = stack[:len(stack)-1]
			}
		case "upanic":
			panicBefore = true
		}
	}
	kind := "deadlock"
	if !res.Deadlock {
		kind = "fatal-error"
	}
	switch {
	case len(stack) > 0:
		nest := stack[len(stack)-1]
		fp = fmt.Sprintf("reentrant/%s/%s/%s", nest.Outer, nest.Inner, kind)
		what = fmt.Sprintf("%s called from the %s of %s (target: %s) never returns", nest.Inner, nest.Where, nest.Outer, nest.Rel)
	case len(steps) > 0:
		op := opNames[steps[len(steps)-1].Op]
		fp = op + "/" + kind
		what = op + " never returns"
		if panicBefore {
			fp = "after-user-panic/" + fp
			what += " (user code panicked during an earlier call of this history and was recovered)"
		}
	default:
		fp, what = kind, "the process stopped before the first step"
	}
	if res.Deadlock {
		what += ": single-goroutine history, the Go runtime reports that all goroutines are asleep (the call waits for a lock its own caller holds)"
	} else {
		what += ": " + res.Fatal
	}
	if n := len(steps); n > 0 {
		what = fmt.Sprintf("step %d (%s): %s", n-1, steps[n-1].Text, what)
	}
	return steps, fp, what
}

const discStream = "disc/%d"

// runDisc is the parent side of the discipline histories.
func runDisc(c *vf.Ctx) {
	nHist := c.Pick(12000, 240000)
	nSteps := c.Pick(40, 50)
	per := c.Pick(500, 4000)
	nRanges := (nHist + per - 1) / per
	workers := min(runtime.NumCPU(), 8)
	vf.Parallel(nRanges, workers, func(ri int) {
		from, to := ri*per, min((ri+1)*per, nHist)
		for restarts := 0; from < to && restarts < 3; restarts++ {
			res := c.RunChild(vf.ChildOpts{Name: "disc", Args: []string{strconv.Itoa(from), strconv.Itoa(to), strconv.Itoa(nSteps)}, Timeout: 10 * time.Minute})
			if res.ExitCode == 0 && !res.TimedOut {
				return
			}
			h, err := strconv.Atoi(strings.TrimPrefix(res.LastMark, "h="))
			if res.TimedOut || err != nil || (!res.Deadlock && res.Fatal == "") {
				c.Inconclusive(fmt.Sprintf("discipline child for histories %d-%d ended abnormally (exit %d, timed out %v, last mark %q): %s", from, to, res.ExitCode, res.TimedOut, res.LastMark, res.Fatal))
				return
			}
			// history h killed the process: run it again, traced, to learn the steps
			tr := c.RunChild(vf.ChildOpts{Name: "disctrace", Args: []string{strconv.Itoa(h), strconv.Itoa(nSteps)}, Timeout: 2 * time.Minute})
			if tr.Deadlock != res.Deadlock || tr.ExitCode == 0 || tr.TimedOut {
				c.Inconclusive(fmt.Sprintf("discipline history %d killed its child (dead-lock %v, %s) but not the traced re-run", h, res.Deadlock, res.Fatal))
				return
			}
			steps, fp, what := traceVerdict(tr)
			c.Count("disc_histories_ended_by_process_death", 1)
			c.Violation(fp, fmt.Sprintf("discipline history %d %s", h, what), Case{Part: "disc", History: h, Steps: steps, Failed: what})
			from = h + 1
		}
	})
	c.Require("disc_histories", c.Pick(10000, 200000))
	c.Require("reentrant_calls", c.Pick(60000, 2000000))
	c.Require("reentrant:Iterate-consumer:Set", 3000)
	c.Require("reentrant:IterateKeys-consumer:Set", 3000)
	c.Require("reentrant:Iterate-consumer:batch.Commit", 500)
	c.Require("reentrant:Iterate-consumer:Iterate", 300)
	c.Require("reentrant:Iterate-consumer:Clear", 400)
	c.Require("reentrant:Iterate-consumer:WithRealm", 200)
	c.Require("reentrant:debug-callback:Set", 1000)
	c.Require("reentrant_target:same-view", 20000)
	c.Require("reentrant_target:parent", 1000)
	c.Require("reentrant_target:child", 1000)
	c.Require("reentrant_target:sibling", 1000)
	c.Require("reentrant_calls_depth2", 1200)
	c.Require("deliveries_of_entries_the_consumer_had_changed", 1500)
	c.Require("held_results_rechecked", 100000)
	c.Require("held_results_scribbled_later", 10000)
	c.Require("result_spare_capacity_bytes_overwritten", 10000)
	c.Require("user_panics:consumer", 3000)
	c.Require("user_panics:debug-callback", 3000)
	c.Require("operations_after_user_panic", 5000)
	c.Require("argument_buffers_recycled", 50000)
}

// replayDisc replays a discipline case in a child (it may dead-lock).
func replayDisc(c *vf.Ctx, cs Case) {
	in, _ := json.Marshal(cs.Steps)
	res := c.RunChild(vf.ChildOpts{Name: "discreplay", Stdin: in, Timeout: 2 * time.Minute})
	if res.ExitCode == 0 && !res.TimedOut {
		return
	}
	if res.TimedOut || (!res.Deadlock && res.Fatal == "") {
		c.Inconclusive(fmt.Sprintf("replay child ended abnormally (exit %d, timed out %v)", res.ExitCode, res.TimedOut))
		return
	}
	_, fp, what := traceVerdict(res)
	c.Violation(fp, what, cs)
}

func countDisc(c *vf.Ctx, st *stats) {
	c.Count("evaluations", st.evals)
	c.Count("disc_evaluations", st.evals)
	for k, n := range st.disc {
		c.Count(k, n)
	}
	c.Count("disc_scribbled_bytes", st.scribbles)
	c.Count("disc_early_stops", st.earlyStops)
	c.Count("disc_cross_view_reads", st.crossRealm)
	c.Count("disc_debug_callbacks_checked", st.dbgEvents)
	for k := range st.stacks {
		c.Distinct("disc_wrapper_stack", k)
	}
}

func child(c *vf.Ctx) {
	arg := func(i int) int {
		if i >= len(c.ChildArgs) {
			fmt.Fprintln(os.Stderr, "missing child argument")
			os.Exit(3)
		}
		n, _ := strconv.Atoi(c.ChildArgs[i])
		return n
	}
	report := func(h int, fs []failure, steps []Step) {
		for _, f := range fs {
			txt := ""
			if f.step < len(steps) {
				txt = steps[f.step].Text
			}
			c.Violation(f.fp, fmt.Sprintf("discipline history %d step %d (%s): %s", h, f.step, txt, f.what), Case{Part: "disc", History: h, Steps: steps, Failed: f.what})
		}
	}
	switch c.Child {
	case "disc":
		from, to, nSteps := arg(0), arg(1), arg(2)
		for h := from; h < to; h++ {
			c.Mark(fmt.Sprintf("h=%d", h))
			st := newStats()
			fs, steps := runHistoryX(c.Rand(fmt.Sprintf(discStream, h)), nSteps, st, true, nil)
			report(h, fs, steps)
			c.Count("disc_histories", 1)
			countDisc(c, st)
			if st.disc["reentrant_calls"] > 0 && st.disc["held_results_scribbled_later"] > 0 && st.iterMulti > 0 {
				c.DistinctHash("disc_history_with_reentrancy_and_held_results", uint64(h))
			}
			if h < 2 && c.WantSample() {
				var txt []string
				for j, s := range steps {
					if j >= 12 {
						break
					}
					txt = append(txt, s.Text)
				}
				c.Sample(map[string]any{"discipline_history": h, "first_steps": txt})
			}
			if (h-from)%64 == 63 {
				c.FlushStats() // what was observed so far survives a process death
			}
		}
	case "disctrace":
		h, nSteps := arg(0), arg(1)
		st := newStats()
		fs, steps := runHistoryX(c.Rand(fmt.Sprintf(discStream, h)), nSteps, st, true, c.Emit)
		report(h, fs, steps)
	case "discreplay":
		b, _ := io.ReadAll(os.Stdin)
		var steps []Step
		if err := json.Unmarshal(b, &steps); err != nil {
			fmt.Fprintln(os.Stderr, err)
			os.Exit(3)
		}
		st := newStats()
		for _, f := range replayStepsX(steps, st, true, c.Emit) {
			c.Violation(f.fp, f.what, Case{Part: "disc", Steps: steps, Failed: f.what})
		}
		c.Count("evaluations", st.evals)
	default:
		fmt.Fprintln(os.Stderr, "unknown child", c.Child)
		os.Exit(3)
	}
}
