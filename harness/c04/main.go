// C04 – KVStore views and wrappers obey one ordered-map contract (sequential).
//
// Seeded operation histories are executed against a tree of mapdb realm views,
// each optionally wrapped by flushkv / debug stacks, and after every step the
// result (return values, callback sequences, errors, debug callbacks) is
// compared with kvmodel (one ordered map keyed by realm||key + closed flag).
package main

import (
	"bytes"
	"errors"
	"fmt"
	"hash/fnv"
	"math/rand"
	"os"
	"runtime"
	"sort"
	"strings"
	"sync"
	"unsafe"

	"github.com/iotaledger/hive.go/kvstore"
	"github.com/iotaledger/hive.go/kvstore/debug"
	"github.com/iotaledger/hive.go/kvstore/flushkv"
	"github.com/iotaledger/hive.go/kvstore/mapdb"
	"verif/harness/internal/kvmodel"
	"verif/harness/internal/vf"
)

// ---------------------------------------------------------------- case format

type Wrap struct {
	Kind    string  `json:"kind"`              // "flush" | "debug"
	Filters []uint8 `json:"filters,omitempty"` // debug: nil = no filter argument (all commands)
	NilCB   bool    `json:"nilcb,omitempty"`   // debug: nil callback
}

type Step struct {
	Op    string `json:"op"`
	V     int    `json:"v"`             // view index (parent for newview)
	B     int    `json:"b,omitempty"`   // batch index
	K     []byte `json:"k,omitempty"`   // key / prefix / realm
	Val   []byte `json:"val,omitempty"` // value
	KM    int    `json:"km,omitempty"`  // how K is handed over: 0 exact-size slice, 1..8 spare capacity bytes, 100 carved from the realm table, 101 from the key table
	VM    int    `json:"vm,omitempty"`  // same for Val
	Dir   int    `json:"dir,omitempty"` // 0 direction omitted, 1 forward, 2 backward
	Stop  int    `json:"stop,omitempty"`
	Ext   bool   `json:"ext,omitempty"`  // newview: WithExtendedRealm
	Keep  bool   `json:"keep,omitempty"` // commit / cancel: the batch object is used again afterwards
	Wraps []Wrap `json:"wraps,omitempty"`
	Text  string `json:"text,omitempty"` // human-readable rendition (ignored on replay)
	// workload disciplines (disc.go): user code that keeps and scribbles what it was handed, calls back
	// into the store while it runs, and panics
	Sub   []Step `json:"sub,omitempty"`   // calls made by the user code this operation invokes
	At    int    `json:"at,omitempty"`    // sub-step: consumer invocation (1-based) that makes the call; 0 = the debug callback
	Panic int    `json:"panic,omitempty"` // the consumer panics in its Panic-th invocation / the debug callback panics (1)
	Hold  int    `json:"hold,omitempty"`  // results are kept untouched for Hold steps (compared after every call), then scribbled
}

type Case struct {
	Part    string `json:"part,omitempty"` // "" = plain histories (in-process), "disc" = discipline histories (child process)
	History int    `json:"history"`
	Steps   []Step `json:"steps"`
	Failed  string `json:"failed,omitempty"`
}

// ---------------------------------------------------------------- runner

const scribbleByte = 0xEE

type layer struct {
	kind string
	id   int
	mask debug.Command
	nil_ bool
}

type view struct {
	st     kvstore.KVStore
	realm  string
	layers []layer // outermost first
	// realm handed to WithRealm as table[:sharedLen] of the shared realm table
	shared    bool
	sharedLen int
}

type batch struct {
	b    kvstore.BatchedMutations
	view int
	ops  []kvmodel.BatchOp
	bufs []*gbuf
	done bool
	// ops[sinceCommit:] were recorded after the last Commit of this (re-used) batch object;
	// ops as a whole since the last Cancel
	sinceCommit int
	commits     int
	cancels     int
}

type event struct {
	layer  int
	cmd    debug.Command
	params []string
}

type stats struct {
	ops               map[string]int
	evals             int
	postClose         int
	scribbles         int
	crossRealm        int
	straddle          int
	earlyStops        int
	iterMulti         int
	dbgEvents         int
	hits              int
	misses            int
	batchMixed        int
	multiBatch        int
	reuseAfterCommit  int
	reuseAfterCancel  int
	recommits         int
	commitAfterCancel int
	recommitProbes    int
	exactArgs         int
	spareArgs         int
	sharedArgs        int
	reuses            int
	guardBytes        int
	sharedViews       int
	sharedPairs       int
	stacks            map[string]bool
	realmShapes       map[string]bool
	disc              map[string]int // counters of the workload disciplines (disc.go)
}

func newStats() *stats {
	return &stats{ops: map[string]int{}, stacks: map[string]bool{}, realmShapes: map[string]bool{}}
}

type failure struct {
	fp, what string
	step     int
}

type runner struct {
	m       *kvmodel.Model
	views   []*view
	batches []*batch
	log     []event
	nextID  int
	st      *stats
	writer  map[string]int // full key -> view index that wrote it last
	fail    *failure
	uniq    int

	// caller-side buffers (see "caller buffers" below)
	raw     kvstore.KVStore // the unwrapped root, for read-backs that are not part of the history
	rt, kt  *gbuf           // shared tables: realms (and keys) are carved out of them as overlapping sub-slices
	opBufs  []*gbuf         // arguments of the operation in progress
	persist []*gbuf         // buffers the library may legitimately still reference (view realms, open batches)
	pool    []*gbuf         // buffers handed to Set / a finished batch: scribbled, then reused for later arguments
	all     []*gbuf
	alias   []failure // writes into caller buffers (reported, the history continues)
	stepNo  int

	disciplines // disc.go
}

func q(b []byte) string  { return fmt.Sprintf("%q", b) }
func qs(s string) string { return fmt.Sprintf("%q", s) }

// ---------------------------------------------------------------- caller buffers
//
// Every []byte handed to the library is a slice of a harness-owned backing
// array: exact-size, with spare capacity (len < cap, the spare part filled with
// a canary), or carved out of one of two shared tables so that realms (and
// keys) of sibling views overlap the way table[:2] / table[:5] do. After every
// library call all live backing arrays are compared with what the harness put
// there: the library must never write into a caller's buffer, neither inside
// len nor into the spare capacity. Buffers given to Set / a finished batch are
// scribbled and reused for later arguments, so a retained slice shows up as a
// model disagreement. Realm buffers are never modified by the harness (the
// library may keep them).

const (
	canaryByte = 0xC5
	modeRT     = 100
	modeKT     = 101
)

type gbuf struct {
	back   []byte // the whole backing array
	want   []byte // what the harness wrote there
	minEnd int    // smallest end offset of a slice handed to the library
	name   string
	pooled bool // released: scribbled and waiting in the pool
}

func newTable(name string, content []byte, spare int) *gbuf {
	g := &gbuf{back: make([]byte, len(content)+spare), minEnd: len(content), name: name}
	copy(g.back, content)
	for i := len(content); i < len(g.back); i++ {
		g.back[i] = canaryByte
	}
	g.want = append([]byte{}, g.back...)
	return g
}

// arg returns content as a slice prepared according to mode and the buffer
// that backs it (nil for table carvings, which are never released).
func (r *runner) arg(content []byte, mode int) ([]byte, *gbuf) {
	n := len(content)
	if mode == modeRT || mode == modeKT {
		t := r.rt
		if mode == modeKT {
			t = r.kt
		}
		if t != nil {
			if i := bytes.Index(t.want[:len(t.want)-tableSpare], content); i >= 0 {
				if i+n < t.minEnd {
					t.minEnd = i + n
				}
				r.st.sharedArgs++
				return t.back[i : i+n], nil
			}
		}
		mode = 3
	}
	need := n + mode
	var g *gbuf
	for i, p := range r.pool {
		if len(p.back) >= need {
			g = p
			r.pool = append(r.pool[:i], r.pool[i+1:]...)
			r.st.reuses++
			break
		}
	}
	if g == nil {
		g = &gbuf{back: make([]byte, need), want: make([]byte, need)}
		r.all = append(r.all, g)
	}
	g.name = "argument"
	g.pooled = false
	g.minEnd = n
	copy(g.back, content)
	for i := n; i < len(g.back); i++ {
		g.back[i] = canaryByte
	}
	copy(g.want, g.back)
	r.opBufs = append(r.opBufs, g)
	if mode == 0 {
		r.st.exactArgs++
		return g.back[:n:n], g
	}
	r.st.spareArgs++
	return g.back[:n], g
}

const tableSpare = 8

// checkBuffers runs after every library call.
func (r *runner) checkBuffers(op string) {
	check := func(g *gbuf) {
		if g == nil {
			return
		}
		r.st.guardBytes += len(g.back)
		if bytes.Equal(g.back, g.want) {
			return
		}
		o := 0
		for o < len(g.back) && g.back[o] == g.want[o] {
			o++
		}
		fp := "alias/library-wrote-into-caller-buffer"
		where := "inside a slice it was given"
		if o >= g.minEnd {
			fp = "alias/library-wrote-into-caller-spare-capacity"
			where = fmt.Sprintf("beyond the length (%d) of the slice it was given", g.minEnd)
		}
		if len(r.alias) < 4 {
			r.alias = append(r.alias, failure{fp, fmt.Sprintf("%s changed the caller's %s buffer at offset %d, %s: backing array is now %q, the caller wrote %q", op, g.name, o, where, g.back, g.want), r.stepNo})
		}
		copy(g.want, g.back) // report once; the damage stays so that wrong answers follow
	}
	check(r.rt)
	if r.kt != r.rt {
		check(r.kt)
	}
	for _, g := range r.persist {
		check(g)
	}
	for _, g := range r.opBufs {
		check(g)
	}
}

// release scribbles buffers whose content the library must have copied by now
// (after Set / Commit) and makes them available for later arguments.
func (r *runner) release(gs ...*gbuf) {
	for _, g := range gs {
		if g == nil || g.pooled {
			continue
		}
		g.pooled = true
		for i := range g.back {
			g.back[i] = scribbleByte
		}
		copy(g.want, g.back)
		r.st.scribbles += len(g.back)
		r.pool = append(r.pool, g)
	}
}

func (r *runner) unpersist(gs []*gbuf) {
	drop := map[*gbuf]bool{}
	for _, g := range gs {
		drop[g] = true
	}
	var keep []*gbuf
	for _, g := range r.persist {
		if !drop[g] {
			keep = append(keep, g)
		}
	}
	r.persist = keep
}

func overlaps(a, b []byte) bool {
	a, b = a[:cap(a)], b[:cap(b)]
	if len(a) == 0 || len(b) == 0 {
		return false
	}
	a0, b0 := uintptr(unsafe.Pointer(&a[0])), uintptr(unsafe.Pointer(&b[0]))
	return a0 < b0+uintptr(len(b)) && b0 < a0+uintptr(len(a))
}

// callerOwned reports whether a slice returned by the library shares memory
// with a buffer of the caller.
func (r *runner) callerOwned(b []byte) bool {
	if cap(b) == 0 {
		return false
	}
	if r.rt != nil && overlaps(b, r.rt.back) || r.kt != nil && overlaps(b, r.kt.back) {
		return true
	}
	for _, g := range r.all {
		if overlaps(b, g.back) {
			return true
		}
	}
	return false
}

func scribble(bs ...[]byte) int {
	n := 0
	for _, b := range bs {
		b = b[:cap(b)] // the spare capacity belongs to the caller too (append)
		for i := range b {
			b[i] = scribbleByte
			n++
		}
	}
	return n
}

func (r *runner) failf(fp, format string, a ...any) {
	if r.fail == nil {
		r.fail = &failure{fp, fmt.Sprintf(format, a...), r.stepNo}
	}
}

func (r *runner) callback(id int) debug.AccessCallback {
	return func(cmd debug.Command, params ...[]byte) {
		ev := event{layer: id, cmd: cmd}
		for _, p := range params {
			ev.params = append(ev.params, string(p))
		}
		r.log = append(r.log, ev)
		if h := r.hook; h != nil {
			r.hook = nil
			h()
		}
	}
}

func (r *runner) wrap(st kvstore.KVStore, layers []layer, ws []Wrap) (kvstore.KVStore, []layer) {
	for _, w := range ws {
		switch w.Kind {
		case "flush":
			st = flushkv.New(st)
			layers = append([]layer{{kind: "flush"}}, layers...)
		case "debug":
			r.nextID++
			l := layer{kind: "debug", id: r.nextID, nil_: w.NilCB}
			var cb debug.AccessCallback
			if !w.NilCB {
				cb = r.callback(l.id)
			}
			if w.Filters == nil {
				l.mask = debug.AllCommands
				st = debug.New(st, cb)
			} else {
				var fs []debug.Command
				for _, f := range w.Filters {
					fs = append(fs, debug.Command(f))
					l.mask |= debug.Command(f)
				}
				st = debug.New(st, cb, fs...)
			}
			layers = append([]layer{l}, layers...)
		}
	}
	return st, layers
}

func stackName(ls []layer) string {
	if len(ls) == 0 {
		return "mapdb"
	}
	var s []string
	for _, l := range ls {
		k := l.kind
		if l.kind == "debug" && l.mask != debug.AllCommands {
			k = "debugf"
		}
		s = append(s, k)
	}
	return strings.Join(s, ">") + ">mapdb"
}

// guard runs f and converts a panic into a failure.
func (r *runner) guard(op string, f func()) (ok bool) {
	defer func() {
		if p := recover(); p != nil {
			ok = false
			if _, mine := p.(userPanic); mine {
				// the user code's own panic came back to the caller: fine; the store is used again
				r.panicked = true
				r.checkBuffers(op)
				r.checkHeld(op)
				return
			}
			r.failf(op+"/panic", "%s panicked: %v", op, p)
		}
	}()
	f()
	r.checkBuffers(op)
	r.checkHeld(op)
	return true
}

// expectEvents compares the debug callbacks logged during one operation.
func (r *runner) expectEvents(op string, ls []layer, cmd debug.Command, hasCmd bool, params ...[]byte) {
	var want []event
	if hasCmd {
		for _, l := range ls {
			if l.kind == "debug" && !l.nil_ && l.mask&cmd != 0 {
				ev := event{layer: l.id, cmd: cmd}
				for _, p := range params {
					ev.params = append(ev.params, string(p))
				}
				want = append(want, ev)
			}
		}
	}
	got := r.log
	r.log = nil
	key := func(e event) string { return fmt.Sprintf("%d/%d/%q", e.layer, e.cmd, e.params) }
	gm := map[string]int{}
	for _, e := range got {
		gm[key(e)]++
	}
	for _, e := range want {
		k := key(e)
		if gm[k] == 0 {
			// distinguish a wrong parameter from a missing call
			for _, g := range got {
				if g.layer == e.layer && g.cmd == e.cmd {
					r.failf("debug/"+op+"/param-mismatch", "debug layer saw %s%q, the call was %s%q", debug.CommandNames[g.cmd], g.params, debug.CommandNames[e.cmd], e.params)
					return
				}
			}
			r.failf("debug/"+op+"/missing-callback", "debug layer (mask %08b) saw no callback for %s%q", ls0mask(ls, e.layer), debug.CommandNames[e.cmd], e.params)
			return
		}
		gm[k]--
	}
	for k, n := range gm {
		if n > 0 {
			r.failf("debug/"+op+"/unexpected-callback", "debug layer callback %s not caused by the call (%s)", k, op)
			return
		}
	}
	r.st.dbgEvents += len(want)
}

func ls0mask(ls []layer, id int) debug.Command {
	for _, l := range ls {
		if l.id == id {
			return l.mask
		}
	}
	return 0
}

func wantClosed(r *runner, op string, err error) {
	r.st.postClose++
	if err == nil {
		r.failf("closed/"+op+"/no-error", "%s after Close returned nil error", op)
	} else if !errors.Is(err, kvstore.ErrStoreClosed) {
		r.failf("closed/"+op+"/wrong-error", "%s after Close returned %v, not ErrStoreClosed", op, err)
	}
}

func wantNil(r *runner, op string, err error) bool {
	if err != nil {
		r.failf(op+"/unexpected-error", "%s on an open store returned error %v", op, err)
		return false
	}
	return true
}

func (r *runner) aliased(b []byte) bool {
	return bytes.IndexByte(b, scribbleByte) >= 0 || r.callerOwned(b)
}

func dirArgs(d int) []kvstore.IterDirection {
	switch d {
	case 1:
		return []kvstore.IterDirection{kvstore.IterDirectionForward}
	case 2:
		return []kvstore.IterDirection{kvstore.IterDirectionBackward}
	}
	return nil
}

// exec1 executes one step against the real stores and the model (exec, in
// disc.go, wraps it with the bookkeeping of the workload disciplines).
func (r *runner) exec1(s Step) {
	r.st.ops[s.Op]++
	r.st.evals++
	closed := r.m.Closed
	var v *view
	if s.Op != "root" {
		if s.V < 0 || s.V >= len(r.views) {
			return
		}
		v = r.views[s.V]
	}
	r.log = nil
	switch s.Op {
	case "root":
		if len(s.K) > 0 {
			r.rt = newTable("realm table", s.K, tableSpare)
			r.kt = r.rt
			if len(s.Val) > 0 {
				r.kt = newTable("key table", s.Val, tableSpare)
			}
		}
		r.raw = mapdb.NewMapDB()
		st, ls := r.wrap(r.raw, nil, s.Wraps)
		r.views = append(r.views, &view{st: st, realm: "", layers: ls})
		r.st.stacks[stackName(ls)] = true

	case "newview":
		var st kvstore.KVStore
		var err error
		realm, rbuf := r.arg(s.K, s.KM)
		name := "WithRealm"
		if s.Ext {
			name = "WithExtendedRealm"
		}
		if !r.guard(name, func() {
			if s.Ext {
				st, err = v.st.WithExtendedRealm(realm)
			} else {
				st, err = v.st.WithRealm(realm)
			}
		}) {
			return
		}
		if closed {
			wantClosed(r, name, err)
			return
		}
		if !wantNil(r, name, err) {
			return
		}
		if st == nil {
			r.failf(name+"/nil-store", "%s returned a nil store without error", name)
			return
		}
		r.expectEvents(name, v.layers, 0, false)
		want := string(s.K)
		if s.Ext {
			want = v.realm + string(s.K)
		}
		var got []byte
		if !r.guard("Realm", func() { got = st.Realm() }) {
			return
		}
		if string(got) != want {
			r.failf(name+"/realm-mismatch", "%s(%s) on view with realm %s yields a view with Realm()=%s, want %s", name, q(s.K), qs(v.realm), q(got), qs(want))
			return
		}
		ls := append([]layer{}, v.layers...)
		st, ls = r.wrap(st, ls, s.Wraps)
		r.views = append(r.views, &view{st: st, realm: want, layers: ls, shared: rbuf == nil && !s.Ext, sharedLen: len(s.K)})
		if rbuf != nil {
			r.persist = append(r.persist, rbuf) // the library may keep the realm slice; it must not write to it
		}
		r.st.stacks[stackName(ls)] = true

	case "get":
		var val []byte
		var err error
		if !r.guard("Get", func() { k, _ := r.arg(s.K, s.KM); val, err = v.st.Get(k) }) {
			return
		}
		if closed {
			wantClosed(r, "Get", err)
			return
		}
		r.expectEvents("Get", v.layers, debug.GetCommand, true, s.K)
		want, ok := r.m.Get(v.realm, string(s.K))
		if !ok {
			r.st.misses++
			if err == nil {
				r.failf("Get/missing-key-no-error", "Get(%s) in realm %s returned (%s, nil) but the key does not exist", q(s.K), qs(v.realm), q(val))
			} else if !errors.Is(err, kvstore.ErrKeyNotFound) {
				r.failf("Get/missing-key-wrong-error", "Get(%s) of a missing key returned %v, not ErrKeyNotFound", q(s.K), err)
			}
			return
		}
		r.st.hits++
		if err != nil {
			r.failf("Get/present-key-error", "Get(%s) in realm %s returned error %v but the key holds %s", q(s.K), qs(v.realm), err, qs(want))
			return
		}
		if string(val) != want {
			fp := "Get/wrong-value"
			if r.aliased(val) {
				fp = "Get/value-aliases-caller-buffer"
			}
			r.failf(fp, "Get(%s) in realm %s returned %s, the model holds %s", q(s.K), qs(v.realm), q(val), qs(want))
			return
		}
		if w, ok := r.writer[v.realm+string(s.K)]; ok && w != s.V {
			r.st.crossRealm++
		}
		if r.callerOwned(val) {
			r.failf("Get/returns-caller-buffer", "Get(%s) in realm %s returned a slice that shares memory with a buffer of the caller (not a private copy)", q(s.K), qs(v.realm))
			return
		}
		r.keep("Get", "value", val, s.Hold)

	case "has":
		var b bool
		var err error
		if !r.guard("Has", func() { k, _ := r.arg(s.K, s.KM); b, err = v.st.Has(k) }) {
			return
		}
		if closed {
			wantClosed(r, "Has", err)
			return
		}
		r.expectEvents("Has", v.layers, debug.HasCommand, true, s.K)
		if !wantNil(r, "Has", err) {
			return
		}
		if want := r.m.Has(v.realm, string(s.K)); b != want {
			r.failf("Has/wrong-answer", "Has(%s) in realm %s returned %v, model says %v", q(s.K), qs(v.realm), b, want)
		}

	case "set":
		kb, kg := r.arg(s.K, s.KM)
		vb, vg := r.arg(s.Val, s.VM)
		var err error
		if !r.guard("Set", func() { err = v.st.Set(kb, vb) }) {
			return
		}
		if closed {
			wantClosed(r, "Set", err)
			return
		}
		r.expectEvents("Set", v.layers, debug.SetCommand, true, s.K, s.Val)
		if !wantNil(r, "Set", err) {
			return
		}
		r.m.Set(v.realm, string(s.K), string(s.Val))
		r.writer[v.realm+string(s.K)] = s.V
		r.release(kg, vg)

	case "delete":
		var err error
		if !r.guard("Delete", func() { k, _ := r.arg(s.K, s.KM); err = v.st.Delete(k) }) {
			return
		}
		if closed {
			wantClosed(r, "Delete", err)
			return
		}
		r.expectEvents("Delete", v.layers, debug.DeleteCommand, true, s.K)
		if !wantNil(r, "Delete", err) {
			return
		}
		r.m.Delete(v.realm, string(s.K))

	case "deleteprefix", "clear":
		var err error
		name := "DeletePrefix"
		if s.Op == "clear" {
			name = "Clear"
		}
		if !r.guard(name, func() {
			if s.Op == "clear" {
				err = v.st.Clear()
			} else {
				k, _ := r.arg(s.K, s.KM)
				err = v.st.DeletePrefix(k)
			}
		}) {
			return
		}
		if closed {
			wantClosed(r, name, err)
			return
		}
		if s.Op == "clear" {
			r.expectEvents(name, v.layers, debug.ClearCommand, true)
		} else {
			r.expectEvents(name, v.layers, debug.DeletePrefixCommand, true, s.K)
		}
		if !wantNil(r, name, err) {
			return
		}
		// does the removal straddle several views' realms?
		p := v.realm + string(s.K)
		owners := map[int]bool{}
		for k := range r.m.M {
			if strings.HasPrefix(k, p) {
				owners[r.writer[k]] = true
			}
		}
		if len(owners) > 1 {
			r.st.straddle++
		}
		r.m.DeletePrefix(v.realm, string(s.K))

	case "iterate", "iteratekeys":
		name := "Iterate"
		if s.Op == "iteratekeys" {
			name = "IterateKeys"
		}
		var got []kvmodel.KV
		stopped, afterStop, owned := false, 0, false
		// the iteration reports the entries present when it starts: what the consumer writes while it
		// runs takes effect at once for every other call, not for what is still delivered
		want := r.m.Iterate(v.realm, string(s.K), s.Dir == 2)
		consume := func(k, val []byte) bool {
			if stopped {
				afterStop++
			}
			got = append(got, kvmodel.KV{K: string(k), V: string(val)})
			r.checkHeld(name + " consumer")
			if r.callerOwned(k) || r.callerOwned(val) {
				owned = true
			} else {
				// kept untouched for a while (every second one), or scribbled at once, spare capacity included
				h := s.Hold * (len(got) % 2)
				r.keep(name, "key", k, h)
				r.keep(name, "value", val, h)
			}
			r.consumerCalls(name, s, len(got), want)
			if s.Stop > 0 && len(got) >= s.Stop {
				stopped = true
				return false
			}
			return true
		}
		var err error
		ok := r.guard(name, func() {
			if s.Op == "iterate" {
				k, _ := r.arg(s.K, s.KM)
				err = v.st.Iterate(k, consume, dirArgs(s.Dir)...)
			} else {
				k, _ := r.arg(s.K, s.KM)
				err = v.st.IterateKeys(k, func(k []byte) bool { return consume(k, nil) }, dirArgs(s.Dir)...)
			}
		})
		consumerPanicked := r.panicked
		r.panicked = false
		if !ok && !consumerPanicked {
			return
		}
		if closed {
			wantClosed(r, name, err)
			return
		}
		if consumerPanicked {
			// the consumer's panic ended the call: it has delivered the first Panic entries
			r.log = nil
			r.userPanic("consumer")
			s.Stop = s.Panic
		} else {
			if s.Op == "iterate" {
				r.expectEvents(name, v.layers, debug.IterateCommand, true, s.K)
			} else {
				r.expectEvents(name, v.layers, debug.IterateKeysCommand, true, s.K)
			}
			if !wantNil(r, name, err) {
				return
			}
		}
		if s.Op == "iteratekeys" {
			for i := range want {
				want[i].V = ""
			}
		}
		full := want
		if s.Stop > 0 && len(want) > s.Stop {
			want = want[:s.Stop]
			r.st.earlyStops++
		}
		if len(want) >= 2 {
			r.st.iterMulti++
		}
		if afterStop > 0 {
			r.failf(name+"/continues-after-stop", "%s(%s) in realm %s called the consumer %d more time(s) after it returned false", name, q(s.K), qs(v.realm), afterStop)
			return
		}
		if !eqKV(got, want) {
			dir := "forward"
			if s.Dir == 2 {
				dir = "backward"
			}
			fp := name + "/wrong-entries"
			switch {
			case sameKeys(got, want) && !eqKeys(got, want):
				fp = name + "/wrong-order"
			case eqKeys(got, want):
				fp = name + "/wrong-value"
				for _, g := range got {
					if owned || bytes.IndexByte([]byte(g.V), scribbleByte) >= 0 {
						fp = name + "/value-aliases-caller-buffer"
					}
				}
			case len(full) > len(want) && len(got) > len(want):
				fp = name + "/wrong-entries"
			}
			r.failf(fp, "%s(prefix %s, %s, stop after %d) in realm %s delivered %s, the model says %s", name, q(s.K), dir, s.Stop, qs(v.realm), fmtKV(got), fmtKV(want))
		} else if owned {
			r.failf(name+"/returns-caller-buffer", "%s(prefix %s) in realm %s handed the consumer a slice that shares memory with a buffer of the caller (not a private copy)", name, q(s.K), qs(v.realm))
		}

	case "realm":
		var got []byte
		if !r.guard("Realm", func() { got = v.st.Realm() }) {
			return
		}
		if closed {
			return
		}
		r.expectEvents("Realm", v.layers, 0, false)
		if string(got) != v.realm {
			r.failf("Realm/mismatch", "Realm() = %s, the view was created with realm %s", q(got), qs(v.realm))
		}

	case "flush":
		var err error
		if !r.guard("Flush", func() { err = v.st.Flush() }) {
			return
		}
		if closed {
			wantClosed(r, "Flush", err)
			return
		}
		r.expectEvents("Flush", v.layers, 0, false)
		wantNil(r, "Flush", err)

	case "close":
		if !r.guard("Close", func() { _ = v.st.Close() }) {
			return
		}
		r.m.Closed = true

	case "newbatch":
		var b kvstore.BatchedMutations
		var err error
		if !r.guard("Batched", func() { b, err = v.st.Batched() }) {
			return
		}
		if closed {
			wantClosed(r, "Batched", err)
			return
		}
		r.expectEvents("Batched", v.layers, 0, false)
		if !wantNil(r, "Batched", err) {
			return
		}
		if b == nil {
			r.failf("Batched/nil-batch", "Batched() returned nil without error")
			return
		}
		open := 0
		for _, x := range r.batches {
			if !x.done {
				open++
			}
		}
		if open > 0 {
			r.st.multiBatch++
		}
		r.batches = append(r.batches, &batch{b: b, view: s.V})

	case "bset", "bdel":
		if s.B == -1 {
			s.B = len(r.batches) - 1 // sub-steps: the batch opened last
		}
		if s.B < 0 || s.B >= len(r.batches) || r.batches[s.B].done {
			return
		}
		b := r.batches[s.B]
		bv := r.views[b.view]
		kb, kg := r.arg(s.K, s.KM)
		vb, vg := r.arg(s.Val, s.VM)
		var err error
		name := "batch.Set"
		if s.Op == "bdel" {
			name = "batch.Delete"
		}
		if !r.guard(name, func() {
			if s.Op == "bset" {
				err = b.b.Set(kb, vb)
			} else {
				err = b.b.Delete(kb)
			}
		}) {
			return
		}
		if closed {
			return // not demanded
		}
		if s.Op == "bset" {
			r.expectEvents(name, bv.layers, debug.SetCommand, true, s.K, s.Val)
		} else {
			r.expectEvents(name, bv.layers, debug.DeleteCommand, true, s.K)
		}
		if !wantNil(r, name, err) {
			return
		}
		for _, o := range b.ops {
			if o.K == string(s.K) && o.Del != (s.Op == "bdel") {
				r.st.batchMixed++
				break
			}
		}
		if b.commits > 0 && b.sinceCommit == len(b.ops) {
			r.st.reuseAfterCommit++
		}
		if b.cancels > 0 && len(b.ops) == 0 {
			r.st.reuseAfterCancel++
		}
		b.ops = append(b.ops, kvmodel.BatchOp{Del: s.Op == "bdel", K: string(s.K), V: string(s.Val)})
		for _, g := range []*gbuf{kg, vg} {
			if g != nil {
				b.bufs = append(b.bufs, g)
				r.persist = append(r.persist, g) // untouched until Commit / Cancel
			}
		}

	case "commit", "cancel":
		if s.B == -1 {
			s.B = len(r.batches) - 1 // sub-steps: the batch opened last
		}
		if s.B < 0 || s.B >= len(r.batches) || r.batches[s.B].done {
			return
		}
		b := r.batches[s.B]
		bv := r.views[b.view]
		var err error
		name := "batch.Commit"
		if s.Op == "cancel" {
			name = "batch.Cancel"
		}
		if !r.guard(name, func() {
			if s.Op == "commit" {
				err = b.b.Commit()
			} else {
				b.b.Cancel()
			}
		}) {
			return
		}
		b.done = !s.Keep || closed
		if closed {
			if s.Op == "commit" {
				wantClosed(r, name, err)
			}
			return
		}
		r.expectEvents(name, bv.layers, 0, false)
		if !wantNil(r, name, err) {
			return
		}
		if s.Op == "cancel" {
			// Cancel discards everything recorded so far: a later Commit of this object applies
			// only what is recorded from now on
			b.cancels++
			b.ops, b.sinceCommit = nil, 0
			r.unpersist(b.bufs)
			r.release(b.bufs...)
			b.bufs = nil
			return
		}
		if b.cancels > 0 && b.commits == 0 {
			r.st.commitAfterCancel++
		}
		// Commit of a re-used batch object: the statement fixes "the last operation per key",
		// not whether operations that an earlier Commit of the same object already applied are
		// applied again. Both readings are accepted: (A) only what was recorded since the last
		// Commit, (B) everything recorded since the last Cancel. Where they differ the store is
		// read back through the unwrapped root and must equal one of them.
		ma := r.m.Clone()
		ma.ApplyBatch(bv.realm, b.ops[b.sinceCommit:])
		if b.commits > 0 {
			r.st.recommits++
			mb := r.m.Clone()
			mb.ApplyBatch(bv.realm, b.ops)
			if ma.Canon() != mb.Canon() {
				r.st.recommitProbes++
				got := kvmodel.New()
				if !r.guard("read-back", func() {
					_ = r.raw.Iterate(kvstore.EmptyPrefix, func(k, v []byte) bool { got.M[string(k)] = string(v); return true })
				}) {
					return
				}
				switch got.Canon() {
				case ma.Canon():
				case mb.Canon():
					ma = mb
				default:
					r.failf("batch.Commit/reused-batch-wrong-state", "Commit #%d of a re-used batch object on realm %s left the store as %s; neither applying the operations recorded since the previous Commit (%s) nor all operations since the last Cancel (%s) gives that", b.commits+1, qs(bv.realm), fmtMap(got), fmtMap(ma), fmtMap(mb))
					return
				}
			}
		}
		r.m = ma
		for _, o := range b.ops[b.sinceCommit:] {
			if !o.Del {
				r.writer[bv.realm+o.K] = b.view
			}
		}
		b.commits++
		b.sinceCommit = len(b.ops)
		if b.done {
			// buffers of a batch that is not used again: the data must have been copied by now
			r.unpersist(b.bufs)
			r.release(b.bufs...)
			b.bufs = nil
		}
	}
}

func fmtMap(m *kvmodel.Model) string { return fmtKV(m.Iterate("", "", false)) }

func eqKV(a, b []kvmodel.KV) bool {
	if len(a) != len(b) {
		return false
	}
	for i := range a {
		if a[i] != b[i] {
			return false
		}
	}
	return true
}
func eqKeys(a, b []kvmodel.KV) bool {
	if len(a) != len(b) {
		return false
	}
	for i := range a {
		if a[i].K != b[i].K {
			return false
		}
	}
	return true
}
func sameKeys(a, b []kvmodel.KV) bool {
	if len(a) != len(b) {
		return false
	}
	x, y := make([]string, len(a)), make([]string, len(b))
	for i := range a {
		x[i], y[i] = a[i].K, b[i].K
	}
	sort.Strings(x)
	sort.Strings(y)
	for i := range x {
		if x[i] != y[i] {
			return false
		}
	}
	return true
}
func fmtKV(l []kvmodel.KV) string {
	var s []string
	for _, e := range l {
		s = append(s, fmt.Sprintf("%q=%q", e.K, e.V))
	}
	return "[" + strings.Join(s, " ") + "]"
}

// finalSweep reads the whole store back through every view (only when still
// open): catches damage done by the last mutating steps.
func (r *runner) finalSweep() {
	if r.m.Closed || r.fail != nil {
		return
	}
	for i := range r.views {
		r.exec(Step{Op: "iterate", V: i, Dir: 1 + i%2})
		if r.fail != nil {
			return
		}
	}
}

// ---------------------------------------------------------------- generator

var alpha = []string{"", "a", "ab", "a\xff", "\xff", "b"}

type gen struct {
	rng  *rand.Rand
	r    *runner
	disc bool // generate the workload disciplines of disc.go too
}

func (g *gen) word() string {
	w := alpha[g.rng.Intn(len(alpha))]
	if g.rng.Intn(10) < 3 {
		w += alpha[g.rng.Intn(len(alpha))]
	}
	return w
}

// existingKey returns a key (realm stripped) that exists inside the view.
func (g *gen) existingKey(v *view) (string, bool) {
	var ks []string
	for k := range g.r.m.M {
		if strings.HasPrefix(k, v.realm) {
			ks = append(ks, k[len(v.realm):])
		}
	}
	if len(ks) == 0 {
		return "", false
	}
	sort.Strings(ks)
	return ks[g.rng.Intn(len(ks))], true
}

func (g *gen) key(v *view) []byte {
	if g.rng.Intn(2) == 0 {
		if k, ok := g.existingKey(v); ok {
			return []byte(k)
		}
	}
	return []byte(g.word())
}

func (g *gen) prefix(v *view) []byte {
	if g.rng.Intn(5) < 2 {
		if k, ok := g.existingKey(v); ok {
			return []byte(k[:g.rng.Intn(len(k)+1)])
		}
	}
	return []byte(g.word())
}

// mode decides how an argument is handed over: carved from a shared table when
// its bytes occur there, with spare capacity, or exact-size.
func (g *gen) mode(content []byte) int {
	r := g.r
	x := g.rng.Intn(12)
	switch {
	case x < 4 && r.kt != nil && bytes.Contains(r.kt.want[:len(r.kt.want)-tableSpare], content):
		return modeKT
	case x < 6 && r.rt != nil && bytes.Contains(r.rt.want[:len(r.rt.want)-tableSpare], content):
		return modeRT
	case x < 10:
		return 1 + g.rng.Intn(8)
	}
	return 0
}

// tables returns the contents of the shared realm table and key table of a history.
func (g *gen) tables() (rt, kt []byte) {
	nonEmpty := alpha[1:]
	rt = []byte([]string{"ab", "a\xff"}[g.rng.Intn(2)])
	for i, n := 0, 1+g.rng.Intn(3); i < n; i++ {
		rt = append(rt, nonEmpty[g.rng.Intn(len(nonEmpty))]...)
	}
	if g.rng.Intn(4) > 0 {
		for i, n := 0, 4+g.rng.Intn(4); i < n; i++ {
			kt = append(kt, nonEmpty[g.rng.Intn(len(nonEmpty))]...)
		}
	}
	return rt, kt
}

func (g *gen) value() []byte {
	w := g.word()
	if g.rng.Intn(2) == 0 {
		g.r.uniq++
		w += fmt.Sprintf("#%d", g.r.uniq)
	}
	return []byte(w)
}

var cmdBits = []uint8{uint8(debug.IterateCommand), uint8(debug.IterateKeysCommand), uint8(debug.ClearCommand), uint8(debug.GetCommand),
	uint8(debug.SetCommand), uint8(debug.HasCommand), uint8(debug.DeleteCommand), uint8(debug.DeletePrefixCommand), uint8(debug.ShutdownCommand)}

func (g *gen) wraps(have int) []Wrap {
	var ws []Wrap
	n := 0
	switch x := g.rng.Intn(10); {
	case x < 4:
		n = 0
	case x < 7:
		n = 1
	case x < 9:
		n = 2
	default:
		n = 3
	}
	for i := 0; i < n && have+i < 3; i++ {
		switch g.rng.Intn(5) {
		case 0, 1:
			ws = append(ws, Wrap{Kind: "flush"})
		case 2:
			ws = append(ws, Wrap{Kind: "debug", NilCB: g.rng.Intn(8) == 0})
		default:
			w := Wrap{Kind: "debug", Filters: []uint8{}}
			for j, m := 0, 1+g.rng.Intn(4); j < m; j++ {
				w.Filters = append(w.Filters, cmdBits[g.rng.Intn(len(cmdBits))])
			}
			ws = append(ws, w)
		}
	}
	return ws
}

type weighted struct {
	op string
	w  int
}

func (g *gen) next(postClose bool) Step {
	r := g.r
	rng := g.rng
	openBatches := []int{}
	for i, b := range r.batches {
		if !b.done {
			openBatches = append(openBatches, i)
		}
	}
	ws := []weighted{{"get", 14}, {"has", 7}, {"set", 18}, {"delete", 5}, {"deleteprefix", 4}, {"clear", 1},
		{"iterate", 8}, {"iteratekeys", 5}, {"realm", 1}, {"flush", 1}}
	if g.disc {
		ws[6].w, ws[7].w = 18, 14 // more iterations: their consumers are the user code under test
	}
	if len(r.views) < 8 {
		w := 4
		if len(r.views) < 3 {
			w = 30
		}
		ws = append(ws, weighted{"newview", w})
	}
	if len(openBatches) < 4 {
		ws = append(ws, weighted{"newbatch", 4})
	}
	if len(openBatches) > 0 {
		ws = append(ws, weighted{"bset", 9}, weighted{"bdel", 6}, weighted{"commit", 4}, weighted{"cancel", 2})
	}
	if postClose {
		for i := range ws {
			ws[i].w = 1
		}
		ws = append(ws, weighted{"close", 1})
	}
	tot := 0
	for _, w := range ws {
		tot += w.w
	}
	x := rng.Intn(tot)
	op := ""
	for _, w := range ws {
		if x < w.w {
			op = w.op
			break
		}
		x -= w.w
	}
	s := Step{Op: op, V: rng.Intn(len(r.views))}
	v := r.views[s.V]
	switch op {
	case "get", "has", "delete":
		s.K = g.key(v)
		s.KM = g.mode(s.K)
	case "set":
		s.K = g.key(v)
		s.Val = g.value()
		s.KM, s.VM = g.mode(s.K), g.mode(s.Val)
	case "deleteprefix":
		s.K = g.prefix(v)
		s.KM = g.mode(s.K)
	case "iterate", "iteratekeys":
		s.K = g.prefix(v)
		if rng.Intn(3) == 0 {
			s.K = []byte{} // whole realm
		}
		s.Dir = rng.Intn(3)
		if rng.Intn(2) == 0 {
			s.Stop = 1 + rng.Intn(3)
		}
		s.KM = g.mode(s.K)
	case "newview":
		s.Ext = rng.Intn(2) == 0
		s.K = []byte(g.word())
		s.KM = g.mode(s.K)
		if rng.Intn(2) == 0 && r.rt != nil {
			// carve the realm out of the shared realm table: table[:n] for WithRealm (sibling views
			// then hold overlapping slices of one array), any table[i:j] for WithExtendedRealm
			tc := r.rt.want[:len(r.rt.want)-tableSpare]
			if s.Ext {
				i := rng.Intn(len(tc) + 1)
				j := i + rng.Intn(min(3, len(tc)-i)+1)
				s.K = append([]byte{}, tc[i:j]...)
			} else {
				s.K = append([]byte{}, tc[:rng.Intn(min(4, len(tc))+1)]...)
			}
			s.KM = modeRT
		}
		s.Wraps = g.wraps(len(v.layers))
	case "bset", "bdel", "commit", "cancel":
		s.B = openBatches[rng.Intn(len(openBatches))]
		bv := r.views[r.batches[s.B].view]
		if op == "bset" || op == "bdel" {
			// prefer keys already touched by this batch (Set/Delete mixes) or existing keys
			if ops := r.batches[s.B].ops; len(ops) > 0 && rng.Intn(3) == 0 {
				s.K = []byte(ops[rng.Intn(len(ops))].K)
			} else {
				s.K = g.key(bv)
			}
			if op == "bset" {
				s.Val = g.value()
				s.VM = g.mode(s.Val)
			}
			s.KM = g.mode(s.K)
		} else {
			// batch objects are used again after Commit and after Cancel (several cycles)
			s.Keep = rng.Intn(5) < 3
		}
	}
	if g.disc && !postClose {
		g.discipline(&s, 0)
	}
	return s
}

func describe(r *runner, s Step) string {
	vr := ""
	if s.Op != "root" && s.V < len(r.views) {
		vr = fmt.Sprintf("view%d[realm %q, %s]", s.V, r.views[s.V].realm, stackName(r.views[s.V].layers))
	}
	m := func(mode int) string {
		switch {
		case mode == modeRT:
			return "<realm-table>"
		case mode == modeKT:
			return "<key-table>"
		case mode > 0:
			return fmt.Sprintf("<+%d cap>", mode)
		}
		return ""
	}
	switch s.Op {
	case "root":
		return fmt.Sprintf("root wraps=%v realm-table=%q key-table=%q", s.Wraps, s.K, s.Val)
	case "newview":
		return fmt.Sprintf("%s.newview(ext=%v, %q%s) wraps=%v", vr, s.Ext, s.K, m(s.KM), s.Wraps)
	case "set":
		return fmt.Sprintf("%s.Set(%q%s, %q%s)", vr, s.K, m(s.KM), s.Val, m(s.VM)) + describeUser(r, s)
	case "bset":
		return fmt.Sprintf("batch%d.Set(%q%s, %q%s)", s.B, s.K, m(s.KM), s.Val, m(s.VM)) + describeUser(r, s)
	case "bdel":
		return fmt.Sprintf("batch%d.Delete(%q%s)", s.B, s.K, m(s.KM)) + describeUser(r, s)
	case "commit", "cancel":
		if s.Keep {
			return fmt.Sprintf("batch%d.%s() [object used again]", s.B, s.Op)
		}
		return fmt.Sprintf("batch%d.%s()", s.B, s.Op)
	case "iterate", "iteratekeys":
		return fmt.Sprintf("%s.%s(%q, dir=%d, stop=%d)", vr, s.Op, s.K, s.Dir, s.Stop) + describeUser(r, s)
	}
	return fmt.Sprintf("%s.%s(%q%s)", vr, s.Op, s.K, m(s.KM)) + describeUser(r, s)
}

// runHistory generates and executes one history; steps are recorded for replay.
func runHistory(rng *rand.Rand, nSteps int, st *stats) ([]failure, []Step) {
	return runHistoryX(rng, nSteps, st, false, nil)
}

func runHistoryX(rng *rand.Rand, nSteps int, st *stats, disc bool, trace func(kind string, v any)) ([]failure, []Step) {
	r := &runner{m: kvmodel.New(), st: st, writer: map[string]int{}}
	r.disc, r.trace = disc, trace
	g := &gen{rng: rng, r: r, disc: disc}
	var steps []Step
	do := func(s Step) bool {
		s.Text = describe(r, s)
		steps = append(steps, s)
		if trace != nil {
			trace("step", s)
		}
		r.exec(s)
		return r.fail == nil
	}
	rtc, ktc := g.tables()
	if !do(Step{Op: "root", Wraps: g.wraps(0), K: rtc, Val: ktc}) {
		return r.failures(), steps
	}
	closeAt := -1
	if rng.Intn(10) < 6 && (!disc || rng.Intn(3) == 0) {
		closeAt = nSteps/2 + rng.Intn(nSteps/2)
	}
	for i := 1; i < nSteps; i++ {
		var s Step
		if i == closeAt {
			s = Step{Op: "close", V: rng.Intn(len(r.views))}
		} else {
			s = g.next(r.m.Closed)
		}
		if !do(s) {
			return r.failures(), steps
		}
	}
	r.finalSweep()
	// shape of the realm tree, for the non-triviality rule
	nested := false
	for i, a := range r.views {
		for j, b := range r.views {
			if i != j && a.realm != b.realm && strings.HasPrefix(b.realm, a.realm) {
				nested = true
			}
		}
	}
	if nested {
		st.realmShapes["nested"] = true
	}
	for i, a := range r.views {
		if !a.shared {
			continue
		}
		st.sharedViews++
		for _, b := range r.views[i+1:] {
			if b.shared && b.sharedLen != a.sharedLen {
				st.sharedPairs++ // two live views whose realms are table[:m] and table[:n] of one array
			}
		}
	}
	return r.failures(), steps
}

// failures lists what a history produced: writes into caller buffers first
// (non-terminal), then the model disagreement that ended it, if any.
func (r *runner) failures() []failure {
	out := append([]failure{}, r.alias...)
	if r.fail != nil {
		out = append(out, *r.fail)
	}
	return out
}

func replaySteps(steps []Step, st *stats) []failure {
	return replayStepsX(steps, st, false, nil)
}

func replayStepsX(steps []Step, st *stats, disc bool, trace func(kind string, v any)) []failure {
	r := &runner{m: kvmodel.New(), st: st, writer: map[string]int{}}
	r.disc, r.trace = disc, trace
	for _, s := range steps {
		if trace != nil {
			trace("step", s)
		}
		r.exec(s)
		if r.fail != nil {
			return r.failures()
		}
	}
	r.finalSweep()
	return r.failures()
}

// ---------------------------------------------------------------- driver

func run(c *vf.Ctx) {
	if c.Replay != "" {
		var cs Case
		if err := c.LoadReplay(&cs); err != nil {
			fmt.Fprintln(os.Stderr, err)
			os.Exit(3)
		}
		if cs.Part == "disc" {
			replayDisc(c, cs)
			return
		}
		st := newStats()
		for _, f := range replaySteps(cs.Steps, st) {
			c.Violation(f.fp, f.what, cs)
		}
		c.Count("evaluations", st.evals)
		return
	}
	c.SetRule("one evaluation = one operation executed on the real view/wrapper tree and compared with the ordered-map model (return values, errors, callback sequences, debug callbacks); histories are generated from the seed: root + random WithRealm/WithExtendedRealm chains over the realm alphabet {\"\",a,ab,a\\xff,\\xff,b} (and two-word concatenations), each view wrapped by 0-3 of flushkv / debug (all commands, filtered, nil callback); keys, prefixes and values come from the same alphabet, half of the keys are chosen among keys present in the view; every argument is a slice of a harness-owned array – exact-size, with 1-8 bytes of canary-filled spare capacity, or carved out of a per-history shared realm table / key table (WithRealm realms as table[:n], so sibling views hold overlapping slices of one array) – and all such arrays are compared after every library call; buffers passed to Set / a finished batch are scribbled and reused for later arguments; a Close is placed in the second half of 60% of the histories and followed by every operation kind. distinct_nontrivial counts distinct histories (hash of the executed step list) that had a nested realm pair, at least one Get hit, one iteration delivering >= 2 entries and one value read through a view other than the writing one. A second family (disc.go, counters disc_*/reentrant*/held_*/user_panics*) runs shorter histories of the same generator single-goroutine in plain-build, timer-free child processes with an impolite caller: results of Get and keys/values handed to consumers are kept with a deep copy, compared after every later call, then overwritten over their whole capacity and appended to; iteration consumers and debug callbacks call every operation kind on the same view, parents, children and siblings (nested iterations two levels deep, whole batch cycles, new views) and panic (recovered) before the history goes on; the model delivers the entries present when the iteration started and applies the consumer's writes at once; a call that never returns is decided by the Go runtime's dead-lock detector and reproduced in a traced child")
	nHist := c.Pick(20000, 1000000)
	nSteps := c.Pick(60, 80)
	workers := runtime.NumCPU()
	var mu sync.Mutex
	total := newStats()
	merge := func(st *stats, nontrivial []uint64, hist int) {
		mu.Lock()
		defer mu.Unlock()
		c.Count("histories", hist)
		c.Count("evaluations", st.evals)
		for k, n := range st.ops {
			c.Count("op:"+k, n)
		}
		c.Count("post_close_checks", st.postClose)
		c.Count("scribbled_bytes", st.scribbles)
		c.Count("cross_view_reads", st.crossRealm)
		c.Count("prefix_deletes_straddling_views", st.straddle)
		c.Count("early_stops", st.earlyStops)
		c.Count("iterations_multi_entry", st.iterMulti)
		c.Count("debug_callbacks_checked", st.dbgEvents)
		c.Count("get_hits", st.hits)
		c.Count("get_misses", st.misses)
		c.Count("batch_set_delete_mixes", st.batchMixed)
		c.Count("batches_opened_while_another_open", st.multiBatch)
		c.Count("batch_reuse_after_commit", st.reuseAfterCommit)
		c.Count("batch_reuse_after_cancel", st.reuseAfterCancel)
		c.Count("batch_recommits", st.recommits)
		c.Count("batch_commits_after_cancel", st.commitAfterCancel)
		c.Count("batch_recommit_readbacks", st.recommitProbes)
		c.Count("args_exact_size", st.exactArgs)
		c.Count("args_with_spare_capacity", st.spareArgs)
		c.Count("args_carved_from_shared_table", st.sharedArgs)
		c.Count("arg_buffers_reused_after_set_or_commit", st.reuses)
		c.Count("caller_buffer_bytes_verified", st.guardBytes)
		c.Count("views_with_realm_from_shared_table", st.sharedViews)
		c.Count("sibling_view_pairs_overlapping_in_shared_table", st.sharedPairs)
		for k := range st.stacks {
			c.Distinct("wrapper_stack", k)
			total.stacks[k] = true
		}
		for _, h := range nontrivial {
			c.DistinctHash("nontrivial", h)
		}
	}
	chunk := 50
	nChunks := (nHist + chunk - 1) / chunk
	vf.Parallel(nChunks, workers, func(ci int) {
		st := newStats()
		var nt []uint64
		n := 0
		for i := ci * chunk; i < (ci+1)*chunk && i < nHist; i++ {
			n++
			rng := c.Rand(fmt.Sprintf("hist/%d", i))
			hs := newStats()
			fs, steps := runHistory(rng, nSteps, hs)
			for _, f := range fs {
				txt := ""
				if f.step < len(steps) {
					txt = steps[f.step].Text
				}
				c.Violation(f.fp, fmt.Sprintf("history %d step %d (%s): %s", i, f.step, txt, f.what), Case{History: i, Steps: steps, Failed: f.what})
			}
			if hs.realmShapes["nested"] && hs.hits > 0 && hs.iterMulti > 0 && hs.crossRealm > 0 {
				h := fnv.New64a()
				for _, s := range steps {
					fmt.Fprintf(h, "%s|%d|%d|%q|%q|%d|%d|%v;", s.Op, s.V, s.B, s.K, s.Val, s.Dir, s.Stop, s.Ext)
				}
				nt = append(nt, h.Sum64())
			}
			if i < 2 && c.WantSample() {
				var txt []string
				for j, s := range steps {
					if j >= 14 {
						break
					}
					txt = append(txt, s.Text)
				}
				c.Sample(map[string]any{"history": i, "first_steps": txt})
			}
			// fold per-history stats
			st.evals += hs.evals
			for k, v := range hs.ops {
				st.ops[k] += v
			}
			st.postClose += hs.postClose
			st.scribbles += hs.scribbles
			st.crossRealm += hs.crossRealm
			st.straddle += hs.straddle
			st.earlyStops += hs.earlyStops
			st.iterMulti += hs.iterMulti
			st.dbgEvents += hs.dbgEvents
			st.hits += hs.hits
			st.misses += hs.misses
			st.batchMixed += hs.batchMixed
			st.multiBatch += hs.multiBatch
			st.reuseAfterCommit += hs.reuseAfterCommit
			st.reuseAfterCancel += hs.reuseAfterCancel
			st.recommits += hs.recommits
			st.commitAfterCancel += hs.commitAfterCancel
			st.recommitProbes += hs.recommitProbes
			st.exactArgs += hs.exactArgs
			st.spareArgs += hs.spareArgs
			st.sharedArgs += hs.sharedArgs
			st.reuses += hs.reuses
			st.guardBytes += hs.guardBytes
			st.sharedViews += hs.sharedViews
			st.sharedPairs += hs.sharedPairs
			for k := range hs.stacks {
				st.stacks[k] = true
			}
		}
		merge(st, nt, n)
	})
	runDisc(c)
	c.Require("evaluations", c.Pick(600000, 4000000))
	c.Require("post_close_checks", 5000)
	c.Require("cross_view_reads", 1000)
	c.Require("prefix_deletes_straddling_views", 200)
	c.Require("early_stops", 1000)
	c.Require("debug_callbacks_checked", 5000)
	c.Require("batch_set_delete_mixes", 200)
	c.Require("scribbled_bytes", 10000)
	c.Require("batch_reuse_after_commit", 2000)
	c.Require("batch_reuse_after_cancel", 2000)
	c.Require("batch_recommits", 2000)
	c.Require("args_with_spare_capacity", 100000)
	c.Require("args_carved_from_shared_table", 50000)
	c.Require("arg_buffers_reused_after_set_or_commit", 20000)
	c.Require("sibling_view_pairs_overlapping_in_shared_table", 5000)
	c.Assume("the model (harness/internal/kvmodel, ~40 lines of map operations) is correct; the callback passed to debug.New is only invoked synchronously; the discipline children contain no timers and no second goroutine, so \"all goroutines are asleep\" from the Go runtime means the history's own call waits for ever")
}

func main() { vf.Main("C04", "exploration", run, child) }
