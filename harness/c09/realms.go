package main

// Part "realms" of C09: the configuration space "the supplied KVStore".
//
// Several maps/sets live in ONE database, each on a store handle with its own
// realm: sibling realms, nested realms (one realm a proper prefix of another),
// realm bytes 0x01..0x03 that collide with the prefixes of the internal layout,
// an instance on the root store, handles derived through chains of WithRealm /
// WithExtendedRealm (also from another instance's handle); plus foreign entries
// that belong to no instance. The instances hold overlapping and equal contents
// (small shared key and value alphabets, "equalize" steps) and are driven in an
// interleaved sequential history of Set/Add, Delete, Get, Has, Size, Root,
// Stream, Commit, Reopen.
//
// Oracles
//  1. isolation: every instance behaves as its own plain-map model whatever the
//     others do; a new instance over a re-derived handle after Commit (other
//     instances may have mutated, committed and pruned in between) has the same
//     Root, Size and contents;
//  2. the whole database is compared before/after every operation, partitioned by
//     owner (longest instance realm that is a prefix of the key; registered
//     foreign keys belong to nobody): an operation on instance i may only change
//     entries owned by i;
//  3. Root depends on the contents alone, not on the realm: equal contents in
//     different realms give equal roots, different contents different roots.
//
// Not demanded: isolation of an instance whose realm is another instance's realm
// extended by 0x00... or 0x01...: that is inside the enclosing instance's raw-key
// index / trie-node realm (persistent layout: realm 0 raw keys, realm 1 nodes,
// key 2 root, key 3 size). The nested instance's Stream iterates its own raw-key
// index by prefix and then also meets the enclosing instance's entries (for
// 0x01: its content-addressed nodes whose hash starts with 0x00 - seen in about
// 1 of 600 scenarios on the unchanged tree). An instance owns the realm it was
// given; such layouts are not generated.

import (
	"bytes"
	"encoding/hex"
	"fmt"
	"math/rand"
	"runtime"
	"sort"
	"strings"

	"github.com/iotaledger/hive.go/kvstore"
	"github.com/iotaledger/hive.go/kvstore/mapdb"
	"github.com/iotaledger/hive.go/serializer/v2/typeutils"
	"verif/harness/internal/vf"
)

type chainStep struct {
	From   int    `json:"from"` // -1: the root database handle, else the current handle of that instance
	Ext    bool   `json:"ext"`  // WithExtendedRealm instead of WithRealm
	Realm  []byte `json:"realm"`
	Second *struct {
		Ext   bool   `json:"ext"`
		Realm []byte `json:"realm"`
	} `json:"second,omitempty"`
}

func (s chainStep) String() string {
	f := func(ext bool, r []byte) string {
		if ext {
			return fmt.Sprintf(".WithExtendedRealm(%x)", r)
		}
		return fmt.Sprintf(".WithRealm(%x)", r)
	}
	from := "db"
	if s.From >= 0 {
		from = fmt.Sprintf("handle#%d", s.From)
	}
	out := from + f(s.Ext, s.Realm)
	if s.Second != nil {
		out += f(s.Second.Ext, s.Second.Realm)
	}
	return out
}

type realmInst struct {
	Flavour string    `json:"flavour"`
	Realm   []byte    `json:"realm"`
	Chain   chainStep `json:"chain"`

	store     kvstore.KVStore
	in        inst
	model     map[string][]byte
	committed bool
	dirty     bool // mutated since the last Commit
}

type realmRec struct {
	Part  string `json:"part"` // "realms"
	Seed  int64  `json:"seed"`
	FP    string `json:"fp"`
	Pos   int    `json:"pos"`
	What  string `json:"what"`
	Trace string `json:"trace"`
}

type realmScen struct {
	seed    int64
	rng     *rand.Rand
	db      kvstore.KVStore
	insts   []*realmInst
	foreign map[string]string
	snap    map[string]string
	owners  map[string]int    // database key -> instance whose operation created it
	roots   map[string]string // flavour/contents -> root
	rev     map[string]string // flavour/root -> contents
	trace   []string
	pos     int
	st      *concStats
}

type rviol struct {
	fp, what string
}

var realmKeys = []string{"a", "b", "c", "d", "e", ""}

var realmVals = func() [][]byte {
	long := make([]byte, 40)
	for i := range long {
		long[i] = byte(3*i + 1)
	}
	return [][]byte{{}, {1}, {2, 2}, long}
}()

func cloneBytes(b []byte) []byte { return append([]byte{}, b...) }

func hasPrefix(k, r []byte) bool { return len(k) >= len(r) && bytes.Equal(k[:len(r)], r) }

// genRealms produces 2-4 distinct realms; no realm is another one extended by
// 0x00... or 0x01...; at most one is empty (instance on the root store).
func genRealms(rng *rand.Rand) [][]byte {
	alpha := []byte{1, 2, 3, 1, 2, 3, 4, 7, 0xfe, 0}
	rb := func() byte { return alpha[rng.Intn(len(alpha))] }
	n := 2 + rng.Intn(3)
	var out [][]byte
	ok := func(r []byte) bool {
		for _, o := range out {
			if bytes.Equal(o, r) {
				return false
			}
			if len(o) < len(r) && hasPrefix(r, o) && r[len(o)] <= 1 {
				return false
			}
			if len(r) < len(o) && hasPrefix(o, r) && o[len(r)] <= 1 {
				return false
			}
		}
		return true
	}
	for tries := 0; len(out) < n && tries < 200; tries++ {
		var r []byte
		switch x := rng.Intn(10); {
		case len(out) == 0 || x < 2: // fresh realm of 0-3 bytes
			l := rng.Intn(4)
			if x == 0 && len(out) > 0 {
				l = 0
			}
			for i := 0; i < l; i++ {
				r = append(r, rb())
			}
		case x < 5: // sibling: same parent, other last byte
			o := out[rng.Intn(len(out))]
			if len(o) == 0 {
				continue
			}
			r = cloneBytes(o)
			r[len(r)-1] = rb()
		case x < 8: // nested: extension of an existing realm by 1-2 bytes
			o := out[rng.Intn(len(out))]
			r = cloneBytes(o)
			for i := 0; i < 1+rng.Intn(2); i++ {
				r = append(r, rb())
			}
		default: // a proper prefix of an existing realm
			o := out[rng.Intn(len(out))]
			if len(o) == 0 {
				continue
			}
			r = cloneBytes(o[:rng.Intn(len(o))])
		}
		if r == nil {
			r = []byte{}
		}
		if ok(r) {
			out = append(out, r)
		}
	}
	return out
}

// genChain: one of several ways to obtain a handle whose realm is t.
func genChain(rng *rand.Rand, t []byte, idx int) chainStep {
	type second = struct {
		Ext   bool   `json:"ext"`
		Realm []byte `json:"realm"`
	}
	from := -1
	if idx > 0 && rng.Intn(3) == 0 {
		from = rng.Intn(idx) // derive from another instance's handle: WithRealm replaces its realm
	}
	switch x := rng.Intn(5); {
	case x == 0 && len(t) >= 2 && from == -1:
		i := 1 + rng.Intn(len(t)-1)
		return chainStep{From: -1, Ext: true, Realm: cloneBytes(t[:i]), Second: &second{Ext: true, Realm: cloneBytes(t[i:])}}
	case x == 1 && len(t) >= 2:
		i := 1 + rng.Intn(len(t)-1)
		return chainStep{From: from, Ext: false, Realm: cloneBytes(t[:i]), Second: &second{Ext: true, Realm: cloneBytes(t[i:])}}
	case x == 2:
		return chainStep{From: from, Ext: false, Realm: []byte{9, 9, byte(rng.Intn(256))}, Second: &second{Ext: false, Realm: cloneBytes(t)}}
	case x == 3 && from == -1:
		return chainStep{From: -1, Ext: true, Realm: cloneBytes(t)}
	}
	return chainStep{From: from, Ext: false, Realm: cloneBytes(t)}
}

func derive(db kvstore.KVStore, handles []kvstore.KVStore, s chainStep) (kvstore.KVStore, error) {
	h := db
	if s.From >= 0 {
		h = handles[s.From]
	}
	step := func(h kvstore.KVStore, ext bool, r []byte) (kvstore.KVStore, error) {
		if ext {
			return h.WithExtendedRealm(cloneBytes(r))
		}
		return h.WithRealm(cloneBytes(r))
	}
	h, err := step(h, s.Ext, s.Realm)
	if err != nil {
		return nil, err
	}
	if s.Second != nil {
		return step(h, s.Second.Ext, s.Second.Realm)
	}
	return h, nil
}

func dbSnapshot(db kvstore.KVStore) map[string]string {
	m := map[string]string{}
	_ = db.Iterate(kvstore.EmptyPrefix, func(k, v []byte) bool {
		m[string(k)] = string(v)
		return true
	})
	return m
}

// genForeign: entries that belong to no instance, also under the top-level
// prefixes 0x00..0x03 when no instance lives on the root store.
func genForeign(rng *rand.Rand, realms [][]byte) map[string]string {
	rootInst := false
	for _, r := range realms {
		if len(r) == 0 {
			rootInst = true
		}
	}
	valid := func(k []byte) bool {
		if len(k) == 0 {
			return false
		}
		for _, r := range realms {
			if len(r) > 0 && hasPrefix(k, r) {
				return false
			}
		}
		return !rootInst || k[0] >= 4
	}
	out := map[string]string{}
	cands := [][]byte{{1}, {2}, {3}, {0, 'a'}, {0}, {5}, {0xff, 0xff}}
	node := []byte{1}
	for i := 0; i < 32; i++ {
		node = append(node, byte(rng.Intn(256)))
	}
	cands = append(cands, node)
	for i := 0; i < 6; i++ {
		k := make([]byte, 1+rng.Intn(5))
		for j := range k {
			k[j] = byte(rng.Intn(256))
		}
		cands = append(cands, k)
	}
	rng.Shuffle(len(cands), func(i, j int) { cands[i], cands[j] = cands[j], cands[i] })
	for _, k := range cands {
		if valid(k) && len(out) < 6 {
			out[string(k)] = fmt.Sprintf("foreign-%x", k)
		}
	}
	return out
}

// partition compares the database with the last snapshot. Ownership is by origin, not by key shape (with nested
// realms the keys of the enclosing instance and of the nested one share prefixes): an entry belongs to the instance
// whose operation created it, and an instance may only create entries inside the realm of its handle. An operation on
// instance i must not change or delete an entry created by another instance, nor a foreign entry.
func (s *realmScen) partition(i int, what string) *rviol {
	now := dbSnapshot(s.db)
	defer func() { s.snap = now }()
	s.st.add("realms_partition_checks", 1)
	ri := s.insts[i]
	for k, v := range now {
		ov, existed := s.snap[k]
		if existed && ov == v {
			continue
		}
		if _, f := s.foreign[k]; f {
			return &rviol{"realms/isolation/foreign-entry-changed", fmt.Sprintf("%s on instance #%d (realm %x) changed the foreign entry %x", what, i, ri.Realm, k)}
		}
		if o, ok := s.owners[k]; ok && existed && o != i {
			return &rviol{"realms/isolation/other-instance-state-changed", fmt.Sprintf("%s on instance #%d (realm %x) changed the database entry %x, which was written by instance #%d (realm %x)", what, i, ri.Realm, k, o, s.insts[o].Realm)}
		}
		if !hasPrefix([]byte(k), ri.Realm) {
			return &rviol{"realms/isolation/wrote-outside-own-realm", fmt.Sprintf("%s on instance #%d (realm %x) wrote the database entry %x, which lies outside the realm of its store", what, i, ri.Realm, k)}
		}
		s.owners[k] = i
	}
	for k := range s.snap {
		if _, ok := now[k]; ok {
			continue
		}
		if _, f := s.foreign[k]; f {
			return &rviol{"realms/isolation/foreign-entry-changed", fmt.Sprintf("%s on instance #%d (realm %x) deleted the foreign entry %x", what, i, ri.Realm, k)}
		}
		if o, ok := s.owners[k]; ok && o != i {
			return &rviol{"realms/isolation/other-instance-state-changed", fmt.Sprintf("%s on instance #%d (realm %x) deleted the database entry %x, which was written by instance #%d (realm %x)", what, i, ri.Realm, k, o, s.insts[o].Realm)}
		}
		delete(s.owners, k)
	}
	return nil
}

func contentsKey(flavour string, m map[string][]byte) string {
	ks := make([]string, 0, len(m))
	for k := range m {
		ks = append(ks, k)
	}
	sort.Strings(ks)
	var b strings.Builder
	b.WriteString(flavour)
	for _, k := range ks {
		fmt.Fprintf(&b, "|%q=%x", k, m[k])
	}
	return b.String()
}

func (s *realmScen) log(f string, a ...any) {
	s.trace = append(s.trace, fmt.Sprintf(f, a...))
}

func (s *realmScen) fl(i int) string { return "realms/" + s.insts[i].Flavour + "/" }

// call runs f and converts a panic into a finding.
func (s *realmScen) call(i int, kind string, f func() *rviol) (d *rviol) {
	defer func() {
		if p := recover(); p != nil {
			d = &rviol{s.fl(i) + kind + "/panic", fmt.Sprintf("%s on instance #%d panicked: %v", kind, i, p)}
		}
	}()
	return f()
}

func (s *realmScen) checkRoot(i int, in inst, kind string) *rviol {
	ri := s.insts[i]
	r := in.Root()
	rs := hex.EncodeToString(r[:])
	ck := contentsKey("", ri.model)
	// a map whose values are all empty has the leaves of a set: roots are compared per flavour only
	fk := ri.Flavour + ck
	if prev, ok := s.roots[fk]; ok {
		s.st.add("realms_root_compared_with_equal_contents_elsewhere", 1)
		if prev != rs {
			return &rviol{s.fl(i) + kind + "/root-depends-on-realm-or-history", fmt.Sprintf("instance #%d (realm %x): Root %s.. for contents that gave Root %s.. before in this database", i, ri.Realm, rs[:12], prev[:12])}
		}
	} else {
		s.roots[fk] = rs
	}
	if prev, ok := s.rev[ri.Flavour+rs]; ok && prev != ck {
		return &rviol{s.fl(i) + kind + "/different-contents-equal-root", fmt.Sprintf("instance #%d: Root %s.. was also the root of other contents", i, rs[:12])}
	}
	s.rev[ri.Flavour+rs] = ck
	return nil
}

// full compares every accessor of in with the model of instance i.
func (s *realmScen) full(i int, in inst, kind string) *rviol {
	ri := s.insts[i]
	if n := in.Size(); n != len(ri.model) {
		return &rviol{s.fl(i) + kind + "/Size", fmt.Sprintf("instance #%d (realm %x): Size %d, model %d", i, ri.Realm, n, len(ri.model))}
	}
	for _, k := range realmKeys {
		mv, mok := ri.model[k]
		has, err := in.Has(k)
		if err != nil {
			return &rviol{s.fl(i) + kind + "/Has/error", fmt.Sprintf("instance #%d (realm %x): Has(%q): %v", i, ri.Realm, k, err)}
		}
		if has != mok {
			return &rviol{s.fl(i) + kind + "/Has", fmt.Sprintf("instance #%d (realm %x): Has(%q)=%v, model %v", i, ri.Realm, k, has, mok)}
		}
		v, ok, err := in.Get(k)
		if err != nil {
			return &rviol{s.fl(i) + kind + "/Get/error", fmt.Sprintf("instance #%d (realm %x): Get(%q): %v", i, ri.Realm, k, err)}
		}
		if ok != mok || (ok && ri.Flavour == "map" && !bytes.Equal(v, mv)) {
			return &rviol{s.fl(i) + kind + "/Get", fmt.Sprintf("instance #%d (realm %x): Get(%q)=(%x,%v), model (%x,%v)", i, ri.Realm, k, v, ok, mv, mok)}
		}
	}
	seen := map[string][]byte{}
	if err := in.Stream(func(k string, v []byte) error { seen[k] = cloneBytes(v); return nil }); err != nil {
		return &rviol{s.fl(i) + kind + "/Stream/error", fmt.Sprintf("instance #%d (realm %x): Stream: %v", i, ri.Realm, err)}
	}
	if len(seen) != len(ri.model) {
		return &rviol{s.fl(i) + kind + "/Stream", fmt.Sprintf("instance #%d (realm %x): Stream delivered %d pairs, model has %d", i, ri.Realm, len(seen), len(ri.model))}
	}
	for k, v := range seen {
		mv, ok := ri.model[k]
		if !ok || (ri.Flavour == "map" && !bytes.Equal(v, mv)) {
			return &rviol{s.fl(i) + kind + "/Stream", fmt.Sprintf("instance #%d (realm %x): Stream delivered (%q,%x), model (%x,%v)", i, ri.Realm, k, v, mv, ok)}
		}
	}
	if in.WasRestoredFromStorage() != ri.committed {
		return &rviol{s.fl(i) + kind + "/WasRestoredFromStorage", fmt.Sprintf("instance #%d (realm %x): WasRestoredFromStorage=%v, a Commit happened: %v", i, ri.Realm, !ri.committed, ri.committed)}
	}
	return s.checkRoot(i, in, kind)
}

func (s *realmScen) handles() []kvstore.KVStore {
	hs := make([]kvstore.KVStore, len(s.insts))
	for i, in := range s.insts {
		hs[i] = in.store
	}
	return hs
}

// do performs one operation on instance i and the isolation check behind it.
func (s *realmScen) do(i int, op, k string, v []byte) *rviol {
	s.pos++
	ri := s.insts[i]
	s.st.add("realms_ops", 1)
	d := s.call(i, op, func() *rviol {
		switch op {
		case "Set":
			s.log("#%d.Set(%q,%x)", i, k, v)
			if err := ri.in.Set(k, v); err != nil {
				return &rviol{s.fl(i) + "Set/error", fmt.Sprintf("instance #%d (realm %x): Set(%q): %v", i, ri.Realm, k, err)}
			}
			if ri.Flavour == "set" {
				v = []byte{}
			}
			ri.model[k] = v
			ri.dirty = true
		case "Delete":
			s.log("#%d.Delete(%q)", i, k)
			_, was := ri.model[k]
			del, err := ri.in.Delete(k)
			if err != nil {
				return &rviol{s.fl(i) + "Delete/error", fmt.Sprintf("instance #%d (realm %x): Delete(%q): %v", i, ri.Realm, k, err)}
			}
			if del != was {
				return &rviol{s.fl(i) + "Delete", fmt.Sprintf("instance #%d (realm %x): Delete(%q)=%v, key present in the model: %v", i, ri.Realm, k, del, was)}
			}
			if was {
				delete(ri.model, k)
				ri.dirty = true
			}
		case "Commit":
			s.log("#%d.Commit()", i)
			if err := ri.in.Commit(); err != nil {
				return &rviol{s.fl(i) + "Commit/error", fmt.Sprintf("instance #%d (realm %x): Commit: %v", i, ri.Realm, err)}
			}
			ri.committed, ri.dirty = true, false
		case "Reopen":
			s.log("#%d.Reopen()", i)
			old := ri.in.Root()
			h, err := derive(s.db, s.handles(), ri.Chain)
			if err != nil {
				return &rviol{s.fl(i) + "Reopen/derive", err.Error()}
			}
			if !bytes.Equal(h.Realm(), ri.Realm) {
				return &rviol{"realms/handle-realm", fmt.Sprintf("%s has realm %x, expected %x", ri.Chain, h.Realm(), ri.Realm)}
			}
			ni := open(ri.Flavour, h)
			if r := ni.Root(); r != old {
				return &rviol{s.fl(i) + "Reopen/Root", fmt.Sprintf("instance #%d (realm %x): new instance has Root %x.., the committed one %x..", i, ri.Realm, r[:6], old[:6])}
			}
			if d := s.full(i, ni, "Reopen"); d != nil {
				return d
			}
			ri.in, ri.store = ni, h
			s.st.add("realms_reopens", 1)
		case "Check":
			s.log("#%d.Check()", i)
			return s.full(i, ri.in, "Check")
		case "Get":
			s.log("#%d.Get(%q)", i, k)
			mv, mok := ri.model[k]
			gv, ok, err := ri.in.Get(k)
			if err != nil {
				return &rviol{s.fl(i) + "Get/error", fmt.Sprintf("instance #%d (realm %x): Get(%q): %v", i, ri.Realm, k, err)}
			}
			if ok != mok || (ok && ri.Flavour == "map" && !bytes.Equal(gv, mv)) {
				return &rviol{s.fl(i) + "Get", fmt.Sprintf("instance #%d (realm %x): Get(%q)=(%x,%v), model (%x,%v)", i, ri.Realm, k, gv, ok, mv, mok)}
			}
		case "Size":
			s.log("#%d.Size()", i)
			if n := ri.in.Size(); n != len(ri.model) {
				return &rviol{s.fl(i) + "Size", fmt.Sprintf("instance #%d (realm %x): Size %d, model %d", i, ri.Realm, n, len(ri.model))}
			}
		case "Root":
			s.log("#%d.Root()", i)
			return s.checkRoot(i, ri.in, "Root")
		}
		return nil
	})
	if d != nil {
		return d
	}
	return s.partition(i, op)
}

func newRealmScen(seed int64, st *concStats) (*realmScen, *rviol) {
	rng := rand.New(rand.NewSource(seed))
	s := &realmScen{seed: seed, rng: rng, db: mapdb.NewMapDB(), roots: map[string]string{}, rev: map[string]string{}, owners: map[string]int{}, st: st}
	realms := genRealms(rng)
	s.foreign = genForeign(rng, realms)
	for k, v := range s.foreign {
		if err := s.db.Set([]byte(k), []byte(v)); err != nil {
			return s, &rviol{"realms/setup", err.Error()}
		}
	}
	for i, r := range realms {
		ri := &realmInst{Flavour: "map", Realm: r, Chain: genChain(rng, r, i), model: map[string][]byte{}}
		if rng.Intn(100) < 30 {
			ri.Flavour = "set"
		}
		h, err := derive(s.db, s.handles(), ri.Chain)
		if err != nil {
			return s, &rviol{"realms/setup", err.Error()}
		}
		if !bytes.Equal(h.Realm(), r) {
			return s, &rviol{"realms/handle-realm", fmt.Sprintf("%s has realm %x, expected %x", ri.Chain, h.Realm(), r)}
		}
		ri.store = h
		s.insts = append(s.insts, ri)
		s.log("instance #%d: %s on %s (realm %x)", i, ri.Flavour, ri.Chain, r)
	}
	s.snap = dbSnapshot(s.db)
	for i, ri := range s.insts {
		i, ri := i, ri
		if d := s.call(i, "New", func() *rviol { ri.in = open(ri.Flavour, ri.store); return nil }); d != nil {
			return s, d
		}
		if d := s.partition(i, "opening"); d != nil {
			return s, d
		}
	}
	return s, nil
}

func (s *realmScen) run() *rviol {
	rng := s.rng
	n := 30 + rng.Intn(50)
	rv := func() []byte { return cloneBytes(realmVals[rng.Intn(len(realmVals))]) }
	for step := 0; step < n; step++ {
		i := rng.Intn(len(s.insts))
		ri := s.insts[i]
		k := realmKeys[rng.Intn(len(realmKeys))]
		var d *rviol
		switch x := rng.Intn(100); {
		case x < 30:
			d = s.do(i, "Set", k, rv())
		case x < 44:
			d = s.do(i, "Delete", k, nil)
		case x < 58:
			d = s.do(i, "Commit", "", nil)
		case x < 68:
			if ri.committed && !ri.dirty {
				if s.othersCommittedSince(i) {
					s.st.add("realms_reopens_after_another_instance_committed", 1)
				}
				d = s.do(i, "Reopen", "", nil)
			} else {
				d = s.do(i, "Commit", "", nil)
			}
		case x < 75:
			d = s.do(i, "Get", k, nil)
		case x < 80:
			d = s.do(i, "Size", "", nil)
		case x < 87:
			d = s.do(i, "Root", "", nil)
		case x < 92:
			d = s.do(i, "Check", "", nil)
		default: // equalize: give instance i the contents of instance j
			j := rng.Intn(len(s.insts))
			if j == i {
				continue
			}
			s.st.add("realms_equalize_steps", 1)
			for _, k := range realmKeys {
				v, ok := s.insts[j].model[k]
				_, mine := ri.model[k]
				switch {
				case ok:
					d = s.do(i, "Set", k, cloneBytes(v))
				case mine:
					d = s.do(i, "Delete", k, nil)
				}
				if d != nil {
					return d
				}
			}
			d = s.do(i, "Root", "", nil)
		}
		if d != nil {
			return d
		}
	}
	// everything committed, everything reopened
	for i := range s.insts {
		if d := s.do(i, "Commit", "", nil); d != nil {
			return d
		}
	}
	for i := range s.insts {
		if d := s.do(i, "Reopen", "", nil); d != nil {
			return d
		}
	}
	// pruning: one instance after the other drops all it has and commits; all the others, reopened, keep theirs
	for _, i := range rng.Perm(len(s.insts)) {
		for _, k := range realmKeys {
			if _, ok := s.insts[i].model[k]; ok {
				if d := s.do(i, "Delete", k, nil); d != nil {
					return d
				}
			}
		}
		if d := s.do(i, "Commit", "", nil); d != nil {
			return d
		}
		for j := range s.insts {
			if !s.insts[j].dirty {
				s.st.add("realms_reopens_after_another_instance_committed", 1)
				if d := s.do(j, "Reopen", "", nil); d != nil {
					return d
				}
			}
		}
	}
	// the foreign entries are what they were
	now := dbSnapshot(s.db)
	for k, v := range s.foreign {
		if now[k] != v {
			return &rviol{"realms/isolation/foreign-entry-changed", fmt.Sprintf("foreign entry %x changed", k)}
		}
	}
	return nil
}

// othersCommittedSince is evidence only: some other instance is committed.
func (s *realmScen) othersCommittedSince(i int) bool {
	for j, o := range s.insts {
		if j != i && o.committed {
			return true
		}
	}
	return false
}

func realmEvidence(c *vf.Ctx, s *realmScen) {
	rootInst, nested, layoutBytes, siblings, nestedNonEmpty := false, false, false, false, false
	var shape []string
	for i, a := range s.insts {
		if len(a.Realm) == 0 {
			rootInst = true
		}
		for _, b := range a.Realm {
			if b >= 1 && b <= 3 {
				layoutBytes = true
			}
		}
		for j, b := range s.insts {
			if i == j {
				continue
			}
			if len(a.Realm) < len(b.Realm) && hasPrefix(b.Realm, a.Realm) {
				nested = true
				if len(a.Realm) > 0 {
					nestedNonEmpty = true
				}
			}
			if len(a.Realm) == len(b.Realm) && len(a.Realm) > 0 && bytes.Equal(a.Realm[:len(a.Realm)-1], b.Realm[:len(b.Realm)-1]) {
				siblings = true
			}
		}
		shape = append(shape, fmt.Sprintf("%s:%x", a.Flavour, a.Realm))
		c.Distinct("realms_derivation_chains", strings.Split(a.Chain.String(), "(")[0]+fmt.Sprint(a.Chain.Second != nil, a.Chain.From >= 0))
	}
	c.Distinct("realms_layouts", strings.Join(shape, ","))
	for k, on := range map[string]bool{"realms_scenarios_with_root_store_instance": rootInst, "realms_scenarios_with_nested_realms": nested, "realms_scenarios_with_realm_nested_in_nonempty_realm": nestedNonEmpty, "realms_scenarios_with_layout_prefix_bytes_in_realm": layoutBytes, "realms_scenarios_with_sibling_realms": siblings} {
		if on {
			s.st.add(k, 1)
		}
	}
	s.st.add("realms_instances", len(s.insts))
	s.st.add("realms_foreign_entries", len(s.foreign))
}

func runRealmScenario(c *vf.Ctx, st *concStats, seed int64) {
	s, d := newRealmScen(seed, st)
	if d == nil {
		realmEvidence(c, s)
		d = s.run()
	}
	st.add("realms_scenarios", 1)
	st.add("evaluations", s.pos)
	if d != nil {
		tr := s.trace
		if len(tr) > 400 {
			tr = tr[len(tr)-400:]
		}
		c.Violation(d.fp, fmt.Sprintf("several instances in one database (seed %d), step %d: %s", seed, s.pos, d.what), realmRec{Part: "realms", Seed: seed, FP: d.fp, Pos: s.pos, What: d.what, Trace: strings.Join(tr, "; ")})
	} else if c.WantSample() && len(s.insts) >= 3 {
		c.Sample(map[string]any{"kind": "realms scenario (instances, first operations)", "trace": s.trace[:min(len(s.trace), 14)]})
	}
}

func realmsPart(c *vf.Ctx) {
	n := c.Pick(2500, 40000)
	st := &concStats{counters: map[string]int{}}
	vf.Parallel(n, runtime.NumCPU(), func(i int) {
		runRealmScenario(c, st, c.Seed*1000003+900000000+int64(i))
	})
	st.flush(c)
	c.Require("realms_scenarios", n)
	c.Require("realms_ops", n*40)
	c.Require("realms_reopens", n*4)
	c.Require("realms_reopens_after_another_instance_committed", n*3)
	c.Require("realms_root_compared_with_equal_contents_elsewhere", n*5)
	c.Require("realms_scenarios_with_nested_realms", n/5)
	c.Require("realms_scenarios_with_realm_nested_in_nonempty_realm", n/10)
	c.Require("realms_scenarios_with_sibling_realms", n/5)
	c.Require("realms_scenarios_with_layout_prefix_bytes_in_realm", n/2)
	c.Require("realms_scenarios_with_root_store_instance", n/20)
	c.Require("realms_layouts", n/4)
}

func realmsReplay(c *vf.Ctx, rec *realmRec) {
	st := &concStats{counters: map[string]int{}}
	runRealmScenario(c, st, rec.Seed)
	st.flush(c)
}

// ------------------------------------------------------------------ realms in the concurrent histories
//
// A share of the concurrent histories (conc.go) runs its instance on a handle
// with a non-empty realm of a database that also holds foreign entries and a
// sibling instance with the same initial contents (same keys, same value bytes).
// The sibling is either passive or driven by one extra goroutine (sequential
// script over the same keys and value ids, judged against its own model). At
// quiescence the sibling commits, is reopened and compared, then drops all its
// keys and commits (pruning) before the main instance is reopened; at the end
// every database entry outside the two realms is what it was before.

type concRealm struct {
	realm, sibRealm []byte
	active          bool
	db              kvstore.KVStore
	store, sibStore kvstore.KVStore
	sib             inst
	sibCur          [concK]uint16
	sibCommitted    bool
	script          []sop
	before          map[string]string
	direct          []string
	dead            bool // a sibling call panicked: its lock may be held
}

var concRealmPool = [][]byte{{5}, {1}, {2}, {3}, {2, 2}, {7, 1}, {0xfe}, {1, 3}, {0, 4}}

func newConcRealm(cc *concCase, plans [][]cop) (*concRealm, error) {
	rng := rand.New(rand.NewSource(cc.Seed ^ 0x5ea1))
	if rng.Intn(100) >= 35 {
		return nil, nil
	}
	r := &concRealm{db: mapdb.NewMapDB(), active: rng.Intn(2) == 0}
	r.realm = cloneBytes(concRealmPool[rng.Intn(len(concRealmPool))])
	r.sibRealm = cloneBytes(r.realm)
	r.sibRealm[len(r.sibRealm)-1] ^= byte(1 + rng.Intn(6)) // same parent, other last byte: neither is a prefix of the other
	for k, v := range genForeign(rng, [][]byte{r.realm, r.sibRealm}) {
		if err := r.db.Set([]byte(k), []byte(v)); err != nil {
			return nil, err
		}
	}
	var err error
	mk := func(t []byte) (kvstore.KVStore, error) {
		switch x := rng.Intn(3); {
		case x == 0 && len(t) >= 2:
			h, err := r.db.WithExtendedRealm(cloneBytes(t[:1]))
			if err != nil {
				return nil, err
			}
			return h.WithExtendedRealm(cloneBytes(t[1:]))
		case x == 1:
			h, err := r.db.WithRealm([]byte{9, 9})
			if err != nil {
				return nil, err
			}
			return h.WithRealm(cloneBytes(t))
		}
		return r.db.WithExtendedRealm(cloneBytes(t))
	}
	if r.store, err = mk(r.realm); err != nil {
		return nil, err
	}
	if r.sibStore, err = mk(r.sibRealm); err != nil {
		return nil, err
	}
	// the sibling starts with the contents (and the committed state) of the main instance
	sib, st, err := applySetup(cc, r.sibStore, typeutils.ByteArray32ToBytes)
	if err != nil {
		return nil, err
	}
	r.sib, r.sibCur, r.sibCommitted = sib, st.Cur, st.Committed
	cc.Realm, cc.Sibling, cc.SiblingActive = hex.EncodeToString(r.realm), hex.EncodeToString(r.sibRealm), r.active
	if r.active {
		// values the main instance writes too: equal leaves in both tries
		var ids []uint16
		for _, p := range plans {
			for _, o := range p {
				if o.Op == "Set" {
					ids = append(ids, o.Val)
				}
			}
		}
		for _, s := range cc.Setup {
			if s.Op == "Set" {
				ids = append(ids, s.Val)
			}
		}
		for i, n := 0, 4+rng.Intn(6); i < n; i++ {
			k := rng.Intn(concK)
			switch x := rng.Intn(10); {
			case x < 5 && len(ids) > 0:
				r.script = append(r.script, sop{Op: "Set", Key: k, Val: ids[rng.Intn(len(ids))]})
			case x < 7:
				r.script = append(r.script, sop{Op: "Delete", Key: k})
			case x < 9:
				r.script = append(r.script, sop{Op: "Commit"})
			default:
				r.script = append(r.script, sop{Op: "Get", Key: k})
			}
		}
	}
	return r, nil
}

func (r *concRealm) bad(f string, a ...any) { r.direct = append(r.direct, fmt.Sprintf(f, a...)) }

// sibOp performs one sequential operation on the sibling and compares with its model.
func (r *concRealm) sibOp(cc *concCase, s sop) {
	if r.dead {
		return
	}
	defer func() {
		if p := recover(); p != nil {
			r.dead = true
			r.bad("realm/sibling/%s/panic", s.Op)
		}
	}()
	k := cc.Keys[s.Key]
	switch s.Op {
	case "Set":
		if err := r.sib.Set(k, setVal(cc.Flavour, s.Val)); err != nil {
			r.bad("realm/sibling/Set/error")
			return
		}
		r.sibCur[s.Key] = s.Val
	case "Delete":
		del, err := r.sib.Delete(k)
		if err != nil {
			r.bad("realm/sibling/Delete/error")
			return
		}
		if del != (r.sibCur[s.Key] != 0) {
			r.bad("realm/sibling/Delete")
		}
		r.sibCur[s.Key] = 0
	case "Commit":
		if err := r.sib.Commit(); err != nil {
			r.bad("realm/sibling/Commit/error")
			return
		}
		r.sibCommitted = true
	case "Get":
		v, ok, err := r.sib.Get(k)
		if err != nil {
			r.bad("realm/sibling/Get/error")
			return
		}
		id := uint16(1)
		if ok && cc.Flavour == "map" {
			id, _ = cvalID(v)
		}
		if ok != (r.sibCur[s.Key] != 0) || (ok && id != r.sibCur[s.Key]) {
			r.bad("realm/sibling/Get")
		}
	}
}

func (r *concRealm) inRealm(k string, realm []byte) bool { return hasPrefix([]byte(k), realm) }

// region compares the entries selected by sel with the snapshot taken before the goroutines started.
func (r *concRealm) region(what string, sel func(k string) bool) {
	now := dbSnapshot(r.db)
	for k, v := range now {
		if ov, ok := r.before[k]; sel(k) && (!ok || ov != v) {
			r.bad("%s", what)
			return
		}
	}
	for k := range r.before {
		if _, ok := now[k]; sel(k) && !ok {
			r.bad("%s", what)
			return
		}
	}
}

// quiescent runs after all goroutines finished and before the main instance is observed and reopened.
func (r *concRealm) quiescent(cc *concCase) {
	if !r.active {
		r.region("realm/other-instance-state-changed", func(k string) bool { return r.inRealm(k, r.sibRealm) })
	}
	r.sibOp(cc, sop{Op: "Commit"})
	if !r.dead {
		o := reopenObserve(open(cc.Flavour, r.sibStore), cc, 0, true)
		for _, d := range o.Direct {
			r.bad("realm/sibling/%s", d)
		}
		if len(o.Direct) == 0 && (o.Pairs != r.sibCur || o.Root != rootOf(cc.Flavour, &cc.Keys, r.sibCur) || !o.OK) {
			r.bad("realm/sibling/Reopen")
		}
	}
	// the sibling drops everything and commits: its orphaned nodes are pruned
	for k := 0; k < concK; k++ {
		if r.sibCur[k] != 0 {
			r.sibOp(cc, sop{Op: "Delete", Key: k})
		}
	}
	r.sibOp(cc, sop{Op: "Commit"})
}

// end: nothing outside the two realms has changed.
func (r *concRealm) end() {
	r.region("realm/wrote-outside-own-realm", func(k string) bool {
		return !r.inRealm(k, r.realm) && !r.inRealm(k, r.sibRealm)
	})
}
