package main

// Concurrent part of C09 ("conc").
//
// The ads map/set carries its own mutex and is used from several goroutines, so
// "every history of Set/Add/Delete/Commit" includes concurrent histories. This
// part
//
//  1. drives many short concurrent histories (3-5 goroutines x 4-10 operations
//     over 4 keys, unique values of varying length; all exported methods in the
//     mix), records call/return stamps at the client boundary and lets porcupine
//     decide whether there is a sequential order of atomic operations over the
//     plain-map model that explains every result. Root() is judged through a side
//     table rootOf(contents) computed on fresh sequential instances; Stream's
//     delivered pairs and Size are judged as one atomic snapshot. After the
//     goroutines finished, a NEW instance is opened over the same store and must
//     report the contents (and root) the map had at the linearization point of
//     the last Commit;
//  2. deterministic windows (plain-build child, judged structurally with gdump
//     actors, no stop-watch): a Stream callback parked on its first delivered
//     pair while another goroutine performs Set/Delete on two keys; Commit parked
//     at each of its store writes (and in the user-supplied root serializer)
//     while a writer mutates - then a new instance is opened over a copy of the
//     store taken when Commit returned. The recorded window histories go through
//     the same porcupine model: it is never demanded that the writer blocks;
//  3. runs the random workload in a -race child and reports data races whose
//     two access stacks both pass through package ads.

import (
	"bytes"
	"encoding/hex"
	"fmt"
	"hash/fnv"
	"math/rand"
	"regexp"
	"runtime"
	"sort"
	"strconv"
	"strings"
	"sync"
	"sync/atomic"
	"time"

	"github.com/anishathalye/porcupine"
	"github.com/iotaledger/hive.go/ads"
	"github.com/iotaledger/hive.go/kvstore"
	"github.com/iotaledger/hive.go/kvstore/mapdb"
	"github.com/iotaledger/hive.go/serializer/v2/typeutils"
	"verif/harness/internal/gdump"
	"verif/harness/internal/vf"
)

// ------------------------------------------------------------------ named entry points
//
// Every concurrent call into ads goes through one of these functions, so that a
// race report can be keyed by the exported methods on its two stacks.

//go:noinline
func cop_Set(i inst, k string, v []byte) error { return i.Set(k, v) }

//go:noinline
func cop_Delete(i inst, k string) (bool, error) { return i.Delete(k) }

//go:noinline
func cop_Get(i inst, k string) ([]byte, bool, error) { return i.Get(k) }

//go:noinline
func cop_Has(i inst, k string) (bool, error) { return i.Has(k) }

//go:noinline
func cop_Size(i inst) int { return i.Size() }

//go:noinline
func cop_Root(i inst) [32]byte { return i.Root() }

//go:noinline
func cop_Stream(i inst, f func(k string, v []byte) error) error { return i.Stream(f) }

//go:noinline
func cop_Commit(i inst) error { return i.Commit() }

//go:noinline
func cop_WasRestored(i inst) bool { return i.WasRestoredFromStorage() }

// ------------------------------------------------------------------ keys, values, model

const concK = 4 // keys per history

var concPool = []string{"", "a", "b", "k0", "k1", "k2", "k3", "key-four", "key-five", "z"}

var (
	cvalOnce sync.Once
	cvalTab  [][]byte
)

// cval is the value written under a unique id: two id bytes plus a padding whose
// length depends on the id (hashing a leaf takes from well under a microsecond to
// tens of microseconds).
func cval(id uint16) []byte {
	cvalOnce.Do(func() {
		pads := [...]int{0, 3, 40, 700, 6000}
		cvalTab = make([][]byte, 4096)
		for i := range cvalTab {
			b := make([]byte, 2+pads[i%len(pads)])
			b[0], b[1] = byte(i>>8), byte(i)
			for j := 2; j < len(b); j++ {
				b[j] = byte(i*31 + j)
			}
			cvalTab[i] = b
		}
	})
	return cvalTab[int(id)%len(cvalTab)]
}

func cvalID(b []byte) (uint16, bool) {
	if len(b) < 2 {
		return 0, false
	}
	id := uint16(b[0])<<8 | uint16(b[1])
	return id, id != 0 && int(id) < 4096 && bytes.Equal(b, cval(id))
}

// cstate is the model state: current contents (0 = absent, else the unique id of
// the value; 1 for a present set member), the contents at the last Commit and
// whether a root was ever stored.
type cstate struct {
	Cur       [concK]uint16 `json:"cur"`
	Per       [concK]uint16 `json:"per"`
	Committed bool          `json:"committed"`
}

func countKeys(a [concK]uint16) (n int) {
	for _, v := range a {
		if v != 0 {
			n++
		}
	}
	return
}

var cclock atomic.Int64

// cop is one recorded operation.
type cop struct {
	Client int           `json:"client"`
	Op     string        `json:"op"` // Set Delete Get Has Size Root Stream Commit WasRestored Reopen
	Key    int           `json:"key"`
	Val    uint16        `json:"val,omitempty"` // Set: written id; Get: returned id
	OK     bool          `json:"ok"`            // Delete: deleted; Get: exists; Has; WasRestored; Reopen: WasRestored
	N      int           `json:"n,omitempty"`   // Size
	Root   string        `json:"root,omitempty"`
	Pairs  [concK]uint16 `json:"pairs"` // Stream: delivered; Reopen: contents read back
	Full   bool          `json:"full,omitempty"`
	Call   int64         `json:"call"`
	Ret    int64         `json:"ret"`
	Jitter bool          `json:"-"`
	cb     func(n int)   // Stream only: called in the callback with the number of pairs delivered so far
	Direct []string      `json:"direct,omitempty"` // results that are wrong on their own (errors, garbled values)
}

// sop is one sequential set-up operation (before the goroutines start).
type sop struct {
	Op  string `json:"op"` // Set Delete Commit Reopen
	Key int    `json:"key"`
	Val uint16 `json:"val,omitempty"`
}

type concCase struct {
	Part    string        `json:"part"` // "conc"
	Kind    string        `json:"kind"` // random | stream-window | commit-window | race
	Family  string        `json:"family,omitempty"`
	Flavour string        `json:"flavour"`
	Seed    int64         `json:"seed"`
	Keys    [concK]string `json:"keys"`
	Setup   []sop         `json:"setup"`
	Writer  []sop         `json:"writer,omitempty"`
	Window  int           `json:"window"`
	Label   string        `json:"label,omitempty"`
	Init    cstate        `json:"init"`
	History []cop         `json:"history,omitempty"`
	Report  string        `json:"report,omitempty"`
	// realm mode (realms.go): the instance lives in a realm of a database shared with a sibling instance and foreign entries
	Realm         string   `json:"realm,omitempty"`
	Sibling       string   `json:"sibling,omitempty"`
	SiblingActive bool     `json:"sibling_active,omitempty"`
	RealmFindings []string `json:"realm_findings,omitempty"`

	pmu      sync.Mutex
	panicked []string // methods that panicked (a panicking call may leave the map's lock held for ever)
	poison   chan struct{}
}

func (cc *concCase) notePanic(op string) {
	cc.pmu.Lock()
	cc.panicked = append(cc.panicked, op)
	if cc.poison != nil && len(cc.panicked) == 1 {
		close(cc.poison)
	}
	cc.pmu.Unlock()
}

func (cc *concCase) panics() []string {
	cc.pmu.Lock()
	defer cc.pmu.Unlock()
	return append([]string(nil), cc.panicked...)
}

type rootKey struct {
	flavour string
	keys    [concK]string
	cur     [concK]uint16
}

var rootMemo sync.Map // rootKey -> string (hex)

func openWith(flavour string, store kvstore.KVStore, idToBytes func([32]byte) ([]byte, error)) inst {
	if flavour == "set" {
		return setInst{ads.NewSet[[32]byte](store, idToBytes, typeutils.ByteArray32FromBytes, keyToBytes, keyFromBytes)}
	}
	return mapInst{ads.NewMap[[32]byte](store, idToBytes, typeutils.ByteArray32FromBytes, keyToBytes, keyFromBytes, valueToBytes, valueFromBytes)}
}

func setVal(flavour string, id uint16) []byte {
	if flavour == "set" {
		return nil
	}
	return cval(id)
}

// rootOf computes the root of the given contents on a fresh sequential instance
// (the sequential part of C09 establishes that Root is a function of the contents).
func rootOf(flavour string, keys *[concK]string, cur [concK]uint16) string {
	k := rootKey{flavour, *keys, cur}
	if v, ok := rootMemo.Load(k); ok {
		return v.(string)
	}
	in := open(flavour, mapdb.NewMapDB())
	for i, id := range cur {
		if id != 0 {
			if err := in.Set(keys[i], setVal(flavour, id)); err != nil {
				panic("rootOf: " + err.Error())
			}
		}
	}
	r := in.Root()
	s := hex.EncodeToString(r[:])
	rootMemo.Store(k, s)
	return s
}

func concModel(cc *concCase, h []cop) porcupine.Model {
	return porcupine.Model{
		Init: func() any { return cc.Init },
		Step: func(st, in, _ any) (bool, any) {
			s, o := st.(cstate), &h[in.(int)]
			switch o.Op {
			case "Set":
				s.Cur[o.Key] = o.Val
				return true, s
			case "Delete":
				ok := o.OK == (s.Cur[o.Key] != 0)
				s.Cur[o.Key] = 0
				return ok, s
			case "Get":
				return o.OK == (s.Cur[o.Key] != 0) && (!o.OK || o.Val == s.Cur[o.Key]), s
			case "Has":
				return o.OK == (s.Cur[o.Key] != 0), s
			case "Size":
				return o.N == countKeys(s.Cur), s
			case "Root":
				return o.Root == rootOf(cc.Flavour, &cc.Keys, s.Cur), s
			case "Stream":
				return o.Pairs == s.Cur, s
			case "Commit":
				s.Per = s.Cur
				s.Committed = true
				return true, s
			case "WasRestored":
				return o.OK == s.Committed, s
			case "Reopen":
				return o.Pairs == s.Per && o.OK == s.Committed && o.Root == rootOf(cc.Flavour, &cc.Keys, s.Per), s
			}
			return false, s
		},
	}
}

// ------------------------------------------------------------------ executing one operation

func keyIndex(keys *[concK]string, k string) int {
	for i, x := range keys {
		if x == k {
			return i
		}
	}
	return -1
}

// doOp performs o on in, stamping call and return. Results that are wrong on
// their own are appended to o.Direct ("<Method>/<what>"). A panic of the library
// is recorded as "<Method>/panic" and the operation is left without a return
// stamp (Ret == 0).
func doOp(in inst, cc *concCase, o *cop) {
	defer func() {
		if p := recover(); p != nil {
			o.Direct = append(o.Direct, o.Op+"/panic")
			o.Ret = 0
			cc.notePanic(o.Op)
		}
	}()
	k := cc.Keys[o.Key]
	set := cc.Flavour == "set"
	switch o.Op {
	case "Set":
		v := setVal(cc.Flavour, o.Val)
		o.Call = cclock.Add(1)
		err := cop_Set(in, k, v)
		o.Ret = cclock.Add(1)
		if err != nil {
			o.Direct = append(o.Direct, "Set/error")
		}
	case "Delete":
		o.Call = cclock.Add(1)
		ok, err := cop_Delete(in, k)
		o.Ret = cclock.Add(1)
		o.OK = ok
		if err != nil {
			o.Direct = append(o.Direct, "Delete/error")
		}
	case "Get":
		o.Call = cclock.Add(1)
		v, ok, err := cop_Get(in, k)
		o.Ret = cclock.Add(1)
		o.OK = ok
		if err != nil {
			o.Direct = append(o.Direct, "Get/error")
		} else if ok {
			if set {
				o.Val = 1
			} else if id, good := cvalID(v); good {
				o.Val = id
			} else {
				o.Direct = append(o.Direct, "Get/garbled-value")
			}
		}
	case "Has":
		o.Call = cclock.Add(1)
		ok, err := cop_Has(in, k)
		o.Ret = cclock.Add(1)
		o.OK = ok
		if err != nil {
			o.Direct = append(o.Direct, "Has/error")
		}
	case "Size":
		o.Call = cclock.Add(1)
		o.N = cop_Size(in)
		o.Ret = cclock.Add(1)
	case "Root":
		o.Call = cclock.Add(1)
		r := cop_Root(in)
		o.Ret = cclock.Add(1)
		o.Root = hex.EncodeToString(r[:])
	case "Stream":
		n := 0
		var bad []string
		o.Call = cclock.Add(1)
		err := cop_Stream(in, func(key string, v []byte) error {
			i := keyIndex(&cc.Keys, key)
			switch {
			case i < 0:
				bad = append(bad, "Stream/foreign-key")
			case o.Pairs[i] != 0:
				bad = append(bad, "Stream/duplicate-key")
			case set:
				o.Pairs[i] = 1
			default:
				if id, good := cvalID(v); good {
					o.Pairs[i] = id
				} else {
					bad = append(bad, "Stream/garbled-value")
				}
			}
			n++
			if o.cb != nil {
				o.cb(n)
			}
			return nil
		})
		o.Ret = cclock.Add(1)
		if err != nil {
			bad = append(bad, "Stream/error")
		}
		o.Direct = append(o.Direct, bad...)
	case "Commit":
		o.Call = cclock.Add(1)
		err := cop_Commit(in)
		o.Ret = cclock.Add(1)
		if err != nil {
			o.Direct = append(o.Direct, "Commit/error")
		}
	case "WasRestored":
		o.Call = cclock.Add(1)
		o.OK = cop_WasRestored(in)
		o.Ret = cclock.Add(1)
	}
}

// reopenObserve reads a new instance: Root, WasRestoredFromStorage, Has+Get of
// every key, and - if full - Size and Stream. Reads must not fail and must agree
// with each other; what they must equal is left to the model.
func reopenObserve(r inst, cc *concCase, client int, full bool) (o cop) {
	o = cop{Client: client, Op: "Reopen", Full: full}
	defer func() {
		if p := recover(); p != nil {
			o.Direct = append(o.Direct, "Reopen/panic")
		}
		o.Ret = cclock.Add(1)
	}()
	o.Call = cclock.Add(1)
	root := r.Root()
	o.Root = hex.EncodeToString(root[:])
	o.OK = r.WasRestoredFromStorage()
	for i, k := range cc.Keys {
		has, err := r.Has(k)
		if err != nil {
			o.Direct = append(o.Direct, "Reopen/Has/error")
			continue
		}
		v, ok, err := r.Get(k)
		if err != nil {
			o.Direct = append(o.Direct, "Reopen/Get/error")
			continue
		}
		if ok != has {
			o.Direct = append(o.Direct, "Reopen/Has-Get-disagree")
		}
		if ok {
			if cc.Flavour == "set" {
				o.Pairs[i] = 1
			} else if id, good := cvalID(v); good {
				o.Pairs[i] = id
			} else {
				o.Direct = append(o.Direct, "Reopen/Get/garbled-value")
			}
		}
	}
	if !full {
		return
	}
	if n := r.Size(); n != countKeys(o.Pairs) {
		o.Direct = append(o.Direct, "Reopen/Size-disagrees-with-Get")
	}
	s := cop{Op: "Stream"}
	doOp(r, cc, &s)
	for _, d := range s.Direct {
		o.Direct = append(o.Direct, "Reopen/"+d)
	}
	if len(s.Direct) == 0 && s.Pairs != o.Pairs {
		o.Direct = append(o.Direct, "Reopen/Stream-disagrees-with-Get")
	}
	return
}

// applySetup runs the sequential set-up on a new instance over store and returns
// the instance in use afterwards and the model state.
func applySetup(cc *concCase, store kvstore.KVStore, idToBytes func([32]byte) ([]byte, error)) (in inst, st cstate, err error) {
	defer func() {
		if p := recover(); p != nil {
			err = fmt.Errorf("panic during set-up: %v", p)
		}
	}()
	in = openWith(cc.Flavour, store, idToBytes)
	for _, s := range cc.Setup {
		switch s.Op {
		case "Set":
			if e := in.Set(cc.Keys[s.Key], setVal(cc.Flavour, s.Val)); e != nil {
				return in, st, e
			}
			st.Cur[s.Key] = s.Val
		case "Delete":
			if _, e := in.Delete(cc.Keys[s.Key]); e != nil {
				return in, st, e
			}
			st.Cur[s.Key] = 0
		case "Commit":
			if e := in.Commit(); e != nil {
				return in, st, e
			}
			st.Per, st.Committed = st.Cur, true
		case "Reopen": // only directly after a Commit
			in = openWith(cc.Flavour, store, idToBytes)
		}
	}
	return in, st, nil
}

// ------------------------------------------------------------------ judging a history

type concStats struct {
	mu       sync.Mutex
	counters map[string]int
}

func (s *concStats) add(k string, n int) {
	s.mu.Lock()
	s.counters[k] += n
	s.mu.Unlock()
}

func (s *concStats) flush(c *vf.Ctx) {
	s.mu.Lock()
	defer s.mu.Unlock()
	for k, v := range s.counters {
		c.Count(k, v)
	}
	s.counters = map[string]int{}
}

func toPorc(h []cop, skip func(i int) bool) []porcupine.Operation {
	out := make([]porcupine.Operation, 0, len(h))
	for i := range h {
		if skip != nil && skip(i) {
			continue
		}
		out = append(out, porcupine.Operation{ClientId: h[i].Client, Input: i, Output: i, Call: h[i].Call, Return: h[i].Ret})
	}
	return out
}

var readOnlyOps = []string{"Root", "Stream", "Size", "Get", "Has", "WasRestored", "Reopen"}

// judge reports direct findings and lets porcupine decide the history. where is
// a prefix of the human sentence.
func judge(c *vf.Ctx, st *concStats, cc *concCase, h []cop, where string) {
	cc.History = h
	pfx := "conc/" + cc.Flavour + "/"
	incomplete := false
	seen := map[string]bool{}
	for i := range h {
		for _, d := range h[i].Direct {
			if strings.HasSuffix(d, "/panic") {
				incomplete = true
			}
			if !seen[d] {
				seen[d] = true
				c.Violation(pfx+d, fmt.Sprintf("%s: operation #%d %s(%s) of client %d: %s", where, i, h[i].Op, cc.Keys[h[i].Key], h[i].Client, d), cc)
			}
		}
		if h[i].Ret == 0 || h[i].Call == 0 {
			incomplete = true
		}
	}
	st.add("conc_history_ops", len(h))
	ov := 0
	pairs := map[string]bool{}
	for i := range h {
		for j := i + 1; j < len(h); j++ {
			if h[i].Client != h[j].Client && h[i].Call < h[j].Ret && h[j].Call < h[i].Ret {
				ov++
				a, b := h[i].Op, h[j].Op
				if b < a {
					a, b = b, a
				}
				pairs[a+"||"+b] = true
			}
		}
	}
	st.add("conc_overlapping_op_pairs", ov)
	for p := range pairs {
		c.Distinct("conc_overlapping_method_pairs", p)
		switch p {
		case "Root||Root", "Set||Stream", "Delete||Stream", "Commit||Set", "Commit||Delete", "Commit||Commit", "Commit||Root":
			st.add("conc_histories_with_overlap:"+p, 1)
		}
	}
	// interleaving shape: the order of call/return events with client and method
	type ev struct {
		t int64
		s string
	}
	evs := make([]ev, 0, 2*len(h))
	for i := range h {
		evs = append(evs, ev{h[i].Call, fmt.Sprintf("c%d%s", h[i].Client, h[i].Op)}, ev{h[i].Ret, fmt.Sprintf("r%d", h[i].Client)})
	}
	sort.Slice(evs, func(i, j int) bool { return evs[i].t < evs[j].t })
	f := fnv.New64a()
	for _, e := range evs {
		f.Write([]byte(e.s))
	}
	c.DistinctHash("conc_interleaving_shapes", f.Sum64())
	if incomplete {
		st.add("conc_histories_incomplete", 1)
		return
	}
	switch porcupine.CheckOperationsTimeout(concModel(cc, h), toPorc(h, nil), 20*time.Second) {
	case porcupine.Ok:
		st.add("conc_porcupine_ok", 1)
		return
	case porcupine.Unknown:
		st.add("conc_porcupine_unknown", 1)
		return
	}
	st.add("conc_porcupine_illegal", 1)
	// name the class: the one read-only method without whose observations the history is legal; when leaving out
	// either of several methods repairs it, the blame is ambiguous and the generic name is kept
	fp, what := pfx+"history/not-linearizable", "no sequential order of atomic Set/Delete/Get/Has/Size/Root/Stream/Commit explains the results"
	culprits := map[string]bool{}
	for _, m := range readOnlyOps {
		if porcupine.CheckOperationsTimeout(concModel(cc, h), toPorc(h, func(j int) bool { return h[j].Op == m }), 5*time.Second) == porcupine.Ok {
			culprits[m] = true
		}
	}
	if len(culprits) == 1 {
		for m := range culprits {
			switch m {
			case "Reopen":
				fp, what = pfx+"Reopen/not-a-committed-state", "a new instance over the same store does not hold the contents and root the map had at any instant during the last Commit"
			case "Root":
				fp, what = pfx+"Root/not-atomic", "a Root() result is not the root of the contents at any instant between its call and return"
			case "Stream":
				fp, what = pfx+"Stream/not-a-snapshot", "the pairs delivered by a Stream are not the contents at any instant between its call and return"
			default:
				fp, what = pfx+m+"/not-atomic", "a "+m+" result does not fit any instant between its call and return"
			}
		}
	}
	c.Violation(fp, fmt.Sprintf("%s: history of %d operations (seed %d): %s", where, len(h), cc.Seed, what), cc)
}

// ------------------------------------------------------------------ random histories

type profile struct {
	name string
	w    [9]int // Set Delete Get Has Size Root Stream Commit WasRestored
}

var opNames = [9]string{"Set", "Delete", "Get", "Has", "Size", "Root", "Stream", "Commit", "WasRestored"}

var profiles = []profile{
	{"mix", [9]int{20, 12, 10, 8, 8, 14, 10, 10, 8}},
	{"roots", [9]int{18, 8, 4, 4, 6, 40, 8, 8, 4}},
	{"streams", [9]int{22, 14, 6, 4, 6, 8, 28, 8, 4}},
	{"commits", [9]int{22, 14, 6, 6, 4, 10, 6, 26, 6}},
}

func pickKeys(rng *rand.Rand) (k [concK]string) {
	p := rng.Perm(len(concPool))
	for i := range k {
		k[i] = concPool[p[i]]
	}
	return
}

// genSetup produces the sequential prefix: a fill of some (all) keys, optionally
// Commit, further mutations, Reopen. nextID is advanced for every value used.
func genSetup(rng *rand.Rand, flavour string, fillAll bool, minKeys int, nextID *uint16) []sop {
	var s []sop
	id := func() uint16 {
		if flavour == "set" {
			return 1
		}
		*nextID++
		return *nextID
	}
	p := rng.Perm(concK)
	n := minKeys + rng.Intn(concK-minKeys+1)
	if fillAll {
		n = concK
	}
	for _, k := range p[:n] {
		s = append(s, sop{Op: "Set", Key: k, Val: id()})
	}
	present := append([]int(nil), p[:n]...)
	mutate := func() {
		// one or two changes that keep at least minKeys keys (all keys if fillAll)
		for j := 0; j < 1+rng.Intn(2); j++ {
			switch x := rng.Intn(3); {
			case x == 0 && !fillAll && len(present) > minKeys:
				i := rng.Intn(len(present))
				s = append(s, sop{Op: "Delete", Key: present[i]})
				present = append(present[:i], present[i+1:]...)
			case (x == 1 || len(present) == 0) && len(present) < concK:
				for _, k := range p {
					if !contains(present, k) {
						s = append(s, sop{Op: "Set", Key: k, Val: id()})
						present = append(present, k)
						break
					}
				}
			default:
				s = append(s, sop{Op: "Set", Key: present[rng.Intn(len(present))], Val: id()})
			}
		}
	}
	switch rng.Intn(6) {
	case 0: // never committed
	case 1:
		s = append(s, sop{Op: "Commit"})
	case 2:
		s = append(s, sop{Op: "Commit"})
		mutate()
	case 3: // restored, nodes loaded lazily
		s = append(s, sop{Op: "Commit"}, sop{Op: "Reopen"})
	case 4:
		s = append(s, sop{Op: "Commit"})
		mutate()
		s = append(s, sop{Op: "Commit"}, sop{Op: "Reopen"})
	default:
		s = append(s, sop{Op: "Commit"}, sop{Op: "Reopen"})
		mutate()
	}
	return s
}

func contains(a []int, x int) bool {
	for _, y := range a {
		if y == x {
			return true
		}
	}
	return false
}

func genRandom(seed int64) (cc *concCase, plans [][]cop) {
	rng := rand.New(rand.NewSource(seed))
	cc = &concCase{Part: "conc", Kind: "random", Seed: seed, Flavour: "map", Family: "gen", Keys: pickKeys(rng)}
	if rng.Intn(100) < 35 {
		cc.Flavour = "set"
	}
	if rng.Intn(100) < 30 {
		// overwrite-only family: every key present, no Delete: the raw-key index and the size in the store never change,
		// so (once the full key set was committed) a new instance over the store is completely determined by the last Commit
		cc.Family = "ow"
	}
	var nextID uint16
	cc.Setup = genSetup(rng, cc.Flavour, cc.Family == "ow", 0, &nextID)
	pr := profiles[rng.Intn(len(profiles))]
	cc.Label = pr.name
	w := pr.w
	if cc.Family == "ow" {
		w[0] += w[1]
		w[1] = 0
	}
	tot := 0
	for _, x := range w {
		tot += x
	}
	G := 3 + rng.Intn(3)
	plans = make([][]cop, G)
	for g := range plans {
		n := 4 + rng.Intn(7)
		for i := 0; i < n; i++ {
			x := rng.Intn(tot)
			oi := 0
			for x >= w[oi] {
				x -= w[oi]
				oi++
			}
			o := cop{Client: g, Op: opNames[oi], Key: rng.Intn(concK), Jitter: rng.Intn(4) == 0}
			if o.Op == "Set" {
				o.Val = 1
				if cc.Flavour == "map" {
					nextID++
					o.Val = nextID
				}
			}
			if o.Op == "Stream" && rng.Intn(2) == 0 {
				o.cb = func(int) { runtime.Gosched() } // jitter only
			}
			plans[g] = append(plans[g], o)
		}
	}
	return cc, plans
}

// finalOps observes the quiescent instance sequentially.
func finalOps(in inst, cc *concCase, client int) []cop {
	ops := []cop{{Op: "Size"}, {Op: "Root"}, {Op: "Stream"}, {Op: "WasRestored"}}
	for k := 0; k < concK; k++ {
		ops = append(ops, cop{Op: "Get", Key: k}, cop{Op: "Has", Key: k})
	}
	for i := range ops {
		ops[i].Client = client
		doOp(in, cc, &ops[i])
	}
	return ops
}

func runRandom(c *vf.Ctx, st *concStats, seed int64) {
	cc, plans := genRandom(seed)
	store := mapdb.NewMapDB()
	cr, err := newConcRealm(cc, plans)
	if err != nil {
		c.Violation("conc/"+cc.Flavour+"/setup/error", "set-up of the shared database of a concurrent history failed: "+err.Error(), cc)
		return
	}
	if cr != nil {
		store = cr.store
	}
	in, st0, err := applySetup(cc, store, typeutils.ByteArray32ToBytes)
	if err != nil {
		c.Violation("conc/"+cc.Flavour+"/setup/error", "sequential set-up of a concurrent history failed: "+err.Error(), cc)
		return
	}
	cc.Init = st0
	cc.poison = make(chan struct{})
	var wg sync.WaitGroup
	start := make(chan struct{})
	for g := range plans {
		wg.Add(1)
		go func(p []cop) {
			defer wg.Done()
			<-start
			for i := range p {
				if p[i].Jitter {
					runtime.Gosched()
				}
				doOp(in, cc, &p[i])
				if p[i].Ret == 0 {
					return // the library panicked in this goroutine
				}
			}
		}(plans[g])
	}
	if cr != nil {
		cr.before = dbSnapshot(cr.db)
		if cr.active {
			wg.Add(1)
			go func() {
				defer wg.Done()
				<-start
				for _, s := range cr.script {
					runtime.Gosched()
					cr.sibOp(cc, s)
				}
			}()
		}
	}
	close(start)
	done := make(chan struct{})
	go func() { wg.Wait(); close(done) }()
	select {
	case <-done:
	case <-cc.poison:
		// a call panicked inside the library: that is the finding. The panicking call may have left the map's lock held, in
		// which case the other goroutines never return: give them a moment, then abandon the history (no verdict depends on
		// this duration - the panic is reported either way)
		select {
		case <-done:
		case <-time.After(2 * time.Second):
		}
	}
	if ps := cc.panics(); len(ps) > 0 {
		st.add("conc_histories", 1)
		st.add("conc_histories_incomplete", 1)
		seen := map[string]bool{}
		for _, m := range ps {
			if !seen[m] {
				seen[m] = true
				c.Violation("conc/"+cc.Flavour+"/"+m+"/panic", fmt.Sprintf("concurrent history (%s, %s, seed %d): %s panicked inside the library while other goroutines were using the same instance", cc.Family, cc.Label, seed, m), &concCase{Part: "conc", Kind: "panic", Family: cc.Family, Flavour: cc.Flavour, Seed: seed, Keys: cc.Keys, Setup: cc.Setup, Init: cc.Init, Label: cc.Label})
			}
		}
		return
	}
	var h []cop
	for _, p := range plans {
		for i := range p {
			if p[i].Call != 0 {
				h = append(h, p[i])
			}
		}
	}
	G := len(plans)
	h = append(h, finalOps(in, cc, G)...)
	if cr != nil {
		cr.quiescent(cc)
	}
	h = append(h, reopenObserve(open(cc.Flavour, store), cc, G, cc.Family == "ow" && cc.Init.Committed))
	// and once more after a last, sequential Commit: now the raw-key index and the size in the store belong to the
	// committed contents too, so Size and Stream of the new instance are compared as well
	cm := cop{Client: G, Op: "Commit"}
	doOp(in, cc, &cm)
	h = append(h, cm)
	if cm.Ret != 0 {
		h = append(h, reopenObserve(open(cc.Flavour, store), cc, G, true))
	}
	sort.SliceStable(h, func(i, j int) bool { return h[i].Call < h[j].Call })
	if cr != nil {
		cr.end()
		st.add("conc_histories_in_a_realm_of_a_shared_database", 1)
		if cr.active {
			st.add("conc_histories_with_concurrently_driven_sibling", 1)
		}
		cc.RealmFindings = cr.direct
		seen := map[string]bool{}
		for _, d := range cr.direct {
			if !seen[d] {
				seen[d] = true
				cc.History = h
				c.Violation("conc/"+cc.Flavour+"/"+d, fmt.Sprintf("concurrent history (seed %d) on realm %s of a database shared with a sibling instance (realm %s, %s) and foreign entries: %s", seed, cc.Realm, cc.Sibling, map[bool]string{true: "driven concurrently", false: "passive"}[cr.active], d), cc)
			}
		}
	}
	st.add("conc_histories", 1)
	st.add("evaluations", len(h))
	st.add("conc_histories:"+cc.Flavour+"/"+cc.Family, 1)
	st.add("conc_profile:"+cc.Label, 1)
	if vfRace {
		st.add("conc_histories_race_build", 1)
	}
	judge(c, st, cc, h, "concurrent history ("+cc.Family+", "+cc.Label+")")
}

func randomChild(c *vf.Ctx) {
	n, _ := strconv.Atoi(c.ChildArgs[0])
	runners, _ := strconv.Atoi(c.ChildArgs[1])
	off, _ := strconv.ParseInt(c.ChildArgs[2], 10, 64)
	st := &concStats{counters: map[string]int{}}
	vf.Parallel(n, runners, func(i int) {
		runRandom(c, st, c.Seed*1000003+off+int64(i))
		if i%64 == 0 {
			st.flush(c)
		}
	})
	st.flush(c)
}

// ------------------------------------------------------------------ deterministic windows

// hookCtl lets the harness park the goroutine that executes Commit at the n-th
// store write it performs (or in the root serializer, n = -1), and hold back the
// store writes of the writer goroutine while the store is copied.
type hookCtl struct {
	commitG  atomic.Uint64
	writerG  atomic.Uint64
	target   int
	seen     atomic.Int32
	parked   atomic.Bool
	label    atomic.Value // string: which write Commit is parked at
	release  chan struct{}
	gateShut atomic.Bool
	gateHit  atomic.Bool
	gate     chan struct{}
	gateOnce sync.Once
}

func newHookCtl(target int) *hookCtl {
	return &hookCtl{target: target, release: make(chan struct{}), gate: make(chan struct{})}
}

func (h *hookCtl) openGate() { h.gateOnce.Do(func() { close(h.gate) }) }

func (h *hookCtl) onWrite(label string) {
	cg, wg := h.commitG.Load(), h.writerG.Load()
	if cg == 0 && wg == 0 {
		return
	}
	id := gdump.GoID()
	switch id {
	case cg:
		i := int(h.seen.Add(1)) - 1
		if i == h.target {
			h.label.Store(label)
			h.parked.Store(true)
			<-h.release
		}
	case wg:
		if h.gateShut.Load() {
			h.gateHit.Store(true)
			<-h.gate
		}
	}
}

func (h *hookCtl) onCodec() {
	if cg := h.commitG.Load(); cg != 0 && h.target == -1 && !h.parked.Load() && gdump.GoID() == cg {
		h.label.Store("root-serializer")
		h.parked.Store(true)
		<-h.release
	}
}

// parkStore wraps a KVStore; every mutation is announced to the hookCtl first.
type parkStore struct {
	kvstore.KVStore
	ctl *hookCtl
	cls string // "" at top level, else "realm<hex>"
}

func (p *parkStore) class(k []byte) string {
	if p.cls != "" {
		return p.cls
	}
	if len(k) == 0 {
		return "key"
	}
	return "key" + hex.EncodeToString(k[:1])
}

func (p *parkStore) WithRealm(r kvstore.Realm) (kvstore.KVStore, error) {
	s, err := p.KVStore.WithRealm(r)
	if err != nil {
		return nil, err
	}
	return &parkStore{s, p.ctl, "realm" + hex.EncodeToString(r)}, nil
}

func (p *parkStore) WithExtendedRealm(r kvstore.Realm) (kvstore.KVStore, error) {
	s, err := p.KVStore.WithExtendedRealm(r)
	if err != nil {
		return nil, err
	}
	cls := p.cls
	if cls == "" {
		cls = "realm"
	}
	return &parkStore{s, p.ctl, cls + hex.EncodeToString(r)}, nil
}

func (p *parkStore) Set(k kvstore.Key, v kvstore.Value) error {
	p.ctl.onWrite("set:" + p.class(k))
	return p.KVStore.Set(k, v)
}

func (p *parkStore) Delete(k kvstore.Key) error {
	p.ctl.onWrite("delete:" + p.class(k))
	return p.KVStore.Delete(k)
}

func (p *parkStore) DeletePrefix(k kvstore.KeyPrefix) error {
	p.ctl.onWrite("deleteprefix:" + p.class(k))
	return p.KVStore.DeletePrefix(k)
}

func (p *parkStore) Clear() error {
	p.ctl.onWrite("clear:" + p.class(nil))
	return p.KVStore.Clear()
}

func (p *parkStore) Batched() (kvstore.BatchedMutations, error) {
	b, err := p.KVStore.Batched()
	if err != nil {
		return nil, err
	}
	return &parkBatch{b, p}, nil
}

type parkBatch struct {
	kvstore.BatchedMutations
	p *parkStore
}

func (b *parkBatch) Commit() error {
	b.p.ctl.onWrite("batch:" + b.p.class(nil))
	return b.BatchedMutations.Commit()
}

type winEnv struct {
	c      *vf.Ctx
	st     *concStats
	a, w   *gdump.Actor
	actors int
}

func (e *winEnv) fresh() {
	// an actor whose closure never returned cannot be reused
	e.actors++
	e.a = gdump.NewActor(fmt.Sprintf("a%d", e.actors))
	e.w = gdump.NewActor(fmt.Sprintf("w%d", e.actors))
}

func writerOps(cc *concCase) []cop {
	ops := make([]cop, len(cc.Writer))
	for i, s := range cc.Writer {
		ops[i] = cop{Client: 1, Op: s.Op, Key: s.Key, Val: s.Val}
	}
	return ops
}

func (e *winEnv) hang(cc *concCase, h []cop, who string) {
	cc.History = h
	e.c.Violation("conc/"+cc.Flavour+"/"+cc.Kind+"/"+who+"-never-returns", fmt.Sprintf("%s: %s is parked for ever although every goroutine the harness had parked was released and nothing else can run", cc.Kind, who), cc)
	e.fresh()
}

// finish: sequential observations of the live instance, a last Commit and a new
// instance over the same store (complete comparison), then the verdict.
func (e *winEnv) finish(in inst, store kvstore.KVStore, cc *concCase, h []cop, where string) {
	if len(cc.panics()) > 0 {
		// report the panic (judge does) and do not touch the instance again: its lock may be held for ever
		sort.SliceStable(h, func(i, j int) bool { return h[i].Call < h[j].Call })
		judge(e.c, e.st, cc, h, where)
		e.fresh()
		return
	}
	h = append(h, finalOps(in, cc, 2)...)
	cm := cop{Client: 2, Op: "Commit"}
	doOp(in, cc, &cm)
	h = append(h, cm)
	h = append(h, reopenObserve(open(cc.Flavour, store), cc, 2, true))
	sort.SliceStable(h, func(i, j int) bool { return h[i].Call < h[j].Call })
	e.st.add("evaluations", len(h))
	judge(e.c, e.st, cc, h, where)
}

// streamWindow: Stream parks in its callback on the first delivered pair; a
// second goroutine performs the writer operations; the callback is released.
func (e *winEnv) streamWindow(cc *concCase) {
	store := mapdb.NewMapDB()
	in, st0, err := applySetup(cc, store, typeutils.ByteArray32ToBytes)
	if err != nil {
		e.c.Violation("conc/"+cc.Flavour+"/setup/error", "sequential set-up of a Stream window failed: "+err.Error(), cc)
		return
	}
	cc.Init = st0
	var parked atomic.Bool
	release := make(chan struct{})
	so := cop{Client: 0, Op: "Stream"}
	so.cb = func(n int) {
		if n == 1 {
			parked.Store(true)
			<-release
		}
	}
	s1 := e.a.Do(func() { doOp(in, cc, &so) })
	if s1 == gdump.Blocked && !parked.Load() {
		e.hang(cc, []cop{so}, "Stream")
		return
	}
	wops := writerOps(cc)
	ws := e.w.Do(func() {
		for i := range wops {
			doOp(in, cc, &wops[i])
			if wops[i].Ret == 0 {
				return
			}
		}
	})
	if parked.Load() {
		e.st.add("conc_stream_windows", 1)
		if ws == gdump.Blocked {
			e.st.add("conc_stream_windows_writer_parked_until_release", 1)
		} else {
			e.st.add("conc_stream_windows_writer_ran_inside", 1)
		}
	} else {
		e.st.add("conc_stream_windows_nothing_delivered", 1)
	}
	close(release)
	if e.a.Settle() == gdump.Blocked {
		e.hang(cc, append([]cop{so}, wops...), "Stream")
		return
	}
	if e.w.Settle() == gdump.Blocked {
		e.hang(cc, append([]cop{so}, wops...), "writer")
		return
	}
	h := []cop{so}
	for i := range wops {
		if wops[i].Call != 0 {
			h = append(h, wops[i])
		}
	}
	e.finish(in, store, cc, h, "Stream window (callback parked on the first pair while "+describeWriter(cc)+")")
}

func describeWriter(cc *concCase) string {
	var p []string
	for _, s := range cc.Writer {
		p = append(p, fmt.Sprintf("%s(%q)", s.Op, cc.Keys[s.Key]))
	}
	return strings.Join(p, ", ")
}

// commitWindow runs one Commit window; it returns false when Commit performs
// fewer store writes than cc.Window (no such window).
func (e *winEnv) commitWindow(cc *concCase) bool {
	base := mapdb.NewMapDB()
	ctl := newHookCtl(cc.Window)
	store := &parkStore{base, ctl, ""}
	codec := func(r [32]byte) ([]byte, error) { ctl.onCodec(); return typeutils.ByteArray32ToBytes(r) }
	in, st0, err := applySetup(cc, store, codec)
	if err != nil {
		e.c.Violation("conc/"+cc.Flavour+"/setup/error", "sequential set-up of a Commit window failed: "+err.Error(), cc)
		return false
	}
	cc.Init = st0
	ctl.commitG.Store(e.a.ID())
	ctl.writerG.Store(e.w.ID())
	defer func() { ctl.commitG.Store(0); ctl.writerG.Store(0) }()
	co := cop{Client: 0, Op: "Commit"}
	s1 := e.a.Do(func() { doOp(in, cc, &co) })
	if s1 == gdump.Returned {
		return false
	}
	if !ctl.parked.Load() {
		e.hang(cc, []cop{co}, "Commit")
		return false
	}
	cc.Label, _ = ctl.label.Load().(string)
	wops := writerOps(cc)
	ws := e.w.Do(func() {
		for i := range wops {
			doOp(in, cc, &wops[i])
			if wops[i].Ret == 0 {
				return
			}
		}
	})
	e.st.add("conc_commit_windows", 1)
	e.st.add("conc_commit_windows_at:"+cc.Label, 1)
	if ws == gdump.Blocked {
		e.st.add("conc_commit_windows_writer_parked_until_release", 1)
	} else {
		e.st.add("conc_commit_windows_writer_ran_inside", 1)
	}
	// from now on the writer's store writes are held back, so that the store can be copied as it is when Commit returns
	ctl.gateShut.Store(true)
	close(ctl.release)
	h := []cop{}
	snapshot := true
	if e.a.Settle() == gdump.Blocked {
		// Commit waits for something the held-back writer owns: the harness's gate is in the way, give up the copy
		snapshot = false
		e.st.add("conc_commit_windows_without_copy", 1)
		ctl.openGate()
		if e.a.Settle() == gdump.Blocked {
			e.hang(cc, append([]cop{co}, wops...), "Commit")
			return true
		}
	}
	e.w.Settle()
	if snapshot {
		snap := mapdb.NewMapDB()
		call := cclock.Add(1)
		if err := kvstore.Copy(base, snap); err != nil {
			e.c.Inconclusive("copying the store failed: " + err.Error())
		} else {
			ro := reopenObserve(open(cc.Flavour, snap), cc, 2, true)
			ro.Call = call
			h = append(h, ro)
			e.st.add("conc_commit_windows_reopened_copy", 1)
			if ctl.gateHit.Load() {
				e.st.add("conc_commit_windows_writer_held_at_store_write_during_copy", 1)
			}
		}
	}
	ctl.openGate()
	if e.w.Settle() == gdump.Blocked {
		e.hang(cc, append([]cop{co}, wops...), "writer")
		return true
	}
	ctl.commitG.Store(0)
	ctl.writerG.Store(0)
	h = append(h, co)
	for i := range wops {
		if wops[i].Call != 0 {
			h = append(h, wops[i])
		}
	}
	e.finish(in, store, cc, h, fmt.Sprintf("Commit window (Commit parked at its store write #%d [%s] while %s; new instance over a copy of the store taken when Commit had returned)", cc.Window, cc.Label, describeWriter(cc)))
	return true
}

// genWindow: a set-up with at least 3 (stream) / 2 (commit) keys and a writer of
// two operations on two different keys (sometimes a third on one of them).
func genWindow(seed int64, kind string) *concCase {
	rng := rand.New(rand.NewSource(seed))
	cc := &concCase{Part: "conc", Kind: kind, Seed: seed, Flavour: "map", Keys: pickKeys(rng)}
	if rng.Intn(100) < 30 {
		cc.Flavour = "set"
	}
	var nextID uint16
	minKeys := 2
	if kind == "stream-window" {
		minKeys = 3
	}
	cc.Setup = genSetup(rng, cc.Flavour, false, minKeys, &nextID)
	var st cstate
	for _, s := range cc.Setup {
		switch s.Op {
		case "Set":
			st.Cur[s.Key] = s.Val
		case "Delete":
			st.Cur[s.Key] = 0
		}
	}
	p := rng.Perm(concK)
	n := 2 + rng.Intn(2)
	cur := st.Cur
	for i := 0; i < n; i++ {
		k := p[i%2]
		if i == 2 {
			k = p[rng.Intn(3)]
		}
		var o sop
		// every writer operation changes the contents: Delete of a present key, or Set (new key / overwrite; for a set: new member)
		switch {
		case cur[k] != 0 && (cc.Flavour == "set" || rng.Intn(2) == 0):
			o = sop{Op: "Delete", Key: k}
			cur[k] = 0
		default:
			o = sop{Op: "Set", Key: k, Val: 1}
			if cc.Flavour == "map" {
				nextID++
				o.Val = nextID
			}
			cur[k] = o.Val
		}
		cc.Writer = append(cc.Writer, o)
	}
	return cc
}

func windowsChild(c *vf.Ctx) {
	n, _ := strconv.Atoi(c.ChildArgs[0])
	e := &winEnv{c: c, st: &concStats{counters: map[string]int{}}}
	e.fresh()
	for i := 0; i < n; i++ {
		c.Mark(fmt.Sprintf("stream-window %d", i))
		e.streamWindow(genWindow(c.Seed*1000003+500000+int64(i), "stream-window"))
		for w := -1; w < 64; w++ {
			c.Mark(fmt.Sprintf("commit-window %d/%d", i, w))
			cc := genWindow(c.Seed*1000003+700000+int64(i), "commit-window")
			cc.Window = w
			if !e.commitWindow(cc) && w >= 0 {
				break
			}
		}
		e.st.add("conc_window_scenarios", 1)
		if i%16 == 0 {
			e.st.flush(c)
		}
	}
	e.st.flush(c)
}

// ------------------------------------------------------------------ races

var copRe = regexp.MustCompile(`main\.cop_([A-Za-z]+)`)

// reportConcRaces: a report counts when both access stacks pass through package
// ads and neither access happens in harness code; it is keyed by the exported
// methods (harness entry points) on the two stacks.
func reportConcRaces(c *vf.Ctx, rs []vf.RaceReport) {
	seen := map[string]bool{}
	for _, r := range rs {
		c.Count("conc_race_reports", 1)
		head := r.Text
		if i := strings.Index(head, "\nGoroutine "); i >= 0 {
			head = head[:i]
		}
		var names []string
		adsStacks, stacks := 0, 0
		harnessOwn := false
		for _, blk := range strings.Split(head, "\n\n") {
			var frames []string
			for _, l := range strings.Split(blk, "\n") {
				if !strings.HasPrefix(l, "  ") || strings.HasPrefix(l, "   ") || !strings.HasSuffix(l, ")") {
					continue
				}
				frames = append(frames, strings.TrimSpace(l))
			}
			if len(frames) == 0 {
				continue
			}
			stacks++
			if strings.HasPrefix(frames[0], "main.") {
				harnessOwn = true
			}
			inAds := false
			for _, f := range frames {
				if strings.Contains(f, "iotaledger/hive.go/ads.") {
					inAds = true
				}
			}
			if inAds {
				adsStacks++
			}
			if m := copRe.FindStringSubmatch(blk); m != nil {
				names = append(names, m[1])
			} else {
				names = append(names, "?")
			}
		}
		sort.Strings(names)
		key := strings.Join(names, " <-> ")
		switch {
		case harnessOwn:
			c.Count("conc_race_reports_harness_own", 1)
			c.Note("race inside the harness (not attributed to hive.go): " + key)
		case adsStacks >= 2 || (adsStacks == 1 && stacks == 1):
			if seen[key] {
				continue
			}
			seen[key] = true
			txt := r.Text
			if len(txt) > 6000 {
				txt = txt[:6000]
			}
			c.Violation("conc/race:"+key, "data race between concurrent calls of exported ads methods: "+key, &concCase{Part: "conc", Kind: "race", Report: txt})
		default:
			c.Note("race outside package ads: " + r.Key)
		}
	}
}

// ------------------------------------------------------------------ parent side

func concChildDispatch(c *vf.Ctx) {
	switch c.Child {
	case "conc-random":
		randomChild(c)
	case "conc-windows":
		windowsChild(c)
	}
}

func childVerdict(c *vf.Ctx, name string, res vf.ChildResult) {
	switch {
	case res.TimedOut:
		c.Inconclusive(name + " child hit the watchdog at " + res.LastMark)
	case res.Deadlock:
		c.Violation("conc/deadlock", name+" child: the Go runtime found every goroutine asleep at "+res.LastMark, &concCase{Part: "conc", Kind: "deadlock", Report: trimTo(res.Stderr, 6000)})
	case res.ExitCode != 0 && res.ExitCode != 66 && strings.Contains(res.Stderr, "github.com/iotaledger/hive.go/ads"):
		c.Violation("conc/child-died", name+" child died inside package ads: "+res.Fatal, &concCase{Part: "conc", Kind: "died", Report: trimTo(res.Stderr, 6000)})
	case res.ExitCode != 0 && res.ExitCode != 66:
		c.Inconclusive(fmt.Sprintf("%s child died: exit %d %s", name, res.ExitCode, res.Fatal))
	}
}

func trimTo(s string, n int) string {
	if len(s) > n {
		return s[:n]
	}
	return s
}

func childTimeout(c *vf.Ctx) time.Duration {
	if c.Quick() {
		return 4 * time.Minute
	}
	return 14 * time.Minute
}

func concPart(c *vf.Ctx) {
	cpus := runtime.NumCPU()
	runners := cpus / 4
	if runners < 1 {
		runners = 1
	}
	if runners > 4 {
		runners = 4
	}
	n := c.Pick(8000, 120000)
	nr := c.Pick(1600, 24000)
	nw := c.Pick(160, 2400)
	var wg sync.WaitGroup
	wg.Add(3)
	go func() {
		defer wg.Done()
		res := c.RunChild(vf.ChildOpts{Name: "conc-random", Args: []string{strconv.Itoa(n), strconv.Itoa(runners), "0"}, Timeout: childTimeout(c)})
		childVerdict(c, "concurrent-history", res)
	}()
	go func() {
		defer wg.Done()
		res := c.RunChild(vf.ChildOpts{Name: "conc-random", Race: true, Args: []string{strconv.Itoa(nr), strconv.Itoa(runners), "100000000"}, Timeout: childTimeout(c)})
		reportConcRaces(c, res.Races)
		childVerdict(c, "race", res)
	}()
	go func() {
		defer wg.Done()
		res := c.RunChild(vf.ChildOpts{Name: "conc-windows", Args: []string{strconv.Itoa(nw)}, Timeout: childTimeout(c)})
		childVerdict(c, "window", res)
	}()
	wg.Wait()
	scale := cpus
	if scale > 4 {
		scale = 4
	}
	c.Require("conc_histories", (n+nr)*9/10)
	c.Require("conc_histories_race_build", nr*9/10)
	c.Require("conc_porcupine_ok", (n+nr)*8/10)
	c.Require("conc_overlapping_op_pairs", (n+nr)*4*scale/4)
	c.Require("conc_histories_with_overlap:Root||Root", (n+nr)/40*scale/4)
	c.Require("conc_histories_with_overlap:Commit||Set", (n+nr)/40*scale/4)
	c.Require("conc_histories_with_overlap:Set||Stream", (n+nr)/40*scale/4)
	c.Require("conc_interleaving_shapes", (n+nr)/4*scale/4)
	c.Require("conc_histories_in_a_realm_of_a_shared_database", (n+nr)/4)
	c.Require("conc_histories_with_concurrently_driven_sibling", (n+nr)/10)
	c.Require("conc_stream_windows", nw*9/10)
	c.Require("conc_commit_windows", nw)
	c.Require("conc_commit_windows_reopened_copy", nw)
}

// concReplay re-judges a recorded history (random histories cannot be re-run
// with the same interleaving) or re-runs a deterministic window.
func concReplay(c *vf.Ctx, cc *concCase) {
	st := &concStats{counters: map[string]int{}}
	defer st.flush(c)
	switch cc.Kind {
	case "stream-window", "commit-window":
		e := &winEnv{c: c, st: st}
		e.fresh()
		fresh := genWindow(cc.Seed, cc.Kind)
		fresh.Window = cc.Window
		if cc.Kind == "stream-window" {
			e.streamWindow(fresh)
		} else {
			e.commitWindow(fresh)
		}
	case "random":
		h := cc.History
		judge(c, st, cc, h, "recorded concurrent history")
	default:
		c.Note("race / child-death records carry their evidence in the replay file; re-run the check to reproduce")
	}
}
