// C09 – authenticated map / set (ads over kvstore/mapdb).
//
// Seeded sequential histories of Set/Add, Delete, Get, Has, Size, Stream, Root,
// Commit, Reopen (new instance over the same mapdb, only directly after a
// Commit) and Probe (throw-away new instance, only WasRestoredFromStorage is
// called) run against the real ads.Map / ads.Set and against a plain map model.
//
// Oracles
//  1. every result equals the model's (Delete returns presence, Stream yields
//     exactly the model's pairs, no errors, no panics);
//  2. Root is a function of the contents: a run-wide table contents<->root fed
//     by every Root observation of every history (equal contents => equal root,
//     equal root => equal contents), plus – for every content set seen for the
//     first time – two rebuilds on fresh stores (sorted order; seeded shuffled
//     order with overwrite / delete-reinsert / foreign-key / commit noise)
//     whose roots must equal the observed one;
//  3. after Commit + Reopen the new instance has the same Root, Size and
//     contents; WasRestoredFromStorage of a new instance is true iff a Commit
//     happened on that store.
//
// Concurrent histories (linearizability against the same model, deterministic
// Stream / Commit windows, -race child) live in conc.go.
package main

import (
	"bytes"
	"crypto/sha256"
	"encoding/hex"
	"fmt"
	"math/bits"
	"os"
	"runtime"
	"sort"
	"strings"
	"sync"
	"sync/atomic"
	"time"

	"github.com/iotaledger/hive.go/ads"
	"github.com/iotaledger/hive.go/kvstore"
	"github.com/iotaledger/hive.go/kvstore/mapdb"
	"github.com/iotaledger/hive.go/serializer/v2/typeutils"
	"verif/harness/internal/vf"
)

// ------------------------------------------------------------------ alphabets

// value alphabet of the map flavour. Index 0 is the value whose codec output is
// nil ("nil-encoded empty"), index 1 encodes to a non-nil empty slice.
var vals = func() [][]byte {
	a := make([]byte, 100)
	b := make([]byte, 100)
	for i := range a {
		a[i] = byte(i*7 + 1)
		b[i] = byte(i*7 + 1)
	}
	b[99] ^= 0x80
	return [][]byte{nil, {}, {0x00}, {0x01}, a, b}
}()

const (
	valNil   = 0
	valEmpty = 1
)

func keyToBytes(k string) ([]byte, error)        { return []byte(k), nil }
func keyFromBytes(b []byte) (string, int, error) { return string(b), len(b), nil }

// valueToBytes is the identity: a nil value encodes to nil, []byte{} to []byte{}.
func valueToBytes(v []byte) ([]byte, error) { return v, nil }
func valueFromBytes(b []byte) ([]byte, int, error) {
	c := make([]byte, len(b))
	copy(c, b)
	return c, len(b), nil
}

func cpl(a, b [32]byte) int {
	for i := 0; i < 32; i++ {
		if x := a[i] ^ b[i]; x != 0 {
			return i*8 + bits.LeadingZeros8(x)
		}
	}
	return 256
}

// buildAlphabet brute-forces 24 keys in 6 groups; inside a group the keys share
// at least t1 < t2 < t3 leading bits of their SHA-256 path with the group's base
// key. The empty key is added as the 25th.
func buildAlphabet(c *vf.Ctx) []string {
	targets := []int{8, 14, 20}
	if !c.Quick() {
		targets = []int{8, 15, 22}
	}
	rng := c.Rand("alphabet")
	salts := make([]uint32, 6)
	for i := range salts {
		salts[i] = rng.Uint32()
	}
	groups := make([][]string, 6)
	var wg sync.WaitGroup
	for g := 0; g < 6; g++ {
		wg.Add(1)
		go func(g int) {
			defer wg.Done()
			base := fmt.Sprintf("g%d-%08x", g, salts[g])
			bh := sha256.Sum256([]byte(base))
			out := []string{base}
			n := 0
			for _, t := range targets {
				for {
					n++
					cand := fmt.Sprintf("g%d-%08x-%d", g, salts[g], n)
					if cpl(sha256.Sum256([]byte(cand)), bh) >= t {
						out = append(out, cand)
						break
					}
				}
			}
			groups[g] = out
		}(g)
	}
	wg.Wait()
	var keys []string
	for _, g := range groups {
		keys = append(keys, g...)
	}
	return append(keys, "")
}

// ------------------------------------------------------------------ histories

type op struct {
	K   string `json:"op"`            // set del get has size stream root commit reopen probe full
	Key string `json:"key,omitempty"` // for set/del/get/has
	Val int    `json:"val,omitempty"` // set: index into vals (map flavour); reopen (old replay files): 1 = light check
	// reopen only: what is called on the new instance before the history goes on.
	// "" / "full": WasRestoredFromStorage, Root, Size, Has/Get of every key, Stream; "light": Size, Root;
	// "none": nothing at all (the next op of the history is the first call on the instance);
	// "root", "size", "has", "get", "stream", "restored": only that accessor (Key for has/get).
	Mode string `json:"mode,omitempty"`
}

type history struct {
	Idx     int      `json:"idx"` // index in the run (-1: rebuild sequence)
	Flavour string   `json:"flavour"`
	Audit   bool     `json:"audit"`      // Has/Get/Size audit after every mutation
	NilVals bool     `json:"nil_values"` // nil-encoded values may be used
	Keys    []string `json:"keys"`       // key set of this history (full checks iterate over it)
	Ops     []op     `json:"ops"`
}

func genHistory(c *vf.Ctx, alphabet []string, idx int) history {
	rng := c.Rand(fmt.Sprintf("hist/%d", idx))
	h := history{Idx: idx, Flavour: "map"}
	if rng.Intn(10) < 3 {
		h.Flavour = "set"
	}
	h.Audit = rng.Intn(2) == 0
	h.NilVals = h.Flavour == "map" && rng.Intn(2) == 0
	// key subset: small sets make different histories reach equal contents; picks are
	// biased to whole prefix-sharing groups.
	var nk int
	switch r := rng.Intn(10); {
	case r < 3:
		nk = 2 + rng.Intn(3)
	case r < 7:
		nk = 5 + rng.Intn(6)
	default:
		nk = 11 + rng.Intn(len(alphabet)-10)
	}
	chosen := map[string]bool{}
	for len(chosen) < nk {
		if rng.Intn(3) > 0 {
			g := rng.Intn(6)
			for _, k := range alphabet[g*4 : g*4+4] {
				if len(chosen) < nk && rng.Intn(4) > 0 {
					chosen[k] = true
				}
			}
		} else {
			chosen[alphabet[rng.Intn(len(alphabet))]] = true
		}
	}
	for _, k := range alphabet { // alphabet order => deterministic
		if chosen[k] {
			h.Keys = append(h.Keys, k)
		}
	}
	// value subset
	var vs []int
	if h.Flavour == "map" {
		pool := []int{valEmpty, 2, 3, 4, 5}
		if rng.Intn(2) == 0 {
			rng.Shuffle(len(pool), func(i, j int) { pool[i], pool[j] = pool[j], pool[i] })
			pool = pool[:2]
		}
		vs = pool
	} else {
		vs = []int{valEmpty}
	}
	n := 20 + rng.Intn(41)
	present := map[string]bool{}
	pickKey := func(wantPresent bool) string {
		if wantPresent && len(present) > 0 {
			var ps []string
			for _, k := range h.Keys {
				if present[k] {
					ps = append(ps, k)
				}
			}
			return ps[rng.Intn(len(ps))]
		}
		return h.Keys[rng.Intn(len(h.Keys))]
	}
	newSet := func(k string) op {
		o := op{K: "set", Key: k, Val: valEmpty}
		if h.Flavour == "map" {
			o.Val = vs[rng.Intn(len(vs))]
			if h.NilVals && rng.Intn(4) == 0 {
				o.Val = valNil
			}
		}
		present[k] = true
		return o
	}
	// a third of the histories starts by filling most of its key set (large contents, deep tries)
	if rng.Intn(3) == 0 {
		order := rng.Perm(len(h.Keys))
		for _, i := range order {
			if rng.Intn(10) < 8 {
				h.Ops = append(h.Ops, newSet(h.Keys[i]))
			}
		}
		n += len(h.Ops)
	}
	absentKey := func() string {
		var as []string
		for _, k := range h.Keys {
			if !present[k] {
				as = append(as, k)
			}
		}
		if len(as) == 0 {
			return h.Keys[rng.Intn(len(h.Keys))]
		}
		return as[rng.Intn(len(as))]
	}
	// forced != "": the previous op was a reopen that called nothing on the new instance; the next
	// op is drawn uniformly from all accessor kinds, so that each of them is the first call on a
	// restored instance equally often.
	forced := ""
	firstKinds := []string{"set-new", "set-present", "del-present", "del-absent", "commit", "size", "root", "has", "get", "stream", "probe-then-set", "full"}
	reopenOp := func() op {
		o := op{K: "reopen"}
		switch r := rng.Intn(20); {
		case r < 4:
			o.Mode = "full"
		case r < 6:
			o.Mode = "light"
		case r < 13:
			o.Mode = "none"
			forced = firstKinds[rng.Intn(len(firstKinds))]
		default:
			o.Mode = []string{"root", "size", "has", "get", "stream", "restored"}[rng.Intn(6)]
			if o.Mode == "get" && h.Flavour != "map" {
				o.Mode = "has"
			}
			if o.Mode == "has" || o.Mode == "get" {
				o.Key = pickKey(rng.Intn(3) > 0)
			}
			if rng.Intn(2) == 0 { // a single read, then a mutation
				forced = firstKinds[rng.Intn(4)]
			}
		}
		return o
	}
	otherVal := func(v int) int {
		for {
			o := 1 + rng.Intn(len(vals)-1)
			if !bytes.Equal(vals[o], vals[v]) {
				return o
			}
		}
	}
	for len(h.Ops) < n {
		r := rng.Intn(100)
		if forced != "" {
			f := forced
			forced = ""
			switch f {
			case "set-new":
				h.Ops = append(h.Ops, newSet(absentKey()))
			case "set-present":
				h.Ops = append(h.Ops, newSet(pickKey(true)))
			case "del-present":
				o := op{K: "del", Key: pickKey(true)}
				delete(present, o.Key)
				h.Ops = append(h.Ops, o)
			case "del-absent":
				o := op{K: "del", Key: absentKey()}
				delete(present, o.Key)
				h.Ops = append(h.Ops, o)
			case "commit":
				h.Ops = append(h.Ops, op{K: "commit"})
				if rng.Intn(2) == 0 {
					h.Ops = append(h.Ops, reopenOp())
				}
			case "has":
				h.Ops = append(h.Ops, op{K: "has", Key: pickKey(rng.Intn(2) == 0)})
			case "get":
				if h.Flavour == "map" {
					h.Ops = append(h.Ops, op{K: "get", Key: pickKey(rng.Intn(2) == 0)})
				} else {
					h.Ops = append(h.Ops, op{K: "has", Key: pickKey(rng.Intn(2) == 0)})
				}
			case "probe-then-set":
				h.Ops = append(h.Ops, op{K: "probe"}, newSet(absentKey()))
			default: // size root stream full
				h.Ops = append(h.Ops, op{K: f})
			}
			continue
		}
		switch {
		case r < 4:
			// several Commits on ONE instance, the contents returning to an earlier committed state:
			// Set k=v, Commit, (Set k=v2 | Delete k), [Commit], Set k=v, Commit, reopen
			k := pickKey(rng.Intn(2) == 0)
			first := newSet(k)
			if first.Val == valNil {
				first.Val = valEmpty
			}
			h.Ops = append(h.Ops, first, op{K: "commit"})
			if h.Flavour == "map" && rng.Intn(2) == 0 {
				h.Ops = append(h.Ops, op{K: "set", Key: k, Val: otherVal(first.Val)})
			} else {
				h.Ops = append(h.Ops, op{K: "del", Key: k})
			}
			if rng.Intn(3) > 0 {
				h.Ops = append(h.Ops, op{K: "commit"})
			}
			h.Ops = append(h.Ops, first, op{K: "commit"})
			if rng.Intn(4) > 0 {
				h.Ops = append(h.Ops, reopenOp())
			}
		case r < 40:
			h.Ops = append(h.Ops, newSet(pickKey(rng.Intn(4) == 0)))
		case r < 58:
			o := op{K: "del", Key: pickKey(rng.Intn(5) > 0)}
			delete(present, o.Key)
			h.Ops = append(h.Ops, o)
		case r < 65:
			if h.Flavour == "map" {
				h.Ops = append(h.Ops, op{K: "get", Key: pickKey(rng.Intn(2) == 0)})
			} else {
				h.Ops = append(h.Ops, op{K: "has", Key: pickKey(rng.Intn(2) == 0)})
			}
		case r < 72:
			h.Ops = append(h.Ops, op{K: "has", Key: pickKey(rng.Intn(2) == 0)})
		case r < 76:
			h.Ops = append(h.Ops, op{K: "size"})
		case r < 80:
			h.Ops = append(h.Ops, op{K: "stream"})
		case r < 88:
			h.Ops = append(h.Ops, op{K: "root"})
		case r < 96:
			h.Ops = append(h.Ops, op{K: "commit"})
			if rng.Intn(5) < 3 {
				h.Ops = append(h.Ops, reopenOp())
			}
		default:
			h.Ops = append(h.Ops, op{K: "probe"})
		}
	}
	h.Ops = append(h.Ops, op{K: "full"})
	return h
}

// ------------------------------------------------------------------ instance adapter

type inst interface {
	Set(k string, v []byte) error
	Get(k string) ([]byte, bool, error) // set flavour: Has
	Has(k string) (bool, error)
	Delete(k string) (bool, error)
	Stream(func(k string, v []byte) error) error
	Commit() error
	Root() [32]byte
	Size() int
	WasRestoredFromStorage() bool
}

type mapInst struct {
	ads.Map[[32]byte, string, []byte]
}

type setInst struct {
	s ads.Set[[32]byte, string]
}

func (s setInst) Set(k string, _ []byte) error { return s.s.Add(k) }
func (s setInst) Get(k string) ([]byte, bool, error) {
	h, err := s.s.Has(k)
	return []byte{}, h, err
}
func (s setInst) Has(k string) (bool, error)    { return s.s.Has(k) }
func (s setInst) Delete(k string) (bool, error) { return s.s.Delete(k) }
func (s setInst) Stream(f func(k string, v []byte) error) error {
	return s.s.Stream(func(k string) error { return f(k, []byte{}) })
}
func (s setInst) Commit() error                { return s.s.Commit() }
func (s setInst) Root() [32]byte               { return s.s.Root() }
func (s setInst) Size() int                    { return s.s.Size() }
func (s setInst) WasRestoredFromStorage() bool { return s.s.WasRestoredFromStorage() }

func open(flavour string, store kvstore.KVStore) inst {
	if flavour == "set" {
		return setInst{ads.NewSet[[32]byte](store, typeutils.ByteArray32ToBytes, typeutils.ByteArray32FromBytes, keyToBytes, keyFromBytes)}
	}
	return mapInst{ads.NewMap[[32]byte](store, typeutils.ByteArray32ToBytes, typeutils.ByteArray32FromBytes, keyToBytes, keyFromBytes, valueToBytes, valueFromBytes)}
}

// ------------------------------------------------------------------ runner

type disagreement struct {
	FP   string `json:"fp"`
	What string `json:"what"`
	Pos  int    `json:"pos"`
}

type runner struct {
	h             *history
	store         kvstore.KVStore
	in            inst
	model         map[string]int // key -> index into vals
	committed     bool
	lastWasCommit bool
	onRoot        func(r *runner, pos int, root [32]byte) *disagreement // may be nil
	stats         *stats

	fresh           bool       // r.in is a restored instance on which nothing has been called yet
	pendingRoot     *[32]byte  // Root before the reopen, not yet compared (cleared by the next mutation)
	commitsOnInst   int        // Commits on the current instance
	committedOnInst [][16]byte // content keys at those Commits
	returned        bool       // some Commit on this instance returned to an earlier committed state
}

// first records which accessor is the first call on a restored instance.
func (r *runner) first(kind string) {
	if r.fresh {
		r.fresh = false
		r.stats.first[kind]++
	}
}

type stats struct {
	ops, reopens, probes, nilSets, audits, rootObs, fullChecks, streams, overwrites, deletesPresent, deletesAbsent, reopensEmpty, reopensLight int64
	reopensMultiCommit, commitReturns, reopensAfterReturn, deferredRootChecks                                                                  int64
	first                                                                                                                                      map[string]int64 // first call on a restored instance, by accessor
	modes                                                                                                                                      map[string]int64 // reopen modes
}

func (s *stats) flush(c *vf.Ctx) {
	c.Count("evaluations", int(s.ops))
	c.Count("reopens", int(s.reopens))
	c.Count("reopens_of_empty_contents", int(s.reopensEmpty))
	c.Count("reopens_light", int(s.reopensLight))
	c.Count("probes", int(s.probes))
	c.Count("nil_encoded_sets", int(s.nilSets))
	c.Count("audits", int(s.audits))
	c.Count("root_observations", int(s.rootObs))
	c.Count("full_checks", int(s.fullChecks))
	c.Count("streams", int(s.streams))
	c.Count("overwrites", int(s.overwrites))
	c.Count("deletes_present", int(s.deletesPresent))
	c.Count("deletes_absent", int(s.deletesAbsent))
	c.Count("reopens_after_two_or_more_commits_on_one_instance", int(s.reopensMultiCommit))
	c.Count("commits_returning_to_an_earlier_committed_state", int(s.commitReturns))
	c.Count("reopens_after_return_to_earlier_committed_state", int(s.reopensAfterReturn))
	c.Count("deferred_root_checks_after_reopen", int(s.deferredRootChecks))
	for k, v := range s.first {
		c.Count("first_call_on_restored_instance:"+k, int(v))
	}
	for k, v := range s.modes {
		c.Count("reopen_mode:"+k, int(v))
	}
}

func newStats() *stats { return &stats{first: map[string]int64{}, modes: map[string]int64{}} }

func newRunner(h *history, st *stats) *runner {
	r := &runner{h: h, store: mapdb.NewMapDB(), model: map[string]int{}, stats: st}
	return r
}

func (r *runner) fp(kind string) string { return r.h.Flavour + "/" + kind }

// guard runs f and converts a panic into a disagreement.
func (r *runner) guard(pos int, kind string, f func() *disagreement) (d *disagreement) {
	defer func() {
		if p := recover(); p != nil {
			d = &disagreement{r.fp(kind + "/panic"), fmt.Sprintf("%s panicked: %v", kind, p), pos}
		}
	}()
	return f()
}

func show(b []byte) string {
	if b == nil {
		return "nil"
	}
	if len(b) > 8 {
		return fmt.Sprintf("%x..(%d bytes)", b[:8], len(b))
	}
	return fmt.Sprintf("%x(%d bytes)", b, len(b))
}

// contentKey is the canonical digest of the model contents (sorted key, value bytes).
func (r *runner) contentKey() [16]byte {
	ks := make([]string, 0, len(r.model))
	for k := range r.model {
		ks = append(ks, k)
	}
	sort.Strings(ks)
	hh := sha256.New()
	var l [8]byte
	for _, k := range ks {
		v := vals[r.model[k]]
		l[0], l[1], l[2], l[3] = byte(len(k)), byte(len(k)>>8), byte(len(v)), byte(len(v)>>8)
		hh.Write(l[:4])
		hh.Write([]byte(k))
		hh.Write(v)
	}
	var out [16]byte
	copy(out[:], hh.Sum(nil))
	return out
}

func (r *runner) checkHas(pos int, k, kind string) *disagreement {
	r.first("Has")
	return r.guard(pos, kind, func() *disagreement {
		got, err := r.in.Has(k)
		if err != nil {
			return &disagreement{r.fp(kind + "/error"), fmt.Sprintf("Has(%q) returned error %v", k, err), pos}
		}
		_, want := r.model[k]
		if got != want {
			return &disagreement{r.fp(kind), fmt.Sprintf("Has(%q) = %v, model says %v", k, got, want), pos}
		}
		return nil
	})
}

func (r *runner) checkGet(pos int, k, kind string) *disagreement {
	if r.h.Flavour == "map" {
		r.first("Get")
	} else {
		r.first("Has")
	}
	return r.guard(pos, kind, func() *disagreement {
		got, ex, err := r.in.Get(k)
		if err != nil {
			return &disagreement{r.fp(kind + "/error"), fmt.Sprintf("Get(%q) returned error %v", k, err), pos}
		}
		vi, want := r.model[k]
		if ex != want {
			return &disagreement{r.fp(kind), fmt.Sprintf("Get(%q) exists = %v, model says %v", k, ex, want), pos}
		}
		if want && !bytes.Equal(got, vals[vi]) {
			return &disagreement{r.fp(kind + "/value"), fmt.Sprintf("Get(%q) = %s, model says %s", k, show(got), show(vals[vi])), pos}
		}
		return nil
	})
}

func (r *runner) checkSize(pos int, kind string) *disagreement {
	r.first("Size")
	return r.guard(pos, kind, func() *disagreement {
		if got := r.in.Size(); got != len(r.model) {
			return &disagreement{r.fp(kind), fmt.Sprintf("Size() = %d, model has %d keys", got, len(r.model)), pos}
		}
		return nil
	})
}

func (r *runner) checkStream(pos int, kind string) *disagreement {
	r.stats.streams++
	r.first("Stream")
	return r.guard(pos, kind, func() *disagreement {
		seen := map[string][]byte{}
		dup := ""
		err := r.in.Stream(func(k string, v []byte) error {
			if _, ok := seen[k]; ok {
				dup = k
			}
			seen[k] = v
			return nil
		})
		if err != nil {
			return &disagreement{r.fp(kind + "/error"), fmt.Sprintf("Stream returned error %v", err), pos}
		}
		if dup != "" {
			return &disagreement{r.fp(kind + "/duplicate"), fmt.Sprintf("Stream yielded key %q twice", dup), pos}
		}
		for k, v := range seen {
			vi, ok := r.model[k]
			if !ok {
				return &disagreement{r.fp(kind + "/extra"), fmt.Sprintf("Stream yielded key %q which the model does not contain", k), pos}
			}
			if !bytes.Equal(v, vals[vi]) {
				return &disagreement{r.fp(kind + "/value"), fmt.Sprintf("Stream yielded %q -> %s, model says %s", k, show(v), show(vals[vi])), pos}
			}
		}
		for k := range r.model {
			if _, ok := seen[k]; !ok {
				return &disagreement{r.fp(kind + "/missing"), fmt.Sprintf("Stream did not yield key %q of the model", k), pos}
			}
		}
		return nil
	})
}

func (r *runner) checkRoot(pos int, kind string) (root [32]byte, d *disagreement) {
	r.first("Root")
	d = r.guard(pos, kind, func() *disagreement {
		root = r.in.Root()
		return nil
	})
	if d != nil {
		return
	}
	if r.pendingRoot != nil { // no mutation since the reopen: Root must still be the committed one
		before := *r.pendingRoot
		r.pendingRoot = nil
		r.stats.deferredRootChecks++
		if root != before {
			return root, &disagreement{r.fp("Reopen/Root"), fmt.Sprintf("Root %x of the instance opened after Commit differs from Root before %x", root[:6], before[:6]), pos}
		}
	}
	r.stats.rootObs++
	if r.onRoot != nil {
		d = r.onRoot(r, pos, root)
	}
	return
}

func (r *runner) checkFull(pos int, kind string) *disagreement {
	r.stats.fullChecks++
	if d := r.checkSize(pos, kind+"Size"); d != nil {
		return d
	}
	for _, k := range r.h.Keys {
		if d := r.checkHas(pos, k, kind+"Has"); d != nil {
			return d
		}
		if r.h.Flavour == "map" {
			if d := r.checkGet(pos, k, kind+"Get"); d != nil {
				return d
			}
		}
	}
	if d := r.checkStream(pos, kind+"Stream"); d != nil {
		return d
	}
	_, d := r.checkRoot(pos, kind+"Root")
	return d
}

// step executes one operation on the real instance and on the model.
func (r *runner) step(pos int, o op) *disagreement {
	r.stats.ops++
	wasCommit := r.lastWasCommit
	r.lastWasCommit = false
	switch o.K {
	case "set":
		r.first("Set")
		r.pendingRoot = nil
		if d := r.guard(pos, "Set", func() *disagreement {
			if err := r.in.Set(o.Key, vals[o.Val]); err != nil {
				return &disagreement{r.fp("Set/error"), fmt.Sprintf("Set(%q, %s) returned error %v", o.Key, show(vals[o.Val]), err), pos}
			}
			return nil
		}); d != nil {
			return d
		}
		if _, ok := r.model[o.Key]; ok {
			r.stats.overwrites++
		}
		r.model[o.Key] = o.Val
		nilEnc := r.h.Flavour == "map" && o.Val == valNil
		if nilEnc {
			// A Set whose codec output is nil is always followed by a presence audit of
			// that key; only a disagreement of *this* audit that reports the key absent
			// carries the nil-encoded-value fingerprint.
			r.stats.nilSets++
			for i, chk := range []func(int, string, string) *disagreement{r.checkHas, r.checkGet} {
				if d := chk(pos, o.Key, []string{"Has", "Get"}[i]); d != nil {
					if d.FP == r.fp("Has") || d.FP == r.fp("Get") { // presence disagreement (not a value mismatch, error or panic)
						d.FP = r.fp("nil-encoded-value")
						d.What = fmt.Sprintf("after Set(%q, <value whose codec output is nil>): %s (Size() = %d)", o.Key, d.What, r.safeSize())
					}
					return d
				}
			}
		}
		if r.h.Audit {
			return r.audit(pos, o.Key, "Set")
		}
	case "del":
		_, want := r.model[o.Key]
		if want {
			r.stats.deletesPresent++
		} else {
			r.stats.deletesAbsent++
		}
		r.first("Delete")
		r.pendingRoot = nil
		if d := r.guard(pos, "Delete", func() *disagreement {
			got, err := r.in.Delete(o.Key)
			if err != nil {
				return &disagreement{r.fp("Delete/error"), fmt.Sprintf("Delete(%q) returned error %v", o.Key, err), pos}
			}
			if got != want {
				return &disagreement{r.fp("Delete"), fmt.Sprintf("Delete(%q) = %v, key present in model: %v", o.Key, got, want), pos}
			}
			return nil
		}); d != nil {
			return d
		}
		delete(r.model, o.Key)
		if r.h.Audit {
			return r.audit(pos, o.Key, "Delete")
		}
	case "get":
		return r.checkGet(pos, o.Key, "Get")
	case "has":
		return r.checkHas(pos, o.Key, "Has")
	case "size":
		return r.checkSize(pos, "Size")
	case "stream":
		return r.checkStream(pos, "Stream")
	case "root":
		_, d := r.checkRoot(pos, "Root")
		return d
	case "full":
		return r.checkFull(pos, "")
	case "commit":
		r.first("Commit")
		if d := r.guard(pos, "Commit", func() *disagreement {
			if err := r.in.Commit(); err != nil {
				return &disagreement{r.fp("Commit/error"), fmt.Sprintf("Commit returned error %v", err), pos}
			}
			return nil
		}); d != nil {
			return d
		}
		r.committed = true
		r.lastWasCommit = true
		ck := r.contentKey()
		if n := len(r.committedOnInst); n > 0 && r.committedOnInst[n-1] != ck {
			for _, e := range r.committedOnInst[:n-1] {
				if e == ck {
					r.stats.commitReturns++
					r.returned = true
					break
				}
			}
		}
		r.committedOnInst = append(r.committedOnInst, ck)
		r.commitsOnInst++
	case "probe":
		r.stats.probes++
		return r.guard(pos, "Probe", func() *disagreement {
			p := open(r.h.Flavour, r.store)
			if got := p.WasRestoredFromStorage(); got != r.committed {
				return &disagreement{r.fp("WasRestoredFromStorage"), fmt.Sprintf("new instance: WasRestoredFromStorage() = %v, Commit happened on the store: %v", got, r.committed), pos}
			}
			return nil
		})
	case "reopen":
		if !wasCommit {
			return nil // generator never emits this; hand-edited replays are ignored here
		}
		r.stats.reopens++
		mode := o.Mode
		if mode == "" {
			mode = "full"
			if o.Val == 1 {
				mode = "light"
			}
		}
		r.stats.modes[mode]++
		if r.commitsOnInst >= 2 {
			r.stats.reopensMultiCommit++
		}
		if r.returned {
			r.stats.reopensAfterReturn++
		}
		if len(r.model) == 0 {
			r.stats.reopensEmpty++
		}
		var before [32]byte
		if d := r.guard(pos, "Reopen", func() *disagreement {
			before = r.in.Root() // old instance, directly after its Commit
			r.in = open(r.h.Flavour, r.store)
			return nil
		}); d != nil {
			return d
		}
		r.fresh, r.pendingRoot = true, &before
		r.commitsOnInst, r.committedOnInst, r.returned = 0, nil, false
		restored := func() *disagreement {
			r.first("WasRestoredFromStorage")
			return r.guard(pos, "Reopen/WasRestoredFromStorage", func() *disagreement {
				if !r.in.WasRestoredFromStorage() {
					return &disagreement{r.fp("Reopen/WasRestoredFromStorage"), "instance opened after Commit reports WasRestoredFromStorage() = false", pos}
				}
				return nil
			})
		}
		switch mode {
		case "none":
			return nil
		case "restored":
			return restored()
		case "root":
			_, d := r.checkRoot(pos, "Reopen/Root")
			return d
		case "size":
			return r.checkSize(pos, "Reopen/Size")
		case "has":
			return r.checkHas(pos, o.Key, "Reopen/Has")
		case "get":
			return r.checkGet(pos, o.Key, "Reopen/Get")
		case "stream":
			return r.checkStream(pos, "Reopen/Stream")
		case "light":
			r.stats.reopensLight++
			if d := r.checkSize(pos, "Reopen/Size"); d != nil {
				return d
			}
			_, d := r.checkRoot(pos, "Reopen/Root")
			return d
		}
		if d := restored(); d != nil {
			return d
		}
		if _, d := r.checkRoot(pos, "Reopen/Root"); d != nil {
			return d
		}
		return r.checkFull(pos, "Reopen/")
	}
	return nil
}

func (r *runner) safeSize() (n int) {
	defer func() { recover() }()
	return r.in.Size()
}

func (r *runner) audit(pos int, k, after string) *disagreement {
	r.stats.audits++
	ctx := func(d *disagreement) *disagreement {
		if d != nil {
			d.What = "audit after " + after + ": " + d.What
		}
		return d
	}
	if d := r.checkSize(pos, "Size"); d != nil {
		return ctx(d)
	}
	if d := r.checkHas(pos, k, "Has"); d != nil {
		return ctx(d)
	}
	if r.h.Flavour == "map" {
		return ctx(r.checkGet(pos, k, "Get"))
	}
	return nil
}

// run executes the whole history; it stops at the first disagreement.
func (r *runner) run() *disagreement {
	if d := r.guard(-1, "Open", func() *disagreement {
		r.in = open(r.h.Flavour, r.store)
		if r.in.WasRestoredFromStorage() {
			return &disagreement{r.fp("WasRestoredFromStorage"), "instance over an empty store reports WasRestoredFromStorage() = true", -1}
		}
		return nil
	}); d != nil {
		return d
	}
	for i, o := range r.h.Ops {
		if d := r.step(i, o); d != nil {
			return d
		}
	}
	return nil
}

// ------------------------------------------------------------------ root table

type witness struct {
	root [32]byte
	hist int32
	pos  int32
}

type table struct {
	mu        sync.Mutex
	byContent map[[16]byte]witness
	byRoot    map[[32]byte][16]byte
}

func newTable() *table {
	return &table{byContent: map[[16]byte]witness{}, byRoot: map[[32]byte][16]byte{}}
}

// replay file
type replayRec struct {
	Kind string   `json:"kind"`         // single | equal-contents | different-contents
	FP   string   `json:"fp,omitempty"` // fingerprint of the pair violation
	A    history  `json:"a"`
	B    *history `json:"b,omitempty"`
	Pos  int      `json:"pos,omitempty"`
}

func truncated(h history, upto int) history {
	t := h
	t.Ops = append([]op(nil), h.Ops[:upto+1]...)
	// a truncated history must still end in a Root observation; "root"/"full"/"reopen" ops do that,
	// so the op at `upto` is one of those by construction.
	return t
}

// ------------------------------------------------------------------ rebuild sequences

func buildSequences(c *vf.Ctx, alphabet []string, r *runner, ck [16]byte) (sorted, shuffled history) {
	rng := c.Rand("rebuild/" + hex.EncodeToString(ck[:]))
	ks := make([]string, 0, len(r.model))
	for k := range r.model {
		ks = append(ks, k)
	}
	sort.Strings(ks)
	valFor := func(k string) int {
		v := r.model[k]
		if r.h.Flavour == "map" && r.h.NilVals && len(vals[v]) == 0 {
			return rng.Intn(2) // nil-encoded or []byte{}: same contents
		}
		return v
	}
	other := func(v int) int {
		if r.h.Flavour != "map" {
			return valEmpty
		}
		for {
			o := 1 + rng.Intn(len(vals)-1)
			if !bytes.Equal(vals[o], vals[v]) {
				return o
			}
		}
	}
	base := history{Idx: -1, Flavour: r.h.Flavour, NilVals: r.h.NilVals, Keys: r.h.Keys}
	sorted = base
	for _, k := range ks {
		sorted.Ops = append(sorted.Ops, op{K: "set", Key: k, Val: valFor(k)})
	}
	sorted.Ops = append(sorted.Ops, op{K: "full"})

	shuffled = base
	shuffled.Audit = rng.Intn(2) == 0
	sh := append([]string(nil), ks...)
	rng.Shuffle(len(sh), func(i, j int) { sh[i], sh[j] = sh[j], sh[i] })
	var foreign []string
	inModel := func(k string) bool { _, ok := r.model[k]; return ok }
	maybeCommit := func() {
		if rng.Intn(8) == 0 {
			shuffled.Ops = append(shuffled.Ops, op{K: "commit"})
			if rng.Intn(2) == 0 {
				o := op{K: "reopen", Mode: []string{"full", "light", "none", "root", "size", "has", "get", "stream", "restored"}[rng.Intn(9)]}
				if o.Mode == "get" && r.h.Flavour != "map" {
					o.Mode = "has"
				}
				if o.Mode == "has" || o.Mode == "get" {
					o.Key = alphabet[rng.Intn(len(alphabet))]
					if len(sh) > 0 && rng.Intn(3) > 0 {
						o.Key = sh[rng.Intn(len(sh))]
					}
				}
				shuffled.Ops = append(shuffled.Ops, o)
			}
		}
	}
	for _, k := range sh {
		v := valFor(k)
		switch rng.Intn(5) {
		case 0:
			shuffled.Ops = append(shuffled.Ops, op{K: "set", Key: k, Val: other(v)}, op{K: "set", Key: k, Val: v})
		case 1:
			shuffled.Ops = append(shuffled.Ops, op{K: "set", Key: k, Val: v})
			maybeCommit()
			shuffled.Ops = append(shuffled.Ops, op{K: "del", Key: k}, op{K: "set", Key: k, Val: v})
		case 2:
			f := alphabet[rng.Intn(len(alphabet))]
			if !inModel(f) {
				already := false
				for _, x := range foreign {
					already = already || x == f
				}
				if !already {
					foreign = append(foreign, f)
					shuffled.Ops = append(shuffled.Ops, op{K: "set", Key: f, Val: other(valEmpty)})
				}
			}
			shuffled.Ops = append(shuffled.Ops, op{K: "set", Key: k, Val: v})
		default:
			shuffled.Ops = append(shuffled.Ops, op{K: "set", Key: k, Val: v})
		}
		maybeCommit()
	}
	if len(ks) == 0 && rng.Intn(2) == 0 { // empty contents reached through insert+delete
		f := alphabet[rng.Intn(len(alphabet))]
		foreign = append(foreign, f)
		shuffled.Ops = append(shuffled.Ops, op{K: "set", Key: f, Val: other(valEmpty)})
		maybeCommit()
	}
	rng.Shuffle(len(foreign), func(i, j int) { foreign[i], foreign[j] = foreign[j], foreign[i] })
	for _, f := range foreign {
		shuffled.Ops = append(shuffled.Ops, op{K: "del", Key: f})
		maybeCommit()
	}
	// the foreign keys belong to the key set of the rebuild history (full checks look at them)
	if len(foreign) > 0 {
		shuffled.Keys = append(append([]string(nil), r.h.Keys...), foreign...)
	}
	shuffled.Ops = append(shuffled.Ops, op{K: "full"})
	return
}

// runToEnd runs a history without table and returns its final root / content key.
func runToEnd(h *history, st *stats) (root [32]byte, ck [16]byte, d *disagreement) {
	r := newRunner(h, st)
	r.onRoot = func(rr *runner, _ int, rt [32]byte) *disagreement { root = rt; return nil }
	d = r.run()
	ck = r.contentKey()
	return
}

// ------------------------------------------------------------------ main exploration

type explorer struct {
	c        *vf.Ctx
	alphabet []string
	hashes   map[string][32]byte
	tables   map[string]*table
	maxDepth atomic.Int64
	maxKeys  atomic.Int64
}

func (e *explorer) depthOf(model map[string]int) int {
	ks := make([][32]byte, 0, len(model))
	for k := range model {
		h, ok := e.hashes[k]
		if !ok {
			h = sha256.Sum256([]byte(k))
		}
		ks = append(ks, h)
	}
	d := 0
	if len(ks) > 0 {
		d = 1
	}
	for i := range ks {
		for j := i + 1; j < len(ks); j++ {
			if x := cpl(ks[i], ks[j]) + 1; x > d {
				d = x
			}
		}
	}
	return d
}

func atomicMax(a *atomic.Int64, v int64) {
	for {
		o := a.Load()
		if v <= o || a.CompareAndSwap(o, v) {
			return
		}
	}
}

func (e *explorer) report(d *disagreement, rec replayRec) {
	rec.Pos = d.Pos
	e.c.Violation(d.FP, fmt.Sprintf("history %d (%s, %d ops) op #%d: %s", rec.A.Idx, rec.A.Flavour, len(rec.A.Ops), d.Pos, d.What), rec)
}

func (e *explorer) runHistory(idx int) {
	c := e.c
	h := genHistory(c, e.alphabet, idx)
	st := newStats()
	defer st.flush(c)
	tb := e.tables[h.Flavour]
	r := newRunner(&h, st)
	var pairViolation bool
	r.onRoot = func(r *runner, pos int, root [32]byte) *disagreement {
		ck := r.contentKey()
		atomicMax(&e.maxDepth, int64(e.depthOf(r.model)))
		atomicMax(&e.maxKeys, int64(len(r.model)))
		tb.mu.Lock()
		w, known := tb.byContent[ck]
		if !known {
			tb.byContent[ck] = witness{root, int32(idx), int32(pos)}
		}
		ock, rootKnown := tb.byRoot[root]
		if !rootKnown {
			tb.byRoot[root] = ck
		}
		tb.mu.Unlock()
		c.DistinctHash("content_sets", uint64FromKey(ck))
		if known {
			if w.root != root {
				pairViolation = true
				a := truncated(genHistory(c, e.alphabet, int(w.hist)), int(w.pos))
				b := truncated(h, pos)
				c.Violation(h.Flavour+"/Root/equal-contents-different-root",
					fmt.Sprintf("histories %d (op #%d) and %d (op #%d) reach equal contents (%d keys) but Root %x != %x", w.hist, w.pos, idx, pos, len(r.model), w.root[:6], root[:6]),
					replayRec{Kind: "equal-contents", FP: h.Flavour + "/Root/equal-contents-different-root", A: a, B: &b})
				return &disagreement{}
			}
			if int(w.hist) != idx {
				c.Count("root_pairs_cross_history", 1)
				if len(r.model) > 0 {
					c.DistinctHash("cross_history_content_sets", uint64FromKey(ck))
				}
			}
		}
		if rootKnown && ock != ck {
			pairViolation = true
			b := truncated(h, pos)
			// the other witness: the history that registered this content key
			tb.mu.Lock()
			ow := tb.byContent[ock]
			tb.mu.Unlock()
			a := truncated(genHistory(c, e.alphabet, int(ow.hist)), int(ow.pos))
			c.Violation(h.Flavour+"/Root/different-contents-equal-root",
				fmt.Sprintf("histories %d (op #%d) and %d (op #%d) reach different contents but the same Root %x", ow.hist, ow.pos, idx, pos, root[:6]),
				replayRec{Kind: "different-contents", FP: h.Flavour + "/Root/different-contents-equal-root", A: a, B: &b})
			return &disagreement{}
		}
		if !known {
			// rebuild this content set on fresh stores
			sorted, shuffled := buildSequences(c, e.alphabet, r, ck)
			for i, seq := range []*history{&sorted, &shuffled} {
				name := []string{"sorted", "shuffled"}[i]
				rr, rck, d := runToEnd(seq, st)
				if d != nil {
					e.report(d, replayRec{Kind: "single", A: *seq})
					pairViolation = true
					return &disagreement{}
				}
				if rck != ck {
					panic("harness bug: rebuild sequence does not reproduce the contents")
				}
				c.Count("root_pairs_rebuild", 1)
				if rr != root {
					pairViolation = true
					b := truncated(h, pos)
					c.Violation(h.Flavour+"/Root/rebuild-"+name,
						fmt.Sprintf("history %d op #%d: Root %x, but the same contents (%d keys) rebuilt on a fresh instance (%s order) give Root %x", idx, pos, root[:6], len(r.model), name, rr[:6]),
						replayRec{Kind: "equal-contents", FP: h.Flavour + "/Root/rebuild-" + name, A: *seq, B: &b})
					return &disagreement{}
				}
			}
			if len(r.model) > 0 {
				c.DistinctHash("nontrivial", uint64FromKey(ck))
			}
		}
		return nil
	}
	d := r.run()
	c.Count("histories", 1)
	c.Count("histories_"+h.Flavour, 1)
	if h.NilVals {
		c.Count("histories_with_nil_encoded_values", 1)
	}
	if d != nil {
		if d.FP == h.Flavour+"/nil-encoded-value" {
			c.Count("histories_stopped_at_nil_encoded_value", 1)
		}
		if !pairViolation {
			rec := replayRec{Kind: "single", A: h}
			e.report(d, rec)
		}
		return
	}
	c.Count("histories_completed", 1)
	if c.WantSample() && idx%97 == 0 {
		c.Sample(map[string]any{"history": idx, "flavour": h.Flavour, "keys": len(h.Keys), "ops": opsString(h.Ops, 14), "final_size": len(r.model)})
	}
}

func uint64FromKey(k [16]byte) uint64 {
	var u uint64
	for i := 0; i < 8; i++ {
		u = u<<8 | uint64(k[i])
	}
	return u
}

func opsString(ops []op, n int) string {
	var sb strings.Builder
	for i, o := range ops {
		if i == n {
			sb.WriteString(" ...")
			break
		}
		if i > 0 {
			sb.WriteByte(' ')
		}
		switch o.K {
		case "set":
			fmt.Fprintf(&sb, "set(%q,v%d)", o.Key, o.Val)
		case "del", "get", "has":
			fmt.Fprintf(&sb, "%s(%q)", o.K, o.Key)
		default:
			sb.WriteString(o.K)
		}
	}
	return sb.String()
}

// ------------------------------------------------------------------ replay

func replay(c *vf.Ctx) {
	var probe concCase
	if err := c.LoadReplay(&probe); err == nil && probe.Part == "conc" {
		concReplay(c, &probe)
		return
	} else if err == nil && probe.Part == "disc" {
		var dr discRec
		if c.LoadReplay(&dr) == nil {
			discReplay(c, &dr)
		}
		return
	} else if err == nil && probe.Part == "realms" {
		var rr realmRec
		if c.LoadReplay(&rr) == nil {
			realmsReplay(c, &rr)
		}
		return
	}
	var rec replayRec
	if err := c.LoadReplay(&rec); err != nil {
		fmt.Fprintln(os.Stderr, err)
		os.Exit(3)
	}
	st := newStats()
	defer st.flush(c)
	ra, cka, da := runToEnd(&rec.A, st)
	if da != nil {
		c.Violation(da.FP, fmt.Sprintf("replayed history A op #%d: %s", da.Pos, da.What), rec)
		return
	}
	if rec.B == nil {
		return
	}
	rb, ckb, db := runToEnd(rec.B, st)
	if db != nil {
		c.Violation(db.FP, fmt.Sprintf("replayed history B op #%d: %s", db.Pos, db.What), rec)
		return
	}
	fpOr := func(def string) string {
		if rec.FP != "" && strings.HasPrefix(rec.FP, rec.A.Flavour+"/Root/") {
			return rec.FP
		}
		return def
	}
	switch {
	case cka == ckb && ra != rb:
		c.Violation(fpOr(rec.A.Flavour+"/Root/equal-contents-different-root"), fmt.Sprintf("replay: equal contents, Root %x != %x", ra[:6], rb[:6]), rec)
	case cka != ckb && ra == rb:
		c.Violation(rec.A.Flavour+"/Root/different-contents-equal-root", fmt.Sprintf("replay: different contents, same Root %x", ra[:6]), rec)
	}
}

func run(c *vf.Ctx) {
	if c.Replay != "" {
		replay(c)
		return
	}
	c.SetRule("one evaluation = one operation of a seeded sequential history (20-60 ops, a third preceded by a fill of the key set, of Set/Add, Delete, Get, Has, Size, Stream, Root, Commit, Reopen-after-Commit (what is called first on the restored instance varies: nothing / one accessor / Size+Root / full comparison, the first call being each of Size, Root, Has, Get, Stream, Set/Add, Delete, Commit, WasRestoredFromStorage; full comparisons then happen later), several Commits on one instance incl. contents returning to an earlier committed state, Probe; 70% map / 30% set flavour; key subsets of a 25-key alphabet whose groups share 8-20 (thorough: 8-22) leading SHA-256 path bits, plus the empty key; values nil-encoded, []byte{}, 1 byte, 100 bytes; half of the map histories never use a nil-encoded value) executed on ads over mapdb and compared with a plain map; every Root observation is entered in a run-wide contents<->root table. distinct_nontrivial = distinct non-empty content sets whose Root was compared with at least two other, differently ordered op sequences reaching the same contents (sorted rebuild and shuffled rebuild with overwrite/delete-reinsert/foreign-key/commit noise); distinct_cross_history_content_sets = content sets reached by two different generated histories. Part conc (conc.go): seeded concurrent histories (3-5 goroutines x 4-10 operations of Set/Add, Delete, Get, Has, Size, Root, Stream, Commit, WasRestoredFromStorage over 4 keys, unique values of 2-6000 bytes, four method-weight profiles, set-ups fresh / committed / committed+dirty / restored / restored+dirty, a family without Delete) recorded at the client boundary and decided by porcupine against the same map model extended by the contents at the last Commit (Root through rootOf(contents) computed on fresh sequential instances, Stream and Size as atomic snapshots, a new instance opened over the store at the end must hold the last committed contents), run in a plain and in a -race child; plus deterministic windows judged with goroutine snapshots: Stream parked in its callback on the first pair, Commit parked at every store write it performs and in the root serializer, while a writer performs 2-3 Set/Delete, followed by a new instance over a copy of the store taken when Commit returned. Part disc (disc.go): seeded sequential histories (25-55 steps over 3-7 of 13 keys incl. the empty key and keys that are byte prefixes of each other) on three instantiations with reference-typed keys/values and copying codecs (K=[]byte,V=[]byte; K=string,V=*struct{scalar,slice}; set with K=[]byte), every argument passed in ONE caller buffer/object that is checked and overwritten after each call, a third with a key encoder that encodes into one scratch buffer; \"held\" histories keep every Get result and every key/value a Stream consumer received together with a deep copy, re-compare them after each of the next 1-5 steps and then scribble on them (also inside the consumer) before the instance is judged again; \"fail\" histories make the n-th invocation of one codec (key/value encoder/decoder, root encoder, root decoder while opening) or of the Stream consumer return an error or panic in 40% of the operations, audit the instance at once against the model in which the failed operation did nothing (Size, Has/Get of every key, Stream pairs, pair count == Size, Root == root of the model contents on a fresh instance), open a read-only probe instance after a failed Commit, go on, and end with Commit + reopen + audit; every 5th codec/consumer invocation calls WasRestoredFromStorage on the same instance; the children are plain builds without timers, so a lock left held or a new self dead-lock ends them through the runtime dead-lock detector; child disc-reentry probes every (outer method, callback site, inner method) combination on a goroutine-snapshot actor and records which self-dead-lock")
	t0 := time.Now()
	e := &explorer{c: c, alphabet: buildAlphabet(c), hashes: map[string][32]byte{}, tables: map[string]*table{"map": newTable(), "set": newTable()}}
	for _, k := range e.alphabet {
		e.hashes[k] = sha256.Sum256([]byte(k))
	}
	// evidence about the alphabet: longest shared path prefix inside each group
	maxShare := 0
	for i, a := range e.alphabet {
		for _, b := range e.alphabet[i+1:] {
			if x := cpl(e.hashes[a], e.hashes[b]); x > maxShare {
				maxShare = x
			}
		}
	}
	c.Extra("alphabet_search_seconds", time.Since(t0).Seconds()) // evidence only, no verdict depends on it
	c.Extra("alphabet", e.alphabet)
	c.Extra("alphabet_max_shared_path_bits", maxShare)

	n := c.Pick(6000, 120000)
	vf.Parallel(n, runtime.NumCPU(), e.runHistory)

	c.Extra("max_trie_depth_reached", e.maxDepth.Load())
	c.Extra("max_keys_in_contents", e.maxKeys.Load())
	c.Count("max_trie_depth", int(e.maxDepth.Load()))
	c.SetExhaustive(false)
	c.Require("evaluations", n*20)
	c.Require("histories_completed", n*2/5)
	c.Require("nontrivial", n)
	c.Require("cross_history_content_sets", n/40)
	c.Require("root_pairs_cross_history", n/10)
	c.Require("reopens", n/4)
	for _, k := range []string{"Size", "Root", "Has", "Get", "Stream", "Set", "Delete", "Commit", "WasRestoredFromStorage"} {
		c.Require("first_call_on_restored_instance:"+k, n/100)
	}
	c.Require("reopen_mode:none", n/10)
	c.Require("reopens_after_two_or_more_commits_on_one_instance", n/10)
	c.Require("reopens_after_return_to_earlier_committed_state", n/50)
	c.Require("deferred_root_checks_after_reopen", n/50)
	c.Require("max_trie_depth", 15)
	realmsPart(c)
	concPart(c)
	discPart(c)
	c.Assume("the plain Go map model and SHA-256 are correct; mapdb is the store under ads (faults of the store are not injected here)")
}

func main() {
	vf.Main("C09", "exploration", run, func(c *vf.Ctx) {
		if !discChildDispatch(c) {
			concChildDispatch(c)
		}
	})
}
