package main

// Part "disc" of C09: the three workload disciplines of harness/DISCIPLINES.md
// applied to every exported entry point of the authenticated map / set.
//
//  1. Held results and scribbling. The maps are instantiated with reference-typed
//     keys and values (K=[]byte,V=[]byte; K=string,V=*drec; set with K=[]byte) and
//     ordinary COPYING codecs in both directions. Every object handed out by Get
//     or delivered to a Stream consumer (keys and values) is kept together with a
//     deep copy, re-compared after each of the following 1-5 steps, and in the
//     "held" histories then scribbled (overwritten in place, appended to within
//     and beyond its capacity, sorted, struct fields replaced) - inside the
//     Stream consumer too - after which the ordinary oracle judges the instance
//     against the model. Every argument (key slice, value slice, *drec) lives in
//     ONE buffer/object per instance that the caller recycles: it must be intact
//     when the call returns (also when the call failed) and is then overwritten
//     with garbage. In a third of the histories the key encoder encodes every key
//     into one scratch buffer (the unchanged tree hashes/copies the encoded key
//     before it returns). NOT demanded: a value encoder that reuses one scratch
//     buffer (the trie keeps the encoded slice as its leaf on the unchanged
//     tree, see discEstablish), aliasing codecs.
//
//  2. Re-entrant user code. (a) In every history each fifth invocation of a key /
//     value codec or of the Stream consumer calls WasRestoredFromStorage on the
//     SAME instance - the one exported method that does not take the map's lock
//     on the unchanged tree; it must return (a self dead-lock ends the plain,
//     timer-free child through the runtime's detector) with the committed flag.
//     (b) Child "disc-reentry": for every (outer method, callback site) pair and
//     every exported method as the inner call, the callback calls back into the
//     same instance on a gdump actor; Returned/Blocked is recorded as evidence
//     (the matrix of what self-dead-locks). Demanded: WasRestoredFromStorage from
//     key/value codecs and the Stream consumer returns; an inner READ that
//     returns (callbacks on a snapshot would allow that) reports the state before
//     the outer call. Inner writes that return are not judged.
//
//  3. Failing / panicking user code, then further use. "fail" histories arm one
//     fault per faulted operation: the n-th invocation (n = 1..3, Stream: up to
//     2*size+1) of one codec (key encoder, key decoder, value encoder, value
//     decoder, root encoder) or of the Stream consumer returns an error or
//     panics (the caller recovers). The instance is used again at once: a full
//     audit (Size, Has/Get of every key of the history, Stream pairs, number of
//     pairs == Size, Root == root of the model contents on a fresh instance,
//     WasRestoredFromStorage) must equal the model in which the failed operation
//     did nothing; the history goes on, ends with Commit + reopen + audit. A root
//     decoder that fails while an instance is opened yields an instance that is
//     thrown away; opening again must give the committed state. A lock left held
//     is found structurally: the next call parks the only goroutine of the plain
//     timer-free child and the Go runtime reports the dead-lock. NOT judged (outside
//     the statement): a key encoder failing on a REPEATED invocation inside one
//     Set/Delete call - on the unchanged tree that invocation happens after the
//     tree was updated; such a fault is counted and ends its history.

import (
	"bytes"
	"crypto/sha256"
	"encoding/binary"
	"errors"
	"fmt"
	"math/rand"
	"sort"
	"strconv"
	"strings"

	"github.com/iotaledger/hive.go/ads"
	"github.com/iotaledger/hive.go/kvstore"
	"github.com/iotaledger/hive.go/kvstore/mapdb"
	"github.com/iotaledger/hive.go/serializer/v2/typeutils"
	"verif/harness/internal/gdump"
	"verif/harness/internal/vf"
)

// ------------------------------------------------------------------ user code under harness control

const (
	siteKeyEnc = iota
	siteKeyDec
	siteValEnc
	siteValDec
	siteIDEnc
	siteIDDec
	siteConsumer
	nSites
)

var siteNames = [nSites]string{"key-encoder", "key-decoder", "value-encoder", "value-decoder", "root-encoder", "root-decoder", "consumer"}

type discPanic struct{}

var errDisc = errors.New("injected failure of user code")

// dplan is the behaviour of the user code (codecs, consumer) of one instance lineage.
type dplan struct {
	armed   bool
	site    int
	nth     int
	seen    int
	panics  bool
	fired   bool
	ordinal int

	calls    [nSites]int
	n        int
	reent    func(site int) // every 5th invocation outside the root codecs
	hookSite int            // reentry child: at the first invocation of hookSite run hook
	hook     func()
	hookRan  bool

	scratchKey bool
	keyScratch []byte
}

func (p *dplan) arm(site, nth int, panics bool) {
	p.armed, p.site, p.nth, p.seen, p.panics, p.fired, p.ordinal = true, site, nth, 0, panics, false, 0
}

func (p *dplan) disarm() (fired bool, ordinal int) {
	fired, ordinal = p.fired, p.ordinal
	p.armed, p.fired = false, false
	return
}

func (p *dplan) at(site int) error {
	p.calls[site]++
	if p.hook != nil && site == p.hookSite && !p.hookRan {
		p.hookRan = true
		p.hook()
	}
	if p.reent != nil && site != siteIDEnc && site != siteIDDec {
		p.n++
		if p.n%5 == 0 {
			p.reent(site)
		}
	}
	if p.armed && p.site == site {
		p.seen++
		if p.seen == p.nth {
			p.armed, p.fired, p.ordinal = false, true, p.seen
			if p.panics {
				panic(discPanic{})
			}
			return errDisc
		}
	}
	return nil
}

// copying codecs -------------------------------------------------------------

func (p *dplan) keyEncB(k []byte) ([]byte, error) {
	if err := p.at(siteKeyEnc); err != nil {
		return nil, err
	}
	if p.scratchKey {
		p.keyScratch = append(p.keyScratch[:0], k...)
		return p.keyScratch, nil
	}
	return append(make([]byte, 0, len(k)+3), k...), nil
}

func (p *dplan) keyDecB(b []byte) ([]byte, int, error) {
	if err := p.at(siteKeyDec); err != nil {
		return nil, 0, err
	}
	return append(make([]byte, 0, len(b)+5), b...), len(b), nil
}

func (p *dplan) keyEncS(k string) ([]byte, error) { return p.keyEncB([]byte(k)) }

func (p *dplan) keyDecS(b []byte) (string, int, error) {
	if err := p.at(siteKeyDec); err != nil {
		return "", 0, err
	}
	return string(b), len(b), nil
}

func (p *dplan) valEncB(v []byte) ([]byte, error) {
	if err := p.at(siteValEnc); err != nil {
		return nil, err
	}
	return append(make([]byte, 0, len(v)+2), v...), nil
}

func (p *dplan) valDecB(b []byte) ([]byte, int, error) {
	if err := p.at(siteValDec); err != nil {
		return nil, 0, err
	}
	return append(make([]byte, 0, len(b)+6), b...), len(b), nil
}

// drec is the pointer-typed value: a struct with a scalar and a slice.
type drec struct {
	N    uint64
	Blob []byte
}

func encRec(r *drec) []byte {
	out := make([]byte, 8, 8+len(r.Blob))
	binary.LittleEndian.PutUint64(out, r.N)
	return append(out, r.Blob...)
}

func recN(payload []byte) uint64 {
	h := sha256.Sum256(payload)
	return binary.LittleEndian.Uint64(h[:8])
}

func (p *dplan) valEncR(r *drec) ([]byte, error) {
	if err := p.at(siteValEnc); err != nil {
		return nil, err
	}
	if r == nil {
		return nil, errors.New("nil record")
	}
	return encRec(r), nil
}

func (p *dplan) valDecR(b []byte) (*drec, int, error) {
	if err := p.at(siteValDec); err != nil {
		return nil, 0, err
	}
	if len(b) < 8 {
		return nil, 0, errors.New("short record")
	}
	return &drec{N: binary.LittleEndian.Uint64(b), Blob: append(make([]byte, 0, len(b)-8+4), b[8:]...)}, len(b), nil
}

func (p *dplan) idEnc(id [32]byte) ([]byte, error) {
	if err := p.at(siteIDEnc); err != nil {
		return nil, err
	}
	return typeutils.ByteArray32ToBytes(id)
}

func (p *dplan) idDec(b []byte) ([32]byte, int, error) {
	if err := p.at(siteIDDec); err != nil {
		return [32]byte{}, 0, err
	}
	return typeutils.ByteArray32FromBytes(b)
}

// ------------------------------------------------------------------ held objects

// dheld is something the library handed to the caller.
type dheld interface {
	canon() []byte                  // deep copy of what the object says now
	scribble(rng *rand.Rand) string // mutate in place; "" if there was nothing to mutate
}

type blobHeld struct{ b []byte }

func (h *blobHeld) canon() []byte { return append([]byte{}, h.b...) }
func (h *blobHeld) scribble(rng *rand.Rand) string {
	b := h.b
	switch m := rng.Intn(5); {
	case m == 0 && len(b) > 0:
		for i := range b {
			b[i] ^= 0xFF
		}
		return "overwritten in place"
	case m == 1 && len(b) > 1:
		before := string(b)
		sort.Slice(b, func(i, j int) bool { return b[i] > b[j] })
		if string(b) == before {
			b[0] ^= 0x55
		}
		return "sorted in place"
	case m == 2 && cap(b) > len(b):
		x := append(b, 0xA5)
		for len(x) < cap(x) {
			x = append(x, 0x5A)
		}
		h.b = x
		return "appended to within its capacity"
	case m == 3:
		x := append(b[:len(b):len(b)], 0xC3, 0x3C)
		for i := range x {
			x[i] ^= 0x0F
		}
		h.b = x
		return "appended to beyond its capacity"
	default:
		if len(b) == 0 {
			if cap(b) > 0 {
				h.b = append(b, 0x77)
				return "appended to within its capacity"
			}
			return ""
		}
		b[len(b)-1]++
		b[0] ^= 0x80
		return "first and last byte changed"
	}
}

type recHeld struct{ p *drec }

func (h *recHeld) canon() []byte {
	if h.p == nil {
		return nil
	}
	return encRec(h.p)
}
func (h *recHeld) scribble(rng *rand.Rand) string {
	p := h.p
	if p == nil {
		return ""
	}
	switch rng.Intn(5) {
	case 0:
		p.N += 150
		return "scalar field changed through the pointer"
	case 1:
		if len(p.Blob) > 0 {
			for i := range p.Blob {
				p.Blob[i] ^= 0xFF
			}
			return "slice field overwritten in place"
		}
		p.N ^= 1
		return "scalar field changed through the pointer"
	case 2:
		p.Blob = append(p.Blob, 0xEE)
		p.N++
		return "slice field appended to, scalar changed"
	case 3:
		*p = drec{N: 0xDEAD, Blob: []byte("scribbled")}
		return "struct replaced through the pointer"
	default:
		p.Blob = nil
		p.N = ^p.N
		return "slice field dropped, scalar changed"
	}
}

type strHeld struct{ s string }

func (h strHeld) canon() []byte              { return []byte(h.s) }
func (h strHeld) scribble(*rand.Rand) string { return "" }

// ------------------------------------------------------------------ instances

// dinst: one flavour of the authenticated map/set behind a uniform face. Keys are
// named by strings, values by the payload they are built from; enc(payload) is what
// the model holds (the value's canonical encoding).
type dinst interface {
	set(k string, payload []byte) error
	get(k string) (dheld, bool, error)
	has(k string) (bool, error)
	del(k string) (bool, error)
	stream(f func(k, v dheld) error) error
	commit() error
	root() [32]byte
	size() int
	restored() bool
	enc(payload []byte) []byte
	damage() string // "" or how an argument was changed by the last call
}

const garbage = 0xEE

// args are the caller-owned buffers of one instance, recycled for every call.
type dargs struct {
	kbuf, vbuf []byte
	kwant      []byte
	vwant      []byte
	dmg        string
}

func (a *dargs) key(k string) []byte {
	a.kbuf = append(a.kbuf[:0], k...)
	a.kwant = append(a.kwant[:0], k...)
	return a.kbuf
}

func (a *dargs) val(payload []byte) []byte {
	a.vbuf = append(a.vbuf[:0], payload...)
	a.vwant = append(a.vwant[:0], payload...)
	return a.vbuf
}

// recycle runs deferred: the arguments must be what was passed, then they are overwritten.
func (a *dargs) recycle(method string, hasVal bool) {
	a.dmg = ""
	if !bytes.Equal(a.kbuf, a.kwant) {
		a.dmg = fmt.Sprintf("%s changed the key slice it was given: % x -> % x", method, a.kwant, a.kbuf)
	}
	if hasVal && !bytes.Equal(a.vbuf, a.vwant) {
		a.dmg = fmt.Sprintf("%s changed the value slice it was given: % x -> % x", method, a.vwant, a.vbuf)
	}
	fill := func(b []byte) {
		b = b[:cap(b)]
		for i := range b {
			b[i] = garbage
		}
	}
	fill(a.kbuf)
	if hasVal {
		fill(a.vbuf)
	}
}

func (a *dargs) damage() string { return a.dmg }

// flavour "blob": K = []byte, V = []byte
type blobInst struct {
	m ads.Map[[32]byte, []byte, []byte]
	dargs
}

func (b *blobInst) set(k string, payload []byte) error {
	kk, vv := b.key(k), b.val(payload)
	defer b.recycle("Set", true)
	return b.m.Set(kk, vv)
}
func (b *blobInst) get(k string) (dheld, bool, error) {
	kk := b.key(k)
	defer b.recycle("Get", false)
	v, ok, err := b.m.Get(kk)
	return &blobHeld{v}, ok, err
}
func (b *blobInst) has(k string) (bool, error) {
	kk := b.key(k)
	defer b.recycle("Has", false)
	return b.m.Has(kk)
}
func (b *blobInst) del(k string) (bool, error) {
	kk := b.key(k)
	defer b.recycle("Delete", false)
	return b.m.Delete(kk)
}
func (b *blobInst) stream(f func(k, v dheld) error) error {
	return b.m.Stream(func(k []byte, v []byte) error { return f(&blobHeld{k}, &blobHeld{v}) })
}
func (b *blobInst) commit() error             { return b.m.Commit() }
func (b *blobInst) root() [32]byte            { return b.m.Root() }
func (b *blobInst) size() int                 { return b.m.Size() }
func (b *blobInst) restored() bool            { return b.m.WasRestoredFromStorage() }
func (b *blobInst) enc(payload []byte) []byte { return append([]byte{}, payload...) }

// flavour "ptr": K = string, V = *drec
type ptrInst struct {
	m   ads.Map[[32]byte, string, *drec]
	rec *drec // the one value object the caller recycles
	dargs
	want []byte
}

func (p *ptrInst) set(k string, payload []byte) error {
	if p.rec == nil {
		p.rec = &drec{}
	}
	p.rec.N = recN(payload)
	p.rec.Blob = append(p.rec.Blob[:0], payload...)
	p.want = encRec(p.rec)
	defer func() {
		p.dmg = ""
		if got := encRec(p.rec); !bytes.Equal(got, p.want) {
			p.dmg = fmt.Sprintf("Set changed the *struct value it was given: % x -> % x", p.want, got)
		}
		p.rec.N = 0xEEEEEEEEEEEEEEEE
		bl := p.rec.Blob[:cap(p.rec.Blob)]
		for i := range bl {
			bl[i] = garbage
		}
	}()
	return p.m.Set(k, p.rec)
}
func (p *ptrInst) get(k string) (dheld, bool, error) {
	p.dmg = ""
	v, ok, err := p.m.Get(k)
	return &recHeld{v}, ok, err
}
func (p *ptrInst) has(k string) (bool, error) { p.dmg = ""; return p.m.Has(k) }
func (p *ptrInst) del(k string) (bool, error) { p.dmg = ""; return p.m.Delete(k) }
func (p *ptrInst) stream(f func(k, v dheld) error) error {
	return p.m.Stream(func(k string, v *drec) error { return f(strHeld{k}, &recHeld{v}) })
}
func (p *ptrInst) commit() error  { return p.m.Commit() }
func (p *ptrInst) root() [32]byte { return p.m.Root() }
func (p *ptrInst) size() int      { return p.m.Size() }
func (p *ptrInst) restored() bool { return p.m.WasRestoredFromStorage() }
func (p *ptrInst) enc(payload []byte) []byte {
	return encRec(&drec{N: recN(payload), Blob: payload})
}

// flavour "set": K = []byte
type bsetInst struct {
	s ads.Set[[32]byte, []byte]
	dargs
}

func (b *bsetInst) set(k string, _ []byte) error {
	kk := b.key(k)
	defer b.recycle("Add", false)
	return b.s.Add(kk)
}
func (b *bsetInst) get(k string) (dheld, bool, error) {
	kk := b.key(k)
	defer b.recycle("Has", false)
	ok, err := b.s.Has(kk)
	return &blobHeld{nil}, ok, err
}
func (b *bsetInst) has(k string) (bool, error) {
	kk := b.key(k)
	defer b.recycle("Has", false)
	return b.s.Has(kk)
}
func (b *bsetInst) del(k string) (bool, error) {
	kk := b.key(k)
	defer b.recycle("Delete", false)
	return b.s.Delete(kk)
}
func (b *bsetInst) stream(f func(k, v dheld) error) error {
	return b.s.Stream(func(k []byte) error { return f(&blobHeld{k}, &blobHeld{nil}) })
}
func (b *bsetInst) commit() error     { return b.s.Commit() }
func (b *bsetInst) root() [32]byte    { return b.s.Root() }
func (b *bsetInst) size() int         { return b.s.Size() }
func (b *bsetInst) restored() bool    { return b.s.WasRestoredFromStorage() }
func (b *bsetInst) enc([]byte) []byte { return []byte{} }

var discFlavours = []string{"blob", "ptr", "set"}

func discOpen(flavour string, store kvstore.KVStore, p *dplan) dinst {
	switch flavour {
	case "blob":
		return &blobInst{m: ads.NewMap[[32]byte](store, p.idEnc, p.idDec, p.keyEncB, p.keyDecB, p.valEncB, p.valDecB)}
	case "ptr":
		return &ptrInst{m: ads.NewMap[[32]byte](store, p.idEnc, p.idDec, p.keyEncS, p.keyDecS, p.valEncR, p.valDecR)}
	default:
		return &bsetInst{s: ads.NewSet[[32]byte](store, p.idEnc, p.idDec, p.keyEncB, p.keyDecB)}
	}
}

// ------------------------------------------------------------------ runner

type discRec struct {
	Part    string   `json:"part"` // "disc"
	Kind    string   `json:"kind"` // history | reentry | deadlock | establish
	Seed    int64    `json:"seed"`
	Flavour string   `json:"flavour,omitempty"`
	Focus   string   `json:"focus,omitempty"`
	Trace   []string `json:"trace,omitempty"`
	Report  string   `json:"report,omitempty"`
}

type discStats struct{ counters map[string]int }

func (s *discStats) add(k string, n int) { s.counters[k] += n }
func (s *discStats) flush(c *vf.Ctx) {
	for k, v := range s.counters {
		c.Count(k, v)
	}
	s.counters = map[string]int{}
}

var discNotedBehind bool

var discKeys = []string{"", "a", "ab", "abc", "abcd", "b", "ba", "k0", "k1", "k2", "k3", "k4", "k5"}

type heldEntry struct {
	h    dheld
	copy []byte
	src  string // Get / Stream-key / Stream-value
	key  string
	age  int
	ttl  int
}

type dRunner struct {
	c       *vf.Ctx
	st      *discStats
	rng     *rand.Rand
	seed    int64
	flavour string
	focus   string // held | fail
	keys    []string
	store   kvstore.KVStore
	plan    *dplan
	in      dinst
	model   map[string][]byte
	commits int
	// what the last successful Commit stored
	committed     map[string][]byte
	committedRoot [32]byte
	held          []heldEntry
	trace         []string
	fpCtx         string // set while the audit that follows a failed operation runs
	ctxText       string
	dead          bool
	stopped       bool // ended at a fault that is not judged
	marks         bool
	reentOn       bool
}

func (r *dRunner) rec() *discRec {
	t := r.trace
	if len(t) > 80 {
		t = t[len(t)-80:]
	}
	return &discRec{Part: "disc", Kind: "history", Seed: r.seed, Flavour: r.flavour, Focus: r.focus, Trace: append([]string{}, t...)}
}

func (r *dRunner) fail(check, what string) {
	if r.dead {
		return
	}
	r.dead = true
	fp := "disc/" + r.focus + "/" + r.flavour + "/" + check
	if r.fpCtx != "" {
		fp = "disc/" + r.fpCtx + "/half-applied"
		what = r.ctxText + ": " + what
	}
	r.c.Violation(fp, fmt.Sprintf("%s flavour, %s history seed %d, step %d: %s", r.flavour, r.focus, r.seed, len(r.trace), what), r.rec())
}

func (r *dRunner) failFP(fp, what string) {
	if r.dead {
		return
	}
	r.dead = true
	r.c.Violation(fp, fmt.Sprintf("%s flavour, %s history seed %d, step %d: %s", r.flavour, r.focus, r.seed, len(r.trace), what), r.rec())
}

func (r *dRunner) log(s string) {
	r.trace = append(r.trace, s)
	if r.marks {
		r.c.Mark(fmt.Sprintf("disc history seed=%d %s/%s step %d: %s", r.seed, r.flavour, r.focus, len(r.trace), s))
	}
}

// call runs f and recovers a panic. ours: the injected panic of user code.
func (r *dRunner) call(f func()) (panicked, ours bool, text string) {
	defer func() {
		if p := recover(); p != nil {
			panicked = true
			if _, ok := p.(discPanic); ok {
				ours = true
			} else {
				text = fmt.Sprint(p)
			}
		}
	}()
	f()
	return
}

func (r *dRunner) open() {
	r.in = discOpen(r.flavour, r.store, r.plan)
}

func discPayload(rng *rand.Rand) []byte {
	n := []int{0, 1, 2, 8, 9, 33, 100}[rng.Intn(7)]
	b := make([]byte, n)
	rng.Read(b)
	return b
}

// contentsKey: canonical description of the model contents.
func discContentsKey(flavour string, m map[string][]byte) string {
	ks := make([]string, 0, len(m))
	for k := range m {
		ks = append(ks, k)
	}
	sort.Strings(ks)
	h := sha256.New()
	h.Write([]byte(flavour))
	var l [8]byte
	for _, k := range ks {
		binary.LittleEndian.PutUint64(l[:], uint64(len(k)))
		h.Write(l[:])
		h.Write([]byte(k))
		binary.LittleEndian.PutUint64(l[:], uint64(len(m[k])))
		h.Write(l[:])
		h.Write(m[k])
	}
	return string(h.Sum(nil))
}

type rootMemoDisc struct {
	m        map[string][32]byte
	payloads map[string][]byte // enc -> payload, to rebuild contents
}

var discRoots = &rootMemoDisc{m: map[string][32]byte{}, payloads: map[string][]byte{}}

// expectedRoot: Root of the model contents built on a fresh instance with
// faultless user code, keys in sorted order (the sequential part establishes that
// Root is a function of the contents).
func (r *dRunner) expectedRoot() [32]byte {
	ck := discContentsKey(r.flavour, r.model)
	if v, ok := discRoots.m[ck]; ok {
		return v
	}
	in := discOpen(r.flavour, mapdb.NewMapDB(), &dplan{})
	ks := make([]string, 0, len(r.model))
	for k := range r.model {
		ks = append(ks, k)
	}
	sort.Strings(ks)
	for _, k := range ks {
		p, ok := discRoots.payloads[r.flavour+"|"+string(r.model[k])]
		if !ok && r.flavour != "set" {
			panic("disc: payload of a model value unknown")
		}
		if err := in.set(k, p); err != nil {
			panic("disc: expectedRoot: " + err.Error())
		}
	}
	v := in.root()
	if len(discRoots.m) > 200000 {
		discRoots.m = map[string][32]byte{}
	}
	discRoots.m[ck] = v
	return v
}

// observe wraps one library call of an audit: an error or a panic of a call made
// with faultless user code is a disagreement.
func (r *dRunner) observe(name string, f func() error) bool {
	var err error
	p, ours, text := r.call(func() { err = f() })
	switch {
	case p && ours:
		r.fail(name+"/panic", name+" raised the injected panic although no fault was armed")
	case p:
		r.fail(name+"/panic", name+" panicked: "+text)
	case err != nil:
		r.fail(name+"/error", name+" failed: "+err.Error())
	}
	if d := r.in.damage(); d != "" && !r.dead {
		r.failFP("disc/held/"+r.flavour+"/argument-modified", d)
	}
	return !r.dead
}

func (r *dRunner) checkGet(k, ctx string) {
	var h dheld
	var ok bool
	if !r.observe(ctx+"Get", func() (err error) { h, ok, err = r.in.get(k); return }) {
		return
	}
	want, present := r.model[k]
	switch {
	case ok != present:
		r.fail(ctx+"Get", fmt.Sprintf("Get(%q) exists=%v, model %v", k, ok, present))
	case present && r.flavour != "set" && !bytes.Equal(h.canon(), want):
		r.fail(ctx+"Get", fmt.Sprintf("Get(%q) = %s, model %s", k, show(h.canon()), show(want)))
	}
	if !r.dead && present && r.flavour != "set" {
		r.hold(h, "Get", k)
	}
}

func (r *dRunner) checkHas(k, ctx string) {
	var ok bool
	if !r.observe(ctx+"Has", func() (err error) { ok, err = r.in.has(k); return }) {
		return
	}
	if _, present := r.model[k]; ok != present {
		r.fail(ctx+"Has", fmt.Sprintf("Has(%q) = %v, model %v", k, ok, present))
	}
}

func (r *dRunner) checkSize(ctx string) {
	var n int
	if !r.observe(ctx+"Size", func() error { n = r.in.size(); return nil }) {
		return
	}
	if n != len(r.model) {
		r.fail(ctx+"Size", fmt.Sprintf("Size() = %d, model %d", n, len(r.model)))
	}
}

func (r *dRunner) checkRoot(ctx string) {
	var got [32]byte
	if !r.observe(ctx+"Root", func() error { got = r.in.root(); return nil }) {
		return
	}
	if want := r.expectedRoot(); got != want {
		r.fail(ctx+"Root", fmt.Sprintf("Root() = %x.., the same contents (%d keys) on a fresh instance give %x..", got[:6], len(r.model), want[:6]))
	}
}

func (r *dRunner) checkRestored(ctx string) {
	var got bool
	if !r.observe(ctx+"WasRestoredFromStorage", func() error { got = r.in.restored(); return nil }) {
		return
	}
	if got != (r.commits > 0) {
		r.fail(ctx+"WasRestoredFromStorage", fmt.Sprintf("WasRestoredFromStorage() = %v after %d Commits on this store", got, r.commits))
	}
}

// checkStream: the delivered pairs are exactly the model's; in "held" histories a
// share of the delivered keys/values is scribbled INSIDE the consumer (appending to a
// delivered key must not corrupt what is delivered next).
func (r *dRunner) checkStream(ctx string, scribbleInside bool) {
	type pair struct{ k, v []byte }
	var got []pair
	var hs []heldEntry
	inside := 0
	if !r.observe(ctx+"Stream", func() error {
		return r.in.stream(func(k, v dheld) error {
			if err := r.plan.at(siteConsumer); err != nil {
				return err
			}
			// earlier deliveries of this Stream are still what they were
			for i := range hs {
				if !bytes.Equal(hs[i].h.canon(), hs[i].copy) {
					r.failFP("disc/held/"+r.flavour+"/"+hs[i].src+"-result-changed", fmt.Sprintf("a %s delivered earlier by this Stream changed while Stream went on: %s -> %s", hs[i].src, show(hs[i].copy), show(hs[i].h.canon())))
					return errors.New("stop")
				}
			}
			kc, vc := k.canon(), v.canon()
			got = append(got, pair{kc, vc})
			if scribbleInside && r.rng.Intn(2) == 0 {
				if k.scribble(r.rng) != "" {
					inside++
				}
				if r.flavour != "set" && v.scribble(r.rng) != "" {
					inside++
				}
				return nil
			}
			hs = append(hs, heldEntry{h: k, copy: kc, src: "Stream-key", key: string(kc)})
			if r.flavour != "set" {
				hs = append(hs, heldEntry{h: v, copy: vc, src: "Stream-value", key: string(kc)})
			}
			return nil
		})
	}) {
		return
	}
	r.st.add("disc_scribbles_inside_stream_consumer", inside)
	seen := map[string]bool{}
	for _, p := range got {
		k := string(p.k)
		want, present := r.model[k]
		switch {
		case seen[k]:
			r.fail(ctx+"Stream", fmt.Sprintf("Stream delivered key %q twice", k))
		case !present:
			r.fail(ctx+"Stream", fmt.Sprintf("Stream delivered key %q (value %s) that the model does not hold", k, show(p.v)))
		case !bytes.Equal(p.v, want):
			r.fail(ctx+"Stream", fmt.Sprintf("Stream delivered %q -> %s, model %s", k, show(p.v), show(want)))
		}
		if r.dead {
			return
		}
		seen[k] = true
	}
	if len(got) != len(r.model) {
		r.fail(ctx+"Stream", fmt.Sprintf("Stream delivered %d pairs, model holds %d", len(got), len(r.model)))
		return
	}
	for _, e := range hs {
		if _, str := e.h.(strHeld); str {
			continue
		}
		r.holdEntry(e)
	}
}

func (r *dRunner) hold(h dheld, src, key string) {
	r.holdEntry(heldEntry{h: h, copy: h.canon(), src: src, key: key})
}

func (r *dRunner) holdEntry(e heldEntry) {
	e.ttl = 1 + r.rng.Intn(5)
	e.age = 0
	if len(r.held) >= 24 {
		r.held = r.held[1:]
	}
	r.held = append(r.held, e)
	r.st.add("disc_held_results:"+e.src, 1)
}

// afterStep: every held object equals its copy; expired ones are scribbled (held
// histories) and the instance is judged again.
func (r *dRunner) afterStep() {
	if r.dead {
		return
	}
	keep := r.held[:0]
	var scribbled []heldEntry
	for _, e := range r.held {
		r.st.add("disc_held_results_rechecked", 1)
		if now := e.h.canon(); !bytes.Equal(now, e.copy) {
			r.failFP("disc/held/"+r.flavour+"/"+e.src+"-result-changed", fmt.Sprintf("the %s (key %q) the caller holds changed %d step(s) after it was handed out: %s -> %s", e.src, e.key, e.age+1, show(e.copy), show(now)))
			return
		}
		e.age++
		if e.age < e.ttl {
			keep = append(keep, e)
			continue
		}
		if r.focus == "held" && r.rng.Intn(3) != 0 {
			if how := e.h.scribble(r.rng); how != "" {
				r.log(fmt.Sprintf("caller scribbles on the %s of %q: %s", e.src, e.key, how))
				r.st.add("disc_held_results_scribbled:"+e.src, 1)
				scribbled = append(scribbled, e)
			}
		}
	}
	r.held = keep
	for _, e := range scribbled {
		if r.dead {
			return
		}
		ctx := "after-scribble/"
		r.checkGet(e.key, ctx)
		if !r.dead && r.rng.Intn(3) == 0 {
			r.audit(ctx)
		}
	}
}

// audit: every observation against the model.
func (r *dRunner) audit(ctx string) {
	if r.dead {
		return
	}
	r.checkSize(ctx)
	for _, k := range r.keys {
		if r.dead {
			return
		}
		r.checkHas(k, ctx)
		if !r.dead {
			r.checkGet(k, ctx)
		}
	}
	if !r.dead {
		r.checkStream(ctx, false)
	}
	if !r.dead {
		r.checkRoot(ctx)
	}
	if !r.dead {
		r.checkRestored(ctx)
	}
	r.st.add("disc_audits", 1)
}

// faulted decides whether the next operation runs with a fault armed.
func (r *dRunner) maybeArm(op string) bool {
	if r.focus != "fail" || r.rng.Intn(5) >= 2 {
		return false
	}
	var sites []int
	nth := 1 + []int{0, 0, 0, 1, 2}[r.rng.Intn(5)]
	switch op {
	case "Set":
		sites = []int{siteKeyEnc, siteKeyEnc, siteValEnc, siteValEnc, siteValEnc, siteKeyDec, siteValDec}
	case "Delete", "Has":
		sites = []int{siteKeyEnc, siteKeyEnc, siteKeyEnc, siteKeyDec, siteValEnc}
	case "Get":
		sites = []int{siteKeyEnc, siteValDec, siteValDec, siteKeyDec}
	case "Stream":
		sites = []int{siteKeyEnc, siteKeyDec, siteValDec, siteConsumer, siteConsumer}
		nth = 1 + r.rng.Intn(2*len(r.model)+1)
	case "Commit":
		sites = []int{siteIDEnc, siteIDEnc, siteIDEnc, siteKeyEnc}
	default:
		sites = []int{siteKeyEnc, siteIDEnc, siteIDDec, siteValDec}
	}
	if r.flavour == "set" {
		for i, s := range sites {
			if s == siteValEnc || s == siteValDec {
				sites[i] = siteKeyEnc
			}
		}
	}
	site := sites[r.rng.Intn(len(sites))]
	if (op == "Set" || op == "Delete") && site == siteKeyEnc && nth > 1 && r.rng.Intn(4) != 0 {
		nth = 1 // a repeated key-encoder invocation inside Set/Delete is not judged (see settle): armed rarely
	}
	r.plan.arm(site, nth, r.rng.Intn(2) == 0)
	return true
}

func siteClass(op string, site, ordinal int) string {
	s := siteNames[site]
	if ordinal > 1 && op != "Stream" {
		s += "-repeated"
	}
	return s
}

// settle evaluates an operation that ran with a fault armed. It returns true when
// the fault fired (then the ordinary result check is skipped and the instance is
// audited against the model in which the operation did nothing - or, when the
// library reported success, in which it took effect).
func (r *dRunner) settle(op string, armed bool, panicked, ours bool, text string, err error, apply func()) (fired bool) {
	site, mode := r.plan.site, "error"
	if r.plan.panics {
		mode = "panic"
	}
	var ordinal int
	if armed {
		fired, ordinal = r.plan.disarm()
	}
	if d := r.in.damage(); d != "" {
		r.failFP("disc/held/"+r.flavour+"/argument-modified", d)
		return true
	}
	if panicked && !ours {
		r.fail(op+"/panic", op+" panicked: "+text)
		return true
	}
	if !fired {
		if armed {
			r.st.add("disc_faults_not_reached", 1)
		}
		if panicked {
			r.fail(op+"/panic", op+" raised the injected panic although no fault fired")
			return true
		}
		return false
	}
	r.st.add("disc_faults_fired:"+siteNames[site]+":"+mode, 1)
	r.st.add("disc_faults_fired_in:"+op, 1)
	r.c.Distinct("disc_fault_sites", fmt.Sprintf("%s/%s/%d/%s", op, siteNames[site], ordinal, mode))
	if (op == "Set" || op == "Delete") && site == siteKeyEnc && ordinal > 1 {
		// Outside the statement (coordinator's decision): on the unchanged tree Set/Delete serialize the key a
		// second time AFTER the tree was updated; a key encoder failing there leaves tree and index/size apart.
		// Not judged: the history ends here.
		r.st.add("disc_faults_behind_applied_tree_update_not_judged", 1)
		if !discNotedBehind {
			discNotedBehind = true
			r.c.Note("not judged (outside the statement, the tree gives no guarantee): a key encoder that fails on a repeated invocation inside ONE Set/Delete call - on the unchanged tree that invocation (through the raw key index) happens after the tree was updated, so the call reports failure while Has/Get/Root moved and Size/Stream did not; histories end at such a fault (counter disc_faults_behind_applied_tree_update_not_judged)")
		}
		r.log(fmt.Sprintf("  -> %s #%d of this operation failed (%s): not judged, history ends", siteNames[site], ordinal, mode))
		r.stopped = true
		return true
	}
	surfaced := panicked || err != nil
	if !surfaced {
		r.st.add("disc_faults_absorbed_by_the_library", 1)
		if apply != nil {
			apply()
		}
	}
	r.log(fmt.Sprintf("  -> %s #%d of this operation failed (%s); operation reported failure=%v", siteNames[site], ordinal, mode, surfaced))
	r.fpCtx = "fail/" + op + "/" + siteClass(op, site, ordinal)
	r.ctxText = fmt.Sprintf("%s in which invocation #%d of the %s %s, the instance is used again", op, ordinal, siteNames[site], map[string]string{"error": "returned an error", "panic": "panicked (recovered by the caller)"}[mode])
	r.audit("")
	r.fpCtx, r.ctxText = "", ""
	r.st.add("disc_failed_operations_followed_by_further_use", 1)
	return true
}

func (r *dRunner) pickKey() string { return r.keys[r.rng.Intn(len(r.keys))] }

func (r *dRunner) step() {
	x := r.rng.Intn(100)
	switch {
	case x < 26: // Set / Add
		k, p := r.pickKey(), discPayload(r.rng)
		if r.flavour == "set" {
			p = nil
		}
		enc := r.in.enc(p)
		discRoots.payloads[r.flavour+"|"+string(enc)] = p
		r.log(fmt.Sprintf("Set(%q, %d-byte payload)", k, len(p)))
		armed := r.maybeArm("Set")
		var err error
		pn, ours, text := r.call(func() { err = r.in.set(k, p) })
		if r.settle("Set", armed, pn, ours, text, err, func() { r.model[k] = enc }) {
			return
		}
		if err != nil {
			r.fail("Set/error", "Set failed: "+err.Error())
			return
		}
		r.model[k] = enc
	case x < 40: // Delete
		k := r.pickKey()
		r.log(fmt.Sprintf("Delete(%q)", k))
		armed := r.maybeArm("Delete")
		var err error
		var del bool
		pn, ours, text := r.call(func() { del, err = r.in.del(k) })
		if r.settle("Delete", armed, pn, ours, text, err, func() { delete(r.model, k) }) {
			return
		}
		_, present := r.model[k]
		switch {
		case err != nil:
			r.fail("Delete/error", "Delete failed: "+err.Error())
		case del != present:
			r.fail("Delete", fmt.Sprintf("Delete(%q) = %v, model had the key: %v", k, del, present))
		}
		delete(r.model, k)
	case x < 58: // Get
		k := r.pickKey()
		r.log(fmt.Sprintf("Get(%q)", k))
		if armed := r.maybeArm("Get"); armed {
			var err error
			pn, ours, text := r.call(func() { _, _, err = r.in.get(k) })
			if r.settle("Get", armed, pn, ours, text, err, nil) {
				return
			}
		}
		r.checkGet(k, "")
	case x < 66: // Has
		k := r.pickKey()
		r.log(fmt.Sprintf("Has(%q)", k))
		if armed := r.maybeArm("Has"); armed {
			var err error
			pn, ours, text := r.call(func() { _, err = r.in.has(k) })
			if r.settle("Has", armed, pn, ours, text, err, nil) {
				return
			}
		}
		r.checkHas(k, "")
	case x < 78: // Stream
		r.log("Stream")
		if armed := r.maybeArm("Stream"); armed {
			var err error
			pn, ours, text := r.call(func() {
				err = r.in.stream(func(k, v dheld) error { return r.plan.at(siteConsumer) })
			})
			if r.settle("Stream", armed, pn, ours, text, err, nil) {
				return
			}
		}
		r.checkStream("", r.focus == "held")
	case x < 82:
		r.log("Size")
		r.checkSize("")
	case x < 86:
		r.log("Root")
		if armed := r.maybeArm("Root"); armed {
			pn, ours, text := r.call(func() { r.in.root() })
			if r.settle("Root", armed, pn, ours, text, nil, nil) {
				return
			}
		}
		r.checkRoot("")
	case x < 89:
		r.log("WasRestoredFromStorage")
		r.checkRestored("")
	case x < 95:
		r.commit()
	default:
		if r.commit() {
			r.reopen()
		}
	}
}

func (r *dRunner) markCommitted() {
	r.commits++
	r.committedRoot = r.expectedRoot()
	r.committed = make(map[string][]byte, len(r.model))
	for k, v := range r.model {
		r.committed[k] = v
	}
}

func (r *dRunner) commit() bool {
	r.log("Commit")
	armed := r.maybeArm("Commit")
	var err error
	pn, ours, text := r.call(func() { err = r.in.commit() })
	if r.settle("Commit", armed, pn, ours, text, err, r.markCommitted) {
		if r.dead {
			return false
		}
		if !pn && err == nil {
			return true // the library absorbed the failure and reported a successful Commit
		}
		r.probeCommitted()
		if r.dead || r.rng.Intn(2) == 0 {
			return false // the history goes on without a Commit
		}
		// the failed Commit is repeated with faultless user code
		r.log("Commit (again, after the failed one)")
		if !r.observe("Commit", func() error { return r.in.commit() }) {
			return false
		}
		r.markCommitted()
		r.st.add("disc_commits_repeated_after_a_failed_commit", 1)
		return true
	}
	if err != nil {
		r.fail("Commit/error", "Commit failed: "+err.Error())
		return false
	}
	r.markCommitted()
	return true
}

// probeCommitted: a Commit failed in the user's root encoder, so it did nothing: a second
// instance opened over the store (read-only use: Root, Has, Get - the trie, not the
// written-through key index and size) still holds what the last successful Commit stored.
func (r *dRunner) probeCommitted() {
	r.log("open a read-only probe instance over the store after the failed Commit")
	var bad string
	pn, _, text := r.call(func() {
		probe := discOpen(r.flavour, r.store, &dplan{})
		if r.commits == 0 {
			if probe.restored() {
				bad = "WasRestoredFromStorage() = true on a new instance although no Commit succeeded"
			}
			return
		}
		if got := probe.root(); got != r.committedRoot {
			bad = fmt.Sprintf("Root() of a new instance = %x.., the last successful Commit stored %x..", got[:6], r.committedRoot[:6])
			return
		}
		for _, k := range r.keys {
			h, ok, err := probe.get(k)
			want, present := r.committed[k]
			switch {
			case err != nil:
				bad = fmt.Sprintf("Get(%q) on a new instance failed: %v", k, err)
			case ok != present:
				bad = fmt.Sprintf("Get(%q) on a new instance exists=%v, committed contents %v", k, ok, present)
			case present && r.flavour != "set" && !bytes.Equal(h.canon(), want):
				bad = fmt.Sprintf("Get(%q) on a new instance = %s, committed %s", k, show(h.canon()), show(want))
			}
			if bad != "" {
				return
			}
		}
	})
	if pn {
		bad = "a new instance over the store panicked: " + text
	}
	r.st.add("disc_probe_instances_after_a_failed_commit", 1)
	if bad != "" {
		r.failFP("disc/fail/Commit/store-changed", "after a Commit that failed in the user's root encoder: "+bad)
	}
}

// reopen: a new instance over the same store right after a Commit.
func (r *dRunner) reopen() {
	if r.dead {
		return
	}
	r.held = nil
	reent := r.plan.reent
	r.plan.reent = nil
	if r.focus == "fail" && r.rng.Intn(3) == 0 {
		// the root decoder fails while the instance is constructed: that instance is
		// thrown away, nothing in the store may have moved
		r.log("open a new instance over the store while the root decoder fails; discard it")
		r.plan.arm(siteIDDec, 1, r.rng.Intn(2) == 0)
		pn, ours, text := r.call(func() { discOpen(r.flavour, r.store, r.plan) })
		fired, _ := r.plan.disarm()
		if pn && !ours {
			r.fail("Reopen/panic", "opening a new instance panicked: "+text)
			return
		}
		if fired {
			r.st.add("disc_failed_opens_followed_by_a_second_open", 1)
			r.st.add("disc_failed_operations_followed_by_further_use", 1)
		}
	}
	r.log("open a new instance over the store")
	pn, _, text := r.call(func() { r.open() })
	r.plan.reent = reent
	if pn {
		r.fail("Reopen/panic", "opening a new instance panicked: "+text)
		return
	}
	r.st.add("disc_reopens", 1)
	r.audit("Reopen/")
}

func discHistory(c *vf.Ctx, st *discStats, seed int64, marks bool) {
	rng := rand.New(rand.NewSource(seed*7919 + 13))
	r := &dRunner{c: c, st: st, rng: rng, seed: seed, store: mapdb.NewMapDB(), plan: &dplan{}, model: map[string][]byte{}, marks: marks}
	r.flavour = discFlavours[rng.Intn(3)]
	r.focus = []string{"held", "fail"}[rng.Intn(2)]
	r.plan.scratchKey = rng.Intn(3) == 0
	nk := 3 + rng.Intn(5)
	perm := rng.Perm(len(discKeys))
	for _, i := range perm[:nk] {
		r.keys = append(r.keys, discKeys[i])
	}
	sort.Strings(r.keys)
	if marks {
		c.Mark(fmt.Sprintf("disc history seed=%d %s/%s", seed, r.flavour, r.focus))
	}
	r.open()
	r.plan.reent = func(site int) {
		// re-entrant call from user code: does not take the map's lock on the unchanged tree
		got := r.in.restored()
		r.st.add("disc_reentrant_calls:WasRestoredFromStorage<-"+siteNames[site], 1)
		if got != (r.commits > 0) && !r.dead {
			r.failFP("disc/reentry/WasRestoredFromStorage/result", fmt.Sprintf("WasRestoredFromStorage() called from the %s returned %v after %d Commits", siteNames[site], got, r.commits))
		}
	}
	steps := 25 + rng.Intn(30)
	for i := 0; i < steps && !r.dead && !r.stopped; i++ {
		r.step()
		r.st.add("evaluations", 1)
		if r.stopped {
			break
		}
		r.afterStep()
		if !r.dead && r.rng.Intn(8) == 0 {
			r.audit("")
		}
	}
	if !r.dead && !r.stopped && r.commit() {
		r.reopen()
	}
	if r.stopped {
		r.st.add("disc_histories_ended_at_a_fault_that_is_not_judged", 1)
	}
	if !r.dead {
		r.st.add("disc_histories_completed", 1)
		r.st.add("disc_histories:"+r.focus, 1)
		r.st.add("disc_histories_flavour:"+r.flavour, 1)
		if r.plan.scratchKey {
			r.st.add("disc_histories_with_one_scratch_buffer_key_encoder", 1)
		}
	}
	st.add("disc_histories", 1)
}

func discHistoriesChild(c *vf.Ctx) {
	from, _ := strconv.Atoi(c.ChildArgs[0])
	to, _ := strconv.Atoi(c.ChildArgs[1])
	st := &discStats{counters: map[string]int{}}
	for i := from; i < to; i++ {
		discHistory(c, st, c.Seed*1000003+int64(i), true)
		if i%64 == 0 {
			st.flush(c)
		}
	}
	st.flush(c)
}

// ------------------------------------------------------------------ establishing what the unchanged tree shares

// discEstablish records (as evidence, never as a verdict) that the trie keeps the slice
// the value encoder returned: a value encoder that reuses ONE scratch buffer is not
// supported by the unchanged tree, so the part does not use one.
func discEstablish(c *vf.Ctx) {
	scratch := make([]byte, 0, 64)
	enc := func(v []byte) ([]byte, error) { scratch = append(scratch[:0], v...); return scratch, nil }
	p := &dplan{}
	m := ads.NewMap[[32]byte](mapdb.NewMapDB(), p.idEnc, p.idDec, p.keyEncB, p.keyDecB, enc, p.valDecB)
	_ = m.Set([]byte("a"), []byte("first"))
	_ = m.Set([]byte("b"), []byte("other"))
	v, _, _ := m.Get([]byte("a"))
	if string(v) == "first" {
		c.Count("disc_value_encoder_scratch_buffer_tolerated", 1)
	} else {
		c.Count("disc_value_encoder_scratch_buffer_not_tolerated", 1)
		c.Note("established on this tree (not demanded, outside the statement): a value encoder that returns ONE reused scratch buffer is not supported - Set hands the encoded slice to the trie, which keeps it as the leaf until the key is written again, so Set(a,\"first\"); Set(b,\"other\") makes Get(a) report \"other\"; part disc therefore uses value encoders that return fresh slices (the key encoder may reuse one buffer: the encoded key is hashed/copied before Set returns)")
	}
}

// ------------------------------------------------------------------ re-entrancy matrix (child "disc-reentry")

type reOuter struct {
	name  string
	sites []int
}

var reOuters = []reOuter{
	{"Set", []int{siteKeyEnc, siteValEnc}},
	{"Delete", []int{siteKeyEnc}},
	{"Get", []int{siteKeyEnc, siteValDec}},
	{"Has", []int{siteKeyEnc}},
	{"Stream", []int{siteKeyDec, siteKeyEnc, siteValDec, siteConsumer}},
	{"Commit", []int{siteIDEnc}},
}

var reInners = []string{"Set", "Delete", "Get", "Has", "Size", "Root", "Stream", "Commit", "WasRestoredFromStorage"}

func discReentryChild(c *vf.Ctx) {
	st := &discStats{counters: map[string]int{}}
	defer st.flush(c)
	rounds, _ := strconv.Atoi(c.ChildArgs[0])
	actor := gdump.NewActor("reentry-0")
	nActors := 1
	var matrix []string
	for round := 0; round < rounds; round++ {
		for _, flavour := range discFlavours {
			for _, outer := range reOuters {
				for _, site := range outer.sites {
					if flavour == "set" && (site == siteValEnc || site == siteValDec) {
						continue
					}
					deadlocks, returns := 0, 0
					for _, inner := range reInners {
						name := fmt.Sprintf("%s: %s called from the %s of %s", flavour, inner, siteNames[site], outer.name)
						c.Mark("disc reentry " + name)
						committed := (round+len(inner))%2 == 0
						// fresh instance: two keys, optionally committed, one more dirty key
						plan := &dplan{}
						in := discOpen(flavour, mapdb.NewMapDB(), plan)
						model := map[string][]byte{}
						for _, k := range []string{"a", "k1"} {
							p := []byte("payload-" + k)
							if err := in.set(k, p); err != nil {
								c.Violation("disc/reentry/setup", "set-up failed: "+err.Error(), &discRec{Part: "disc", Kind: "reentry", Report: name})
								return
							}
							model[k] = in.enc(p)
						}
						if committed {
							if err := in.commit(); err != nil {
								c.Violation("disc/reentry/setup", "set-up Commit failed: "+err.Error(), &discRec{Part: "disc", Kind: "reentry", Report: name})
								return
							}
						}
						var innerRan, innerDone bool
						var bad string
						plan.hookSite = site
						plan.hook = func() {
							innerRan = true
							switch inner {
							case "Set":
								in.set("ab", []byte("inner"))
							case "Delete":
								in.del("a")
							case "Get":
								h, ok, err := in.get("a")
								if err == nil && (!ok || (flavour != "set" && !bytes.Equal(h.canon(), model["a"]))) {
									bad = fmt.Sprintf("Get(\"a\") = %s exists=%v", show(h.canon()), ok)
								}
							case "Has":
								if ok, err := in.has("k1"); err == nil && !ok {
									bad = "Has(\"k1\") = false"
								}
							case "Size":
								if n := in.size(); n != 2 && !(outer.name == "Set" && n == 3) && !(outer.name == "Delete" && n == 1) {
									bad = fmt.Sprintf("Size() = %d", n)
								}
							case "Root":
								in.root()
							case "Stream":
								in.stream(func(k, v dheld) error { return nil })
							case "Commit":
								in.commit()
							case "WasRestoredFromStorage":
								if got := in.restored(); got != committed && !(outer.name == "Commit") {
									bad = fmt.Sprintf("WasRestoredFromStorage() = %v, Commit happened: %v", got, committed)
								}
							}
							innerDone = true
						}
						status := actor.Do(func() {
							switch outer.name {
							case "Set":
								in.set("k2", []byte("outer"))
							case "Delete":
								in.del("k1")
							case "Get":
								in.get("a")
							case "Has":
								in.has("a")
							case "Stream":
								in.stream(func(k, v dheld) error { return plan.at(siteConsumer) })
							case "Commit":
								in.commit()
							}
						})
						st.add("disc_reentry_combinations_probed", 1)
						st.add("evaluations", 1)
						key := fmt.Sprintf("%s<-%s/%s", inner, outer.name, siteNames[site])
						switch {
						case status == gdump.Blocked:
							deadlocks++
							if round == 0 && flavour == "blob" {
								matrix = append(matrix, key)
							}
							st.add("disc_reentry_self_deadlocks", 1)
							if inner == "WasRestoredFromStorage" && site != siteIDEnc && site != siteIDDec {
								c.Violation("disc/reentry/WasRestoredFromStorage/self-deadlock", name+": the call never returns (the goroutine is parked with nothing else runnable); on the unchanged tree WasRestoredFromStorage does not take the map's lock", &discRec{Part: "disc", Kind: "reentry", Report: name})
							}
							// this actor is parked for good: carry on with a new one
							actor = gdump.NewActor(fmt.Sprintf("reentry-%d", nActors))
							nActors++
						case !innerRan:
							st.add("disc_reentry_site_not_reached", 1)
						default:
							returns++
							st.add("disc_reentry_calls_returned", 1)
							st.add("disc_reentry_calls_returned:"+inner, 1)
							if p := actor.TakePanic(); p != "" {
								c.Violation("disc/reentry/panic", name+": panicked: "+p, &discRec{Part: "disc", Kind: "reentry", Report: name})
							} else if innerDone && bad != "" {
								c.Violation("disc/reentry/"+inner+"/result", name+" returned but reported "+bad+" (state before the outer call: keys a, k1)", &discRec{Part: "disc", Kind: "reentry", Report: name})
							}
						}
					}
					st.add(fmt.Sprintf("disc_reentry_self_deadlocks_from:%s/%s", outer.name, siteNames[site]), deadlocks)
				}
			}
		}
	}
	sort.Strings(matrix)
	c.Note(fmt.Sprintf("re-entrancy on this tree (blob flavour): %d of %d (inner<-outer/site) combinations self-dead-lock: every exported method called from any codec or from the Stream consumer, except WasRestoredFromStorage from key/value codecs and the consumer; sample: %s", len(matrix), len(reInners)*11, strings.Join(matrix[:min(6, len(matrix))], ", ")))
}

// ------------------------------------------------------------------ parent side

func discChildDispatch(c *vf.Ctx) bool {
	switch c.Child {
	case "disc-histories":
		discHistoriesChild(c)
	case "disc-reentry":
		discReentryChild(c)
	default:
		return false
	}
	return true
}

func discVerdict(c *vf.Ctx, name string, res vf.ChildResult) {
	switch {
	case res.TimedOut:
		c.Inconclusive(name + " child hit the watchdog at " + res.LastMark)
	case res.Deadlock:
		c.Violation("disc/deadlock", name+" child: a call into the instance never returned - the Go runtime found every goroutine asleep (a lock left held by an operation whose user code failed/panicked, or a new self dead-lock of a re-entrant call) at: "+res.LastMark, &discRec{Part: "disc", Kind: "deadlock", Report: res.LastMark + "\n" + trimTo(res.Stderr, 6000)})
	case res.ExitCode != 0 && strings.Contains(res.Stderr, "github.com/iotaledger/hive.go/ads"):
		c.Violation("disc/child-died", name+" child died inside package ads at "+res.LastMark+": "+res.Fatal, &discRec{Part: "disc", Kind: "deadlock", Report: trimTo(res.Stderr, 6000)})
	case res.ExitCode != 0:
		c.Inconclusive(fmt.Sprintf("%s child died: exit %d %s", name, res.ExitCode, res.Fatal))
	}
}

func discPart(c *vf.Ctx) {
	n := c.Pick(6000, 90000)
	workers := 4
	done := make(chan struct{}, workers+1)
	per := (n + workers - 1) / workers
	for w := 0; w < workers; w++ {
		go func(w int) {
			defer func() { done <- struct{}{} }()
			res := c.RunChild(vf.ChildOpts{Name: "disc-histories", Args: []string{strconv.Itoa(w * per), strconv.Itoa(min(n, (w+1)*per))}, Timeout: childTimeout(c)})
			discVerdict(c, "disc-histories", res)
		}(w)
	}
	rounds := c.Pick(1, 4)
	go func() {
		defer func() { done <- struct{}{} }()
		res := c.RunChild(vf.ChildOpts{Name: "disc-reentry", Args: []string{strconv.Itoa(rounds)}, Timeout: childTimeout(c)})
		discVerdict(c, "disc-reentry", res)
	}()
	discEstablish(c)
	for i := 0; i < workers+1; i++ {
		<-done
	}
	c.Require("disc_histories_completed", n*9/10)
	c.Require("disc_histories:held", n/3)
	c.Require("disc_histories:fail", n/3)
	for _, f := range discFlavours {
		c.Require("disc_histories_flavour:"+f, n/5)
	}
	c.Require("disc_held_results_rechecked", n*10)
	c.Require("disc_held_results:Get", n)
	c.Require("disc_held_results:Stream-key", n/2)
	c.Require("disc_held_results:Stream-value", n/2)
	c.Require("disc_held_results_scribbled:Get", n/4)
	c.Require("disc_held_results_scribbled:Stream-value", n/8)
	c.Require("disc_held_results_scribbled:Stream-key", n/16)
	c.Require("disc_scribbles_inside_stream_consumer", n/4)
	c.Require("disc_histories_with_one_scratch_buffer_key_encoder", n/5)
	c.Require("disc_failed_operations_followed_by_further_use", n)
	for _, s := range []string{"key-encoder", "key-decoder", "value-encoder", "value-decoder", "root-encoder", "consumer"} {
		c.Require("disc_faults_fired:"+s+":error", n/100)
		c.Require("disc_faults_fired:"+s+":panic", n/100)
	}
	for _, op := range []string{"Set", "Delete", "Get", "Has", "Stream", "Commit"} {
		c.Require("disc_faults_fired_in:"+op, n/50)
	}
	c.Require("disc_failed_opens_followed_by_a_second_open", n/100)
	c.Require("disc_commits_repeated_after_a_failed_commit", n/50)
	c.Require("disc_probe_instances_after_a_failed_commit", n/25)
	c.Require("disc_reopens", n)
	c.Require("disc_reentrant_calls:WasRestoredFromStorage<-consumer", n/2)
	c.Require("disc_reentrant_calls:WasRestoredFromStorage<-key-encoder", n)
	c.Require("disc_reentrant_calls:WasRestoredFromStorage<-value-decoder", n/2)
	c.Require("disc_reentry_combinations_probed", rounds*200)
	c.Require("disc_reentry_calls_returned", rounds*20)
}

func discReplay(c *vf.Ctx, rec *discRec) {
	switch rec.Kind {
	case "history":
		st := &discStats{counters: map[string]int{}}
		defer st.flush(c)
		discHistory(c, st, rec.Seed, false)
	default:
		c.Note("re-entrancy / dead-lock records carry their evidence in the replay file; re-run the check to reproduce")
	}
}
