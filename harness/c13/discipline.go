// Scenario "discipline" – the three workload disciplines of harness/DISCIPLINES.md applied to every exported entry
// point of reactive.Variable / Event / Set that takes user code or hands out memory:
//
//	failing user code: subscriber callbacks, OnUpdateOnce conditions, withinContext subscribe functions, WithValue /
//	  WithNonEmptyValue / WithElements set-up, teardown and condition functions, LogUpdates stringers and log receivers,
//	  DerivedVariable compute functions, Compute functions / mutation factories, transformation functions and Read
//	  functions panic (the panic is recovered by whoever called into the library) at the initial invocation and at later
//	  updates; afterwards the same object is written, subscribed to and unsubscribed from again.
//	re-entrant user code: the same functions read the object, subscribe new subscribers and unsubscribe earlier / later
//	  subscribers at the point where they are invoked (the combinations that return on the unchanged tree).
//	held results and scribbling: mutation sets handed to callbacks and returned to writers, ToSlice results and the
//	  sets / mutation sets passed as arguments are kept with a deep copy, compared after each of the next steps and then
//	  overwritten; the set must keep agreeing with the model.
//
// A run is one sequential script; every library call goes through one gdump.Actor, so "the call never returns" is decided
// structurally (the actor is parked in two identical snapshots while nothing else can run). Because the script is
// sequential the model is exact: a subscription must receive the state at subscription time followed by exactly the
// value-changing writes issued between its subscribe and unsubscribe calls, in order, each once. The only slack:
// an update during whose delivery some user code panicked may be missing for the other subscribers (on the unchanged
// tree the panic propagates to the writer and the subscribers behind are skipped); a subscription whose own user code
// panicked is only required to see an in-order duplicate-free subset afterwards; an update in whose round a
// subscription is unsubscribed by another callback may or may not reach it (but never starts after the call returned).
package main

import (
	"fmt"
	"log/slog"
	"math/rand"
	"sort"
	"strings"

	"github.com/iotaledger/hive.go/ds"
	"github.com/iotaledger/hive.go/ds/reactive"
	"verif/harness/internal/gdump"
)

// demandUsableAfterRoundPanic: whether, after user code panicked while a WRITER was notifying the subscribers, the next
// write and the unsubscribe call of the failed subscription must return. The unchanged tree does not guarantee that
// (its notification loops release the callback's execution lock without defer: the next writer parks for ever, see
// proposed_fixes/C13-callback-panic-in-update-round-leaves-execution-lock-held.*) and the statement does not quantify
// over panicking callbacks, so it is NOT demanded: such runs are driven up to the panic, judged on what was delivered
// until then (exactly-once, in order), and end with reads and a new subscription only. Panics at the initial
// invocation inside OnUpdate/OnTrigger/... (where the tree releases the lock with defer) are followed by the full rest
// of the script.
const demandUsableAfterRoundPanic = false

const plannedPanic = "c13: planned panic of user code"

type dcb struct {
	A, B  int // variable: previous, new value; set: added, deleted mask
	HasA  bool
	Tick  uint64
	Round int // index of the update in whose round the delivery happened (-1: outside a write)
}

type dexp struct {
	A, B int
	Opt  bool
	Idx  int // index of the update; -1: the state at subscription time
}

type dinst struct {
	Val      int
	Up, Down int
}

type dsub struct {
	ID            int
	Kind, Cond    string
	Flag          bool
	Plan          map[string]map[int]string
	ReentrantBorn bool
	c             *dctx
	count         map[string]int
	HasInit       bool
	Init          dexp
	From, To      int // updates [From, To) belong to the subscription; To < 0 while subscribed
	OptAt         int
	unsub         func()
	Lost          bool // the subscribe call panicked: no unsubscribe function
	UnsubTick     uint64
	Lenient       int // from this index of Log on, further expected deliveries are optional (own user code panicked); -1: strict
	Log, Hits     []dcb
	CondPanicAt   map[int]bool
	insts         []*dinst
	d             reactive.DerivedVariable[int]
	DLog          []dcb
	live          map[int]*dinst
	LifeErr       string
	Late          int
	subscribing   bool
	active        int // user code of this subscription is on the stack (its execution lock is held: unsubscribing it now self-dead-locks by design)
}

type heldObj struct {
	what     string
	mut      ds.SetMutations[int]
	set      ds.ReadableSet[int]
	wset     ds.Set[int]
	slice    []int
	add, del uint32
	copyS    []int
	born     int
}

type dctx struct {
	Fam, Mode string
	rng       *rand.Rand
	A         *gdump.Actor
	viols     []viol
	st        *runStats
	Trace     []string
	dead      bool
	Cause     string
	quiet     bool
	inCall    bool
	step      int
	subs      []*dsub
	// model
	val          int // variable value / event 0|1 / set mask
	pre          int
	upd          []dexp
	inRound      bool
	changed      bool
	inFactory    bool
	cur          int
	fresh        int
	roundPanic   bool // some user code panicked during a writer's round in this run
	computePanic bool
	inReentrant  string
	initPanic    bool // some user code panicked while it was handed the state at subscription time
	// objects
	v          reactive.Variable[int]
	src        reactive.Variable[int]
	e          reactive.Event
	s          reactive.Set[int]
	transPanic bool
	held       []*heldObj
}

func (c *dctx) bad(problem, what string) {
	fp := "disc/" + c.Fam + "/" + problem
	for _, v := range c.viols {
		if v.fp == fp {
			return
		}
	}
	tr := c.Trace
	if len(tr) > 120 {
		tr = tr[len(tr)-120:]
	}
	var subs []map[string]any
	for _, s := range c.subs {
		subs = append(subs, map[string]any{"id": s.ID, "kind": s.Kind, "cond": s.Cond, "flag": s.Flag, "plan": s.Plan, "from": s.From, "to": s.To, "has_init": s.HasInit, "init": s.Init,
			"log": s.Log, "hits": s.Hits, "lenient_from": s.Lenient, "expected": c.expected(s), "lost_handle": s.Lost})
	}
	c.viols = append(c.viols, viol{fp, what, map[string]any{"family": c.Fam, "mode": c.Mode, "script": tr, "updates": c.upd, "model_value": c.val, "subscriptions": subs}})
}

// cause names what the run did to the object before a call blocked: the gravest kind of failing user code wins, so
// that one defect keeps one fingerprint.
func (c *dctx) cause() string {
	switch {
	case c.inReentrant != "": // the call is parked inside its own re-entrant operation
		return "reentrant-" + c.inReentrant
	case c.roundPanic:
		return "user-code-panicked-during-update"
	case c.initPanic:
		return "user-code-panicked-at-subscription"
	case c.computePanic:
		return "compute-function-panicked"
	case c.Cause != "":
		return c.Cause
	}
	return "polite-use"
}

func (c *dctx) tr(format string, a ...any) { c.Trace = append(c.Trace, fmt.Sprintf(format, a...)) }

// call runs one library call of the script. Top level: through the actor (blocked for ever => violation, run abandoned);
// from inside user code: directly.
func (c *dctx) call(kind string, f func()) (planned bool) {
	if c.inCall {
		f()
		return false
	}
	if c.dead {
		return false
	}
	c.step++
	c.inCall = true
	st := c.A.Do(f)
	c.inCall = false
	if st == gdump.Blocked {
		c.dead = true
		cause := c.cause()
		c.bad(kind+"-blocked-after-"+cause, fmt.Sprintf("%s: a %s call never returns (its goroutine is parked and nothing else can run) after: %s", c.Fam, kind, cause))
		return false
	}
	if p := c.A.TakePanic(); p != "" {
		if p == plannedPanic {
			c.st.add("disc_planned_panics_reaching_the_caller", 1)
			return true
		}
		c.bad("panic", fmt.Sprintf("%s: %s call panicked: %s", c.Fam, kind, p))
	}
	return false
}

// ---------------------------------------------------------------- user code

func (s *dsub) deliver(a, b int, hasA bool) {
	c := s.c
	t := tick()
	if s.UnsubTick != 0 && t > s.UnsubTick {
		s.Late++
	}
	r := -1
	if c.inRound && c.changed && !s.subscribing {
		r = c.cur
	}
	s.Log = append(s.Log, dcb{a, b, hasA, t, r})
	c.st.callbacks++
}

func (s *dsub) hit(a, b int, hasA bool) {
	r := -1
	if c := s.c; c.inRound && c.changed && !s.subscribing {
		r = c.cur
	}
	s.Hits = append(s.Hits, dcb{a, b, hasA, tick(), r})
}

func (c *dctx) notePanic(site string) {
	switch {
	case c.inRound:
		c.roundPanic = true
		if c.cur < len(c.upd) {
			c.upd[c.cur].Opt = true
		}
		c.Cause = "user-code-panicked-during-update"
		c.st.add("disc_panics_during_update_round", 1)
	case c.inFactory:
		c.computePanic = true
		c.Cause = "compute-function-panicked"
	case site == "teardown":
		c.Cause = "teardown-panicked-at-unsubscribe"
		c.st.add("disc_panics_in_teardown_at_unsubscribe", 1)
	default:
		c.initPanic = true
		c.Cause = "user-code-panicked-at-subscription"
		c.st.add("disc_panics_at_initial_invocation", 1)
	}
	c.st.add("disc_panics:"+site, 1)
}

// user is called by every user function the library invokes on behalf of subscription s.
func (s *dsub) user(site string) {
	c := s.c
	n := s.count[site]
	s.count[site]++
	if c.quiet {
		return
	}
	act := s.Plan[site][n]
	if act == "" {
		return
	}
	c.tr("  sub%d.%s#%d: %s", s.ID, site, n, act)
	s.active++
	defer func() {
		s.active--
		if r := recover(); r != nil { // own user code failed (or a failure of nested user code passes through it)
			if s.Lenient < 0 {
				s.Lenient = len(s.Log)
			}
			if site == "cond" && len(s.Log) > 0 {
				s.CondPanicAt[len(s.Log)-1] = true
			}
			if s.subscribing && !c.inRound {
				c.initPanic = true
			}
			panic(r)
		}
	}()
	if act == "panic" {
		c.notePanic(site)
		panic(plannedPanic)
	}
	c.reenter(s, site, act)
}

func (c *dctx) reenter(s *dsub, site, act string) {
	c.st.add("disc_reentrant:"+act, 1)
	c.Cause = "reentrant-" + act
	outer := c.inReentrant
	c.inReentrant = act
	defer func() { c.inReentrant = outer }()
	switch act {
	case "get":
		switch c.Fam {
		case "var":
			if g := c.v.Get(); g != c.val {
				c.bad("get-inside-user-code-differs", fmt.Sprintf("Get() inside %s returned %d, the model holds %d", site, g, c.val))
			}
		case "event":
			if g := c.e.WasTriggered(); g != (c.val == 1) {
				c.bad("get-inside-user-code-differs", fmt.Sprintf("WasTriggered() inside %s returned %v, the model holds %d", site, g, c.val))
			}
		case "set":
			if g := maskOf(c.s); g != uint32(c.val) {
				c.bad("get-inside-user-code-differs", fmt.Sprintf("the set ranges over %s inside %s, the model holds %s", mstr(g), site, mstr(uint32(c.val))))
			}
		}
	case "read":
		if c.Fam == "var" {
			c.v.Read(func(g int) {
				if g != c.val {
					c.bad("get-inside-user-code-differs", fmt.Sprintf("Read() inside %s saw %d, the model holds %d", site, g, c.val))
				}
			})
		} else if c.Fam == "set" {
			if g := c.s.Size(); g != len(setOf(uint32(c.val)).ToSlice()) {
				c.bad("get-inside-user-code-differs", fmt.Sprintf("Size() inside %s is %d, the model holds %s", site, g, mstr(uint32(c.val))))
			}
		}
	case "trigger":
		if c.Fam == "event" && !c.inRound && c.val == 1 {
			if c.e.Trigger() {
				c.bad("second-trigger-reports-first", "Trigger() called from a handler of an already triggered event returned true")
			}
		}
	case "sub":
		ns := c.newSub(c.baseKind(), nil)
		ns.ReentrantBorn = true
		c.subscribe(ns)
	case "unsub-earlier", "unsub-later", "unsub-other":
		var cand []*dsub
		for _, o := range c.subs {
			if o == s || o.unsub == nil || o.To >= 0 || o.active > 0 {
				continue
			}
			if act == "unsub-earlier" && o.ID > s.ID || act == "unsub-later" && o.ID < s.ID {
				continue
			}
			cand = append(cand, o)
		}
		if len(cand) > 0 {
			c.unsubscribe(cand[(s.ID+s.count[site])%len(cand)])
		}
	}
}

func (c *dctx) baseKind() string {
	if c.Fam == "event" {
		return "ontrigger"
	}
	return "onupdate"
}

func dcond(name string, v int) bool {
	switch name {
	case "odd":
		return v%2 == 1
	case "nz":
		return v != 0
	}
	return true
}

func dderive(in int) int {
	if in == 0 {
		return 0
	}
	return in + 100000
}

type dlogRecv struct{ s *dsub }

func (dlogRecv) OnLogLevelActive(_ slog.Level, setup func() func()) func() { return setup() }
func (l dlogRecv) LogAttrs(string, slog.Level, ...slog.Attr)               { l.s.user("logattrs") }

// ---------------------------------------------------------------- subscriptions

func (c *dctx) newSub(kind string, plan map[string]map[int]string) *dsub {
	s := &dsub{ID: len(c.subs), Kind: kind, Plan: plan, c: c, count: map[string]int{}, To: -1, OptAt: -1, Lenient: -1, CondPanicAt: map[int]bool{}, live: map[int]*dinst{}}
	c.subs = append(c.subs, s)
	return s
}

func (s *dsub) newInst(val int) *dinst {
	in := &dinst{Val: val, Up: 1}
	s.insts = append(s.insts, in)
	return in
}

func (s *dsub) elemSetup(e int) func() {
	s.user("setup")
	if s.live[e] != nil {
		s.LifeErr = fmt.Sprintf("element %d set up twice without teardown in between", e)
	}
	in := s.newInst(e)
	s.live[e] = in
	return func() {
		in.Down++
		if in.Down > 1 {
			s.LifeErr = fmt.Sprintf("teardown of element %d called twice", e)
		}
		if s.live[e] == in {
			delete(s.live, e)
		}
		s.user("teardown")
	}
}

// lib performs the library's subscribe call for s.
func (c *dctx) lib(s *dsub) func() {
	valueSetup := func(val int) func() {
		s.deliver(0, val, false)
		s.user("setup")
		in := s.newInst(val)
		return func() { in.Down++; s.user("teardown") }
	}
	switch c.Fam + "/" + s.Kind {
	case "var/onupdate":
		return c.v.OnUpdate(func(p, n int) { s.deliver(p, n, true); s.user("cb") }, s.Flag)
	case "var/ctx":
		return c.v.OnUpdateWithContext(func(p, n int, within func(func() func())) {
			s.deliver(p, n, true)
			s.user("cb")
			within(func() func() {
				s.user("subscribe")
				in := s.newInst(n)
				return func() { in.Down++; s.user("teardown") }
			})
		}, s.Flag)
	case "var/withvalue":
		if s.Cond == "" {
			return c.v.WithValue(valueSetup)
		}
		return c.v.WithValue(func(val int) func() {
			s.hit(0, val, false)
			s.user("setup")
			in := s.newInst(val)
			return func() { in.Down++; s.user("teardown") }
		}, func(val int) bool {
			s.deliver(0, val, false)
			s.user("cond")
			return dcond(s.Cond, val)
		})
	case "var/nonempty":
		return c.v.WithNonEmptyValue(valueSetup)
	case "var/log":
		return c.v.LogUpdates(dlogRecv{s}, slog.LevelInfo, "x", func(val int) string { s.deliver(0, val, false); s.user("stringer"); return "" })
	case "var/once":
		cb := func(p, n int) { s.hit(p, n, true); s.user("cb") }
		if s.Cond == "" {
			return c.v.OnUpdateOnce(cb)
		}
		return c.v.OnUpdateOnce(cb, func(p, n int) bool {
			s.deliver(p, n, true)
			s.user("cond")
			return dcond(s.Cond, n)
		})
	case "var/derived":
		s.d = reactive.NewDerivedVariable[int](func(_ int, in int) int { s.deliver(0, in, false); s.user("compute"); return dderive(in) }, c.v)
		s.d.OnUpdate(func(p, n int) { s.DLog = append(s.DLog, dcb{p, n, true, tick(), -1}) })
		return s.d.Unsubscribe
	case "event/ontrigger":
		return c.e.OnTrigger(func() { s.deliver(0, 1, true); s.user("handler") })
	case "event/onupdate":
		return c.e.OnUpdate(func(p, n bool) { s.deliver(b2i(p), b2i(n), true); s.user("cb") }, s.Flag)
	case "set/onupdate":
		return c.s.OnUpdate(func(m ds.SetMutations[int]) {
			a, d := maskOf(m.AddedElements()), maskOf(m.DeletedElements())
			s.deliver(int(a), int(d), true)
			if c.Mode == "held" || c.Mode == "mixed" {
				c.hold(&heldObj{what: "mutation set handed to a subscriber", mut: m, add: a, del: d})
				if !c.inRound && !c.inFactory && s.ID%2 == 0 { // the state at subscription time is the subscriber's own copy: overwrite it at once
					m.AddedElements().Add(29)
					m.AddedElements().Delete(0)
					m.DeletedElements().Add(28)
					c.held = c.held[:len(c.held)-1]
					c.st.add("disc_scribbled_initial_mutations", 1)
				}
			}
			s.user("cb")
		}, s.Flag)
	case "set/withelements":
		if s.Cond == "" {
			return c.s.WithElements(s.elemSetup)
		}
		return c.s.WithElements(s.elemSetup, func(e int) bool { s.user("cond"); return dcond(s.Cond, e) })
	}
	panic("unknown subscription kind " + c.Fam + "/" + s.Kind)
}

func (c *dctx) subscribe(s *dsub) {
	s.From = len(c.upd)
	switch {
	case c.inFactory: // the factory of a set Compute runs before the mutation is applied: state before, then this update
		s.From = c.cur
		s.Init = c.initOf(c.pre)
	case c.inRound:
		s.From = c.cur
		if c.changed {
			s.From = c.cur + 1
		}
		s.Init = c.initOf(c.val)
	default:
		s.Init = c.initOf(c.val)
	}
	forced := s.Kind == "withvalue" || s.Kind == "nonempty" || s.Kind == "derived"
	s.HasInit = s.Flag || forced || s.Init.A != 0 || s.Init.B != 0
	c.st.subs++
	c.tr("subscribe sub%d %s cond=%q flag=%v plan=%v", s.ID, s.Kind, s.Cond, s.Flag, s.Plan)
	planned := c.call("subscribe", func() {
		s.Lost, s.subscribing = true, true
		defer func() { s.subscribing = false }()
		u := c.lib(s)
		s.unsub, s.Lost = u, false
	})
	if planned && s.Lost {
		c.st.add("disc_subscriptions_left_without_handle", 1)
	}
}

func (c *dctx) initOf(state int) dexp {
	if c.Fam == "set" {
		return dexp{A: state, Idx: -1}
	}
	return dexp{B: state, Idx: -1}
}

func (c *dctx) unsubscribe(s *dsub) {
	if s.unsub == nil || s.To >= 0 {
		return
	}
	if c.inRound && c.changed {
		s.To, s.OptAt = c.cur+1, c.cur
	} else if c.inRound || c.inFactory {
		s.To = c.cur
	} else {
		s.To = len(c.upd)
	}
	c.tr("unsubscribe sub%d", s.ID)
	c.call("unsubscribe", func() {
		defer func() { s.UnsubTick = tick() }()
		s.unsub()
	})
	c.st.add("disc_unsubscribe_calls", 1)
}

// ---------------------------------------------------------------- expectations

func (c *dctx) expected(s *dsub) (E []dexp) {
	if s.HasInit {
		E = append(E, s.Init)
	}
	to := s.To
	if to < 0 || to > len(c.upd) {
		to = len(c.upd)
	}
	for i := s.From; i < to; i++ {
		e := c.upd[i]
		if i == s.OptAt {
			e.Opt = true
		}
		E = append(E, e)
	}
	if s.Kind == "nonempty" {
		F := E[:0:0]
		for _, e := range E {
			if e.B != 0 {
				F = append(F, e)
			}
		}
		E = F
	}
	if s.Kind == "ontrigger" {
		F := E[:0:0]
		for _, e := range E {
			if e.B != 0 { // handlers are only interested in false -> true
				F = append(F, e)
			}
		}
		E = F
	}
	return
}

func dsame(e dexp, l dcb) bool { return e.Idx == l.Round && e.B == l.B && (!l.HasA || e.A == l.A) }

// dmatch: L must be E without some optional elements. prefixOK: L may stop early (one-shot subscriptions).
func dmatch(E []dexp, L []dcb, lenient int, prefixOK bool) (problem, what string) {
	i := 0
	for k, e := range E {
		if i < len(L) && dsame(e, L[i]) {
			i++
			continue
		}
		if e.Opt || lenient >= 0 && i >= lenient || prefixOK && i == len(L) {
			continue
		}
		if i == len(L) {
			return "change-not-delivered", fmt.Sprintf("expected delivery #%d %+v never arrived (%d deliveries)", k, e, len(L))
		}
		for _, e2 := range E[k+1:] {
			if dsame(e2, L[i]) {
				return "change-not-delivered", fmt.Sprintf("expected delivery #%d %+v was skipped (next delivery is %+v)", k, e, L[i])
			}
		}
		return "delivery-not-in-model", fmt.Sprintf("delivery %+v where the model expects #%d %+v (duplicate, stale or out of order)", L[i], k, e)
	}
	if i < len(L) {
		return "delivery-not-in-model", fmt.Sprintf("delivery %+v beyond what the model expects (duplicate, stale or after unsubscribe)", L[i])
	}
	return "", ""
}

func (c *dctx) checkSub(s *dsub) {
	E := c.expected(s)
	name := fmt.Sprintf("subscription %d (%s)", s.ID, s.Kind)
	if s.Late > 0 {
		c.bad("callback-after-unsubscribe", name+": user code was invoked after the unsubscribe call had returned")
		return
	}
	L := s.Log
	if c.Fam == "set" { // empty mutation sets carry no change
		F := L[:0:0]
		for _, l := range L {
			if l.A != 0 || l.B != 0 {
				F = append(F, l)
			}
		}
		L = F
		G := E[:0:0]
		for _, e := range E {
			if e.A != 0 || e.B != 0 {
				G = append(G, e)
			}
		}
		E = G
	}
	switch s.Kind {
	case "withelements":
		if s.LifeErr != "" && s.Lenient < 0 && !c.roundPanic {
			c.bad("setup-teardown-not-alternating", name+": "+s.LifeErr)
		}
		if s.Lenient < 0 && !c.roundPanic && s.OptAt < 0 {
			want := uint32(0)
			if s.To < 0 {
				for e := 0; e < 32; e++ {
					if c.val&(1<<uint(e)) != 0 && dcond(s.Cond, e) {
						want |= 1 << uint(e)
					}
				}
			}
			var got uint32
			for e := range s.live {
				got |= 1 << uint(e)
			}
			if got != want {
				c.bad("elements-set-up-differ-from-model", fmt.Sprintf("%s: elements currently set up %s, the model expects %s", name, mstr(got), mstr(want)))
			}
		}
		return
	case "once":
		if s.Cond == "" {
			if len(s.Hits) > 1 {
				c.bad("one-shot-ran-more-than-once", name+": the one-shot callback ran more than once")
				return
			}
			first := -1
			for k, e := range E {
				if !e.Opt {
					first = k
					break
				}
			}
			if len(s.Hits) == 0 {
				if first >= 0 && s.Lenient < 0 {
					c.bad("change-not-delivered", fmt.Sprintf("%s: never ran although the model expects %+v", name, E[first]))
				}
				return
			}
			lim := len(E)
			if first >= 0 {
				lim = first + 1
			}
			for _, e := range E[:lim] {
				if dsame(e, s.Hits[0]) {
					return
				}
			}
			c.bad("delivery-not-in-model", fmt.Sprintf("%s: ran with %+v, the model expects the first of %+v", name, s.Hits[0], E))
			return
		}
		// with condition: the evaluations are a prefix of the stream that ends at the first satisfying element
		sat := -1
		for k, l := range L {
			if dcond(s.Cond, l.B) && !s.CondPanicAt[k] {
				sat = k
				break
			}
		}
		// (whether the condition is evaluated again after the subscription fired is not demanded)
		if p, w := dmatch(E, L, s.Lenient, sat >= 0); p != "" {
			c.bad(p, name+": "+w)
			return
		}
		if len(s.Hits) > 1 || s.Lenient < 0 && (sat < 0 && len(s.Hits) > 0 || sat >= 0 && (len(s.Hits) != 1 || L[sat].A != s.Hits[0].A || L[sat].B != s.Hits[0].B)) {
			c.bad("one-shot-differs-from-first-satisfying", fmt.Sprintf("%s: callback invocations %+v, condition evaluations %+v", name, s.Hits, L))
		}
		return
	}
	if p, w := dmatch(E, L, s.Lenient, false); p != "" {
		c.bad(p, name+": "+w)
		return
	}
	if s.Kind == "withvalue" && s.Cond != "" && s.Lenient < 0 {
		var want []int
		for k, l := range L {
			if dcond(s.Cond, l.B) && !s.CondPanicAt[k] {
				want = append(want, l.B)
			}
		}
		ok := len(want) == len(s.Hits)
		for k := 0; ok && k < len(want); k++ {
			ok = want[k] == s.Hits[k].B
		}
		if !ok {
			c.bad("setups-differ-from-satisfying-values", fmt.Sprintf("%s: set-ups %+v, satisfying values %v", name, s.Hits, want))
		}
	}
	if (s.Kind == "withvalue" || s.Kind == "nonempty" || s.Kind == "ctx") && s.Lenient < 0 {
		for k, in := range s.insts {
			wantDown := 1
			if k == len(s.insts)-1 && s.To < 0 {
				wantDown = in.Down // the latest set-up is torn down by the next change, whether or not that one is set up
			}
			if in.Down > 1 || in.Down != wantDown && !c.roundPanic {
				c.bad("setup-teardown-not-alternating", fmt.Sprintf("%s: set-up #%d (value %d) was torn down %d times, expected %d", name, k, in.Val, in.Down, wantDown))
				break
			}
		}
	}
	if s.Kind == "derived" && s.d != nil {
		prev := 0
		for k, l := range s.DLog {
			if l.A != prev {
				c.bad("derived-chain-broken", fmt.Sprintf("%s: callback #%d of the derived variable reports previous value %d after new value %d", name, k, l.A, prev))
				return
			}
			prev = l.B
		}
		if g := s.d.Get(); g != prev {
			c.bad("derived-last-callback-not-final", fmt.Sprintf("%s: the derived variable holds %d, its subscriber last saw %d", name, g, prev))
		} else if s.To < 0 && s.Lenient < 0 && !c.roundPanic && g != dderive(c.val) {
			c.bad("derived-value-differs-from-model", fmt.Sprintf("%s: the derived variable holds %d, compute(%d) is %d", name, g, c.val, dderive(c.val)))
		}
	}
}

// ---------------------------------------------------------------- held results (set family)

func (c *dctx) hold(h *heldObj) {
	h.born = c.step
	c.held = append(c.held, h)
	c.st.add("disc_held_objects", 1)
}

func (c *dctx) holdSet(what string, s ds.Set[int]) {
	if s != nil && (c.Mode == "held" || c.Mode == "mixed") {
		c.hold(&heldObj{what: what, wset: s, set: s, add: maskOf(s)})
	}
}

// audit compares every held object with its copy, then overwrites the ones that were held for three steps.
func (c *dctx) audit() {
	if c.dead || len(c.held) == 0 {
		return
	}
	keep := c.held[:0]
	var expired []*heldObj
	for _, h := range c.held {
		c.st.add("disc_held_rechecks", 1)
		switch {
		case h.mut != nil:
			if a, d := maskOf(h.mut.AddedElements()), maskOf(h.mut.DeletedElements()); a != h.add || d != h.del {
				c.bad("held-result-changed", fmt.Sprintf("%s changed while it was held: +%s -%s, was +%s -%s", h.what, mstr(a), mstr(d), mstr(h.add), mstr(h.del)))
			}
		case h.set != nil:
			if a := maskOf(h.set); a != h.add {
				c.bad("held-result-changed", fmt.Sprintf("%s changed while it was held: %s, was %s", h.what, mstr(a), mstr(h.add)))
			}
		default:
			same := len(h.slice) == len(h.copyS)
			for k := 0; same && k < len(h.slice); k++ {
				same = h.slice[k] == h.copyS[k]
			}
			if !same {
				c.bad("held-result-changed", fmt.Sprintf("%s changed while it was held: %v, was %v", h.what, h.slice, h.copyS))
			}
		}
		if c.step-h.born >= 3 {
			expired = append(expired, h)
		} else {
			keep = append(keep, h)
		}
	}
	c.held = keep
	for _, h := range expired {
		c.st.add("disc_scribbled_objects", 1)
		switch {
		case h.mut != nil:
			h.mut.AddedElements().Add(30)
			h.mut.AddedElements().Delete(1)
			h.mut.DeletedElements().Add(31)
			h.mut.DeletedElements().Delete(2)
		case h.wset != nil:
			h.wset.Add(27)
			h.wset.Delete(3)
		case h.slice != nil:
			for k := range h.slice {
				h.slice[k] = 26
			}
			h.slice = append(h.slice, 25, 24)
			sort.Ints(h.slice)
		}
	}
	if g := maskOf(c.s); g != uint32(c.val) {
		c.bad("contents-differ-from-model", fmt.Sprintf("the set holds %s, the model %s", mstr(g), mstr(uint32(c.val))))
	}
}

// argument: a set / mutation set passed to a write stays the caller's: unchanged by the call, overwritten afterwards.
func (c *dctx) argCheck(what string, s ds.Set[int], want uint32) {
	if c.dead {
		return
	}
	if g := maskOf(s); g != want {
		c.bad("argument-changed-by-call", fmt.Sprintf("%s passed to the write holds %s after the call, the caller put %s there", what, mstr(g), mstr(want)))
	}
	if c.Mode == "held" || c.Mode == "mixed" {
		s.Clear()
		s.Add(23)
		c.st.add("disc_scribbled_arguments", 1)
	}
}

// ---------------------------------------------------------------- writes

func (c *dctx) begin(changed bool, a, b int) {
	c.cur = len(c.upd)
	if changed {
		c.upd = append(c.upd, dexp{A: a, B: b, Idx: len(c.upd)})
		c.st.add("disc_value_changing_writes", 1)
	}
	c.inRound, c.changed = changed, changed
}

func (c *dctx) afterWrite(kind string, planned bool) {
	c.inRound, c.inFactory = false, false
	if planned {
		c.st.add("disc_writes_ending_in_user_panic", 1)
	}
	if c.roundPanic {
		c.st.add("disc_steps_after_round_panic", 1)
	}
	if c.dead {
		return
	}
	switch c.Fam {
	case "var":
		var g int
		c.call("read", func() { g = c.v.Get() })
		if !c.dead && g != c.val {
			c.bad("value-differs-from-model", fmt.Sprintf("after %s Get() returns %d, the model holds %d", kind, g, c.val))
		}
	case "event":
		var g bool
		c.call("read", func() { g = c.e.WasTriggered() })
		if !c.dead && g != (c.val == 1) {
			c.bad("value-differs-from-model", fmt.Sprintf("after %s WasTriggered() returns %v, the model holds %d", kind, g, c.val))
		}
	case "set":
		var g []int
		c.call("read", func() { g = c.s.ToSlice() })
		if c.dead {
			return
		}
		var m uint32
		for _, e := range g {
			m |= 1 << uint(e)
		}
		if m != uint32(c.val) || len(g) != len(setOf(m).ToSlice()) {
			c.bad("contents-differ-from-model", fmt.Sprintf("after %s ToSlice() returns %v, the model holds %s", kind, g, mstr(uint32(c.val))))
		}
		if c.Mode == "held" || c.Mode == "mixed" {
			c.hold(&heldObj{what: "slice returned by ToSlice", slice: g, copyS: append([]int(nil), g...)})
			c.audit()
		}
	}
}

func (c *dctx) next() int { c.fresh++; return c.fresh }

func (c *dctx) pickUnsubTarget() *dsub {
	var cand []*dsub
	for _, o := range c.subs {
		if o.unsub != nil && o.To < 0 {
			cand = append(cand, o)
		}
	}
	if len(cand) == 0 {
		return nil
	}
	return cand[c.rng.Intn(len(cand))]
}

func (c *dctx) writeVar(kind string) {
	if c.dead {
		return
	}
	prev, nv, fails := c.val, c.val, false
	switch kind {
	case "set", "compute", "init", "toggle", "via-src", "compute-unsub":
		nv = c.next()
	case "setzero", "reset":
		nv = 0
	case "defaultto":
		if prev == 0 {
			nv = c.next()
		}
	case "compute-panic", "transform-panic", "read-panic":
		fails = true
	}
	if kind == "via-src" && c.src == nil {
		kind = "set"
	}
	changed := nv != prev && !fails
	c.tr("write %s %d -> %d", kind, prev, nv)
	c.begin(changed, prev, nv)
	if changed {
		c.val = nv
	}
	ret, hasRet := 0, false
	var target *dsub
	if kind == "compute-unsub" {
		target = c.pickUnsubTarget()
	}
	planned := c.call("write", func() {
		switch kind {
		case "set", "setzero", "setsame":
			ret, hasRet = c.v.Set(nv), true
		case "compute":
			ret, hasRet = c.v.Compute(func(cur int) int { return nv }), true
		case "compute-unsub":
			ret, hasRet = c.v.Compute(func(cur int) int {
				if target != nil {
					c.inRound, c.inFactory = false, true
					c.st.add("disc_reentrant:unsub-from-compute", 1)
					c.inReentrant = "unsub-from-compute"
					defer func() { c.inReentrant = "" }()
					c.quiet = true // a teardown function failing inside the compute function would make the write itself fail
					c.unsubscribe(target)
					c.quiet = false
					c.inRound, c.inFactory = changed, false
				}
				return nv
			}), true
		case "compute-panic":
			c.inRound, c.inFactory = false, true
			c.v.Compute(func(cur int) int { c.notePanic("compute"); panic(plannedPanic) })
		case "transform-panic":
			c.inRound, c.inFactory = false, true
			c.transPanic = true
			c.v.Set(c.fresh + 1000000)
		case "read-panic":
			c.inRound, c.inFactory = false, true
			c.v.Read(func(int) { c.notePanic("read"); panic(plannedPanic) })
		case "init":
			c.v.Init(nv)
		case "toggle":
			c.v.ToggleValue(nv)
		case "reset":
			c.v.ToggleValue(prev)() // ToggleValue(current value) changes nothing; its reset function sets the zero value
		case "defaultto":
			c.v.DefaultTo(nv)
		case "via-src":
			c.src.Set(nv)
		}
	})
	c.transPanic = false
	if fails && !planned && !c.dead {
		c.st.add("disc_user_panics_not_reaching_the_caller", 1) // not demanded
	}
	if hasRet && !planned && !c.dead && ret != prev {
		c.bad("write-returns-wrong-previous-value", fmt.Sprintf("%s returned previous value %d, the model held %d", kind, ret, prev))
	}
	c.afterWrite(kind, planned)
}

func (c *dctx) writeEvent(kind string) {
	if c.dead {
		return
	}
	prev := c.val
	nv := prev
	if kind == "trigger" || kind == "set-true" || kind == "compute-true" || kind == "toggle-reset" {
		nv = 1
	}
	changed := nv != prev
	c.tr("write %s %d -> %d", kind, prev, nv)
	c.begin(changed, prev, nv)
	c.val = nv
	var first bool
	planned := c.call("write", func() {
		switch kind {
		case "trigger":
			first = c.e.Trigger()
		case "set-true":
			c.e.Set(true)
		case "set-false":
			c.e.Set(false)
		case "compute-true":
			c.e.Compute(func(bool) bool { return true })
		case "compute-false":
			c.e.Compute(func(bool) bool { return false })
		case "toggle-reset":
			c.e.ToggleValue(true)()
		}
	})
	if kind == "trigger" && !planned && !c.dead && first != changed {
		c.bad("trigger-result-differs-from-model", fmt.Sprintf("Trigger() returned %v on an event whose model state was %d", first, prev))
	}
	c.afterWrite(kind, planned)
}

func (c *dctx) rndMask(p int) (m uint32) {
	for e := 0; e < 10; e++ {
		if c.rng.Intn(100) < p {
			m |= 1 << uint(e)
		}
	}
	return
}

func (c *dctx) writeSet(kind string) {
	if c.dead {
		return
	}
	cur := uint32(c.val)
	var add, del uint32
	fails := false
	switch kind {
	case "add":
		add = 1 << uint(c.rng.Intn(10))
	case "delete":
		del = 1 << uint(c.rng.Intn(10))
	case "addall":
		add = c.rndMask(30)
	case "deleteall":
		del = c.rndMask(30)
	case "apply", "compute", "compute-sub", "compute-unsub":
		add = c.rndMask(25)
		del = c.rndMask(25) &^ add
	case "replace":
		nw := c.rndMask(40)
		add, del = nw, cur&^nw
	case "clear":
		del = cur
	case "compute-panic":
		fails = true
	}
	aAdd, aDel := add&^cur, del&cur
	if fails {
		aAdd, aDel = 0, 0
	}
	changed := aAdd|aDel != 0
	c.pre = c.val
	c.tr("write %s +%s -%s on %s", kind, mstr(add), mstr(del), mstr(cur))
	c.begin(changed, int(aAdd), int(aDel))
	round := changed || !fails && (strings.HasPrefix(kind, "compute") || kind == "replace" || kind == "clear") // these notify even when nothing changed
	c.inRound = round
	c.val = int(cur&^aDel | aAdd)
	var applied ds.SetMutations[int]
	var retSet ds.Set[int]
	var argSet ds.Set[int]
	var argMut ds.SetMutations[int]
	var argWant uint32
	var target *dsub
	if kind == "compute-unsub" {
		target = c.pickUnsubTarget()
	}
	factory := func(ro ds.ReadableSet[int]) ds.SetMutations[int] {
		c.inRound, c.inFactory = false, true
		defer func() { c.inRound, c.inFactory = round, false }()
		if g := maskOf(ro); g != cur {
			c.bad("factory-sees-wrong-contents", fmt.Sprintf("the mutation factory of Compute sees %s, the model holds %s", mstr(g), mstr(cur)))
		}
		switch kind {
		case "compute-panic":
			c.notePanic("factory")
			panic(plannedPanic)
		case "compute-sub":
			c.st.add("disc_reentrant:sub-from-factory", 1)
			c.inReentrant = "sub-from-factory"
			defer func() { c.inReentrant = "" }()
			ns := c.newSub("onupdate", nil)
			ns.ReentrantBorn = true
			c.subscribe(ns)
		case "compute-unsub":
			if target != nil {
				c.st.add("disc_reentrant:unsub-from-factory", 1)
				c.inReentrant = "unsub-from-factory"
				defer func() { c.inReentrant = "" }()
				c.quiet = true
				c.unsubscribe(target)
				c.quiet = false
			}
		}
		return ds.NewSetMutations[int]().WithAddedElements(setOf(add)).WithDeletedElements(setOf(del))
	}
	planned := c.call("write", func() {
		switch kind {
		case "add":
			c.s.Add(bitsTZ(add))
		case "delete":
			c.s.Delete(bitsTZ(del))
		case "addall":
			argSet, argWant = setOf(add), add
			retSet = c.s.AddAll(argSet)
		case "deleteall":
			argSet, argWant = setOf(del), del
			retSet = c.s.DeleteAll(argSet)
		case "apply":
			argMut = ds.NewSetMutations[int]().WithAddedElements(setOf(add)).WithDeletedElements(setOf(del))
			applied = c.s.Apply(argMut)
		case "compute", "compute-sub", "compute-unsub", "compute-panic":
			applied = c.s.Compute(factory)
		case "replace":
			argSet, argWant = setOf(add), add
			retSet = c.s.Replace(argSet)
		case "clear":
			c.s.Clear()
		}
	})
	if fails && !planned && !c.dead {
		c.st.add("disc_user_panics_not_reaching_the_caller", 1) // not demanded
	}
	if !planned && !c.dead {
		if applied != nil {
			if a, d := maskOf(applied.AddedElements()), maskOf(applied.DeletedElements()); a != aAdd || d != aDel {
				c.bad("returned-mutations-differ-from-model", fmt.Sprintf("%s returned +%s -%s, the model applied +%s -%s", kind, mstr(a), mstr(d), mstr(aAdd), mstr(aDel)))
			} else if c.Mode == "held" || c.Mode == "mixed" {
				c.hold(&heldObj{what: "mutation set returned to the writer", mut: applied, add: a, del: d})
			}
		}
		if retSet != nil {
			want := aAdd
			if kind != "addall" {
				want = aDel
			}
			if g := maskOf(retSet); g != want {
				c.bad("returned-mutations-differ-from-model", fmt.Sprintf("%s returned %s, the model expects %s", kind, mstr(g), mstr(want)))
			} else {
				c.holdSet("set returned to the writer", retSet)
			}
		}
		if argSet != nil {
			c.argCheck("the set", argSet, argWant)
		}
		if argMut != nil {
			c.argCheck("the added elements of the mutation set", argMut.AddedElements(), add)
			c.argCheck("the deleted elements of the mutation set", argMut.DeletedElements(), del)
		}
	}
	c.afterWrite(kind, planned)
}

// ---------------------------------------------------------------- script

var dKinds = map[string][]string{
	"var":   {"onupdate", "onupdate", "ctx", "withvalue", "nonempty", "log", "once", "derived"},
	"event": {"ontrigger", "ontrigger", "onupdate"},
	"set":   {"onupdate", "onupdate", "withelements"},
}

var dSites = map[string][]string{
	"onupdate": {"cb"}, "ctx": {"cb", "subscribe", "teardown"}, "withvalue": {"setup", "teardown", "cond"}, "nonempty": {"setup", "teardown"},
	"log": {"stringer", "logattrs"}, "once": {"cb", "cond"}, "derived": {"compute"}, "ontrigger": {"handler"}, "withelements": {"setup", "teardown", "cond"},
}

var dReentrant = []string{"get", "read", "sub", "unsub-earlier", "unsub-later", "unsub-other"}

func (c *dctx) genSub() *dsub {
	kinds := dKinds[c.Fam]
	kind := kinds[c.rng.Intn(len(kinds))]
	plan := map[string]map[int]string{}
	sites := dSites[kind]
	put := func(act string) {
		site := sites[c.rng.Intn(len(sites))]
		if plan[site] == nil {
			plan[site] = map[int]string{}
		}
		plan[site][c.rng.Intn(4)] = act
	}
	if (c.Mode == "panic" || c.Mode == "mixed") && c.rng.Intn(2) == 0 {
		put("panic")
	}
	if c.Mode == "reentrant" || c.Mode == "mixed" {
		for k := c.rng.Intn(3); k > 0; k-- {
			act := dReentrant[c.rng.Intn(len(dReentrant))]
			if c.Fam == "event" && c.rng.Intn(4) == 0 {
				act = "trigger"
			}
			put(act)
		}
	}
	s := c.newSub(kind, plan)
	s.Flag = c.rng.Intn(3) == 0
	if kind == "ontrigger" || kind == "log" || kind == "once" || kind == "withelements" {
		s.Flag = false
	}
	if kind == "withvalue" || kind == "once" || kind == "withelements" {
		s.Cond = []string{"", "odd", "nz", "true"}[c.rng.Intn(4)]
	}
	if len(plan["cond"]) > 0 && s.Cond == "" {
		s.Cond = "odd"
	}
	return s
}

var dWrites = map[string][]string{
	"var":   {"set", "set", "set", "compute", "setzero", "setsame", "init", "toggle", "reset", "defaultto", "via-src", "compute-unsub", "compute-panic", "transform-panic", "read-panic"},
	"event": {"trigger", "trigger", "set-true", "set-false", "compute-true", "compute-false", "toggle-reset"},
	"set":   {"add", "add", "delete", "addall", "deleteall", "apply", "compute", "replace", "clear", "compute-sub", "compute-unsub", "compute-panic"},
}

func (c *dctx) write(kind string) {
	switch c.Fam {
	case "var":
		c.writeVar(kind)
	case "event":
		c.writeEvent(kind)
	case "set":
		c.writeSet(kind)
	}
}

func (c *dctx) genWrite() {
	ws := dWrites[c.Fam]
	for {
		k := ws[c.rng.Intn(len(ws))]
		failing := k == "compute-panic" || k == "transform-panic" || k == "read-panic"
		re := k == "compute-unsub" || k == "compute-sub"
		if failing && c.Mode != "panic" && c.Mode != "mixed" || re && c.Mode != "reentrant" && c.Mode != "mixed" {
			continue
		}
		c.write(k)
		return
	}
}

var dModes = map[string][]string{"var": {"panic", "panic", "reentrant", "mixed"}, "event": {"panic", "reentrant", "mixed"}, "set": {"panic", "panic", "reentrant", "held", "held", "mixed"}}

func runDiscipline(rng *rand.Rand) (viols []viol, st runStats) {
	fam := []string{"var", "var", "set", "set", "event"}[rng.Intn(5)]
	modes := dModes[fam]
	c := &dctx{Fam: fam, Mode: modes[rng.Intn(len(modes))], rng: rng, st: &st}
	st.shape = "discipline/" + fam + "/" + c.Mode
	switch fam {
	case "var":
		c.v = reactive.NewVariable[int](func(cur, nv int) int {
			if c.transPanic {
				c.notePanic("transform")
				panic(plannedPanic)
			}
			return nv
		})
		if rng.Intn(3) == 0 {
			c.src = reactive.NewVariable[int]()
			c.v.InheritFrom(c.src)
		}
		if rng.Intn(3) != 0 {
			c.val = c.next()
			c.v.Set(c.val)
		}
	case "event":
		c.e = reactive.NewEvent()
		if rng.Intn(3) == 0 {
			c.val = 1
			c.e.Trigger()
		}
	case "set":
		m := uint32(0)
		if rng.Intn(3) != 0 {
			m = c.rndMask(30)
		}
		c.val = int(m)
		c.s = reactive.NewSet[int](setOf(m).ToSlice()...)
	}
	c.A = gdump.NewActor("caller")
	nSteps := 6 + rng.Intn(14)
	for i := 0; i < nSteps && !c.dead; i++ {
		if c.roundPanic && !demandUsableAfterRoundPanic {
			break
		}
		switch r := rng.Intn(10); {
		case r < 3 || i < 2:
			c.subscribe(c.genSub())
		case r < 4:
			if t := c.pickUnsubTarget(); t != nil {
				c.unsubscribe(t)
			}
		default:
			c.genWrite()
		}
	}
	// further use by polite callers: user code behaves from now on
	c.quiet = true
	polite := !c.roundPanic || demandUsableAfterRoundPanic
	if polite && !c.dead {
		late := c.newSub(c.baseKind(), nil)
		c.subscribe(late)
		for k := 0; k < 2 && !c.dead; k++ {
			switch fam {
			case "var":
				c.writeVar("set")
			case "event":
				c.writeEvent("trigger")
			case "set":
				c.writeSet([]string{"add", "replace"}[k])
			}
		}
		st.add("disc_tail_writes_after_discipline", 2)
		for _, s := range append([]*dsub(nil), c.subs...) {
			if s.Lost || s.unsub == nil || c.rng.Intn(3) == 0 && s != late {
				continue
			}
			c.unsubscribe(s)
		}
		if !c.dead {
			switch fam {
			case "var":
				c.writeVar("set")
			case "event":
				c.writeEvent("set-true")
			case "set":
				c.writeSet("clear")
				c.writeSet("addall")
			}
		}
	} else if !c.dead { // the tree is known not to survive a panic in an update round: reads and new subscriptions only
		late := c.newSub(c.baseKind(), nil)
		c.subscribe(late)
		c.afterWrite("nothing", false)
	}
	if !c.dead {
		for _, s := range c.subs {
			c.checkSub(s)
		}
		c.A.Close()
	}
	st.ops = c.step
	st.nontrivial = c.Cause != ""
	st.add("disc_runs:"+fam+"/"+c.Mode, 1)
	if c.roundPanic {
		st.add("disc_runs_with_panic_in_update_round", 1)
	}
	return c.viols, st
}
