// C13 – reactive subscribers see every change exactly once, in order.
//
// Recorded-history checker at the client boundary of reactive.Variable,
// reactive.Set and reactive.Event under racing writers / subscribers /
// unsubscribers (plain and -race children, dead-lock oracles):
//
//	Variable: the (previous -> new) pairs returned to the writers form one chain
//	  (values are unique); every subscription's callback log must be: initial
//	  state (0 -> v, v on the chain and current during the OnUpdate call), then
//	  consecutive chain edges without gap, duplicate or reordering; last value =
//	  Get() when still subscribed; every write that returned before the
//	  unsubscribe call was delivered; callbacks never overlap; none starts after
//	  unsubscribe returned.
//	Set: every callback is attributed (goroutine id + tick interval) to the write
//	  that caused it; folding the reported mutations with the library's own
//	  semantics (adds, then deletes) must track a mirror without "added while
//	  present"/"deleted while absent" reports, equal the mutation returned to the
//	  writer, equal the exact model in single-writer runs, and end at ToSlice().
//	Event: exactly one Trigger() returns true; OnTrigger handlers run exactly once
//	  whether registered before, during or after Trigger.
//	Variants (variants.go): OnUpdateOnce, OnUpdateWithContext, WithValue, WithNonEmptyValue,
//	  LogUpdates (Variable and Event) and Set.WithElements as first-class subscribers.
//	Disciplines (discipline.go): sequential scripts with failing / re-entrant user code and held + scribbled results
//	  against an exact model; "never returns" decided structurally through a gdump actor.
package main

import (
	"fmt"
	"math/bits"
	"math/rand"
	"os"
	"runtime"
	"runtime/debug"
	"sort"
	"strconv"
	"sync"
	"sync/atomic"
	"time"

	"github.com/iotaledger/hive.go/ds"
	"github.com/iotaledger/hive.go/ds/reactive"
	"verif/harness/internal/gdump"
	"verif/harness/internal/vf"
)

type viol struct {
	fp, what string
	detail   any
}

type runStats struct {
	subs, callbacks, handoff, overlapPairs, ops int
	nontrivial                                  bool
	shape                                       string
	extra                                       map[string]int
}

func (s *runStats) add(k string, n int) {
	if s.extra == nil {
		s.extra = map[string]int{}
	}
	s.extra[k] += n
}

type panicRec struct {
	Who   string `json:"who"`
	Value string `json:"value"`
	Stack string `json:"stack"`
}

type panics struct {
	mu  sync.Mutex
	rec []panicRec
}

func (p *panics) guard(who string) {
	if r := recover(); r != nil {
		p.mu.Lock()
		st := string(debug.Stack())
		if len(st) > 3000 {
			st = st[:3000]
		}
		p.rec = append(p.rec, panicRec{who, fmt.Sprint(r), st})
		p.mu.Unlock()
	}
}

// ============================================================== Variable

type vop struct {
	Kind      string `json:"kind"`
	W         int    `json:"w"`
	Call, Ret uint64
	Prev, New int
	Changed   bool
	Unknown   bool // the write does not tell its caller the previous value (Init, writes arriving through InheritFrom / DeriveValueFrom)
}

type vcb struct {
	In, Out   uint64
	Prev, New int
}

type vsub struct {
	ID                         int
	G                          int // subscriber goroutine
	Flag                       bool
	SubCall, SubRet, UnsubCall uint64
	unsubRet                   atomic.Uint64
	Unsub                      bool
	in                         atomic.Int32
	overlaps                   atomic.Int32
	canary                     int // plain variable on purpose: the race detector orders callbacks of one subscription
	mu                         sync.Mutex
	log                        []vcb
	slow                       int
	afterUnsub                 atomic.Int32
	lateIn, lateUnsubRet       atomic.Uint64
	UnsubRetFinal              uint64
}

func (s *vsub) cb(prev, nw int) {
	tin := tick()
	if !s.in.CompareAndSwap(0, 1) {
		s.overlaps.Add(1)
	}
	if ur := s.unsubRet.Load(); ur != 0 && tin > ur {
		s.afterUnsub.Add(1)
		s.lateIn.Store(tin)
		s.lateUnsubRet.Store(ur)
	}
	s.canary++
	yield(s.slow)
	out := tick()
	s.mu.Lock()
	s.log = append(s.log, vcb{tin, out, prev, nw})
	s.mu.Unlock()
	s.in.Store(0)
}

type wstep struct {
	Kind  string
	Yield int
}
type sstep struct {
	Pre, Hold int
	Flag      bool
	Slow      int
	Unsub     bool
	Calls     int  // how often the unsubscribe function is called (calls beyond the first are redundant)
	Other     bool // redundant calls come from other goroutines, racing with the first call
	Gap       int
}

func genUnsub(rng *rand.Rand, stp *sstep) {
	stp.Calls = 1
	if r := rng.Intn(5); r >= 3 {
		stp.Calls = r - 1 // 2 or 3
	}
	stp.Other = rng.Intn(2) == 0
	stp.Gap = rng.Intn(10)
}

var redundantUnsubs atomic.Int64

// unsubscribeN calls an unsubscribe function `calls` times; ret receives the tick at which the first call returned
// (from then on no callback may start). Redundant calls follow sequentially or race from other goroutines.
func unsubscribeN(unsub func(), calls int, other bool, gap int, ret *atomic.Uint64, pn *panics) {
	var xwg sync.WaitGroup
	if other {
		for c := 1; c < calls; c++ {
			xwg.Add(1)
			go func() {
				defer xwg.Done()
				defer pn.guard("redundant unsubscribe")
				yield(gap)
				unsub()
				ret.CompareAndSwap(0, tick())
			}()
		}
	}
	unsub()
	ret.CompareAndSwap(0, tick())
	if !other {
		for c := 1; c < calls; c++ {
			yield(gap)
			unsub()
		}
	}
	xwg.Wait()
	if calls > 1 {
		redundantUnsubs.Add(int64(calls - 1))
	}
}

func runVar(rng *rand.Rand) (viols []viol, st runStats) {
	W := 1 + rng.Intn(4)
	S := 1 + rng.Intn(6)
	nOps := 4 + rng.Intn(36)
	initNZ := rng.Intn(3) == 0
	slowP := rng.Intn(3) // 0: no slow callbacks
	st.shape = fmt.Sprintf("var/w%d/s%d/init%v/slow%d", W, S, initNZ, slowP)

	wplans := make([][]wstep, W)
	for w := range wplans {
		for k := 0; k < nOps; k++ {
			kind := "set"
			switch r := rng.Intn(10); {
			case r < 4:
				kind = "set"
			case r < 7:
				kind = "compute"
			case r < 8:
				kind = "compute-same"
			default:
				kind = "defaultto"
			}
			wplans[w] = append(wplans[w], wstep{kind, rng.Intn(4)})
		}
	}
	// writes that do not return the previous value: at most two per run, so that the chain stays uniquely
	// reconstructible (a segment starts at 0, one ends at Get())
	unknownMode := []string{"none", "init", "init", "inherit", "derive", "toggle"}[rng.Intn(6)]
	nUnknown := 1 + rng.Intn(2)
	if unknownMode == "init" || unknownMode == "toggle" {
		for k := 0; k < nUnknown; k++ {
			wplans[0][rng.Intn(len(wplans[0]))].Kind = unknownMode
		}
	}
	srcYields := []int{rng.Intn(40), rng.Intn(40)}
	R := rng.Intn(3) // readers holding the value's read lock (Variable.Read) for a few scheduling rounds
	rplans := make([][][2]int, R)
	for r := range rplans {
		for k, n := 0, 2+rng.Intn(10); k < n; k++ {
			rplans[r] = append(rplans[r], [2]int{rng.Intn(20), 1 + rng.Intn(6)})
		}
	}
	st.shape += "/" + unknownMode
	splans := make([][]sstep, S)
	for s := range splans {
		cyc := 1 + rng.Intn(5)
		for k := 0; k < cyc; k++ {
			slow := 0
			if slowP > 0 && rng.Intn(3) < slowP {
				slow = 1 + rng.Intn(6)
			}
			stp := sstep{Pre: rng.Intn(30), Hold: rng.Intn(40), Flag: rng.Intn(2) == 0, Slow: slow, Unsub: k < cyc-1 || rng.Intn(2) == 0}
			genUnsub(rng, &stp)
			splans[s] = append(splans[s], stp)
		}
	}

	tailWrites := 1 + rng.Intn(2)
	v := reactive.NewVariable[int]()
	var ops []vop
	var resets []func() // reset functions returned by ToggleValue (writer 0 and the tail); invoked after everything else
	var pn panics
	start := make(chan struct{})
	var wg sync.WaitGroup
	wlogs := make([][]vop, W)
	for w := 0; w < W; w++ {
		wg.Add(1)
		go func(w int) {
			defer wg.Done()
			defer pn.guard(fmt.Sprintf("writer %d", w))
			<-start
			for k, stp := range wplans[w] {
				yield(stp.Yield)
				val := (w+1)*100000 + k + 1
				o := vop{Kind: stp.Kind, W: w}
				o.Call = tick()
				switch stp.Kind {
				case "set":
					o.Prev = v.Set(val)
					o.New = val
				case "init":
					v.Init(val)
					o.New, o.Unknown = val, true
				case "toggle":
					resets = append(resets, v.ToggleValue(val)) // only writer 0 has such steps
					o.New, o.Unknown = val, true
				case "compute":
					seen := 0
					o.Prev = v.Compute(func(cur int) int { seen = cur; return val })
					o.New = val
					if seen != o.Prev {
						o.Kind = "compute!seen" // compute func saw a value other than the returned previous value
					}
				case "compute-same":
					o.Prev = v.Compute(func(cur int) int { return cur })
					o.New = o.Prev
				case "defaultto":
					nv, upd := v.DefaultTo(val)
					if upd {
						o.Prev, o.New = 0, nv
					} else {
						o.Prev, o.New = nv, nv
					}
				}
				o.Ret = tick()
				o.Changed = o.Prev != o.New || o.Unknown
				wlogs[w] = append(wlogs[w], o)
				progress.Add(1)
			}
		}(w)
	}
	// InheritFrom / DeriveValueFrom as writers: values written to the source arrive in v through v.Set inside the
	// source writer's call
	var srclog []vop
	if unknownMode == "inherit" || unknownMode == "derive" {
		src := reactive.NewVariable[int]()
		if unknownMode == "inherit" {
			v.InheritFrom(src)
		} else {
			v.DeriveValueFrom(reactive.NewDerivedVariable[int](func(_ int, x int) int { return x }, src))
		}
		wg.Add(1)
		go func() {
			defer wg.Done()
			defer pn.guard("source writer")
			<-start
			for k := 0; k < nUnknown; k++ {
				yield(srcYields[k])
				val := (W+2)*100000 + k + 1
				o := vop{Kind: unknownMode + "ed-write", W: W + 1, New: val, Unknown: true, Changed: true}
				o.Call = tick()
				src.Set(val)
				o.Ret = tick()
				srclog = append(srclog, o)
				progress.Add(1)
			}
		}()
	}
	for r := 0; r < R; r++ {
		wg.Add(1)
		go func(r int) {
			defer wg.Done()
			defer pn.guard("reader")
			<-start
			for _, p := range rplans[r] {
				yield(p[0])
				v.Read(func(int) { yield(p[1]) })
				_ = v.Get()
			}
		}(r)
	}
	sublogs := make([][]*vsub, S)
	for s := 0; s < S; s++ {
		wg.Add(1)
		go func(s int) {
			defer wg.Done()
			defer pn.guard(fmt.Sprintf("subscriber %d", s))
			<-start
			for k, stp := range splans[s] {
				yield(stp.Pre)
				sb := &vsub{ID: s*100 + k, G: s, Flag: stp.Flag, slow: stp.Slow}
				sublogs[s] = append(sublogs[s], sb)
				sb.SubCall = tick()
				unsub := v.OnUpdate(sb.cb, stp.Flag)
				sb.SubRet = tick()
				yield(stp.Hold)
				if stp.Unsub {
					sb.Unsub = true
					sb.UnsubCall = tick()
					unsubscribeN(unsub, stp.Calls, stp.Other, stp.Gap, &sb.unsubRet, &pn)
				}
				progress.Add(1)
			}
		}(s)
	}
	if initNZ { // after a possible InheritFrom/DeriveValueFrom attach (which copies the zero source)
		c0 := tick()
		v.Init(7)
		ops = append(ops, vop{Kind: "init", W: -1, Call: c0, Ret: tick(), Prev: 0, New: 7, Changed: true})
	}
	close(start)
	wg.Wait()
	// tail: further writes after all subscribe/unsubscribe activity, so every remaining subscription has later changes to see
	func() {
		defer pn.guard("tail writer")
		var tl []vop
		for k := 0; k < tailWrites; k++ {
			val := (W+1)*100000 + k + 1
			o := vop{Kind: "set", W: W, New: val}
			o.Call = tick()
			o.Prev = v.Set(val)
			o.Ret = tick()
			o.Changed = o.Prev != o.New
			tl = append(tl, o)
		}
		// last write: ToggleValue (sequential here, so the value it replaces is known); its reset follows the checks' cut
		val := (W+1)*100000 + 99
		o := vop{Kind: "toggle", W: W, New: val, Prev: v.Get(), Changed: true}
		o.Call = tick()
		resets = append(resets, v.ToggleValue(val))
		o.Ret = tick()
		tl = append(tl, o)
		wlogs = append(wlogs, tl, srclog)
	}()
	st.add("redundant_unsubscribe_calls", int(redundantUnsubs.Swap(0)))
	final := v.Get()
	// postlude: the reset functions of ToggleValue write the zero value: every subscription still registered is told
	// (final -> 0) exactly once, the others nothing; the main checks below see the logs as they were before it
	cut := map[*vsub]int{}
	for s := range sublogs {
		for _, sb := range sublogs[s] {
			cut[sb] = len(sb.log)
		}
	}
	func() {
		defer pn.guard("toggle reset")
		for i := len(resets) - 1; i >= 0; i-- {
			resets[i]()
		}
	}()
	afterReset := v.Get()

	if len(pn.rec) > 0 {
		viols = append(viols, viol{"var/panic", "panic inside a reactive.Variable operation: " + pn.rec[0].Value, pn.rec})
		return
	}
	if afterReset != 0 {
		viols = append(viols, viol{"var/toggle-reset/value-not-zero", fmt.Sprintf("the reset function returned by ToggleValue was called but Get() = %d", afterReset), nil})
		return
	}
	for _, l := range wlogs {
		ops = append(ops, l...)
	}
	st.ops = len(ops)

	// ---- ground truth: the writers' chain
	byPrev := map[int]*vop{}
	var edges, unknown []*vop
	for i := range ops {
		o := &ops[i]
		if o.Kind == "compute!seen" {
			viols = append(viols, viol{"var/compute-func-saw-other-value", fmt.Sprintf("Compute's function saw a current value different from the previous value returned (%d)", o.Prev), o})
			return
		}
		if !o.Changed {
			continue
		}
		edges = append(edges, o)
		if o.Unknown {
			unknown = append(unknown, o)
			continue
		}
		if p, dup := byPrev[o.Prev]; dup {
			viols = append(viols, viol{"var/writers-chain-forks", fmt.Sprintf("two writes both replaced value %d (%s by writer %d and %s by writer %d): an update was lost", o.Prev, p.Kind, p.W, o.Kind, o.W), []*vop{p, o}})
			return
		}
		byPrev[o.Prev] = o
	}
	st.add("writes_without_returned_previous_value", len(unknown))
	segEnd := func(v int) int { // follow the known links
		for n := 0; n <= len(edges); n++ {
			e, ok := byPrev[v]
			if !ok {
				break
			}
			v = e.New
		}
		return v
	}
	pos := map[int]int{0: 0} // value -> position on the chain
	byNew := map[int]*vop{}
	cur := 0
	usedU := map[*vop]bool{}
	for n := 1; n <= len(edges)+1; n++ {
		e, ok := byPrev[cur]
		if !ok {
			// the successor of cur (if any) is a write with unknown previous value: the segment ending at Get() comes last
			var cand []*vop
			for _, u := range unknown {
				if !usedU[u] {
					cand = append(cand, u)
				}
			}
			if len(cand) == 0 {
				break
			}
			e = cand[0]
			if len(cand) > 1 && segEnd(e.New) == final {
				e = cand[1]
			}
			usedU[e] = true
			e.Prev = cur
		}
		if _, loop := pos[e.New]; loop {
			break
		}
		pos[e.New] = n
		byNew[e.New] = e
		cur = e.New
	}
	if len(pos)-1 != len(edges) || cur != final {
		viols = append(viols, viol{"var/writers-chain-broken", fmt.Sprintf("the (previous,new) pairs returned to the writers do not form one chain from 0 to Get()=%d (%d of %d edges linked, chain ends at %d)", final, len(pos)-1, len(edges), cur), map[string]any{"ops": ops, "final": final}})
		return
	}
	next := map[int]*vop{}
	for _, e := range edges {
		next[e.Prev] = e
	}

	// ---- per subscription
	for s := range sublogs {
		for _, sb := range sublogs[s] {
			st.subs++
			sb.UnsubRetFinal = sb.unsubRet.Load()
			log := sb.log[:cut[sb]]
			extra := sb.log[cut[sb]:]
			st.callbacks += len(log)
			dump := func() any {
				return map[string]any{"subscription": map[string]any{"id": sb.ID, "flag": sb.Flag, "subCall": sb.SubCall, "subRet": sb.SubRet, "unsub": sb.Unsub, "unsubCall": sb.UnsubCall, "unsubRet": sb.UnsubRetFinal}, "callbacks": log, "callbacks_of_toggle_reset": extra, "writes": ops, "final": final}
			}
			bad := func(fp, what string) { viols = append(viols, viol{fp, what, dump()}) }
			st.add("toggle_reset_deliveries", len(extra))
			if sb.Unsub && len(extra) > 0 && sb.afterUnsub.Load() == 0 {
				bad("var/callback-after-unsubscribe", "the reset of ToggleValue, called after everything else, reached an unsubscribed subscription")
				continue
			}
			if !sb.Unsub && (len(extra) != 1 || extra[0].Prev != final || extra[0].New != 0) {
				bad("var/toggle-reset/not-delivered-once", fmt.Sprintf("ToggleValue's reset changed %d -> 0; the registered subscription received %d callbacks for it: %v", final, len(extra), extra))
				continue
			}
			// overlap with a changing write
			for _, e := range edges {
				if e.Call < sb.SubRet && e.Ret > sb.SubCall {
					st.overlapPairs++
					st.nontrivial = true
				}
			}
			if sb.overlaps.Load() > 0 {
				bad("var/callbacks-overlap", "two callbacks of one subscription ran concurrently")
				continue
			}
			if sb.afterUnsub.Load() > 0 {
				bad("var/callback-after-unsubscribe", fmt.Sprintf("a callback started (tick %d) after its unsubscribe call had returned (tick %d)", sb.lateIn.Load(), sb.lateUnsubRet.Load()))
				continue
			}
			ok := true
			for i := 1; i < len(log) && ok; i++ {
				if log[i].In < log[i-1].Out {
					bad("var/callbacks-overlap", "callback intervals of one subscription overlap")
					ok = false
				}
			}
			if !ok {
				continue
			}
			last := 0
			have := false
			for i, cb := range log {
				if i == 0 {
					if cb.Prev != 0 {
						bad("var/first-callback-prev-not-zero", fmt.Sprintf("first callback has previous value %d", cb.Prev))
						ok = false
						break
					}
					if cb.New == 0 {
						if !sb.Flag {
							bad("var/initial-zero-without-flag", "callback (0,0) delivered although triggerWithInitialZeroValue was not set")
							ok = false
							break
						}
					} else if _, on := pos[cb.New]; !on {
						bad("var/initial-value-not-on-chain", fmt.Sprintf("initial callback reports %d which no writer ever stored", cb.New))
						ok = false
						break
					} else {
						e := byNew[cb.New]
						// the value must have been current at some instant of the OnUpdate call or (first real edge 0->v) later
						if cb.In < sb.SubRet { // delivered during OnUpdate: initial state
							if n, has := next[cb.New]; has && n.Ret < sb.SubCall {
								bad("var/initial-value-stale", fmt.Sprintf("initial callback reports %d although the write replacing it had returned before OnUpdate was called", cb.New))
								ok = false
								break
							}
							if e.Ret > sb.SubCall {
								st.handoff++
							}
						}
					}
				} else {
					if cb.Prev != last {
						bad("var/gap-or-duplicate", fmt.Sprintf("callback %d has previous value %d but the preceding callback reported new value %d", i, cb.Prev, last))
						ok = false
						break
					}
					if e, on := next[cb.Prev]; !on || e.New != cb.New {
						bad("var/not-a-chain-edge", fmt.Sprintf("callback %d reports %d -> %d which is not a transition the variable made", i, cb.Prev, cb.New))
						ok = false
						break
					}
				}
				last, have = cb.New, true
			}
			if !ok {
				continue
			}
			if !sb.Unsub {
				if have && last != final || !have && final != 0 {
					bad("var/last-callback-not-final", fmt.Sprintf("subscription still registered: last reported value %d (callbacks: %d) but Get() = %d", last, len(log), final))
				}
				continue
			}
			// tail completeness: every write that returned before unsubscribe was invoked
			need := -1
			for _, e := range edges {
				if e.Ret < sb.UnsubCall && pos[e.New] > need {
					need = pos[e.New]
				}
			}
			if need >= 0 && (!have || pos[last] < need) {
				bad("var/update-before-unsubscribe-not-delivered", fmt.Sprintf("a write returned before unsubscribe was called but the subscription's last reported value %d (have=%v) precedes it on the chain", last, have))
			}
		}
	}
	return
}

// ============================================================== Set

type sop struct {
	Kind           string
	W              int
	G              uint64
	Call, Ret      uint64
	A, B           uint32 // arguments (element masks)
	RetAdd, RetDel uint32
	Full           bool // RetAdd/RetDel are the complete applied mutations
	Inherited      bool // a write to the source of a DerivedSet: what it applies to the derived set is not returned
	NoRet          bool // the write returns nothing at all (Clear)
}

type scb struct {
	In, Out  uint64
	G        uint64
	Add, Del uint32
}

type ssub struct {
	ID                         int
	G                          uint64
	Flag                       bool
	SubCall, SubRet, UnsubCall uint64
	unsubRet                   atomic.Uint64
	Unsub                      bool
	in, overlaps, afterUnsub   atomic.Int32
	canary                     int
	mu                         sync.Mutex
	log                        []scb
	slow                       int
}

func maskOf(s ds.ReadableSet[int]) (m uint32) {
	s.Range(func(e int) { m |= 1 << uint(e) })
	return
}

func setOf(m uint32) ds.Set[int] {
	s := ds.NewSet[int]()
	for m != 0 {
		e := bits.TrailingZeros32(m)
		s.Add(e)
		m &^= 1 << uint(e)
	}
	return s
}

func mstr(m uint32) string {
	out := "{"
	for e := 0; e < 32; e++ {
		if m&(1<<uint(e)) != 0 {
			if len(out) > 1 {
				out += ","
			}
			out += strconv.Itoa(e)
		}
	}
	return out + "}"
}

func (s *ssub) cb(m ds.SetMutations[int]) {
	tin := tick()
	if !s.in.CompareAndSwap(0, 1) {
		s.overlaps.Add(1)
	}
	if ur := s.unsubRet.Load(); ur != 0 && tin > ur {
		s.afterUnsub.Add(1)
	}
	s.canary++
	r := scb{In: tin, G: gdump.GoID(), Add: maskOf(m.AddedElements()), Del: maskOf(m.DeletedElements())}
	yield(s.slow)
	r.Out = tick()
	s.mu.Lock()
	s.log = append(s.log, r)
	s.mu.Unlock()
	s.in.Store(0)
}

type setStep struct {
	Kind  string
	A, B  uint32
	Yield int
}

var setKinds = []string{"add", "delete", "addall", "deleteall", "apply", "applyov", "toggle", "cempty", "replace", "clear"}

func runSet(rng *rand.Rand) (viols []viol, st runStats) {
	W := 1 + rng.Intn(4)
	if rng.Intn(3) == 0 {
		W = 1 // exact-model runs
	}
	S := 1 + rng.Intn(6)
	U := 3 + rng.Intn(6)
	nOps := 4 + rng.Intn(30)
	slowP := rng.Intn(3)
	withReplace := rng.Intn(2) == 0
	preload := rng.Intn(2) == 0
	derived := rng.Intn(3) == 0
	if derived {
		U = 2 + rng.Intn(3) // tiny universe: both write paths hit the same elements
	}
	var srcPlans [][]setStep
	st.shape = fmt.Sprintf("set/w%d/s%d/replace%v/slow%d", W, S, withReplace, slowP)
	rmask := func() uint32 { return (rng.Uint32() & (1<<uint(U) - 1)) << 1 } // elements 1..U
	relem := func() uint32 { return 1 << uint(1+rng.Intn(U)) }

	plans := make([][]setStep, W)
	for w := range plans {
		for k := 0; k < nOps; k++ {
			kind := setKinds[rng.Intn(len(setKinds))]
			if kind == "replace" && !withReplace {
				kind = "apply"
			}
			stp := setStep{Kind: kind, Yield: rng.Intn(4)}
			switch kind {
			case "add", "delete", "toggle":
				stp.A = relem()
			case "addall", "deleteall", "replace":
				stp.A = rmask() & rmask()
				if kind == "replace" {
					stp.A = rmask()
				}
			case "apply":
				stp.A = rmask() & rmask()
				stp.B = rmask() & rmask() &^ stp.A
			case "applyov":
				stp.A = rmask() & rmask()
				stp.B = rmask() & rmask()
			}
			plans[w] = append(plans[w], stp)
		}
	}
	if derived {
		st.shape += "/derived"
		for w, n := 0, 1+rng.Intn(2); w < n; w++ {
			var pl []setStep
			for k := 0; k < nOps; k++ {
				stp := setStep{Kind: []string{"add", "delete", "apply", "replace"}[rng.Intn(4)], Yield: rng.Intn(4)}
				if stp.Kind == "replace" && !withReplace {
					stp.Kind = "add"
				}
				switch stp.Kind {
				case "add", "delete":
					stp.A = relem()
				case "apply":
					stp.A = rmask() & rmask()
					stp.B = rmask() & rmask() &^ stp.A
				case "replace":
					stp.A = rmask()
				}
				pl = append(pl, stp)
			}
			srcPlans = append(srcPlans, pl)
		}
	}
	tailSteps := make([]setStep, 1+rng.Intn(2))
	for i := range tailSteps {
		tailSteps[i] = setStep{Kind: "toggle", A: relem()}
	}
	splans := make([][]sstep, S)
	for s := range splans {
		cyc := 1 + rng.Intn(4)
		for k := 0; k < cyc; k++ {
			slow := 0
			if slowP > 0 && rng.Intn(3) < slowP {
				slow = 1 + rng.Intn(6)
			}
			stp := sstep{Pre: rng.Intn(30), Hold: rng.Intn(60), Flag: rng.Intn(2) == 0, Slow: slow, Unsub: k < cyc-1 || rng.Intn(2) == 0}
			genUnsub(rng, &stp)
			splans[s] = append(splans[s], stp)
		}
	}

	var initial uint32
	var set reactive.Set[int]
	var src reactive.Set[int] // derived mode: the set under test is a DerivedSet written directly AND through its source
	if derived {
		src = reactive.NewSet[int]()
		if preload {
			initial = rmask()
			src.AddAll(setOf(initial))
		}
		ds := reactive.NewDerivedSet[int]()
		ds.InheritFrom(src)
		set = ds
	} else if preload {
		initial = rmask()
		set = reactive.NewSet[int](setOf(initial).ToSlice()...)
	} else {
		set = reactive.NewSet[int]()
	}

	var pn panics
	start := make(chan struct{})
	var wg sync.WaitGroup
	wlogs := make([][]sop, W+1+len(srcPlans)) // W: tail writes by the main goroutine; then the writers of the source
	exec := func(w int, g uint64, stp setStep) sop {
		o := sop{Kind: stp.Kind, W: w, G: g, A: stp.A, B: stp.B, Full: true}
		o.Call = tick()
		switch stp.Kind {
		case "add":
			if set.Add(bits.TrailingZeros32(stp.A)) {
				o.RetAdd = stp.A
			}
		case "delete":
			if set.Delete(bits.TrailingZeros32(stp.A)) {
				o.RetDel = stp.A
			}
		case "addall":
			o.RetAdd = maskOf(set.AddAll(setOf(stp.A)))
		case "deleteall":
			o.RetDel = maskOf(set.DeleteAll(setOf(stp.A)))
		case "apply", "applyov":
			m := set.Apply(ds.NewSetMutations[int]().WithAddedElements(setOf(stp.A)).WithDeletedElements(setOf(stp.B)))
			o.RetAdd, o.RetDel = maskOf(m.AddedElements()), maskOf(m.DeletedElements())
		case "toggle":
			e := bits.TrailingZeros32(stp.A)
			m := set.Compute(func(cur ds.ReadableSet[int]) ds.SetMutations[int] {
				if cur.Has(e) {
					return ds.NewSetMutations[int]().WithDeletedElements(ds.NewSet(e))
				}
				return ds.NewSetMutations[int](e)
			})
			o.RetAdd, o.RetDel = maskOf(m.AddedElements()), maskOf(m.DeletedElements())
		case "cempty":
			m := set.Compute(func(cur ds.ReadableSet[int]) ds.SetMutations[int] { return ds.NewSetMutations[int]() })
			o.RetAdd, o.RetDel = maskOf(m.AddedElements()), maskOf(m.DeletedElements())
		case "replace":
			o.RetDel = maskOf(set.Replace(setOf(stp.A)))
			o.Full = false
		case "clear":
			set.Clear()
			o.Full, o.NoRet = false, true
		}
		o.Ret = tick()
		return o
	}
	for w := 0; w < W; w++ {
		wg.Add(1)
		go func(w int) {
			defer wg.Done()
			defer pn.guard(fmt.Sprintf("writer %d", w))
			g := gdump.GoID()
			<-start
			for _, stp := range plans[w] {
				yield(stp.Yield)
				wlogs[w] = append(wlogs[w], exec(w, g, stp))
				progress.Add(1)
			}
		}(w)
	}
	for i := range srcPlans {
		wg.Add(1)
		go func(i int) {
			defer wg.Done()
			defer pn.guard("source writer")
			g := gdump.GoID()
			<-start
			for _, stp := range srcPlans[i] {
				yield(stp.Yield)
				o := sop{Kind: "inherited-" + stp.Kind, W: W + 1 + i, G: g, A: stp.A, B: stp.B, Inherited: true}
				o.Call = tick()
				switch stp.Kind {
				case "add":
					src.Add(bits.TrailingZeros32(stp.A))
				case "delete":
					src.Delete(bits.TrailingZeros32(stp.A))
				case "apply":
					src.Apply(ds.NewSetMutations[int]().WithAddedElements(setOf(stp.A)).WithDeletedElements(setOf(stp.B)))
				case "replace":
					src.Replace(setOf(stp.A))
				}
				o.Ret = tick()
				wlogs[W+1+i] = append(wlogs[W+1+i], o)
				progress.Add(1)
			}
		}(i)
	}
	sublogs := make([][]*ssub, S)
	for s := 0; s < S; s++ {
		wg.Add(1)
		go func(s int) {
			defer wg.Done()
			defer pn.guard(fmt.Sprintf("subscriber %d", s))
			g := gdump.GoID()
			<-start
			for k, stp := range splans[s] {
				yield(stp.Pre)
				sb := &ssub{ID: s*100 + k, G: g, Flag: stp.Flag, slow: stp.Slow}
				sublogs[s] = append(sublogs[s], sb)
				sb.SubCall = tick()
				unsub := set.OnUpdate(sb.cb, stp.Flag)
				sb.SubRet = tick()
				yield(stp.Hold)
				if stp.Unsub {
					sb.Unsub = true
					sb.UnsubCall = tick()
					unsubscribeN(unsub, stp.Calls, stp.Other, stp.Gap, &sb.unsubRet, &pn)
				}
				progress.Add(1)
			}
		}(s)
	}
	close(start)
	wg.Wait()
	// tail: further effective writes after all subscribe/unsubscribe activity
	func() {
		defer pn.guard("tail writer")
		g := gdump.GoID()
		for _, stp := range tailSteps {
			wlogs[W] = append(wlogs[W], exec(W, g, stp))
		}
	}()
	st.add("redundant_unsubscribe_calls", int(redundantUnsubs.Swap(0)))
	for i := range srcPlans {
		st.add("inherited_writes_racing_direct_writes", len(wlogs[W+1+i]))
	}
	final := maskOf(set)
	if len(pn.rec) > 0 {
		viols = append(viols, viol{"set/panic", "panic inside a reactive.Set operation: " + pn.rec[0].Value, pn.rec})
		return
	}
	var ops []*sop
	byG := map[uint64][]*sop{}
	for w := range wlogs {
		for i := range wlogs[w] {
			o := &wlogs[w][i]
			ops = append(ops, o)
			byG[o.G] = append(byG[o.G], o)
		}
	}
	st.ops = len(ops)

	// ---- exact model in single-writer runs
	modelAfter := map[*sop]uint32{}
	modelEff := map[*sop]bool{} // single-writer runs: the write changed the contents
	if W == 1 && !derived {
		cur := initial
		for _, o := range ops {
			before := cur
			var expAdd, expDel uint32
			switch o.Kind {
			case "add", "addall":
				expAdd = o.A &^ before
				cur = before | o.A
			case "delete", "deleteall":
				expDel = o.A & before
				cur = before &^ o.A
			case "apply", "applyov":
				expAdd = o.A &^ before
				expDel = o.B & (before | o.A)
				cur = (before | o.A) &^ o.B
			case "toggle":
				if before&o.A != 0 {
					expDel = o.A
				} else {
					expAdd = o.A
				}
				cur = before ^ o.A
			case "replace":
				expDel = before &^ o.A
				cur = o.A
			case "clear":
				expDel = before
				cur = 0
			}
			modelAfter[o] = cur
			modelEff[o] = cur != before
			if o.Full && (o.RetAdd != expAdd || o.RetDel != expDel) {
				viols = append(viols, viol{"set/" + o.Kind + "/returned-mutation-wrong", fmt.Sprintf("%s on %s returned added=%s deleted=%s, the actual change is added=%s deleted=%s", o.Kind, mstr(before), mstr(o.RetAdd), mstr(o.RetDel), mstr(expAdd), mstr(expDel)), map[string]any{"initial": initial, "ops": ops}})
				return
			}
			if !o.Full && !o.NoRet && (o.RetDel&^before != 0 || expDel&^o.RetDel != 0) {
				viols = append(viols, viol{"set/replace/returned-set-wrong", fmt.Sprintf("Replace(%s) on %s returned %s which is not between the removed elements %s and the previous contents", mstr(o.A), mstr(before), mstr(o.RetDel), mstr(expDel)), map[string]any{"initial": initial, "ops": ops}})
				return
			}
		}
		if cur != final {
			viols = append(viols, viol{"set/final-contents-differ-from-model", fmt.Sprintf("single writer: model ends at %s, ToSlice() = %s", mstr(cur), mstr(final)), map[string]any{"initial": initial, "ops": ops}})
			return
		}
	}

	attribute := func(sb *ssub, cb scb) (*sop, bool) { // (op, isInitial)
		if cb.G == sb.G && cb.In > sb.SubCall && cb.In < sb.SubRet {
			return nil, true
		}
		l := byG[cb.G]
		i := sort.Search(len(l), func(i int) bool { return l[i].Ret > cb.In })
		if i < len(l) && l[i].Call < cb.In {
			return l[i], false
		}
		return nil, false
	}

	for s := range sublogs {
		for _, sb := range sublogs[s] {
			st.subs++
			log := sb.log
			st.callbacks += len(log)
			dump := func() any {
				return map[string]any{"subscription": map[string]any{"id": sb.ID, "flag": sb.Flag, "subCall": sb.SubCall, "subRet": sb.SubRet, "unsub": sb.Unsub, "unsubCall": sb.UnsubCall, "unsubRet": sb.unsubRet.Load()}, "callbacks": log, "initial": initial, "writes": ops, "final": final}
			}
			bad := func(fp, what string) { viols = append(viols, viol{fp, what, dump()}) }
			for _, o := range ops {
				if (o.RetAdd|o.RetDel) != 0 && o.Call < sb.SubRet && o.Ret > sb.SubCall {
					st.overlapPairs++
					st.nontrivial = true
				}
			}
			if sb.overlaps.Load() > 0 {
				bad("set/callbacks-overlap", "two callbacks of one subscription ran concurrently")
				continue
			}
			if sb.afterUnsub.Load() > 0 {
				bad("set/callback-after-unsubscribe", "a callback started after its unsubscribe call had returned")
				continue
			}
			var mirror uint32
			seen := map[*sop]bool{}
			ok := true
			for i, cb := range log {
				if i > 0 && cb.In < log[i-1].Out {
					bad("set/callbacks-overlap", "callback intervals of one subscription overlap")
					ok = false
					break
				}
				op, initialCB := attribute(sb, cb)
				if initialCB {
					if i != 0 {
						bad("set/initial-callback-not-first", "the initial-state callback was preceded by an update callback")
						ok = false
						break
					}
					if cb.Del != 0 {
						bad("set/initial-callback-deletes", "the initial-state callback reports deleted elements")
						ok = false
						break
					}
					if cb.Add == 0 && !sb.Flag {
						bad("set/initial-empty-without-flag", "empty initial callback although triggerWithInitialZeroValue was not set")
						ok = false
						break
					}
					mirror = cb.Add
					for _, o := range ops {
						if o.Ret > sb.SubCall && o.Call < cb.In && (o.RetAdd|o.RetDel) != 0 {
							st.handoff++
							break
						}
					}
					continue
				}
				if op == nil {
					viols = append(viols, viol{"set/unattributed-callback", "a callback ran on a goroutine that was not inside a write to the set", dump()})
					ok = false
					break
				}
				if seen[op] {
					bad("set/"+op.Kind+"/duplicate-callback", "one write was reported twice to the same subscription")
					ok = false
					break
				}
				seen[op] = true
				if cb.Add|cb.Del == 0 {
					st.add("empty_mutation_callbacks", 1)
				}
				// the reported mutation must be a difference w.r.t. what this subscriber has been told so far
				if wrongAdd, wrongDel := cb.Add&mirror, cb.Del&^(mirror|cb.Add); wrongAdd|wrongDel != 0 {
					if op.Kind == "replace" {
						bad("set/replace/retained-elements-reported-added-and-deleted", fmt.Sprintf("Replace(%s): callback reports added=%s deleted=%s to a subscriber holding %s: elements %s are reported as added although present (folding yields %s, the set holds %s)", mstr(op.A), mstr(cb.Add), mstr(cb.Del), mstr(mirror), mstr(wrongAdd), mstr((mirror|cb.Add)&^cb.Del), mstr(op.A)))
						mirror = (mirror &^ cb.Del) | cb.Add // resync and keep checking the rest of this subscription
						ok = false
						continue
					}
					bad("set/"+op.Kind+"/mutation-not-a-difference", fmt.Sprintf("%s: callback reports added=%s deleted=%s to a subscriber holding %s", op.Kind, mstr(cb.Add), mstr(cb.Del), mstr(mirror)))
					ok = false
					break
				}
				mirror = (mirror | cb.Add) &^ cb.Del
				if op.Full && (cb.Add != op.RetAdd || cb.Del != op.RetDel) {
					bad("set/"+op.Kind+"/callback-differs-from-returned-mutation", fmt.Sprintf("%s returned added=%s deleted=%s to its caller but reported added=%s deleted=%s to the subscriber", op.Kind, mstr(op.RetAdd), mstr(op.RetDel), mstr(cb.Add), mstr(cb.Del)))
					ok = false
					break
				}
				if !op.Full && !op.Inherited && !op.NoRet && cb.Del&^op.RetDel != 0 {
					bad("set/replace/callback-deletes-more-than-returned", fmt.Sprintf("Replace returned %s but reported deleted=%s", mstr(op.RetDel), mstr(cb.Del)))
					ok = false
					break
				}
				if want, has := modelAfter[op]; has && mirror != want {
					bad("set/"+op.Kind+"/fold-differs-from-model", fmt.Sprintf("single writer: after the callback of %s the subscriber's fold is %s, the set held %s", op.Kind, mstr(mirror), mstr(want)))
					ok = false
					break
				}
			}
			if !ok {
				continue
			}
			// every effective write entirely inside the subscription must have been delivered
			for _, o := range ops {
				eff := o.RetAdd|o.RetDel != 0
				if !o.Full {
					eff = false
					if W == 1 && !derived {
						eff = o.RetDel != 0 // Replace that removed something
						if o.NoRet {
							eff = modelEff[o] // Clear of a non-empty set
						}
					}
				}
				if eff && o.Call > sb.SubRet && (!sb.Unsub || o.Ret < sb.UnsubCall) && !seen[o] {
					bad("set/"+o.Kind+"/change-not-delivered", fmt.Sprintf("%s (added=%s deleted=%s) ran entirely while the subscription was registered but no callback reported it", o.Kind, mstr(o.RetAdd), mstr(o.RetDel)))
					ok = false
					break
				}
			}
			if ok && !sb.Unsub && mirror != final {
				bad("set/fold-differs-from-contents", fmt.Sprintf("folding the reported mutations yields %s but ToSlice() = %s", mstr(mirror), mstr(final)))
			}
		}
	}
	return
}

// ============================================================== Event

type hsub struct {
	ID                         int
	Phase                      string
	SubCall, SubRet, UnsubCall uint64
	unsubRet                   atomic.Uint64
	Unsub                      bool
	runs                       atomic.Int32
	afterUnsub                 atomic.Int32
	FirstIn                    atomic.Uint64
}

func (h *hsub) handler() {
	t := tick()
	if ur := h.unsubRet.Load(); ur != 0 && t > ur {
		h.afterUnsub.Add(1)
	}
	h.FirstIn.CompareAndSwap(0, t)
	h.runs.Add(1)
}

// evWrite is one call of a write method the Event type exposes (its embedded Variable[bool] included).
type evWrite struct {
	Kind       string
	Call, Ret  uint64
	True       bool // writes true
	FirstKnown bool // the call's return value says that it changed false -> true
	Unknown    bool // writes true without telling whether it was the first
}

var evFalseKinds = []string{"set-false", "compute-false", "init-false", "toggle-reset", "defaultto-false", "inherit-false", "derive-false"}
var evTrueKinds = []string{"trigger", "set-true", "compute-true", "init-true", "defaultto-true", "inherit-true", "derive-true"}

func doEvWrite(e reactive.Event, kind string) (w evWrite) {
	w.Kind = kind
	w.Call = tick()
	switch kind {
	case "trigger":
		w.True, w.FirstKnown = true, e.Trigger()
	case "set-true":
		w.True, w.FirstKnown = true, !e.Set(true)
	case "compute-true":
		w.True, w.FirstKnown = true, !e.Compute(func(bool) bool { return true })
	case "init-true":
		e.Init(true)
		w.True, w.Unknown = true, true
	case "defaultto-true":
		_, upd := e.DefaultTo(true)
		w.True, w.FirstKnown = true, upd
	case "inherit-true":
		src := reactive.NewVariable[bool]().Init(true)
		e.InheritFrom(src)()
		w.True, w.Unknown = true, true
	case "set-false":
		e.Set(false)
	case "compute-false":
		e.Compute(func(bool) bool { return false })
	case "init-false":
		e.Init(false)
	case "toggle-reset":
		reset := e.ToggleValue(true)
		w.True, w.Unknown = true, true
		reset()
	case "defaultto-false":
		e.DefaultTo(false)
	case "inherit-false":
		src := reactive.NewVariable[bool]()
		e.InheritFrom(src)() // copies false, then unsubscribes
	case "derive-true", "derive-false":
		src := reactive.NewVariable[bool]().Init(kind == "derive-true")
		e.DeriveValueFrom(reactive.NewDerivedVariable[bool](func(_ bool, x bool) bool { return x }, src))()
		if kind == "derive-true" {
			w.True, w.Unknown = true, true
		}
	}
	w.Ret = tick()
	return
}

type evSample struct {
	T   uint64
	Val bool
}

type evSub struct {
	mu  sync.Mutex
	log [][2]bool
}

func (s *evSub) cb(prev, nw bool) {
	s.mu.Lock()
	s.log = append(s.log, [2]bool{prev, nw})
	s.mu.Unlock()
}

func runEvent(rng *rand.Rand) (viols []viol, st runStats) {
	T := 1 + rng.Intn(3)
	N := rng.Intn(3) // goroutines calling the other write methods (false and true) around the triggers
	nBefore, nDuring, nAfter := rng.Intn(3), 1+rng.Intn(5), 1+rng.Intn(2)
	st.shape = fmt.Sprintf("event/t%d/n%d/b%d/d%d/a%d", T, N, nBefore, nDuring, nAfter)
	e := reactive.NewEvent()
	var hs []*hsub
	var pn panics
	var wmu sync.Mutex
	var writes []evWrite
	var samples []evSample
	record := func(w evWrite) {
		t := tick()
		v := e.Get() && e.WasTriggered()
		wmu.Lock()
		writes = append(writes, w)
		samples = append(samples, evSample{t, v})
		wmu.Unlock()
	}
	reg := func(h *hsub, unsubAfter int, u sstep) {
		h.SubCall = tick()
		un := e.OnTrigger(h.handler)
		h.SubRet = tick()
		if unsubAfter >= 0 {
			yield(unsubAfter)
			h.Unsub = true
			h.UnsubCall = tick()
			unsubscribeN(un, u.Calls, u.Other, u.Gap, &h.unsubRet, &pn)
		}
	}
	for i := 0; i < nBefore; i++ {
		h := &hsub{ID: len(hs), Phase: "before"}
		hs = append(hs, h)
		reg(h, -1, sstep{})
	}
	// handlers that come and go (possibly unsubscribing redundantly) before anything is triggered
	for i, n := 0, rng.Intn(3); i < n; i++ {
		h := &hsub{ID: len(hs), Phase: "before"}
		hs = append(hs, h)
		var u sstep
		genUnsub(rng, &u)
		reg(h, 0, u)
	}
	// OnUpdate subscribers of the event's value
	subs := make([]*evSub, 1+rng.Intn(2))
	for i := range subs {
		subs[i] = &evSub{}
		e.OnUpdate(subs[i].cb, rng.Intn(2) == 0)
	}
	// false writes before anything is triggered must not matter either
	for i, n := 0, rng.Intn(3); i < n; i++ {
		pure := []string{"set-false", "compute-false", "init-false", "defaultto-false", "inherit-false", "derive-false"} // (toggle-reset writes true first: not here)
		record(doEvWrite(e, pure[rng.Intn(len(pure))]))
	}
	start := make(chan struct{})
	var wg sync.WaitGroup
	for t := 0; t < T; t++ {
		y := rng.Intn(40)
		noise := rng.Intn(3) == 0
		wg.Add(1)
		go func(t int) {
			defer wg.Done()
			defer pn.guard("trigger")
			<-start
			yield(y)
			if noise {
				record(doEvWrite(e, "set-false"))
			}
			record(doEvWrite(e, "trigger"))
			progress.Add(1)
		}(t)
	}
	for n := 0; n < N; n++ {
		plan := make([]string, 1+rng.Intn(6))
		ys := make([]int, len(plan))
		for i := range plan {
			if rng.Intn(3) == 0 {
				plan[i] = evTrueKinds[1+rng.Intn(len(evTrueKinds)-1)]
			} else {
				plan[i] = evFalseKinds[rng.Intn(len(evFalseKinds))]
			}
			ys[i] = rng.Intn(20)
		}
		wg.Add(1)
		go func() {
			defer wg.Done()
			defer pn.guard("event writer")
			<-start
			for i, k := range plan {
				yield(ys[i])
				record(doEvWrite(e, k))
				progress.Add(1)
			}
		}()
	}
	for i := 0; i < nDuring; i++ {
		h := &hsub{ID: len(hs), Phase: "during"}
		hs = append(hs, h)
		y := rng.Intn(40)
		ua := -1
		if rng.Intn(3) == 0 {
			ua = rng.Intn(40)
		}
		var u sstep
		genUnsub(rng, &u)
		wg.Add(1)
		go func() {
			defer wg.Done()
			defer pn.guard("handler registration")
			<-start
			yield(y)
			reg(h, ua, u)
			progress.Add(1)
		}()
	}
	close(start)
	wg.Wait()
	st.add("redundant_unsubscribe_calls", int(redundantUnsubs.Swap(0)))
	dump := func() any {
		var l []map[string]any
		for _, h := range hs {
			l = append(l, map[string]any{"id": h.ID, "phase": h.Phase, "subCall": h.SubCall, "subRet": h.SubRet, "unsub": h.Unsub, "unsubCall": h.UnsubCall, "unsubRet": h.unsubRet.Load(), "runs": h.runs.Load(), "firstIn": h.FirstIn.Load()})
		}
		var sl [][][2]bool
		for _, s := range subs {
			sl = append(sl, s.log)
		}
		return map[string]any{"writes": writes, "handlers": l, "onupdate_logs": sl}
	}
	if len(pn.rec) > 0 {
		viols = append(viols, viol{"event/panic", "panic inside a reactive.Event operation: " + pn.rec[0].Value, pn.rec})
		return
	}
	// ---- after Trigger has returned: every write method with false, then re-trigger and late handlers
	post := append([]string(nil), evFalseKinds...)
	rng.Shuffle(len(post), func(i, j int) { post[i], post[j] = post[j], post[i] })
	func() {
		defer pn.guard("post-trigger writes")
		if !e.Get() || !e.WasTriggered() {
			viols = append(viols, viol{"event/value-false-after-trigger", "Trigger() has returned and all writers have been joined, but WasTriggered()/Get() is false (a concurrent write of false un-triggered the event)", dump()})
			return
		}
		for _, k := range post {
			w := doEvWrite(e, k)
			st.add("event_false_writes_after_trigger", 1)
			if !e.Get() || !e.WasTriggered() {
				writes = append(writes, w)
				viols = append(viols, viol{"event/untriggered-by/" + k, "after Trigger() had returned, " + k + " made WasTriggered()/Get() false again", dump()})
				return
			}
			record(w)
		}
		if w := doEvWrite(e, "trigger"); w.FirstKnown {
			viols = append(viols, viol{"event/retrigger-returned-true", "Trigger() on an already triggered event returned true", dump()})
		}
		for i := 0; i < nAfter; i++ {
			h := &hsub{ID: len(hs), Phase: "after"}
			hs = append(hs, h)
			reg(h, -1, sstep{})
		}
	}()
	if len(pn.rec) > 0 {
		viols = append(viols, viol{"event/panic", "panic inside a reactive.Event operation: " + pn.rec[0].Value, pn.rec})
		return
	}
	if len(viols) > 0 {
		return
	}
	// ---- exactly one write turned the event true
	knownFirsts, unknownTrue := 0, 0
	var triggeredBy uint64 // from this tick on the event is triggered for sure
	for _, w := range writes {
		if w.FirstKnown {
			knownFirsts++
		}
		if w.Unknown {
			unknownTrue++
		}
		if w.True && (triggeredBy == 0 || w.Ret < triggeredBy) {
			triggeredBy = w.Ret
		}
	}
	st.ops = len(writes)
	if knownFirsts > 1 || knownFirsts+unknownTrue < 1 {
		viols = append(viols, viol{"event/trigger-first-count", fmt.Sprintf("%d calls reported that they triggered the event first (%d further true-writes do not tell)", knownFirsts, unknownTrue), dump()})
		return
	}
	for _, sm := range samples {
		if sm.T > triggeredBy && !sm.Val {
			viols = append(viols, viol{"event/value-false-after-trigger", "Get()/WasTriggered() returned false after a call that triggers the event had returned", dump()})
			return
		}
	}
	for _, s := range subs {
		ups := 0
		for _, c := range s.log {
			if c[0] && !c[1] {
				viols = append(viols, viol{"event/subscriber-saw-true-to-false", "an OnUpdate subscriber of the event was told true -> false", dump()})
				return
			}
			if c[1] {
				ups++
			}
		}
		if ups != 1 {
			viols = append(viols, viol{"event/subscriber-trigger-count", fmt.Sprintf("an OnUpdate subscriber registered before the trigger was told 'true' %d times", ups), dump()})
			return
		}
	}
	for _, h := range hs {
		st.subs++
		n := int(h.runs.Load())
		st.callbacks += n
		for _, w := range writes {
			if w.True && w.Call < h.SubRet && w.Ret > h.SubCall {
				st.overlapPairs++
				st.nontrivial = true
				if w.FirstKnown {
					st.handoff++
				}
			}
		}
		switch {
		case n > 1:
			viols = append(viols, viol{"event/handler-ran-more-than-once", fmt.Sprintf("OnTrigger handler (%s) ran %d times", h.Phase, n), dump()})
		case h.afterUnsub.Load() > 0:
			viols = append(viols, viol{"event/handler-after-unsubscribe", "OnTrigger handler started after its unsubscribe call had returned", dump()})
		case n == 0 && (!h.Unsub || triggeredBy < h.UnsubCall):
			viols = append(viols, viol{"event/handler-never-ran", fmt.Sprintf("OnTrigger handler registered %s Trigger never ran (unsubscribed=%v)", h.Phase, h.Unsub), dump()})
		}
	}
	return
}

// ============================================================== teardown barrier (scripted, gated)

// gate parks the goroutine that delivers an update inside an earlier subscriber, so that the update is "in flight":
// the value is stored and the callback list collected, later callbacks have not been invoked yet.
type gate struct {
	armed   atomic.Bool
	entered chan struct{}
	release chan struct{}
}

func newGate() *gate { return &gate{entered: make(chan struct{}), release: make(chan struct{})} }

func (g *gate) pass() {
	if g.armed.CompareAndSwap(true, false) {
		close(g.entered)
		<-g.release
	}
}

var teardownKinds = []string{"onupdate", "set-onupdate", "ontrigger", "inheritfrom", "derivedvariable-unsubscribe", "derivevaluefrom-teardown", "derivedset-inheritfrom"}

// runTeardown: 1-3 goroutines call the SAME teardown function while an update is in flight (its writer is parked in
// a gate). Whether a call has returned or is blocked is decided structurally (goroutine snapshots). After calls have
// returned, updates of the other inputs are issued. Rule: no callback of the torn-down subscription (for derived
// constructs: no recomputation / no change of the target) STARTS after any teardown call has returned. Only calls
// that returned are used.
func runTeardown(rng *rand.Rand) (viols []viol, st runStats) {
	kind := teardownKinds[rng.Intn(len(teardownKinds))]
	K := 1 + rng.Intn(3)
	if kind == "derivedset-inheritfrom" {
		K = 1 // its teardown also removes the source's elements; calling it twice is outside the statement
	}
	st.shape = fmt.Sprintf("teardown/%s/k%d", kind, K)
	var mu sync.Mutex
	var subjTicks []uint64
	subj := func() {
		t := tick()
		mu.Lock()
		subjTicks = append(subjTicks, t)
		mu.Unlock()
	}
	g := newGate()
	var write, teardown func()
	var other []func()
	value := func() int { return 0 }
	switch kind {
	case "onupdate":
		v := reactive.NewVariable[int]()
		v.OnUpdate(func(_, _ int) { g.pass() })
		teardown = v.OnUpdate(func(_, _ int) { subj() })
		v.OnUpdate(func(_, _ int) {})
		write = func() { v.Set(1) }
		other = []func(){func() { v.Set(2) }, func() { v.Compute(func(c int) int { return c + 1 }) }}
	case "set-onupdate":
		set := reactive.NewSet[int]()
		set.OnUpdate(func(ds.SetMutations[int]) { g.pass() })
		teardown = set.OnUpdate(func(ds.SetMutations[int]) { subj() })
		write = func() { set.Add(1) }
		other = []func(){func() { set.Add(2) }, func() { set.Delete(1) }}
	case "ontrigger":
		e := reactive.NewEvent()
		e.OnTrigger(g.pass)
		teardown = e.OnTrigger(subj)
		write = func() { e.Trigger() }
		other = []func(){func() { e.Trigger() }, func() { e.Set(true) }}
	case "inheritfrom":
		src, t := reactive.NewVariable[int](), reactive.NewVariable[int]()
		src.OnUpdate(func(_, _ int) { g.pass() })
		teardown = t.InheritFrom(src)
		t.OnUpdate(func(_, _ int) { subj() })
		write = func() { src.Set(1) }
		other = []func(){func() { src.Set(2) }, func() { src.Set(0) }}
		value = t.Get
	case "derivedvariable-unsubscribe", "derivevaluefrom-teardown":
		in1, in2 := reactive.NewVariable[int](), reactive.NewVariable[int]()
		d := reactive.NewDerivedVariable2[int](func(_ int, a, b int) int { subj(); return 100*a + b }, in1, in2)
		d.OnUpdate(func(_, _ int) { g.pass() }) // the in-flight update is parked inside the derived variable's own notification
		teardown = d.Unsubscribe
		if kind == "derivevaluefrom-teardown" {
			teardown = reactive.NewVariable[int]().DeriveValueFrom(d)
		}
		write = func() { in1.Set(1) }
		other = []func(){func() { in2.Set(7) }, func() { in1.Set(2) }, func() { in2.Set(0) }}
		value = d.Get
	case "derivedset-inheritfrom":
		sa := reactive.NewSet[int]()
		D := reactive.NewDerivedSet[int]()
		sa.OnUpdate(func(ds.SetMutations[int]) { g.pass() })
		teardown = D.InheritFrom(sa)
		D.OnUpdate(func(ds.SetMutations[int]) { subj() })
		write = func() { sa.Add(1) }
		other = []func(){func() { sa.Add(2) }, func() { sa.Delete(1) }}
		value = func() int { return int(maskOf(D)) }
	}
	g.armed.Store(true)
	W := gdump.NewActor("writer")
	U := gdump.NewActor("other-writer")
	T := make([]*gdump.Actor, K)
	for i := range T {
		T[i] = gdump.NewActor(fmt.Sprintf("teardown-%d", i))
	}
	closeAll := func() {
		for _, a := range append([]*gdump.Actor{W, U}, T...) {
			a.Close()
		}
	}
	if W.Do(write) != gdump.Blocked {
		st.add("teardown_gate_not_reached", 1)
		closeAll()
		return
	}
	rets := make([]atomic.Uint64, K)
	for i := range T {
		T[i].Start(func() { teardown(); rets[i].Store(tick()) })
	}
	early := 0
	for i := range T {
		if T[i].Settle() == gdump.Returned {
			early++
		}
	}
	st.add("teardown_calls_with_update_in_flight", K)
	st.add("teardown_calls_returned_while_update_in_flight", early)
	if early > 0 { // updates of the other inputs, issued after a teardown call has returned
		U.Start(func() {
			for _, f := range other {
				f()
			}
		})
		U.Settle()
	}
	close(g.release)
	for _, a := range append([]*gdump.Actor{W, U}, T...) {
		if a.Settle() != gdump.Returned {
			return []viol{{"teardown/" + kind + "/blocked-for-ever", "after the in-flight update was released, goroutine " + a.Name + " stays blocked", nil}}, st
		}
		if p := a.TakePanic(); p != "" {
			closeAll()
			return []viol{{"teardown/" + kind + "/panic", "panic in " + a.Name + ": " + p, nil}}, st
		}
	}
	closeAll()
	// every teardown call has returned: further updates of all inputs must reach nothing
	snapshot := value()
	for _, f := range other {
		f()
	}
	st.ops = 1 + 2*len(other)
	st.subs, st.nontrivial = 1, true
	var minR uint64
	for i := range rets {
		if r := rets[i].Load(); minR == 0 || r < minR {
			minR = r
		}
	}
	mu.Lock()
	defer mu.Unlock()
	st.callbacks = len(subjTicks)
	det := map[string]any{"kind": kind, "teardown_callers": K, "returned_while_update_in_flight": early, "first_teardown_return_tick": minR, "subject_start_ticks": subjTicks, "value_when_all_teardowns_returned": snapshot, "value_at_end": value()}
	for _, t := range subjTicks {
		if t > minR {
			return []viol{{"teardown/" + kind + "/callback-started-after-teardown-returned", fmt.Sprintf("%s: %d goroutines called the same teardown while an update was in flight; a callback / recomputation of the torn-down subscription started at tick %d although a teardown call had returned at tick %d", kind, K, t, minR), det}}, st
		}
	}
	if value() != snapshot {
		return []viol{{"teardown/" + kind + "/value-changed-after-teardown", fmt.Sprintf("%s: the derived value changed from %d to %d after every teardown call had returned", kind, snapshot, value()), det}}, st
	}
	return
}

// ============================================================== driver

func runOne(scenario string, rng *rand.Rand) ([]viol, runStats) {
	switch scenario {
	case "var":
		return runVar(rng)
	case "set":
		return runSet(rng)
	case "event":
		return runEvent(rng)
	case "teardown":
		return runTeardown(rng)
	case "variants":
		return runVariants(rng)
	case "discipline":
		return runDiscipline(rng)
	}
	panic("unknown scenario " + scenario)
}

func child(c *vf.Ctx) {
	if c.Child != "runs" || len(c.ChildArgs) < 3 {
		fmt.Fprintln(os.Stderr, "bad child invocation")
		os.Exit(3)
	}
	scn := c.ChildArgs[0]
	start, _ := strconv.Atoi(c.ChildArgs[1])
	n, _ := strconv.Atoi(c.ChildArgs[2])
	attempts := 1
	if len(c.ChildArgs) > 3 {
		attempts, _ = strconv.Atoi(c.ChildArgs[3])
	}
	curScenario.Store(scn)
	if raceBuild {
		startSnapshotMonitor(c)
	}
	for i := start; i < start+n; i++ {
		for a := 0; a < attempts; a++ {
			curRun.Store(int64(i))
			c.Mark(fmt.Sprintf("%s %d", scn, i))
			viols, st := runOne(scn, c.Rand(runSeedOf(c, scn, i)))
			c.Count("evaluations", 1)
			c.Count("runs:"+scn, 1)
			c.Count("subscriptions", st.subs)
			c.Count("callbacks", st.callbacks)
			c.Count("write_ops", st.ops)
			c.Count("handoff_windows", st.handoff)
			c.Count("overlapping_pairs", st.overlapPairs)
			for k, v := range st.extra {
				c.Count(k, v)
			}
			c.Distinct("shape", st.shape)
			if st.nontrivial {
				c.Distinct("nontrivial", fmt.Sprintf("%s/%d", scn, i))
			}
			if raceBuild {
				c.Count("runs_race_build", 1)
			}
			if i == start && a == 0 && !raceBuild && c.WantSample() {
				c.Sample(map[string]any{"scenario": scn, "run": i, "shape": st.shape, "subscriptions": st.subs, "callbacks": st.callbacks, "write_ops": st.ops, "overlapping_subscribe_write_pairs": st.overlapPairs})
			}
			for _, v := range viols {
				c.Violation(v.fp, v.what, caseRef{Scenario: scn, Run: i, Race: raceBuild, Seed: c.Seed, Detail: v.detail})
			}
			if len(viols) > 0 {
				break
			}
		}
	}
}

var scenarios = []string{"var", "set", "event", "teardown", "variants", "discipline"}

func run(c *vf.Ctx) {
	if c.Replay != "" {
		var r caseRef
		if err := c.LoadReplay(&r); err != nil {
			fmt.Fprintln(os.Stderr, err)
			os.Exit(3)
		}
		if r.Seed != 0 {
			c.Seed = r.Seed
		}
		if r.Run < 0 {
			r.Run = 0
		}
		// same scenario, same run seed; schedules are not reproducible, so the case is re-executed up to 300 times
		res := c.RunChild(vf.ChildOpts{Name: "runs", Args: []string{r.Scenario, strconv.Itoa(r.Run), "1", "300"}, Race: r.Race, Timeout: 5 * time.Minute, Seed: c.Seed})
		reportRaces(c, res.Races, job{Scenario: r.Scenario, Start: r.Run, Race: r.Race})
		if res.Deadlock {
			fp, what := classifyDeadlock(r.Scenario, gdump.Parse(res.Stderr))
			c.Violation(fp, what, r)
		}
		return
	}
	c.SetRule("one evaluation = one run: a fresh reactive Variable / Set / Event driven by 1-4 seeded writer goroutines (Set, Compute, DefaultTo, Init, ToggleValue and its reset, writes arriving through InheritFrom/DeriveValueFrom, readers holding Variable.Read; on events every write method with true and false around and after Trigger; Add, Delete, AddAll, DeleteAll, Apply, Compute, Replace, Clear, Decode; Trigger) racing with 1-6 goroutines that subscribe and unsubscribe at seeded points (with/without triggerWithInitialZeroValue, slow callbacks; unsubscribe functions are called 1-3 times, redundant calls sequentially or from other goroutines), followed by tail writes after all subscription activity, checked after join against the writers' own chain / returned mutations / exact single-writer model; runs are distinct by construction (run seed); scenario variants: the derived subscription variants (OnUpdateOnce with/without condition, OnUpdateWithContext, WithValue with/without condition, WithNonEmptyValue, LogUpdates on Variable and Event; Set.WithElements with/without condition) subscribe and unsubscribe on a usually already non-zero value while 1-3 writers hand out unique increasing values, each checked against the writers' chain (one-shot: exactly the first satisfying element of its stream, state at subscription time first); scenario discipline: sequential scripts (every library call through one gdump actor, so a call that never returns is decided structurally) on a Variable (with transformation function, optionally inheriting from a source) / Event / Set in which user code - subscriber callbacks, OnUpdateOnce conditions, withinContext subscribe functions, WithValue/WithNonEmptyValue/WithElements set-up, teardown and condition functions, LogUpdates stringers and log receivers, DerivedVariable compute functions, Compute functions, mutation factories, transformation and Read functions - panics at seeded invocations (initial invocation or later update; recovered by the caller) or re-enters the object (Get/Read/ranging, subscribing, unsubscribing earlier/later subscribers, Trigger on a triggered event, subscribing/unsubscribing from a Compute function or mutation factory), after which the script goes on writing, subscribing and unsubscribing with polite user code; in mode held the mutation sets handed to callbacks and returned to writers, ToSlice results and set / mutation-set arguments are kept with a copy, compared after each of the next three steps and then overwritten; every subscription is compared with the exact sequential model (state at subscription, then exactly the value-changing writes between its subscribe and unsubscribe calls; an update in whose round user code panicked or in whose round the subscription was unsubscribed by another callback is optional; a subscription whose own user code panicked only owes an in-order duplicate-free subset); runs in which user code panicked inside a writer's round end there (the unchanged tree keeps that callback's execution lock); distinct_nontrivial counts runs in which at least one OnUpdate/OnTrigger call overlapped (by logical ticks) a value-changing write")
	total := c.Pick(20000, 600000)
	share := map[string]int{"var": total * 41 / 100, "set": total * 41 / 100, "event": total * 10 / 100, "teardown": total * 8 / 100,
		"variants": total * 25 / 100, "discipline": total * 20 / 100} // on top of the original shares
	chunk := c.Pick(500, 6000)
	var jobs []job
	for _, scn := range scenarios {
		n := share[scn]
		// two thirds plain (runtime dead-lock detector), one third -race (race detector + snapshot rule)
		nPlain := n * 2 / 3
		if scn == "teardown" || scn == "discipline" {
			nPlain = n // scripted with structural blocked/returned decisions: needs a process without the snapshot monitor's timer
		}
		for s := 0; s < n; s += chunk {
			k := min(chunk, n-s)
			jobs = append(jobs, job{Scenario: scn, Start: s, N: k, Race: s >= nPlain, MaxRestarts: 3})
		}
	}
	vf.Parallel(len(jobs), 6, func(i int) { runJob(c, jobs[i], time.Duration(c.Pick(4, 15))*time.Minute) })
	c.Note("observation (not demanded, outside the statement): user code that panics while a WRITER notifies the subscribers leaves that callback's execution lock held on the unchanged tree - the next write parks for ever holding the update-order mutex, the subscription's unsubscribe call parks too (see proposed_fixes/C13-callback-panic-in-update-round-leaves-execution-lock-held.*); scenario discipline ends such runs at the panic (counter disc_runs_with_panic_in_update_round)")
	c.Assume("the Go race detector and runtime dead-lock detector are sound; the process-wide atomic tick counter is linearizable")
	c.Require("evaluations", total*9/10)
	c.Require("subscriptions", total)
	c.Require("callbacks", total)
	// overlap-dependent minimums scale with the parallelism actually available (NumCPU respects taskset); on one core
	// overlap still arises through pre-emption and the Gosched jitter, and the floors prove the windows were entered
	par := min(runtime.NumCPU(), 4)
	c.Extra("parallelism_available", runtime.NumCPU())
	c.Require("overlapping_pairs", max(50, c.Pick(200, 5000)*par/4))
	c.Require("handoff_windows", max(10, c.Pick(20, 500)*par/4))
	c.Require("runs_race_build", total/5)
	c.Require("redundant_unsubscribe_calls", total/2)
	c.Require("teardown_calls_with_update_in_flight", total/20)
	c.Require("inherited_writes_racing_direct_writes", total/2)
	c.Require("writes_without_returned_previous_value", total/10) // Init / ToggleValue / InheritFrom / DeriveValueFrom as writers
	c.Require("toggle_reset_deliveries", total/10)
	c.Require("set_writes:clear", total/40) // every exported write entry point of reactive.Set occurs with subscribers attached
	c.Require("set_writes:decode", total/40)
	c.Require("event_false_writes_after_trigger", total/10*5)     // every write method with false after Trigger (6 per event run)
	// scenario "variants": one-shot / with-context / with-value / with-elements subscriptions as first-class subscribers
	c.Require("once_subscriptions", total/4)
	c.Require("once_subscriptions_with_condition", total/10)
	c.Require("once_initial_state_deliveries", total/10)
	c.Require("once_on_nonzero_value_with_write_in_flight", max(20, c.Pick(100, 3000)*par/4))
	c.Require("contexts", total/10)
	c.Require("value_setups", total/10)
	c.Require("element_setups", total/10)
	c.Require("nontrivial", max(100, c.Pick(300, 10000)*par/4))
	// scenario "discipline" (sequential scripts, nothing depends on overlap): failing user code followed by further use,
	// re-entrant user code, held results and scribbling
	c.Require("runs:discipline", total*18/100)
	c.Require("disc_panics_at_initial_invocation", total/40)
	c.Require("disc_panics_during_update_round", total/40)
	c.Require("disc_tail_writes_after_discipline", total/10)
	for _, site := range []string{"cb", "cond", "setup", "teardown", "subscribe", "stringer", "logattrs", "compute", "transform", "factory", "read", "handler"} {
		c.Require("disc_panics:"+site, total/2000)
	}
	for _, act := range []string{"get", "read", "sub", "unsub-earlier", "unsub-later", "unsub-other", "sub-from-factory", "unsub-from-factory", "unsub-from-compute", "trigger"} {
		c.Require("disc_reentrant:"+act, total/400)
	}
	c.Require("disc_held_rechecks", total/2)
	c.Require("disc_scribbled_objects", total/4)
	c.Require("disc_scribbled_arguments", total/20)
	c.Require("disc_scribbled_initial_mutations", total/50)
	if demandUsableAfterRoundPanic {
		c.Require("disc_steps_after_round_panic", total/20)
	}
}

func main() { vf.Main("C13", "exploration", run, child) }
