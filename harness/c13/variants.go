// C13 – scenario "variants": every exported subscription variant as a first-class subscriber.
//
// Besides OnUpdate / OnTrigger (scenarios var, set, event) the reactive types export subscription
// variants that are built on top of them: Variable.OnUpdateOnce (with and without condition),
// OnUpdateWithContext, WithValue (with and without condition), WithNonEmptyValue, LogUpdates – all of
// them also on Event (a Variable[bool]) – and Set.WithElements (with and without condition). Here they
// subscribe and unsubscribe at seeded points while 1-3 writers keep changing a value that usually is
// ALREADY non-zero, and each of them is checked against the writers' own chain:
//
//	one-shot: at most one call, ever; the reported pair is the FIRST element of the subscription's
//	  stream (state at subscription time 0 -> v, then the chain edges) that satisfies the condition – never
//	  a later change; with a condition the pair must equal the first pair for which the condition function
//	  (user code, logged) returned true; a call is owed when an element that certainly was in the stream
//	  satisfies the condition; no call starts after unsubscribe returned.
//	with-context / log: the full stream rule of OnUpdate (initial state, consecutive edges, last = final,
//	  delivered before unsubscribe); contexts are torn down exactly once – when the next callback runs or on
//	  unsubscribe – and the context of the final state stays alive while subscribed.
//	with-value / with-non-empty-value: the set-up values are the satisfying values of the stream, in chain
//	  order without omission; set-up and teardown alternate; everything is torn down after unsubscribe.
//	with-elements: per element set-up and teardown alternate; while subscribed the live set-ups are exactly
//	  the satisfying elements of the set; everything is torn down after unsubscribe.
//
// Nothing here depends on durations or on unexported names; timing facts come from the logical clock
// (call / return ticks) and are only used in the direction that demands less.
package main

import (
	"fmt"
	"log/slog"
	"math/rand"
	"sync"
	"sync/atomic"

	"github.com/iotaledger/hive.go/ds"
	"github.com/iotaledger/hive.go/ds/reactive"
	"github.com/iotaledger/hive.go/serializer/v2/serix"
)

// ---------------------------------------------------------------- API adapter (Variable[int] and Event alike)

type subAPI interface {
	OnUpdate(cb func(p, n int), flag bool) func()
	Once(cb func(p, n int), cond func(p, n int) bool) func()
	Ctx(cb func(p, n int, within func(func() func())), flag bool) func()
	WithValue(setup func(v int) func(), cond func(v int) bool) func()
	NonEmpty(setup func(v int) func()) func()
	Log(stringer func(v int) string) func()
}

type varAPI[T comparable] struct {
	v  reactive.ReadableVariable[T]
	to func(T) int
}

func (a varAPI[T]) OnUpdate(cb func(p, n int), flag bool) func() {
	f := func(p, n T) { cb(a.to(p), a.to(n)) }
	if !flag {
		return a.v.OnUpdate(f)
	}
	return a.v.OnUpdate(f, true)
}

func (a varAPI[T]) Once(cb func(p, n int), cond func(p, n int) bool) func() {
	f := func(p, n T) { cb(a.to(p), a.to(n)) }
	if cond == nil {
		return a.v.OnUpdateOnce(f)
	}
	return a.v.OnUpdateOnce(f, func(p, n T) bool { return cond(a.to(p), a.to(n)) })
}

func (a varAPI[T]) Ctx(cb func(p, n int, within func(func() func())), flag bool) func() {
	f := func(p, n T, within func(func() func())) { cb(a.to(p), a.to(n), within) }
	if !flag {
		return a.v.OnUpdateWithContext(f)
	}
	return a.v.OnUpdateWithContext(f, true)
}

func (a varAPI[T]) WithValue(setup func(v int) func(), cond func(v int) bool) func() {
	f := func(v T) func() { return setup(a.to(v)) }
	if cond == nil {
		return a.v.WithValue(f)
	}
	return a.v.WithValue(f, func(v T) bool { return cond(a.to(v)) })
}

func (a varAPI[T]) NonEmpty(setup func(v int) func()) func() {
	return a.v.WithNonEmptyValue(func(v T) func() { return setup(a.to(v)) })
}

func (a varAPI[T]) Log(stringer func(v int) string) func() {
	return a.v.LogUpdates(logRecv{}, slog.LevelInfo, "v", func(v T) string { return stringer(a.to(v)) })
}

// logRecv is a log receiver whose level is always active.
type logRecv struct{}

func (logRecv) OnLogLevelActive(_ slog.Level, setup func() func()) func() { return setup() }
func (logRecv) LogAttrs(string, slog.Level, ...slog.Attr)                 {}

func b2i(b bool) int {
	if b {
		return 1
	}
	return 0
}

// ---------------------------------------------------------------- conditions (pure)

// evalCond evaluates a named condition; prev is -1 where the API does not pass a previous value.
func evalCond(name string, prev, nw int) bool {
	switch name {
	case "", "true":
		return true
	case "newnz":
		return nw != 0
	case "prevnz":
		return prev > 0
	case "mod2":
		return nw != 0 && nw%2 == 0
	case "mod3":
		return nw != 0 && nw%3 == 0
	}
	panic("unknown condition " + name)
}

// universalOnNonZero: the condition holds for every element whose new value is non-zero.
func universalOnNonZero(name string) bool { return name == "" || name == "true" || name == "newnz" }

// ---------------------------------------------------------------- one subscription

type xcond struct {
	T         uint64
	Prev, New int
	Res       bool
}

type xinst struct {
	Val         int
	SetupT      uint64
	HasTeardown bool
	PrevAlive   bool // when this set-up ran the preceding one (same subscription / same element) had not been torn down
	tears       atomic.Int32
	Tears       int32
}

type xplan struct {
	Pre, Hold int
	Kind      string // onupdate, once, ctx, withvalue, nonempty, log
	Cond      string
	Flag      bool
	Slow      int
	NilEvery  int // every n-th set-up returns a nil teardown (0: never)
	U         sstep
}

type xsub struct {
	ID                         int
	P                          xplan
	SubCall, SubRet, UnsubCall uint64
	unsubRet                   atomic.Uint64
	UnsubRetFinal              uint64
	Unsub                      bool
	in, overlaps, afterUnsub   atomic.Int32
	mu                         sync.Mutex
	Cbs                        []vcb
	Conds                      []xcond
	Insts                      []*xinst
}

func (s *xsub) enter() uint64 {
	t := tick()
	if !s.in.CompareAndSwap(0, 1) {
		s.overlaps.Add(1)
	}
	if ur := s.unsubRet.Load(); ur != 0 && t > ur {
		s.afterUnsub.Add(1)
	}
	return t
}

func (s *xsub) leave() { s.in.Store(0) }

// newInst registers a set-up instance; called inside a callback of the subscription.
func (s *xsub) newInst(val int) *xinst {
	in := &xinst{Val: val, SetupT: tick()}
	s.mu.Lock()
	if n := len(s.Insts); n > 0 {
		if last := s.Insts[n-1]; last.HasTeardown && last.tears.Load() == 0 {
			in.PrevAlive = true
		}
	}
	if s.P.NilEvery == 0 || (len(s.Insts)+1)%s.P.NilEvery != 0 {
		in.HasTeardown = true
	}
	s.Insts = append(s.Insts, in)
	s.mu.Unlock()
	return in
}

func (in *xinst) teardown() func() {
	if !in.HasTeardown {
		return nil
	}
	return func() { in.tears.Add(1) }
}

func (s *xsub) subscribe(api subAPI) func() {
	p := s.P
	record := func(tin uint64, prev, nw int) {
		yield(p.Slow)
		out := tick()
		s.mu.Lock()
		s.Cbs = append(s.Cbs, vcb{tin, out, prev, nw})
		s.mu.Unlock()
	}
	switch p.Kind {
	case "onupdate":
		return api.OnUpdate(func(prev, nw int) {
			record(s.enter(), prev, nw)
			s.leave()
		}, p.Flag)
	case "once":
		cb := func(prev, nw int) {
			t := tick()
			if ur := s.unsubRet.Load(); ur != 0 && t > ur {
				s.afterUnsub.Add(1)
			}
			record(t, prev, nw)
		}
		if p.Cond == "" {
			return api.Once(cb, nil)
		}
		return api.Once(cb, func(prev, nw int) bool {
			r := evalCond(p.Cond, prev, nw)
			s.mu.Lock()
			s.Conds = append(s.Conds, xcond{tick(), prev, nw, r})
			s.mu.Unlock()
			yield(p.Slow) // stretches the initial-state delivery, so that writers queue up behind it
			return r
		})
	case "ctx":
		return api.Ctx(func(prev, nw int, within func(func() func())) {
			tin := s.enter()
			in := s.newInst(nw)
			within(in.teardown)
			record(tin, prev, nw)
			s.leave()
		}, p.Flag)
	case "withvalue", "nonempty":
		setup := func(v int) func() {
			tin := s.enter()
			in := s.newInst(v)
			record(tin, -1, v)
			s.leave()
			return in.teardown()
		}
		if p.Kind == "nonempty" {
			return api.NonEmpty(setup)
		}
		if p.Cond == "" {
			return api.WithValue(setup, nil)
		}
		return api.WithValue(setup, func(v int) bool { return evalCond(p.Cond, -1, v) })
	case "log":
		return api.Log(func(v int) string {
			record(s.enter(), -1, v)
			s.leave()
			return ""
		})
	}
	panic("unknown subscription kind " + p.Kind)
}

var xOnceConds = []string{"", "", "", "true", "newnz", "prevnz", "mod2", "mod3"}
var xOnceCondsEvent = []string{"", "", "true", "newnz", "prevnz"}
var xValueConds = []string{"", "true", "newnz", "mod2", "mod3"}
var xValueCondsEvent = []string{"", "true", "newnz"}

func genXPlan(rng *rand.Rand, event bool, slowP int) (p xplan) {
	p.Pre, p.Hold = rng.Intn(24), rng.Intn(40)
	p.Flag = rng.Intn(2) == 0
	if slowP > 0 && rng.Intn(3) < slowP {
		p.Slow = 1 + rng.Intn(6)
	}
	switch r := rng.Intn(100); {
	case r < 45:
		p.Kind = "once"
		if event {
			p.Cond = xOnceCondsEvent[rng.Intn(len(xOnceCondsEvent))]
		} else {
			p.Cond = xOnceConds[rng.Intn(len(xOnceConds))]
		}
	case r < 58:
		p.Kind = "withvalue"
		if event {
			p.Cond = xValueCondsEvent[rng.Intn(len(xValueCondsEvent))]
		} else {
			p.Cond = xValueConds[rng.Intn(len(xValueConds))]
		}
	case r < 66:
		p.Kind, p.Cond = "nonempty", "newnz"
	case r < 80:
		p.Kind = "ctx"
	case r < 91:
		p.Kind = "onupdate"
	default:
		p.Kind = "log"
	}
	if rng.Intn(3) == 0 {
		p.NilEvery = 2 + rng.Intn(3)
	}
	p.U.Unsub = rng.Intn(5) < 2
	genUnsub(rng, &p.U)
	return
}

// ---------------------------------------------------------------- ground truth

// xchain is the writers' chain: Vals[0] = 0, Created[p] = the write that replaced Vals[p-1] by Vals[p].
type xchain struct {
	Vals    []int
	Created []*vop
	pos     map[int]int
}

func (c *xchain) final() int { return len(c.Vals) - 1 }

// buildChain links the (previous -> new) pairs returned to the writers (every write tells its previous value here).
func buildChain(ops []vop, final int) (c *xchain, v *viol) {
	byPrev := map[int]*vop{}
	edges := 0
	for i := range ops {
		o := &ops[i]
		if !o.Changed {
			continue
		}
		edges++
		if p, dup := byPrev[o.Prev]; dup {
			return nil, &viol{"var/writers-chain-forks", fmt.Sprintf("two writes both replaced value %d (%s by writer %d and %s by writer %d): an update was lost", o.Prev, p.Kind, p.W, o.Kind, o.W), []*vop{p, o}}
		}
		byPrev[o.Prev] = o
	}
	c = &xchain{Vals: []int{0}, Created: []*vop{nil}, pos: map[int]int{0: 0}}
	cur := 0
	for {
		e, ok := byPrev[cur]
		if !ok {
			break
		}
		if _, loop := c.pos[e.New]; loop {
			break
		}
		c.pos[e.New] = len(c.Vals)
		c.Vals = append(c.Vals, e.New)
		c.Created = append(c.Created, e)
		cur = e.New
	}
	if len(c.Vals)-1 != edges || cur != final {
		return nil, &viol{"var/writers-chain-broken", fmt.Sprintf("the (previous,new) pairs returned to the writers do not form one chain from 0 to Get()=%d (%d of %d edges linked, chain ends at %d)", final, len(c.Vals)-1, edges, cur), map[string]any{"ops": ops, "final": final}}
	}
	return c, nil
}

// pmax: the highest chain position the value can have had when the subscription read it (its write was called
// before the subscribe call returned). Every edge above it certainly belongs to the subscription's stream.
func (c *xchain) pmax(s *xsub) int {
	m := 0
	for p := 1; p < len(c.Vals); p++ {
		if c.Created[p].Call < s.SubRet {
			m = p
		}
	}
	return m
}

// stale: the value at position p had been replaced (the replacing write had returned) before subscribe was called.
func (c *xchain) stale(s *xsub, p int) bool {
	return p+1 < len(c.Vals) && c.Created[p+1].Ret < s.SubCall
}

// need: the highest position whose write returned before the unsubscribe call (or the final position while subscribed);
// everything up to it has been delivered to the subscription.
func (c *xchain) need(s *xsub) int {
	if !s.Unsub {
		return c.final()
	}
	m := 0
	for p := 1; p < len(c.Vals); p++ {
		if c.Created[p].Ret < s.UnsubCall {
			m = p
		}
	}
	return m
}

// ---------------------------------------------------------------- oracle

func checkXSub(c *xchain, s *xsub, st *runStats) (fp, what string) {
	k := s.P.Kind
	bad := func(f, w string) (string, string) { return "variants/" + k + "/" + f, k + ": " + w }
	s.UnsubRetFinal = s.unsubRet.Load()
	for _, in := range s.Insts {
		in.Tears = in.tears.Load()
	}
	st.subs++
	st.callbacks += len(s.Cbs) + len(s.Conds)
	overlap := false
	for p := 1; p < len(c.Vals); p++ {
		if e := c.Created[p]; e.Call < s.SubRet && e.Ret > s.SubCall {
			st.overlapPairs++
			st.nontrivial = true
			overlap = true
		}
	}
	if s.afterUnsub.Load() > 0 {
		return bad("callback-after-unsubscribe", "a callback started after the unsubscribe call had returned")
	}
	if s.overlaps.Load() > 0 {
		return bad("callbacks-overlap", "two callbacks of one subscription ran concurrently")
	}
	for _, cb := range s.Cbs {
		if _, on := c.pos[cb.New]; !on {
			return bad("value-never-stored", fmt.Sprintf("reported value %d was never stored by a writer", cb.New))
		}
		if cb.Prev > 0 {
			if _, on := c.pos[cb.Prev]; !on {
				return bad("value-never-stored", fmt.Sprintf("reported previous value %d was never stored by a writer", cb.Prev))
			}
		}
	}
	pmax, need := c.pmax(s), c.need(s)
	switch k {
	case "once":
		st.add("once_subscriptions", 1)
		if s.P.Cond != "" {
			st.add("once_subscriptions_with_condition", 1)
		}
		if len(s.Cbs) > 1 {
			return bad("called-more-than-once", fmt.Sprintf("the one-shot callback ran %d times", len(s.Cbs)))
		}
		if len(s.Cbs) == 0 {
			if universalOnNonZero(s.P.Cond) && need >= 1 {
				return bad("never-called", "the value was non-zero before unsubscribe was called / at the end, but the one-shot callback never ran")
			}
			for q := pmax + 1; q <= need; q++ {
				if evalCond(s.P.Cond, c.Vals[q-1], c.Vals[q]) {
					return bad("never-called", fmt.Sprintf("the change %d -> %d happened after subscription, was delivered before unsubscribe and satisfies the condition, but the one-shot callback never ran", c.Vals[q-1], c.Vals[q]))
				}
			}
			return
		}
		cb := s.Cbs[0]
		p := c.pos[cb.New]
		if cb.New == 0 {
			return bad("reported-zero-state", "the one-shot callback was called with new value 0")
		}
		if !evalCond(s.P.Cond, cb.Prev, cb.New) {
			return bad("condition-not-satisfied", fmt.Sprintf("called with (%d -> %d) which does not satisfy the condition %s", cb.Prev, cb.New, s.P.Cond))
		}
		for _, ce := range s.Conds { // the condition function is user code: the first pair it accepted is the one owed
			if ce.Res {
				if ce.Prev != cb.Prev || ce.New != cb.New {
					return bad("not-the-first-satisfying-state", fmt.Sprintf("the condition first held for (%d -> %d) but the callback was handed (%d -> %d)", ce.Prev, ce.New, cb.Prev, cb.New))
				}
				break
			}
		}
		if cb.Prev == 0 {
			// state at subscription time (or the genuine first edge 0 -> Vals[1])
			if p >= 2 && c.Created[p].Call > s.SubRet {
				return bad("later-state-reported-as-initial", fmt.Sprintf("called with (0 -> %d) although %d was written only after the subscribe call had returned", cb.New, cb.New))
			}
			if c.stale(s, p) {
				return bad("initial-value-stale", fmt.Sprintf("called with (0 -> %d) although the write replacing %d had returned before the subscribe call", cb.New, cb.New))
			}
			if c.Created[p].Call < s.SubRet {
				st.add("once_initial_state_deliveries", 1)
				if overlap {
					st.add("once_on_nonzero_value_with_write_in_flight", 1)
				}
			}
			return
		}
		if c.pos[cb.Prev]+1 != p {
			return bad("not-a-chain-edge", fmt.Sprintf("called with (%d -> %d) which is not a transition the variable made", cb.Prev, cb.New))
		}
		if universalOnNonZero(s.P.Cond) {
			// values never return to zero: the first element of every stream has previous value 0
			return bad("later-change-instead-of-subscription-state", fmt.Sprintf("called with the later change (%d -> %d) instead of the state at subscription time (0 -> v)", cb.Prev, cb.New))
		}
		if c.Created[p].Ret < s.SubCall {
			return bad("change-before-subscription", fmt.Sprintf("called with (%d -> %d), a change whose write had returned before the subscribe call", cb.Prev, cb.New))
		}
		for q := pmax + 1; q < p; q++ {
			if evalCond(s.P.Cond, c.Vals[q-1], c.Vals[q]) {
				return bad("earlier-satisfying-change-skipped", fmt.Sprintf("called with (%d -> %d) although the earlier change (%d -> %d), made after subscription, satisfies the condition", cb.Prev, cb.New, c.Vals[q-1], c.Vals[q]))
			}
		}
		return

	case "onupdate", "ctx", "log":
		flag := s.P.Flag && k != "log"
		last, have := 0, false
		for i, cb := range s.Cbs {
			p := c.pos[cb.New]
			if i == 0 {
				if cb.Prev > 0 {
					return bad("first-callback-prev-not-zero", fmt.Sprintf("first callback has previous value %d", cb.Prev))
				}
				if cb.New == 0 && !flag {
					return bad("initial-zero-without-flag", "callback (0,0) delivered although triggerWithInitialZeroValue was not set")
				}
				if p >= 2 && c.Created[p].Call > s.SubRet {
					return bad("later-state-reported-as-initial", fmt.Sprintf("first callback (0 -> %d) although %d was written only after the subscribe call had returned", cb.New, cb.New))
				}
				if c.stale(s, p) {
					return bad("initial-value-stale", fmt.Sprintf("first callback reports %d although the write replacing it had returned before the subscribe call", cb.New))
				}
			} else {
				if cb.Prev >= 0 && cb.Prev != last {
					return bad("gap-or-duplicate", fmt.Sprintf("callback %d has previous value %d but the preceding callback reported new value %d", i, cb.Prev, last))
				}
				if p != c.pos[last]+1 {
					return bad("gap-or-duplicate", fmt.Sprintf("callback %d reports %d after %d: not the next value of the chain", i, cb.New, last))
				}
			}
			if i > 0 && cb.In < s.Cbs[i-1].Out {
				return bad("callbacks-overlap", "callback intervals of one subscription overlap")
			}
			last, have = cb.New, true
		}
		if need >= 1 && (!have || c.pos[last] < need) {
			if !s.Unsub {
				return bad("last-callback-not-final", fmt.Sprintf("subscription still registered: last reported value %d (callbacks: %d) but Get() = %d", last, len(s.Cbs), c.Vals[c.final()]))
			}
			return bad("update-before-unsubscribe-not-delivered", fmt.Sprintf("a write returned before unsubscribe was called but the last reported value %d (have=%v) precedes it on the chain", last, have))
		}
		if k == "ctx" {
			st.add("contexts", len(s.Insts))
			if len(s.Insts) != len(s.Cbs) {
				return bad("context-bookkeeping", "internal: contexts and callbacks differ in number")
			}
			return checkLifecycle(s, bad, !s.Unsub)
		}
		return

	case "withvalue", "nonempty":
		st.add("value_setups", len(s.Insts))
		sat := func(v int) bool { return evalCond(s.P.Cond, -1, v) }
		prev := -1
		for i, in := range s.Insts {
			p := c.pos[in.Val]
			if !sat(in.Val) {
				return bad("setup-for-value-failing-condition", fmt.Sprintf("set-up called for value %d which does not satisfy the condition %s", in.Val, s.P.Cond))
			}
			if i == 0 {
				// the initial state or a later satisfying value: either way current at or after subscription time
				if c.stale(s, p) {
					return bad("initial-value-stale", fmt.Sprintf("first set-up for %d although the write replacing it had returned before the subscribe call", in.Val))
				}
				for q := pmax + 1; q < p; q++ {
					if sat(c.Vals[q]) {
						return bad("satisfying-value-skipped", fmt.Sprintf("first set-up for %d although the earlier value %d, written after subscription, satisfies the condition", in.Val, c.Vals[q]))
					}
				}
			} else {
				if p <= prev {
					return bad("setup-out-of-order-or-duplicate", fmt.Sprintf("set-up for %d after the set-up for %d (chain positions %d, %d)", in.Val, c.Vals[prev], p, prev))
				}
				for q := prev + 1; q < p; q++ {
					if sat(c.Vals[q]) {
						return bad("satisfying-value-skipped", fmt.Sprintf("set-ups for %d and then %d although the value %d in between satisfies the condition", c.Vals[prev], in.Val, c.Vals[q]))
					}
				}
			}
			prev = p
		}
		if len(s.Insts) == 0 && (s.P.Cond == "" || s.P.Cond == "true") {
			return bad("no-initial-setup", "no set-up at all although every value (the initial one included) qualifies")
		}
		for q := max(prev, pmax) + 1; q <= need; q++ {
			if sat(c.Vals[q]) {
				return bad("satisfying-value-not-set-up", fmt.Sprintf("value %d satisfies the condition and was delivered before unsubscribe / the end, but the last set-up was for position %d", c.Vals[q], prev))
			}
		}
		return checkLifecycle(s, bad, !s.Unsub && prev == c.final())
	}
	return
}

// checkLifecycle: every set-up instance (context) is torn down exactly once, before the next one is set up; the last
// one stays alive iff lastAlive.
func checkLifecycle(s *xsub, bad func(f, w string) (string, string), lastAlive bool) (fp, what string) {
	for i, in := range s.Insts {
		if in.PrevAlive {
			return bad("two-setups-alive", fmt.Sprintf("set-up %d (value %d) ran while the preceding set-up had not been torn down", i, in.Val))
		}
		if !in.HasTeardown {
			continue
		}
		want := int32(1)
		if i == len(s.Insts)-1 && lastAlive {
			want = 0
		}
		switch {
		case in.Tears > 1:
			return bad("teardown-ran-more-than-once", fmt.Sprintf("the teardown of set-up %d (value %d) ran %d times", i, in.Val, in.Tears))
		case in.Tears < want:
			return bad("setup-not-torn-down", fmt.Sprintf("set-up %d of %d (value %d) was never torn down (unsubscribed=%v)", i, len(s.Insts), in.Val, s.Unsub))
		case in.Tears > want:
			return bad("live-setup-torn-down", fmt.Sprintf("the set-up for the current value %d was torn down although the subscription is registered and the value unchanged", in.Val))
		}
	}
	return
}

func (s *xsub) dump() map[string]any {
	return map[string]any{"id": s.ID, "plan": s.P, "subCall": s.SubCall, "subRet": s.SubRet, "unsub": s.Unsub, "unsubCall": s.UnsubCall, "unsubRet": s.UnsubRetFinal, "callbacks": s.Cbs, "condition_calls": s.Conds, "setups": s.Insts}
}

// runSubscribers starts S goroutines that subscribe / unsubscribe according to their plans.
func runSubscribers(api subAPI, plans [][]xplan, start chan struct{}, wg *sync.WaitGroup, pn *panics) [][]*xsub {
	subs := make([][]*xsub, len(plans))
	for g := range plans {
		wg.Add(1)
		go func(g int) {
			defer wg.Done()
			defer pn.guard(fmt.Sprintf("subscriber %d", g))
			<-start
			for k, p := range plans[g] {
				yield(p.Pre)
				sb := &xsub{ID: g*100 + k, P: p}
				subs[g] = append(subs[g], sb)
				doSubscribe(api, sb, pn)
				progress.Add(1)
			}
		}(g)
	}
	return subs
}

func doSubscribe(api subAPI, sb *xsub, pn *panics) {
	sb.SubCall = tick()
	unsub := sb.subscribe(api)
	sb.SubRet = tick()
	if sb.P.U.Unsub {
		yield(sb.P.Hold)
		sb.Unsub = true
		sb.UnsubCall = tick()
		unsubscribeN(unsub, sb.P.U.Calls, sb.P.U.Other, sb.P.U.Gap, &sb.unsubRet, pn)
	}
}

// ---------------------------------------------------------------- family: Variable[int]

func runVariantsVar(rng *rand.Rand) (viols []viol, st runStats) {
	W := 1 + rng.Intn(3)
	S := 1 + rng.Intn(4)
	nOps := 6 + rng.Intn(40)
	initNZ := rng.Intn(4) != 0
	slowP := rng.Intn(3)
	st.shape = fmt.Sprintf("variants/var/w%d/s%d/init%v/slow%d", W, S, initNZ, slowP)
	wplans := make([][]wstep, W)
	for w := range wplans {
		for k := 0; k < nOps; k++ {
			kind := "set"
			switch r := rng.Intn(10); {
			case r < 5:
				kind = "set"
			case r < 8:
				kind = "compute"
			case r < 9:
				kind = "compute-same"
			default:
				kind = "defaultto"
			}
			wplans[w] = append(wplans[w], wstep{kind, rng.Intn(4)})
		}
	}
	plans := make([][]xplan, S)
	for s := range plans {
		for k, n := 0, 2+rng.Intn(6); k < n; k++ {
			plans[s] = append(plans[s], genXPlan(rng, false, slowP))
		}
	}
	// values are unique and handed out in increasing order by one counter: the position in the stream is unambiguous
	var next atomic.Int64
	v := reactive.NewVariable[int]()
	var ops []vop
	if initNZ {
		val := int(next.Add(1))
		c0 := tick()
		v.Init(val)
		ops = append(ops, vop{Kind: "init", W: -1, Call: c0, Ret: tick(), Prev: 0, New: val, Changed: true})
	}
	var pn panics
	start := make(chan struct{})
	var wg sync.WaitGroup
	wlogs := make([][]vop, W)
	for w := 0; w < W; w++ {
		wg.Add(1)
		go func(w int) {
			defer wg.Done()
			defer pn.guard(fmt.Sprintf("writer %d", w))
			<-start
			for _, stp := range wplans[w] {
				yield(stp.Yield)
				val := int(next.Add(1))
				o := vop{Kind: stp.Kind, W: w}
				o.Call = tick()
				switch stp.Kind {
				case "set":
					o.Prev, o.New = v.Set(val), val
				case "compute":
					o.Prev, o.New = v.Compute(func(int) int { return val }), val
				case "compute-same":
					o.Prev = v.Compute(func(cur int) int { return cur })
					o.New = o.Prev
				case "defaultto":
					nv, upd := v.DefaultTo(val)
					if upd {
						o.Prev, o.New = 0, nv
					} else {
						o.Prev, o.New = nv, nv
					}
				}
				o.Ret = tick()
				o.Changed = o.Prev != o.New
				wlogs[w] = append(wlogs[w], o)
				progress.Add(1)
			}
		}(w)
	}
	subs := runSubscribers(varAPI[int]{v, func(x int) int { return x }}, plans, start, &wg, &pn)
	close(start)
	wg.Wait()
	// tail: six consecutive values after all subscription activity – every condition used here holds for one of them
	func() {
		defer pn.guard("tail writer")
		for k := 0; k < 6; k++ {
			val := int(next.Add(1))
			o := vop{Kind: "set", W: W, New: val}
			o.Call = tick()
			o.Prev = v.Set(val)
			o.Ret = tick()
			o.Changed = o.Prev != o.New
			ops = append(ops, o)
		}
	}()
	st.add("redundant_unsubscribe_calls", int(redundantUnsubs.Swap(0)))
	final := v.Get()
	if len(pn.rec) > 0 {
		return []viol{{"variants/var/panic", "panic inside a reactive.Variable operation: " + pn.rec[0].Value, pn.rec}}, st
	}
	for _, l := range wlogs {
		ops = append(ops, l...)
	}
	st.ops = len(ops)
	c, cv := buildChain(ops, final)
	if cv != nil {
		return []viol{*cv}, st
	}
	for g := range subs {
		for _, sb := range subs[g] {
			if fp, what := checkXSub(c, sb, &st); fp != "" {
				viols = append(viols, viol{fp, what, map[string]any{"subscription": sb.dump(), "chain": c.Vals, "writes": ops}})
			}
		}
	}
	return
}

// ---------------------------------------------------------------- family: Event (a Variable[bool])

func runVariantsEvent(rng *rand.Rand) (viols []viol, st runStats) {
	T := 1 + rng.Intn(2)
	nBefore, nDuring, nAfter := rng.Intn(4), 1+rng.Intn(5), 1+rng.Intn(3)
	slowP := rng.Intn(3)
	st.shape = fmt.Sprintf("variants/event/t%d/b%d/d%d/a%d/slow%d", T, nBefore, nDuring, nAfter, slowP)
	e := reactive.NewEvent()
	api := varAPI[bool]{e, b2i}
	var pn panics
	var all []*xsub
	for i := 0; i < nBefore; i++ {
		sb := &xsub{ID: len(all), P: genXPlan(rng, true, slowP)}
		all = append(all, sb)
		func() {
			defer pn.guard("subscriber before")
			doSubscribe(api, sb, &pn)
		}()
	}
	var wmu sync.Mutex
	var writes []evWrite
	start := make(chan struct{})
	var wg sync.WaitGroup
	trueKinds := []string{"trigger", "trigger", "set-true", "compute-true", "defaultto-true"}
	falseKinds := []string{"set-false", "compute-false", "defaultto-false"}
	for t := 0; t < T; t++ {
		y := rng.Intn(40)
		kind := trueKinds[rng.Intn(len(trueKinds))]
		noise := ""
		if rng.Intn(3) == 0 {
			noise = falseKinds[rng.Intn(len(falseKinds))]
		}
		wg.Add(1)
		go func() {
			defer wg.Done()
			defer pn.guard("trigger")
			<-start
			yield(y)
			if noise != "" {
				doEvWrite(e, noise)
			}
			w := doEvWrite(e, kind)
			wmu.Lock()
			writes = append(writes, w)
			wmu.Unlock()
			if noise != "" {
				doEvWrite(e, noise)
			}
			progress.Add(1)
		}()
	}
	plans := make([][]xplan, nDuring)
	for i := range plans {
		plans[i] = []xplan{genXPlan(rng, true, slowP)}
		plans[i][0].Pre = rng.Intn(40)
	}
	during := runSubscribers(api, plans, start, &wg, &pn)
	close(start)
	wg.Wait()
	for _, l := range during {
		for _, sb := range l {
			sb.ID = len(all)
			all = append(all, sb)
		}
	}
	for i := 0; i < nAfter; i++ {
		sb := &xsub{ID: len(all), P: genXPlan(rng, true, slowP)}
		all = append(all, sb)
		func() {
			defer pn.guard("subscriber after")
			doSubscribe(api, sb, &pn)
		}()
	}
	st.add("redundant_unsubscribe_calls", int(redundantUnsubs.Swap(0)))
	if len(pn.rec) > 0 {
		return []viol{{"variants/event/panic", "panic inside a reactive.Event operation: " + pn.rec[0].Value, pn.rec}}, st
	}
	if !e.Get() {
		return []viol{{"event/value-false-after-trigger", "all triggering calls have returned but Get() is false", writes}}, st
	}
	// the single edge false -> true: called no earlier than the earliest triggering call; known to have returned
	// when the call that reports to have been first returned (else: when the earliest of them returned)
	edge := &vop{Kind: "trigger", Prev: 0, New: 1, Changed: true}
	firsts := 0
	for _, w := range writes {
		if edge.Call == 0 || w.Call < edge.Call {
			edge.Call = w.Call
		}
		if w.FirstKnown {
			firsts++
		}
	}
	for _, w := range writes {
		if w.FirstKnown {
			edge.Ret = w.Ret
		}
	}
	st.ops = len(writes)
	if firsts != 1 {
		return []viol{{"event/trigger-first-count", fmt.Sprintf("%d calls reported that they triggered the event first", firsts), writes}}, st
	}
	c := &xchain{Vals: []int{0, 1}, Created: []*vop{nil, edge}, pos: map[int]int{0: 0, 1: 1}}
	for _, sb := range all {
		if fp, what := checkXSub(c, sb, &st); fp != "" {
			viols = append(viols, viol{fp, "event: " + what, map[string]any{"subscription": sb.dump(), "writes": writes}})
		}
	}
	return
}

// ---------------------------------------------------------------- family: Set.WithElements

type esub struct {
	ID                         int
	Cond                       string // "", "even", "lt4"
	NilEvery                   int
	SubCall, SubRet, UnsubCall uint64
	unsubRet                   atomic.Uint64
	Unsub                      bool
	afterUnsub                 atomic.Int32
	mu                         sync.Mutex
	n                          int
	latest                     map[int]*xinst
	All                        []*xinst
}

func elemCond(name string, e int) bool {
	switch name {
	case "even":
		return e%2 == 0
	case "lt4":
		return e < 4
	}
	return true
}

func (s *esub) setup(e int) func() {
	t := tick()
	if ur := s.unsubRet.Load(); ur != 0 && t > ur {
		s.afterUnsub.Add(1)
	}
	in := &xinst{Val: e, SetupT: t}
	s.mu.Lock()
	s.n++
	if last := s.latest[e]; last != nil && last.HasTeardown && last.tears.Load() == 0 {
		in.PrevAlive = true
	}
	in.HasTeardown = s.NilEvery == 0 || s.n%s.NilEvery != 0
	s.latest[e] = in
	s.All = append(s.All, in)
	s.mu.Unlock()
	return in.teardown()
}

func runVariantsSet(rng *rand.Rand) (viols []viol, st runStats) {
	const E = 8
	W := 1 + rng.Intn(3)
	S := 1 + rng.Intn(3)
	nOps := 5 + rng.Intn(30)
	st.shape = fmt.Sprintf("variants/set/w%d/s%d", W, S)
	type step struct {
		Kind  string
		A, B  uint32
		Yield int
	}
	plans := make([][]step, W+1)
	gen := func() step {
		kinds := []string{"add", "add", "delete", "delete", "toggle", "addall", "deleteall", "replace", "apply", "clear", "decode", "decode"}
		stp := step{Kind: kinds[rng.Intn(len(kinds))], Yield: rng.Intn(4)}
		switch stp.Kind {
		case "add", "delete", "toggle":
			stp.A = 1 << uint(rng.Intn(E))
		case "apply":
			stp.A = uint32(rng.Intn(1 << E))
			stp.B = uint32(rng.Intn(1<<E)) &^ stp.A
		default:
			stp.A = uint32(rng.Intn(1 << E))
		}
		return stp
	}
	for w := 0; w < W; w++ {
		for k := 0; k < nOps; k++ {
			plans[w] = append(plans[w], gen())
		}
	}
	for k := 0; k < 3; k++ { // tail
		plans[W] = append(plans[W], gen())
	}
	type splan struct {
		Pre, Hold, NilEvery int
		Cond                string
		Unsub               bool
	}
	splans := make([][]splan, S)
	for s := range splans {
		for k, n := 0, 1+rng.Intn(4); k < n; k++ {
			p := splan{Pre: rng.Intn(24), Hold: rng.Intn(40), Cond: []string{"", "even", "lt4"}[rng.Intn(3)], Unsub: rng.Intn(2) == 0}
			if rng.Intn(3) == 0 {
				p.NilEvery = 2 + rng.Intn(3)
			}
			splans[s] = append(splans[s], p)
		}
	}
	// int64 elements: the serialisation used by Decode has no encoding for int
	set := reactive.NewSet[int64]()
	if rng.Intn(2) == 0 {
		set.AddAll(set64(uint32(rng.Intn(1 << E))))
	}
	exec := func(stp step) {
		switch stp.Kind {
		case "add":
			set.Add(int64(bitsTZ(stp.A)))
		case "delete":
			set.Delete(int64(bitsTZ(stp.A)))
		case "toggle":
			e := int64(bitsTZ(stp.A))
			set.Compute(func(cur ds.ReadableSet[int64]) ds.SetMutations[int64] {
				if cur.Has(e) {
					return ds.NewSetMutations[int64]().WithDeletedElements(ds.NewSet(e))
				}
				return ds.NewSetMutations[int64](e)
			})
		case "addall":
			set.AddAll(set64(stp.A))
		case "deleteall":
			set.DeleteAll(set64(stp.A))
		case "replace":
			set.Replace(set64(stp.A))
		case "apply":
			set.Apply(ds.NewSetMutations[int64]().WithAddedElements(set64(stp.A)).WithDeletedElements(set64(stp.B)))
		case "clear":
			set.Clear()
		case "decode": // merges the encoded elements into the set
			b, err := set64(stp.A).Encode(serixAPI)
			if err != nil {
				panic(err)
			}
			if _, err = set.Decode(serixAPI, b); err != nil {
				panic(err)
			}
		}
	}
	for _, pl := range plans {
		for _, stp := range pl {
			st.add("set_writes:"+stp.Kind, 1)
		}
	}
	// a plain OnUpdate subscriber registered before everything else folds the reported mutations (adds, then deletes)
	var foldMu sync.Mutex
	var fold uint32
	set.OnUpdate(func(m ds.SetMutations[int64]) {
		foldMu.Lock()
		fold = (fold | mask64(m.AddedElements())) &^ mask64(m.DeletedElements())
		foldMu.Unlock()
	})
	var pn panics
	start := make(chan struct{})
	var wg sync.WaitGroup
	for w := 0; w < W; w++ {
		wg.Add(1)
		go func(w int) {
			defer wg.Done()
			defer pn.guard(fmt.Sprintf("set writer %d", w))
			<-start
			for _, stp := range plans[w] {
				yield(stp.Yield)
				exec(stp)
				progress.Add(1)
			}
		}(w)
	}
	subs := make([][]*esub, S)
	for g := 0; g < S; g++ {
		wg.Add(1)
		go func(g int) {
			defer wg.Done()
			defer pn.guard(fmt.Sprintf("set subscriber %d", g))
			<-start
			for k, p := range splans[g] {
				yield(p.Pre)
				sb := &esub{ID: g*100 + k, Cond: p.Cond, NilEvery: p.NilEvery, latest: map[int]*xinst{}}
				subs[g] = append(subs[g], sb)
				sb.SubCall = tick()
				var unsub func()
				setup := func(e int64) func() { return sb.setup(int(e)) }
				if p.Cond == "" {
					unsub = set.WithElements(setup)
				} else {
					unsub = set.WithElements(setup, func(e int64) bool { return elemCond(p.Cond, int(e)) })
				}
				sb.SubRet = tick()
				if p.Unsub {
					yield(p.Hold)
					sb.Unsub = true
					sb.UnsubCall = tick()
					unsub() // called once: the teardown of WithElements is not meant to be called concurrently with itself
					sb.unsubRet.Store(tick())
				}
				progress.Add(1)
			}
		}(g)
	}
	close(start)
	wg.Wait()
	func() {
		defer pn.guard("set tail writer")
		for _, stp := range plans[W] {
			exec(stp)
		}
	}()
	if len(pn.rec) > 0 {
		return []viol{{"variants/set/panic", "panic inside a reactive.Set operation: " + pn.rec[0].Value, pn.rec}}, st
	}
	final := mask64(set)
	st.ops = W*nOps + 3
	if fold != final {
		return []viol{{"variants/set/fold-differs-from-contents", fmt.Sprintf("folding the mutations reported to a subscriber registered from the start yields %s but the set holds %s", mstr(fold), mstr(final)), nil}}, st
	}
	for g := range subs {
		for _, sb := range subs[g] {
			st.subs++
			st.callbacks += len(sb.All)
			st.add("element_setups", len(sb.All))
			st.nontrivial = st.nontrivial || len(sb.All) > 0
			for _, in := range sb.All {
				in.Tears = in.tears.Load()
			}
			bad := func(f, w string) {
				viols = append(viols, viol{"variants/withelements/" + f, "WithElements: " + w, map[string]any{"id": sb.ID, "condition": sb.Cond, "unsub": sb.Unsub, "setups": sb.All, "final": mstr(final)}})
			}
			if sb.afterUnsub.Load() > 0 {
				bad("callback-after-unsubscribe", "a set-up started after the teardown call had returned")
				continue
			}
		insts:
			for _, in := range sb.All {
				isLatest := sb.latest[in.Val] == in
				switch {
				case !elemCond(sb.Cond, in.Val):
					bad("setup-for-element-failing-condition", fmt.Sprintf("set-up called for element %d which does not satisfy the condition %s", in.Val, sb.Cond))
					break insts
				case in.PrevAlive:
					bad("element-set-up-twice", fmt.Sprintf("element %d was set up again while its preceding set-up had not been torn down", in.Val))
					break insts
				case !in.HasTeardown:
				case in.Tears > 1:
					bad("teardown-ran-more-than-once", fmt.Sprintf("the teardown of element %d ran %d times", in.Val, in.Tears))
					break insts
				case in.Tears == 0 && (sb.Unsub || !isLatest || final&(1<<uint(in.Val)) == 0):
					bad("setup-not-torn-down", fmt.Sprintf("the set-up of element %d was never torn down (unsubscribed=%v, latest=%v, set at the end %s)", in.Val, sb.Unsub, isLatest, mstr(final)))
					break insts
				case in.Tears == 1 && !sb.Unsub && isLatest && final&(1<<uint(in.Val)) != 0:
					bad("live-setup-torn-down", fmt.Sprintf("element %d is in the set and the subscription registered, but its latest set-up was torn down", in.Val))
					break insts
				}
			}
			if !sb.Unsub {
				for e := 0; e < E; e++ {
					if final&(1<<uint(e)) != 0 && elemCond(sb.Cond, e) && sb.latest[e] == nil {
						bad("element-never-set-up", fmt.Sprintf("element %d is in the set at the end and satisfies the condition but was never set up", e))
						break
					}
				}
			}
		}
	}
	return
}

var serixAPI = serix.NewAPI()

func mask64(s ds.ReadableSet[int64]) (m uint32) {
	s.Range(func(e int64) { m |= 1 << uint(e) })
	return
}

func set64(m uint32) ds.Set[int64] {
	s := ds.NewSet[int64]()
	for e := 0; e < 32; e++ {
		if m&(1<<uint(e)) != 0 {
			s.Add(int64(e))
		}
	}
	return s
}

func bitsTZ(m uint32) int {
	for e := 0; e < 32; e++ {
		if m&(1<<uint(e)) != 0 {
			return e
		}
	}
	return 0
}

func runVariants(rng *rand.Rand) ([]viol, runStats) {
	switch r := rng.Intn(100); {
	case r < 66:
		return runVariantsVar(rng)
	case r < 82:
		return runVariantsEvent(rng)
	default:
		return runVariantsSet(rng)
	}
}
