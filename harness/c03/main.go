// C03 – fixed wire format; validated decoding accepts only canonical bytes.
//
// Forward: Encode(x) is compared byte for byte with an independent reference encoder
// (verif/harness/internal/sergen/ref.go – standard library only) that walks the harness's own
// (schema, value) tree. Reverse: valid encodings are mutated at structurally interesting
// offsets; whenever Decode(b, WithValidation) accepts and consumes n bytes, re-encoding the
// decoded value with validation must succeed and give exactly b[:n].
package main

import (
	"bytes"
	"context"
	"encoding/binary"
	"encoding/hex"
	"fmt"
	"math"
	"math/rand"
	"os"
	"runtime"
	"sort"
	"strings"
	"sync"

	"github.com/iotaledger/hive.go/serializer/v2/serix"
	"verif/harness/internal/sergen"
	"verif/harness/internal/vf"
)

type replayRec struct {
	Dir        string `json:"direction"` // forward | reverse
	Static     bool   `json:"static,omitempty"`
	USeed      int64  `json:"universe_seed"`
	ShapeIdx   int    `json:"shape_idx"`
	ValIdx     int    `json:"val_idx"`
	Validation bool   `json:"validation"`
	Mutant     string `json:"mutant_hex,omitempty"` // reverse: the byte string handed to Decode
	// description
	Shape    string `json:"shape,omitempty"`
	GoType   string `json:"go_type,omitempty"`
	Mutation string `json:"mutation,omitempty"`
	Got      string `json:"encode_hex,omitempty"`
	Want     string `json:"reference_hex,omitempty"`
	Detail   string `json:"detail,omitempty"`
}

type viol struct {
	fp, what string
	rec      replayRec
}

type stats struct {
	n        map[string]int64
	distinct map[string]map[string]struct{}
	viols    []viol
	perFP    map[string]int
	notes    []string
	noted    map[string]bool
	samples  []any
}

func newStats() *stats {
	return &stats{n: map[string]int64{}, distinct: map[string]map[string]struct{}{}, perFP: map[string]int{}, noted: map[string]bool{}}
}
func (s *stats) count(k string, n int) { s.n[k] += int64(n) }
func (s *stats) dist(class, key string) {
	m := s.distinct[class]
	if m == nil {
		m = map[string]struct{}{}
		s.distinct[class] = m
	}
	m[key] = struct{}{}
}
func (s *stats) violation(fp, what string, rec replayRec) {
	s.perFP[fp]++
	s.count("refuting_observations", 1)
	if s.perFP[fp] <= 2 {
		s.viols = append(s.viols, viol{fp, what, rec})
	}
}
func (s *stats) note(key, text string) {
	if !s.noted[key] && len(s.notes) < 6 {
		s.noted[key] = true
		s.notes = append(s.notes, text)
	}
}

type agg struct {
	mu    sync.Mutex
	c     *vf.Ctx
	noted map[string]bool
}

func (a *agg) merge(st *stats) {
	a.mu.Lock()
	defer a.mu.Unlock()
	for k, v := range st.n {
		a.c.Count(k, int(v))
	}
	for cl, m := range st.distinct {
		for k := range m {
			a.c.Distinct(cl, k)
		}
	}
	for _, v := range st.viols {
		a.c.Violation(v.fp, v.what, v.rec)
	}
	for _, n := range st.notes {
		if a.noted == nil {
			a.noted = map[string]bool{}
		}
		if !a.noted[n] && len(a.noted) < 12 {
			a.noted[n] = true
			a.c.Note(n)
		}
	}
	for _, s := range st.samples {
		if a.c.WantSample() {
			a.c.Sample(s)
		}
	}
}

var ctx = context.Background()

// opts: validation on/off plus serix.WithTypeSettings for top-level shapes that carry such settings.
func opts(s *sergen.Shape, validation bool) []serix.Option {
	var o []serix.Option
	if validation {
		o = append(o, serix.WithValidation())
	}
	return append(o, sergen.TopOptions(s)...)
}

func safeEncode(api *serix.API, s *sergen.Shape, x any, validation bool) (b []byte, err error, pan any) {
	defer func() {
		if p := recover(); p != nil {
			pan = p
		}
	}()
	b, err = api.Encode(ctx, x, opts(s, validation)...)
	return
}

func safeDecode(api *serix.API, s *sergen.Shape, b []byte, dst any, validation bool) (n int, err error, pan any) {
	defer func() {
		if p := recover(); p != nil {
			pan = p
		}
	}()
	n, err = api.Decode(ctx, b, dst, opts(s, validation)...)
	return
}

func short(s string, n int) string {
	if len(s) > n {
		return s[:n] + "…"
	}
	return s
}

func firstDiff(a, b []byte) int {
	for i := 0; i < len(a) && i < len(b); i++ {
		if a[i] != b[i] {
			return i
		}
	}
	if len(a) < len(b) {
		return len(a)
	}
	return len(b)
}

func valRng(useed int64, shapeIdx int) *rand.Rand {
	return rand.New(rand.NewSource(useed*1000003 + int64(shapeIdx)*7919 + 29))
}

// what kind of schema node owns offset off of the reference encoding (for the fingerprint)
func markAt(marks []sergen.Mark, off int) string {
	best := "payload"
	bestLen := math.MaxInt
	for _, m := range marks {
		if m.Kind == sergen.MElem {
			continue
		}
		if off >= m.Off && off < m.Off+m.Len && m.Len < bestLen {
			bestLen = m.Len
			best = markName(m)
		}
	}
	return best
}

func markName(m sergen.Mark) string {
	switch m.Kind {
	case sergen.MPrefix:
		return "length-prefix"
	case sergen.MCount:
		return "element-count"
	case sergen.MMarker:
		return "optional-marker"
	case sergen.MCode:
		return "type-code"
	case sergen.MBool:
		return "bool"
	case sergen.MLeaf:
		return "scalar"
	}
	return "payload"
}

// ---------------------------------------------------------------- forward direction

func forward(st *stats, u *sergen.Universe, si int, s *sergen.Shape, v *sergen.Val, vi int, validation bool) (accepted []byte) {
	x := sergen.Build(s, v, rand.New(rand.NewSource(u.Seed+int64(vi)))).Interface()
	b, err, pan := safeEncode(u.API, s, x, validation)
	if u.Static {
		// the custom Serializables of the static universe return windows into a shared arena
		if off, ok := sergen.ArenaIntact(); !ok {
			what := fmt.Sprintf("after Encode the shared arena behind the custom Serializable values is changed at offset %d (slot %d): the encoder wrote into the slice a Serializable returned; shape %s", off, off/4, short(s.String(), 200))
			st.violation("alias/encoder-wrote-into-serializable-backing-array", what, replayRec{Dir: "forward", Static: true, USeed: u.Seed, ShapeIdx: si, ValIdx: vi, Validation: validation,
				Shape: short(s.String(), 600), GoType: short(sergen.Describe(s), 600), Detail: what})
			sergen.ArenaReset()
		}
	}
	rec := func(what string, got, want []byte) replayRec {
		return replayRec{Dir: "forward", Static: u.Static, USeed: u.Seed, ShapeIdx: si, ValIdx: vi, Validation: validation,
			Shape: short(s.String(), 600), GoType: short(sergen.Describe(s), 600), Got: short(hex.EncodeToString(got), 600), Want: short(hex.EncodeToString(want), 600), Detail: what}
	}
	if pan != nil {
		st.count("encoder_panics_not_claimed", 1)
		return nil
	}
	if err != nil {
		st.count("rejected_by_encoder", 1)
		if sergen.ProvablyValid(s, v) {
			// the reference encoder can express the value (every length fits its prefix width, uint256 in
			// range) and all min/max bounds are met, strings are UTF-8, no rule needs re-implementing
			what := fmt.Sprintf("Encode rejected a value that the documented layout can express and that meets all its bounds: %s; shape %s", short(err.Error(), 200), short(s.String(), 200))
			ref, _ := sergen.RefEncode(s, v)
			st.violation("forward:encoder-rejected-representable-value", what, rec(what, nil, ref))
		}
		return nil
	}
	if validation && sergen.HasInvalidUTF8(s, v) {
		what := fmt.Sprintf("Encode with validation accepted a string that is not valid UTF-8 (oracle: unicode/utf8.Valid); shape %s", short(s.String(), 200))
		st.violation("forward:encoder-accepted-non-utf8-string-under-validation", what, rec(what, b, nil))
		return nil
	}
	if sergen.StringBoundsViolated(s, v, validation) {
		what := fmt.Sprintf("Encode accepted a string / byte slice whose byte length lies outside its min/max bounds; shape %s", short(s.String(), 200))
		st.violation("forward:encoder-accepted-string-outside-bounds", what, rec(what, b, nil))
		return nil
	}
	if !sergen.Representable(s, v) {
		what := fmt.Sprintf("Encode accepted (%d bytes) a value the documented layout cannot express (a length beyond its prefix width or a uint256 outside [0, 2^256)); shape %s", len(b), short(s.String(), 200))
		st.violation("forward:encoder-accepted-unrepresentable-value", what, rec(what, b, nil))
		return nil
	}
	ref, marks := sergen.RefEncode(s, v)
	st.count("reference_comparisons", 1)
	if u.Static {
		if t, k := sergen.ArenaCount(s, v); t > 0 {
			st.count("arena_backed_custom_values_encoded", t)
			st.count("arena_backed_custom_map_keys_encoded", k)
			// encoding the very same Go value again must give the same bytes
			if b2, err2, pan2 := safeEncode(u.API, s, x, validation); err2 != nil || pan2 != nil || !bytes.Equal(b, b2) {
				what := fmt.Sprintf("encoding the same value (holding custom Serializables backed by shared storage) a second time gave other bytes / failed (%v %v); shape %s", err2, pan2, short(s.String(), 200))
				st.violation("alias/second-encode-differs", what, replayRec{Dir: "forward", Static: true, USeed: u.Seed, ShapeIdx: si, ValIdx: vi, Validation: validation, Shape: short(s.String(), 600), Detail: what})
				sergen.ArenaReset()
			}
		}
	}
	if s.Top != nil {
		st.count("toplevel_with_type_settings_comparisons", 1)
	}
	st.count("evaluations", 1)
	if !bytes.Equal(b, ref) {
		d := firstDiff(b, ref)
		where := markAt(marks, d)
		if len(b) != len(ref) && d >= len(ref) {
			where = "length"
		}
		fp := "forward:differs-at-" + where
		what := fmt.Sprintf("Encode output (%d bytes) differs from the documented layout (%d bytes) first at offset %d (%s); shape %s", len(b), len(ref), d, where, short(s.String(), 200))
		st.violation(fp, what, replayRec{Dir: "forward", Static: u.Static, USeed: u.Seed, ShapeIdx: si, ValIdx: vi, Validation: validation,
			Shape: short(s.String(), 600), GoType: short(sergen.Describe(s), 600), Got: short(hex.EncodeToString(b), 600), Want: short(hex.EncodeToString(ref), 600), Detail: what})
		return nil
	}
	return b
}

// ---------------------------------------------------------------- reverse direction

type mutant struct {
	b    []byte
	kind string // mutation class
	rule string // array rule class of the collection touched ("" if none)
}

func putLE(b []byte, off, w int, v uint64) {
	switch w {
	case 1:
		b[off] = byte(v)
	case 2:
		binary.LittleEndian.PutUint16(b[off:], uint16(v))
	case 4:
		binary.LittleEndian.PutUint32(b[off:], uint32(v))
	}
}

func getLE(b []byte, off, w int) uint64 {
	switch w {
	case 1:
		return uint64(b[off])
	case 2:
		return uint64(binary.LittleEndian.Uint16(b[off:]))
	}
	return uint64(binary.LittleEndian.Uint32(b[off:]))
}

// mutants derives candidate byte strings from a valid encoding, using the marks of the
// reference encoder to aim at structurally interesting places. Length/count values stay
// small so that no mutant asks a decoder for a huge allocation by construction.
func mutants(b []byte, marks []sergen.Mark, rng *rand.Rand, codes []uint32) []mutant {
	var out []mutant
	add := func(nb []byte, kind, rule string) {
		if !bytes.Equal(nb, b) {
			out = append(out, mutant{nb, kind, rule})
		}
	}
	clone := func() []byte { return append([]byte{}, b...) }
	const capVal = 2000
	if len(marks) > 600 {
		// huge collections (boundary lengths): aim at the outermost structure only
		var keep []sergen.Mark
		for _, m := range marks {
			if m.Kind != sergen.MElem && len(keep) < 4 {
				keep = append(keep, m)
			}
		}
		marks = keep
	}
	// group element marks by collection
	elems := map[int][]sergen.Mark{}
	counts := map[int]sergen.Mark{}
	for _, m := range marks {
		switch m.Kind {
		case sergen.MElem:
			elems[m.Coll] = append(elems[m.Coll], m)
		case sergen.MCount:
			counts[m.Coll] = m
		}
	}
	for _, m := range marks {
		switch m.Kind {
		case sergen.MPrefix, sergen.MCount:
			n := getLE(b, m.Off, m.Len)
			for _, nv := range []uint64{0, 1, n - 1, n + 1, n + 2, 2 * n} {
				if nv == n || nv > capVal || (m.Len == 1 && nv > 255) || int64(nv) < 0 {
					continue
				}
				nb := clone()
				putLE(nb, m.Off, m.Len, nv)
				kind := "prefix-value"
				if m.Kind == sergen.MCount {
					kind = "count-value"
				}
				add(nb, kind, m.Rule)
			}
			if m.Len > 1 {
				// the same number written big-endian
				nb := clone()
				for i := 0; i < m.Len/2; i++ {
					nb[m.Off+i], nb[m.Off+m.Len-1-i] = nb[m.Off+m.Len-1-i], nb[m.Off+i]
				}
				if getLE(nb, m.Off, m.Len) <= capVal {
					add(nb, "prefix-big-endian", m.Rule)
				}
			}
		case sergen.MMarker:
			n := getLE(b, m.Off, 4)
			for _, nv := range []uint64{0, 1, n - 1, n + 1, n + 4} {
				if nv == n || nv > capVal || int64(nv) < 0 {
					continue
				}
				nb := clone()
				putLE(nb, m.Off, 4, nv)
				add(nb, "optional-marker", "")
			}
		case sergen.MCode:
			for i := 0; i < 3; i++ {
				nb := clone()
				var c uint32
				if len(codes) > 0 && i < 2 {
					c = codes[rng.Intn(len(codes))]
				} else {
					c = rng.Uint32()
				}
				putLE(nb, m.Off, m.Len, uint64(c))
				add(nb, "type-code", "")
			}
		case sergen.MBool:
			for _, nv := range []byte{b[m.Off] ^ 1, 2, 0xff, 0x80} {
				nb := clone()
				nb[m.Off] = nv
				add(nb, "bool-byte", "")
			}
		case sergen.MLeaf:
			if rng.Intn(3) == 0 {
				nb := clone()
				nb[m.Off+rng.Intn(m.Len)] ^= 1 << uint(rng.Intn(8))
				add(nb, "scalar-bit", "")
			}
		}
	}
	// element level: swap, duplicate (with and without adjusting the count), drop, reverse
	ids := make([]int, 0, len(elems))
	for id := range elems {
		ids = append(ids, id)
	}
	sort.Ints(ids)
	for _, id := range ids {
		es := elems[id]
		cm, ok := counts[id]
		if !ok || len(es) == 0 {
			continue
		}
		sort.Slice(es, func(i, j int) bool { return es[i].Off < es[j].Off })
		start, end := es[0].Off, es[len(es)-1].Off+es[len(es)-1].Len
		part := func(i int) []byte { return b[es[i].Off : es[i].Off+es[i].Len] }
		rebuild := func(order []int, newCount int) []byte {
			nb := append([]byte{}, b[:start]...)
			for _, i := range order {
				nb = append(nb, part(i)...)
			}
			nb = append(nb, b[end:]...)
			if newCount >= 0 && newCount <= capVal && !(cm.Len == 1 && newCount > 255) {
				putLE(nb, cm.Off, cm.Len, uint64(newCount))
			}
			return nb
		}
		idx := make([]int, len(es))
		for i := range idx {
			idx[i] = i
		}
		n := len(es)
		if n >= 2 {
			i := rng.Intn(n - 1)
			o := append([]int{}, idx...)
			o[i], o[i+1] = o[i+1], o[i]
			add(rebuild(o, -1), "element-swap", cm.Rule)
			rev := make([]int, n)
			for k := range rev {
				rev[k] = n - 1 - k
			}
			add(rebuild(rev, -1), "element-reverse", cm.Rule)
		}
		{
			i := rng.Intn(n)
			o := append(append(append([]int{}, idx[:i+1]...), i), idx[i+1:]...) // duplicate element i in place
			add(rebuild(o, n+1), "element-duplicate", cm.Rule)
			o2 := append(append([]int{}, idx...), i) // duplicate at the end
			add(rebuild(o2, n+1), "element-duplicate", cm.Rule)
			if n >= 2 {
				j := (i + 1) % n
				o3 := append([]int{}, idx...)
				o3[j] = i // replace another element by a copy (count unchanged)
				add(rebuild(o3, -1), "element-duplicate", cm.Rule)
			}
			o4 := append(append([]int{}, idx[:i]...), idx[i+1:]...) // drop element i
			add(rebuild(o4, n-1), "element-drop", cm.Rule)
		}
	}
	// tails and truncations
	for _, k := range []int{1, 4, 9} {
		nb := append(clone(), make([]byte, k)...)
		rng.Read(nb[len(b):])
		add(nb, "overlong-tail", "")
	}
	if len(b) > 0 {
		for i := 0; i < 2; i++ {
			add(clone()[:rng.Intn(len(b))], "truncation", "")
		}
		for i := 0; i < 2; i++ {
			nb := clone()
			nb[rng.Intn(len(nb))] = byte(rng.Intn(256))
			add(nb, "random-byte", "")
		}
	}
	return out
}

// hasSaturatedTime: the decoded value holds a timestamp at/above the int64-nanosecond limit
// or before the epoch (which only an out-of-range stamp can produce) – excluded by the statement.
func hasSaturatedTime(s *sergen.Shape, v *sergen.Val) bool {
	if v.Nil {
		return false
	}
	switch s.Kind {
	case sergen.Time:
		return v.Time.Unix() < 0 || v.Time.UnixNano() == math.MaxInt64
	case sergen.Array, sergen.Slice:
		for _, e := range v.L {
			if hasSaturatedTime(s.Elem, e) {
				return true
			}
		}
	case sergen.Map:
		for i := 0; i+1 < len(v.L); i += 2 {
			if hasSaturatedTime(s.Key, v.L[i]) || hasSaturatedTime(s.Elem, v.L[i+1]) {
				return true
			}
		}
	case sergen.Struct:
		for i, f := range s.Fields {
			if hasSaturatedTime(f.S, v.L[i]) {
				return true
			}
		}
	case sergen.Ptr:
		return hasSaturatedTime(s.Elem, v.L[0])
	case sergen.Iface:
		if v.Impl < 0 {
			return false
		}
		return hasSaturatedTime((*s.Impls)[v.Impl], v.L[0])
	}
	return false
}

// reverseOne decodes one candidate with validation and checks canonicity.
func reverseOne(st *stats, u *sergen.Universe, si int, s *sergen.Shape, vi int, orig []byte, m mutant) {
	st.count("reverse_candidates", 1)
	dst := sergen.New(s)
	in := append([]byte{}, m.b...)
	n, err, pan := safeDecode(u.API, s, m.b, dst.Interface(), true)
	if !bytes.Equal(in, m.b) {
		what := fmt.Sprintf("validated Decode changed the %d input bytes it was given (first difference at offset %d)", len(in), firstDiff(in, m.b))
		st.violation("reverse:decode-mutated-input", what, replayRec{Dir: "reverse", Static: u.Static, USeed: u.Seed, ShapeIdx: si, ValIdx: vi, Validation: true, Mutant: hex.EncodeToString(in),
			Shape: short(s.String(), 600), GoType: short(sergen.Describe(s), 600), Mutation: m.kind, Detail: what})
		copy(m.b, in)
	}
	if pan != nil {
		st.count("decoder_panics_not_claimed_here", 1)
		st.note("decpanic", fmt.Sprintf("observation (C02's subject, not C03's): Decode panicked on a mutated encoding: %v", pan))
		return
	}
	if err != nil {
		st.count("reverse_rejected", 1)
		return
	}
	rec := func(detail string, got []byte) replayRec {
		return replayRec{Dir: "reverse", Static: u.Static, USeed: u.Seed, ShapeIdx: si, ValIdx: vi, Validation: true, Mutant: hex.EncodeToString(m.b),
			Shape: short(s.String(), 600), GoType: short(sergen.Describe(s), 600), Mutation: m.kind, Got: short(hex.EncodeToString(got), 600), Detail: detail}
	}
	rule := m.rule
	if rule == "" {
		rule = "none"
	}
	if n < 0 || n > len(m.b) {
		what := fmt.Sprintf("validated Decode accepted a %s mutant and reported %d bytes read of %d", m.kind, n, len(m.b))
		st.violation("reverse:bytes-read-out-of-range", what, rec(what, nil))
		return
	}
	got := sergen.Extract(s, dst.Elem())
	if hasSaturatedTime(s, got) {
		st.count("reverse_skipped_time_saturation", 1)
		return
	}
	st.count("reverse_accepted", 1)
	st.count("evaluations", 1)
	nontrivial := !bytes.Equal(m.b[:n], orig)
	if nontrivial {
		st.count("reverse_accepted_nontrivial", 1)
		st.count("accepted_mutants/rule="+rule, 1)
		st.count("accepted_mutants/kind="+m.kind, 1)
		st.dist("nontrivial", fmt.Sprintf("%016x/%s/%s", s.Hash(), m.kind, rule))
	}
	b2, err2, pan2 := safeEncode(u.API, s, dst.Elem().Interface(), true)
	switch {
	case pan2 != nil || err2 != nil:
		what := fmt.Sprintf("validated Decode accepted a %s mutant (%d of %d bytes) but the decoded value cannot be re-encoded with validation: %v %v", m.kind, n, len(m.b), err2, pan2)
		st.violation("reverse:accepted-but-not-encodable:"+m.kind+":"+rule, what, rec(what, nil))
	case !bytes.Equal(b2, m.b[:n]):
		what := fmt.Sprintf("validated Decode accepted a %s mutant (consumed %d of %d bytes) that is not canonical: re-encoding gives %d bytes, first difference at offset %d", m.kind, n, len(m.b), len(b2), firstDiff(b2, m.b[:n]))
		st.violation("reverse:non-canonical-accepted:"+m.kind+":"+rule, what, rec(what, b2))
	}
}

func allocSafe(s *sergen.Shape, depth int) bool {
	if depth > 10 {
		return true
	}
	switch s.Kind {
	case sergen.String, sergen.Bytes:
		return s.LP <= 2
	case sergen.Array, sergen.Slice, sergen.Ptr:
		return allocSafe(s.Elem, depth+1)
	case sergen.Map:
		return allocSafe(s.Key, depth+1) && allocSafe(s.Elem, depth+1)
	case sergen.Struct:
		for _, f := range s.Fields {
			if !allocSafe(f.S, depth+1) {
				return false
			}
		}
	case sergen.Iface:
		for _, im := range *s.Impls {
			if !allocSafe(im, depth+1) {
				return false
			}
		}
	}
	return true
}

func hasZeroWidthElems(s *sergen.Shape, depth int) bool {
	if depth > 10 {
		return false
	}
	switch s.Kind {
	case sergen.Array, sergen.Slice:
		return s.Elem.ZeroWidth() || hasZeroWidthElems(s.Elem, depth+1)
	case sergen.Ptr:
		return hasZeroWidthElems(s.Elem, depth+1)
	case sergen.Map:
		return (s.Key.ZeroWidth() && s.Elem.ZeroWidth()) || hasZeroWidthElems(s.Key, depth+1) || hasZeroWidthElems(s.Elem, depth+1)
	case sergen.Struct:
		for _, f := range s.Fields {
			if hasZeroWidthElems(f.S, depth+1) {
				return true
			}
		}
	case sergen.Iface:
		for _, im := range *s.Impls {
			if hasZeroWidthElems(im, depth+1) {
				return true
			}
		}
	}
	return false
}

func mapOrderingFlags(s *sergen.Shape, depth int) (f, t int) {
	if depth > 10 {
		return
	}
	add := func(c *sergen.Shape) { a, b := mapOrderingFlags(c, depth+1); f, t = f+a, t+b }
	switch s.Kind {
	case sergen.Map:
		if s.R.LexSet && s.R.AutoOrder {
			t++
		} else if s.R.LexSet {
			f++
		}
		add(s.Key)
		add(s.Elem)
	case sergen.Slice, sergen.Array, sergen.Ptr:
		add(s.Elem)
	case sergen.Struct:
		for _, fl := range s.Fields {
			add(fl.S)
		}
	}
	return
}

func implCodes(u *sergen.Universe) []uint32 {
	var out []uint32
	for _, im := range u.Impl8 {
		out = append(out, sergen.ImplCode(im))
	}
	for _, im := range u.Impl32 {
		out = append(out, sergen.ImplCode(im))
	}
	return out
}

func exercise(st *stats, u *sergen.Universe, si int, s *sergen.Shape, nVals int, reverse bool) {
	vals := sergen.ValuesOf(u, s, valRng(u.Seed, si), nVals)
	codes := implCodes(u)
	anyAccepted := false
	for vi, v := range vals {
		if label := u.FixedLabel[v]; label != "" {
			st.dist("boundary_values", label)
			parts := strings.SplitN(label, "/", 4)
			switch parts[0] {
			case "len":
				st.count("boundary_length_cases/"+parts[2], 2)
			case "uint256":
				st.count("boundary_uint256_cases", 2)
			case "time":
				st.count("boundary_time_cases", 2)
			case "utf8":
				st.count("boundary_utf8_cases/"+parts[1], 2)
			}
		}
		for _, validation := range []bool{false, true} {
			b := forward(st, u, si, s, v, vi, validation)
			if b == nil {
				// Encode did not accept the value. If the documented layout can express it, its reference
				// encoding is still a legitimate byte string to show to the validating decoder: whatever
				// Decode accepts must re-encode to the same bytes.
				if reverse && validation && sergen.Representable(s, v) {
					ref, _ := sergen.RefEncode(s, v)
					st.count("reverse_reference_encodings_of_rejected_values", 1)
					reverseOne(st, u, si, s, vi, ref, mutant{b: ref, kind: "reference-encoding"})
				}
				continue
			}
			if vi > 0 {
				anyAccepted = true
			}
			if !reverse || !validation {
				continue
			}
			_, marks := sergen.RefEncode(s, v)
			rng := rand.New(rand.NewSource(u.Seed*131 + int64(si)*17 + int64(vi)))
			// the valid encoding itself must be a fixed point
			reverseOne(st, u, si, s, vi, b, mutant{b: b, kind: "identity"})
			for _, m := range mutants(b, marks, rng, codes) {
				reverseOne(st, u, si, s, vi, b, m)
			}
		}
	}
	st.count("shapes_exercised", 1)
	if anyAccepted {
		if f, t := mapOrderingFlags(s, 0); f > 0 || t > 0 {
			if f > 0 {
				st.count("shapes_with_map_lexical_ordering_explicitly_false", 1)
			}
			if t > 0 {
				st.count("shapes_with_map_lexical_ordering_explicitly_true", 1)
			}
		}
		if s.Top != nil {
			st.count("toplevel_with_type_settings_shapes", 1)
		}
		st.dist("shapes", fmt.Sprintf("%016x", s.Hash()))
		single, _ := s.Features()
		for _, f := range single {
			st.dist("features", f)
		}
		for _, cl := range s.Classes() {
			st.count("shapes_with/"+cl, 1)
		}
	}
}

func run(c *vf.Ctx) {
	if c.Replay != "" {
		replay(c)
		return
	}
	c.SetRule("forward: one evaluation = Encode output of an accepted (shape, value, validation) triple compared byte for byte with the harness's reference encoder (schema-driven, standard library only); reverse: valid encodings (validation on) are mutated at the offsets the reference encoder marks as length prefixes, element counts, optional markers, type codes, bools, element boundaries (swap / duplicate / drop / reverse), plus tails, truncations and random bytes; one evaluation = a candidate that validated Decode accepted, re-encoded and compared with the consumed prefix. distinct_nontrivial = distinct (shape hash, mutation class, array-rule class) triples among *accepted mutants that differ from the original encoding*; shapes: seeded dynamic universes (run-time built types on a fresh API; element / key types also from a pool of defined types over the basic kinds, time.Time / *big.Int also behind pointers: counters shapes_with/*) + the static universe")
	a := &agg{c: c}
	workers := runtime.NumCPU()
	nUni := c.Pick(600, 12000)
	nVals := c.Pick(30, 30)
	base := c.Rand("c03-universes").Int63()
	{
		st := newStats()
		u := sergen.NewStatic()
		for si, s := range u.Shapes {
			exercise(st, u, si, s, c.Pick(150, 1500), allocSafe(s, 0) && !hasZeroWidthElems(s, 0))
		}
		a.merge(st)
	}
	{
		u := sergen.NewBoundary()
		vf.Parallel(len(u.Shapes), workers, func(si int) {
			st := newStats()
			exercise(st, u, si, u.Shapes[si], 0, true)
			a.merge(st)
		})
	}
	vf.Parallel(nUni, workers, func(i int) {
		st := newStats()
		// even universes: full grammar, forward only where unsafe; odd: allocation-safe grammar for the reverse direction
		o := sergen.Options{}
		if i%4 != 0 {
			o = sergen.Options{SafeAlloc: true, NoZeroWidth: true, NoNonByteArrays: i%4 == 1}
		}
		u := sergen.NewDynamic(base+int64(i), o)
		for si, s := range u.Shapes {
			exercise(st, u, si, s, nVals, allocSafe(s, 0) && !hasZeroWidthElems(s, 0))
		}
		if i < 3 && len(u.Shapes) > 0 {
			s := u.Shapes[0]
			v := sergen.Values(s, valRng(u.Seed, 0), 3)[2]
			b, _ := sergen.RefEncode(s, v)
			st.samples = append(st.samples, map[string]any{"shape": short(s.String(), 300), "value_index": 2, "reference_bytes_hex": short(hex.EncodeToString(b), 160)})
		}
		a.merge(st)
	})
	c.SetExhaustive(false)
	c.Require("reference_comparisons", c.Pick(30000, 600000))
	c.Require("reverse_candidates", c.Pick(300000, 6000000))
	c.Require("reverse_accepted_nontrivial", c.Pick(40000, 800000))
	c.Require("nontrivial", c.Pick(2000, 30000))
	for _, r := range []string{"map", "lexical", "nodup", "bounds", "plain"} {
		c.Require("accepted_mutants/rule="+r, c.Pick(500, 10000))
	}
	for _, w := range []string{"lp8", "lp16", "lp32"} {
		c.Require("boundary_length_cases/"+w, 40)
	}
	c.Require("boundary_uint256_cases", 80)
	c.Require("boundary_time_cases", 100)
	c.Require("boundary_values", 500)
	c.Require("boundary_utf8_cases/valid", 300)
	c.Require("boundary_utf8_cases/invalid", 150)
	c.Require("boundary_utf8_cases/bounds-4..6", 20)
	c.Require("reverse_reference_encodings_of_rejected_values", c.Pick(1000, 20000))
	c.Require("arena_backed_custom_values_encoded", c.Pick(2000, 20000))
	c.Require("arena_backed_custom_map_keys_encoded", c.Pick(500, 5000))
	c.Require("shapes_with_map_lexical_ordering_explicitly_false", c.Pick(60, 1200))
	c.Require("toplevel_with_type_settings_comparisons", c.Pick(4000, 80000))
	c.Require("accepted_mutants/rule=mustoccur", c.Pick(30, 600))
	// defined element / key types and specially treated types behind pointers (shapes with an accepted non-zero value)
	for cl, min := range map[string]int{"array-of-named-u8": 30, "slice-of-named-u8": 20, "ptr-to-array-of-named-u8": 12, "toplevel-array-of-named-u8": 6,
		"mapkey-named-u8": 10, "array-of-named-scalar": 30, "slice-of-named-scalar": 40, "map-of-named-scalar": 60, "coll-of-named-bytes": 15, "coll-of-named-bytearr": 15,
		"named-collection-type": 50, "ptr-to-time": 120, "ptr-to-time/optional": 60, "ptr-to-time/field": 25, "ptr-to-time/slice-elem": 12,
		"ptr-to-time/map-value": 8, "ptr-to-time/toplevel": 25, "ptr-to-time/in-interface-impl": 50, "optional-bigint": 40} {
		c.Require("shapes_with/"+cl, c.Pick(min, 10*min))
	}
	c.Require("accepted_mutants/rule=oneofeach", c.Pick(40, 800))
	for _, k := range []string{"count-value", "prefix-value", "optional-marker", "bool-byte", "element-swap", "element-duplicate", "element-drop", "type-code"} {
		c.Require("accepted_mutants/kind="+k, c.Pick(100, 2000))
	}
	c.Assume("the reference encoder implements the documented layout (it is written from the layout description in the property statement and DESIGN.md, imports only the standard library, and is validated by the fact that it agrees with Encode on every shape except the ones reported)")
}

func replay(c *vf.Ctx) {
	var r replayRec
	if err := c.LoadReplay(&r); err != nil {
		fmt.Fprintln(os.Stderr, err)
		os.Exit(3)
	}
	st := newStats()
	var u *sergen.Universe
	if r.USeed < 0 || r.Static {
		id := r.USeed
		if id >= 0 {
			id = -1
		}
		u = sergen.ByID(id)
	} else {
		// the options are a function of the universe index only through the seed parity rule
		// used in run(); both variants are tried until the recorded Go type matches
		for _, o := range []sergen.Options{{}, {SafeAlloc: true, NoZeroWidth: true}, {SafeAlloc: true, NoZeroWidth: true, NoNonByteArrays: true}} {
			u = sergen.NewDynamic(r.USeed, o)
			if r.ShapeIdx < len(u.Shapes) && short(sergen.Describe(u.Shapes[r.ShapeIdx]), 600) == r.GoType {
				break
			}
		}
	}
	s := u.Shapes[r.ShapeIdx]
	vals := sergen.ValuesOf(u, s, valRng(u.Seed, r.ShapeIdx), r.ValIdx+1)
	v := vals[r.ValIdx]
	switch r.Dir {
	case "forward":
		forward(st, u, r.ShapeIdx, s, v, r.ValIdx, r.Validation)
	case "reverse":
		mb, _ := hex.DecodeString(r.Mutant)
		orig, _ := sergen.RefEncode(s, v)
		reverseOne(st, u, r.ShapeIdx, s, r.ValIdx, orig, mutant{b: mb, kind: r.Mutation, rule: ruleFromFP(c)})
	}
	(&agg{c: c}).merge(st)
}

func ruleFromFP(c *vf.Ctx) string {
	// the rule class is part of the fingerprint "reverse:…:<kind>:<rule>"; recover it from the replay file
	var w struct {
		Fingerprint string `json:"fingerprint"`
	}
	if b, err := os.ReadFile(c.Replay); err == nil {
		_ = jsonUnmarshal(b, &w)
	}
	for i := len(w.Fingerprint) - 1; i >= 0; i-- {
		if w.Fingerprint[i] == ':' {
			r := w.Fingerprint[i+1:]
			if r == "none" {
				return ""
			}
			return r
		}
	}
	return ""
}

func main() { vf.Main("C03", "exploration", run, nil) }
