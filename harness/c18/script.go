// Scripted (gated) scenarios and seeded random runs of the C18 check.
package main

import (
	"math/rand"
	"strings"
	"time"
)

const (
	farUs  = int64(3600) * 1000 * 1000 // one hour ahead: can only be delivered through Shutdown(IgnorePendingTimeouts)
	nearUs = int64(60) * 1000
)

func (sp spec) ahead() int64 {
	if sp.Far {
		return farUs
	}
	return nearUs
}

// scriptList enumerates the deterministic scenarios. Far variants flush with
// IgnorePendingTimeouts, near variants wait out real (60 ms) timers after a flag-less Shutdown.
func scriptList() []spec {
	var out []spec
	add := func(sp spec) {
		if sp.Far {
			sp.Flags |= fIgnore
		}
		sp.Index = len(out)
		out = append(out, sp)
	}
	for _, far := range []bool{true, false} {
		for _, w := range []int{1, 2, 4} {
			for _, probe := range []bool{false, true} {
				add(spec{Script: "resched-during-callback", Kind: kTask, Workers: w, Far: far, Probe: probe})
			}
			add(spec{Script: "cancel-during-callback", Kind: kTask, Workers: w, Far: far, Probe: w != 2})
		}
		for _, kind := range []string{kQueue, kExec, kTask} {
			for _, w := range []int{1, 3} {
				add(spec{Script: "cancel-while-held", Kind: kind, Workers: w, Far: far})
				if kind == kTask {
					add(spec{Script: "cancel-while-held", Kind: kind, Workers: w, Far: far, Probe: true})
				}
			}
			add(spec{Script: "cancel-in-heap", Kind: kind, Workers: 1, Far: far})
			if kind == kTask {
				add(spec{Script: "cancel-in-heap", Kind: kind, Workers: 1, Far: far, Probe: true})
			}
		}
		for _, w := range []int{1, 2} {
			add(spec{Script: "replace-pending", Kind: kTask, Workers: w, Far: far})
		}
		add(spec{Script: "cancel-id-pending", Kind: kTask, Workers: 2, Far: far})
	}
	for _, kind := range []string{kQueue, kExec, kTask} {
		for _, w := range []int{1, 2} {
			add(spec{Script: "cancel-after-shutdown-while-held", Kind: kind, Workers: w})
			if kind == kTask {
				add(spec{Script: "cancel-after-shutdown-while-held", Kind: kind, Workers: w, Probe: true})
			}
		}
	}
	for _, kind := range []string{kQueue, kExec} {
		for _, m := range []int{0, 2, 5} {
			add(spec{Script: "size-bound", Kind: kind, Workers: 1, MaxSize: m})
		}
	}
	// every scheduling entry point (ExecuteAt / ExecuteAfter) as first and as rescheduling call of one identifier, with
	// instants / delays from {far negative, -1ns, 0, +1ns, small, far future, zero Time, past}; workers gated, Ignore flush
	n := 0
	for _, a := range entryClasses {
		for _, b := range entryClasses {
			n++
			out = append(out, spec{Script: "resched-entrypoints", Kind: kTask, Workers: 1 + n%2, Flags: fIgnore, A: a, B: b, Probe: n%5 == 0, Index: len(out)})
		}
	}
	for _, a := range entryClasses { // first call on an idle executor: whatever is due must have run by quiescence
		out = append(out, spec{Script: "entrypoint-idle", Kind: kTask, Workers: 2, Flags: fIgnore, A: a, Index: len(out)})
		out = append(out, spec{Script: "entrypoint-idle", Kind: kExec, Workers: 1, Flags: fIgnore, A: a, Index: len(out)})
	}
	// far-future / far-past / other-representation instants mixed with due elements in one heap (all workers held at gates)
	for _, kind := range []string{kQueue, kExec, kTask} {
		for _, w := range []int{1, 1, 2} {
			for _, fl := range []int{0, fIgnore} {
				for perm := 0; perm < 3; perm++ {
					out = append(out, spec{Script: "far-mix", Kind: kind, Workers: w, Flags: fl, Perm: perm + 3*len(out)%7, Index: len(out)})
				}
			}
		}
	}
	// full bounded queue: re-schedule a pending identifier (must replace, never drop) / add after a Cancel freed a slot
	for _, far := range []bool{true, false} {
		for _, m := range []int{1, 2, 3} {
			for _, rel := range []int{-1, 0, 1} {
				add(spec{Script: "bounded-replace", Kind: kTask, Workers: 1, MaxSize: m, Rel: rel, Far: far})
				add(spec{Script: "bounded-replace", Kind: kTask, Workers: 2, MaxSize: m, Rel: rel, Far: far, Probe: true})
				for _, kind := range []string{kQueue, kExec, kTask} {
					add(spec{Script: "bounded-add-after-cancel", Kind: kind, Workers: 1 + m%2, MaxSize: m, Rel: rel, Far: far})
				}
				add(spec{Script: "bounded-add-after-cancel", Kind: kTask, Workers: 1, MaxSize: m, Rel: rel, Far: far, Probe: true})
			}
		}
	}
	for _, kind := range []string{kQueue, kExec, kTask} {
		for _, blocker := range []bool{true, false} {
			for _, fl := range []int{0, fCancel, fIgnore, fCancel | fIgnore, fPanic, fDontWait, fIgnore | fDontWait, fPanic | fIgnore} {
				if kind == kQueue && fl&fDontWait != 0 {
					continue
				}
				w := 1
				if !blocker {
					w = 2
				}
				add(spec{Script: "shutdown-flags", Kind: kind, Workers: w, Flags: fl, Blocker: blocker})
				if fl&fIgnore != 0 {
					add(spec{Script: "shutdown-flags", Kind: kind, Workers: w, Flags: fl, Blocker: blocker, Far: true})
				}
			}
		}
	}
	return out
}

var entryClasses = []string{"after:farneg", "after:-1ns", "after:0", "after:+1ns", "after:small", "after:far",
	"at:zero", "at:y1", "at:past", "at:now", "at:small", "at:y3000"}

// applyClass sets entry point and time of an element from a class name.
func applyClass(it *item, cls string) {
	switch cls {
	case "after:farneg":
		it.via, it.delayNs = "after", -int64(2*time.Hour)
	case "after:-1ns":
		it.via, it.delayNs = "after", -1
	case "after:0":
		it.via, it.delayNs = "after", 0
	case "after:+1ns":
		it.via, it.delayNs = "after", 1
	case "after:small":
		it.via, it.delayNs = "after", int64(2*time.Millisecond)
	case "after:far":
		it.via, it.delayNs = "after", int64(2*time.Hour)
	case "at:zero":
		it.when = "zero"
	case "at:y1":
		it.when = "y1"
	case "at:past":
		it.offUs = -1000
	case "at:now":
		it.offUs = 0
	case "at:small":
		it.offUs = 2000
	case "at:y3000":
		it.when = "y3000"
	default:
		panic("class " + cls)
	}
	if it.via == "after" {
		it.offUs = it.delayNs / 1000
	}
}

func shutdownLeft(o obs) bool { return o.shutdown != 2 }
func inPoll(o obs) bool       { return o.allInPoll() }

func runScript(sp spec) *run {
	r := newRun(sp)
	r.guard(func() { r.script() })
	r.shutdownAsync()
	r.openAll()
	r.finish()
	return r
}

func (r *run) script() {
	sp := r.sp
	switch sp.Script {
	case "resched-during-callback":
		a := r.appendItem(1, -1000, true)
		r.schedule(a)
		if r.waitStarted(a) {
			b := r.appendItem(1, sp.ahead(), false)
			r.schedule(b) // the same identifier is scheduled again while its callback is running
			r.patterns["gated:resched-during-callback"] = true
		}
		r.open(a)
		r.settle(inPoll) // callback and wrapper of a are finished
		if sp.Probe {
			r.cancelID(1)
		}
		c := r.appendItem(1, sp.ahead()+1000, false)
		r.schedule(c)
		r.settle(nil)

	case "cancel-during-callback":
		a := r.appendItem(1, -1000, true)
		r.schedule(a)
		if r.waitStarted(a) {
			r.cancelID(1) // while the callback is running: nothing is pending
			r.patterns["gated:cancel-during-callback"] = true
		}
		r.open(a)
		r.settle(inPoll)
		r.cancelID(1) // nothing left
		r.cancelID(2) // never scheduled
		if sp.Probe {
			b := r.appendItem(1, sp.ahead(), false)
			r.schedule(b)
			r.settle(nil)
			r.cancelID(1) // pending: must prevent it
			r.cancelID(1) // nothing left
			r.settle(nil)
		}

	case "cancel-while-held":
		var es []*item
		for i := 0; i < sp.Workers; i++ {
			e := r.appendItem(i+1, sp.ahead()+int64(i)*1000, false)
			r.schedule(e)
			es = append(es, e)
		}
		if r.waitHeld() && r.lastObs.pollSelect == sp.Workers {
			r.patterns["gated:cancel-while-poll-holds"] = true
		}
		if sp.Probe {
			r.cancelID(1)
		} else {
			r.cancelItem(es[0])
		}
		r.settle(nil)

	case "cancel-after-shutdown-while-held":
		var es []*item
		for i := 0; i < sp.Workers; i++ {
			e := r.appendItem(i+1, sp.ahead()+int64(i)*1000, false)
			r.schedule(e)
			es = append(es, e)
		}
		held := r.waitHeld() && r.lastObs.pollSelect == sp.Workers
		r.shutdownAsync()
		r.settle(shutdownLeft)
		if held && r.lastObs.pollSelect == sp.Workers {
			r.patterns["gated:cancel-after-shutdown-while-poll-holds"] = true
		}
		if sp.Probe {
			r.cancelID(1)
		} else {
			r.cancelItem(es[0])
		}
		r.settle(nil)

	case "cancel-in-heap":
		g := r.appendItem(9, -1000, true)
		r.schedule(g)
		if r.waitStarted(g) {
			r.patterns["gated:cancel-in-heap"] = true
		}
		var es []*item
		for i := 0; i < 3; i++ {
			e := r.appendItem(i+1, sp.ahead()/4+int64(i)*2000, false)
			r.schedule(e)
			es = append(es, e)
		}
		if sp.Probe {
			r.cancelID(2)
		} else {
			r.cancelItem(es[1])
		}
		r.settle(nil)
		r.open(g)

	case "replace-pending":
		a := r.appendItem(1, sp.ahead(), false)
		r.schedule(a)
		r.settle(nil)
		b := r.appendItem(1, sp.ahead()+1000, false)
		r.schedule(b)
		r.settle(nil)

	case "cancel-id-pending":
		a := r.appendItem(1, sp.ahead(), false)
		r.schedule(a)
		o := r.appendItem(2, sp.ahead(), false)
		r.schedule(o)
		r.settle(nil)
		r.cancelID(1)
		r.cancelID(1)
		r.settle(nil)

	case "size-bound":
		n := sp.MaxSize + 3
		var g *item
		if sp.Kind != kQueue { // keep the single worker busy so that nothing is polled while the queue fills
			g = r.appendItem(0, -1000, true)
			r.schedule(g)
			r.waitStarted(g)
		}
		offs := []int64{15000, -2000, 30000, 5000, -500, 20000, 10000, 25000}
		for i := 0; i < n; i++ {
			e := r.appendItem(0, offs[i%len(offs)], false)
			r.schedule(e)
		}
		r.settle(nil)
		if sp.MaxSize > 0 && r.size() == sp.MaxSize {
			r.patterns["gated:size-bound-filled"] = true
		}
		if sp.Kind == kQueue {
			r.startPollers(sp.Workers)
		} else {
			r.open(g)
		}

	case "resched-entrypoints":
		var gs []*item
		for i := 0; i < sp.Workers; i++ { // all workers held at gates: whatever is scheduled stays pending, whatever its time
			g := r.appendItem(100+i, -1000, true)
			r.schedule(g)
			r.waitStarted(g)
			gs = append(gs, g)
		}
		a := r.appendItem(1, 0, false)
		applyClass(a, sp.A)
		r.schedule(a)
		o := r.appendItem(2, 1500, false) // a bystander with another identifier
		r.schedule(o)
		r.settle(nil)
		b := r.appendItem(1, 0, false)
		applyClass(b, sp.B)
		r.schedule(b) // the same identifier again through the other (or the same) entry point: must replace a
		r.settle(nil)
		if r.lastObs.inCallback == sp.Workers && a.accepted.Load() && b.accepted.Load() && a.starts.Load() == 0 {
			r.patterns["gated:resched-entrypoints"] = true
			r.cnt["resched_pairs:"+strings.SplitN(sp.A, ":", 2)[0]+">"+strings.SplitN(sp.B, ":", 2)[0]]++
		}
		if sp.Probe {
			r.cancelID(1) // pending replacement: must be prevented
			r.settle(nil)
		}
		for _, g := range gs {
			r.open(g)
		}

	case "entrypoint-idle":
		r.settle(nil)
		a := r.appendItem(1, 0, false)
		applyClass(a, sp.A)
		r.schedule(a)
		if a.far <= 0 {
			r.waitStarted(a) // false = structurally impossible; the lost element is reported at quiescence
			r.patterns["gated:entrypoint-idle-due"] = true
		}
		r.settle(nil)

	case "far-mix":
		var gs []*item
		for i := 0; i < sp.Workers; i++ {
			g := r.appendItem(100+i, -1000, true)
			r.schedule(g)
			r.waitStarted(g)
			gs = append(gs, g)
		}
		type el struct {
			when string
			off  int64
		}
		els := []el{{"", -2000}, {"", -1000}, {"", -3000}, {"utc", -500}, {"zone", -500}, {"nomono", -500}, {"nomono", -2500}}
		for _, w := range farFutureWhens {
			els = append(els, el{w, 0})
		}
		for _, w := range farPastWhens {
			els = append(els, el{w, 0})
		}
		rng := rand.New(rand.NewSource(int64(sp.Perm)*7919 + 1))
		rng.Shuffle(len(els), func(i, j int) { els[i], els[j] = els[j], els[i] }) // far elements are added before and after the due ones
		base := time.Now()
		for i, e := range els {
			it := r.appendItem(i+1, e.off, false)
			it.when, it.abs, it.hasAbs = e.when, instant(e.when, base, e.off), true
			r.schedule(it)
		}
		o := r.settle(nil)
		if o.inCallback == sp.Workers && r.size() == len(els) { // nothing was popped: every element sits in the heap
			for _, it := range r.allItems()[sp.Workers:] {
				if it.accepted.Load() && it.starts.Load() == 0 {
					r.together = append(r.together, it)
				}
			}
			r.patterns["gated:far-mix-in-heap-together"] = true
		}
		for _, g := range gs {
			r.open(g)
		}
		if r.waitDue() {
			r.flags |= fIgnore
			r.flushForced = true
			r.patterns["far-mix-stalled-flush-forced"] = true
		}

	case "bounded-replace", "bounded-add-after-cancel":
		// every worker is held at a gate, so nothing is polled and the heap really holds what was added
		var gs []*item
		for i := 0; i < sp.Workers; i++ {
			g := r.appendItem(100+i, -1000, true)
			r.schedule(g)
			r.waitStarted(g)
			gs = append(gs, g)
		}
		m := sp.MaxSize
		base := time.Now().Add(time.Duration(sp.ahead()) * time.Microsecond)
		var es []*item
		for i := 0; i < m; i++ {
			e := r.appendItem(i+1, sp.ahead(), false)
			e.abs = base // all pending elements carry the same key
			r.schedule(e)
			es = append(es, e)
		}
		r.settle(nil)
		full := r.size() == m && r.lastObs.inCallback == sp.Workers
		relName := map[int]string{-1: "earlier", 0: "equal", 1: "later"}[sp.Rel]
		target := es[0]
		if sp.Probe {
			target = es[m-1]
		}
		newID := target.id // bounded-replace: the same identifier again
		if sp.Script == "bounded-add-after-cancel" {
			if sp.Kind == kTask && sp.Probe {
				r.cancelID(target.id)
			} else {
				r.cancelItem(target)
			}
			r.settle(nil)
			full = full && r.size() == m-1
			newID = m + 1
		}
		n := r.appendItem(newID, sp.ahead()+int64(sp.Rel)*10000, false)
		n.abs = base.Add(time.Duration(sp.Rel) * 10 * time.Millisecond)
		r.schedule(n)
		r.settle(nil)
		if full {
			r.patterns["gated:"+sp.Script] = true
			if sp.Script == "bounded-replace" {
				r.cnt["replacements_into_full_bounded_queue:"+relName]++
			} else {
				r.cnt["adds_into_full_bounded_queue_after_cancel:"+relName]++
			}
			if r.size() != m {
				r.patterns["bounded-queue-size-changed-by-replacement"] = true
			}
		}
		for _, g := range gs {
			r.open(g)
		}

	case "shutdown-flags":
		var g *item
		if sp.Blocker {
			g = r.appendItem(9, -1000, true)
			r.schedule(g)
			r.waitStarted(g)
		}
		offs := []int64{-2000, 10000, 25000, 40000}
		for i, off := range offs {
			if sp.Far && off > 0 {
				off += farUs
			}
			e := r.appendItem(i+1, off, false)
			r.schedule(e)
		}
		r.settle(nil)
		r.patterns["gated:pending-at-shutdown"] = true
		r.shutdownAsync()
		r.settle(shutdownLeft)
		y := r.appendItem(5, 5000, false)
		r.schedule(y) // modification after Shutdown: rejected (panics with PanicOnModificationsAfterShutdown)
		if g != nil {
			r.open(g)
		}

	case burstScript:
		r.scriptIdleBurst()

	default:
		panic("unknown script " + sp.Script)
	}
}

// ---------------------------------------------------------------- seeded random runs

func genSpec(rng *rand.Rand, idx int) spec {
	sp := spec{Index: idx}
	switch rng.Intn(4) {
	case 0:
		sp.Kind = kQueue
	case 1:
		sp.Kind = kExec
	default:
		sp.Kind = kTask
	}
	sp.Workers = 1 + rng.Intn(4)
	sp.MaxSize = []int{0, 0, 0, 2, 5}[rng.Intn(5)]
	switch rng.Intn(10) {
	case 0, 1, 2, 3:
	case 4:
		sp.Flags = fCancel
	case 5:
		sp.Flags = fIgnore
	case 6:
		sp.Flags = fCancel | fIgnore
	case 7:
		sp.Flags = fPanic
	case 8:
		sp.Flags = fDontWait
	default:
		sp.Flags = rng.Intn(16)
	}
	if sp.Kind == kQueue {
		sp.Flags &^= fDontWait
	}
	nClients := 1 + rng.Intn(4)
	ids := 1 + rng.Intn(3)
	sp.Clients = make([][]opSpec, nClients)
	var gatedItems []int
	for ci := range sp.Clients {
		n := 3 + rng.Intn(6)
		for j := 0; j < n; j++ {
			var op opSpec
			switch p := rng.Intn(100); {
			case p < 55 || j == 0:
				op = opSpec{T: "add", Item: sp.NItems, ID: 1 + rng.Intn(ids), OffUs: int64(rng.Intn(45001)) - 5000, Gated: rng.Intn(4) == 0}
				switch q := rng.Intn(100); {
				case q < 5:
					op.When = farPastWhens[rng.Intn(len(farPastWhens))]
				case q < 10:
					op.When = reprWhens[rng.Intn(2)] // UTC / fixed zone keep the monotonic reading
				case q < 13 && op.OffUs < 0:
					op.When = "nomono" // wall-clock only representation: used for elements that are already due
				case q < 20 && sp.Flags&fIgnore != 0:
					op.When = farFutureWhens[rng.Intn(len(farFutureWhens))] // handed out by Shutdown(IgnorePendingTimeouts) only
				}
				if sp.Kind != kQueue && op.When == "" && rng.Intn(3) == 0 { // the other entry point
					op.Via = "after"
					switch q := rng.Intn(10); {
					case q == 0:
						op.DelayNs = -int64(time.Hour) - int64(rng.Intn(1000))
					case q == 1:
						op.DelayNs = -1
					case q == 2:
						op.DelayNs = 0
					case q == 3:
						op.DelayNs = 1
					case q == 4 && sp.Flags&fIgnore != 0:
						op.DelayNs = int64(2 * time.Hour)
					default:
						op.DelayNs = op.OffUs * 1000
					}
					op.OffUs = op.DelayNs / 1000
				}
				if op.Gated {
					gatedItems = append(gatedItems, op.Item)
				}
				sp.NItems++
			case p < 80:
				if sp.Kind == kTask && rng.Intn(3) != 0 {
					op = opSpec{T: "cancelid", ID: 1 + rng.Intn(ids)}
				} else {
					op = opSpec{T: "cancel", Item: -1}
				}
			case p < 90:
				op = opSpec{T: "open", Item: -1}
			default:
				op = opSpec{T: "pause", PauseUs: rng.Intn(3000)}
			}
			sp.Clients[ci] = append(sp.Clients[ci], op)
		}
	}
	for ci := range sp.Clients {
		for j := range sp.Clients[ci] {
			op := &sp.Clients[ci][j]
			switch {
			case op.T == "cancel":
				op.Item = rng.Intn(sp.NItems)
			case op.T == "open" && len(gatedItems) > 0:
				op.Item = gatedItems[rng.Intn(len(gatedItems))]
			case op.T == "open":
				op.T, op.Item, op.PauseUs = "pause", 0, rng.Intn(500)
			}
		}
	}
	sp.ShutdownMode = rng.Intn(3)
	sp.ShutdownAt = rng.Intn(len(sp.Clients[0]))
	return sp
}

// genStress generates histories aimed at one window: Add/ExecuteAt racing with Shutdown.
// 2-4 clients add due elements back to back (no pauses, no gates) and client 0 calls
// Shutdown somewhere in between; nothing waits for a timer, so thousands of such runs are cheap.
func genStress(rng *rand.Rand, idx int) spec {
	sp := spec{Index: idx, Kind: []string{kQueue, kExec, kTask}[rng.Intn(3)], Workers: 1 + rng.Intn(4), ShutdownMode: 2}
	if rng.Intn(4) == 0 {
		sp.Flags = []int{fIgnore, fDontWait, fPanic}[rng.Intn(3)]
		if sp.Kind == kQueue {
			sp.Flags &^= fDontWait
		}
	}
	nClients := 2 + rng.Intn(3)
	sp.Clients = make([][]opSpec, nClients)
	for ci := range sp.Clients {
		n := 3 + rng.Intn(5)
		for j := 0; j < n; j++ {
			sp.Clients[ci] = append(sp.Clients[ci], opSpec{T: "add", Item: sp.NItems, ID: 1 + sp.NItems, OffUs: int64(rng.Intn(400)) - 300})
			sp.NItems++
		}
	}
	sp.ShutdownAt = rng.Intn(len(sp.Clients[0]))
	return sp
}

// genCancelStress generates timer-short histories aimed at one window: TaskExecutor.Cancel(id) racing with the start of
// the task (the task becomes due a few hundred microseconds after it was scheduled, Cancel arrives around that moment)
// while other clients keep the queue's heap lock busy with ExecuteAt / element Cancel of other identifiers.
func genCancelStress(rng *rand.Rand, idx int) spec {
	sp := spec{Index: idx, Kind: kTask, Workers: 2 + rng.Intn(3)}
	nClients := 3 + rng.Intn(2)
	sp.Clients = make([][]opSpec, nClients)
	for k := 0; k < 5+rng.Intn(4); k++ {
		sp.Clients[0] = append(sp.Clients[0],
			opSpec{T: "add", Item: sp.NItems, ID: 1, OffUs: int64(50 + rng.Intn(400))},
			opSpec{T: "pause", PauseUs: rng.Intn(450)},
			opSpec{T: "cancelid", ID: 1})
		sp.NItems++
	}
	var others []int
	for ci := 1; ci < nClients; ci++ {
		for j := 0; j < 10+rng.Intn(8); j++ {
			if len(others) > 0 && rng.Intn(4) == 0 {
				sp.Clients[ci] = append(sp.Clients[ci], opSpec{T: "cancel", Item: others[rng.Intn(len(others))]})
				continue
			}
			sp.Clients[ci] = append(sp.Clients[ci], opSpec{T: "add", Item: sp.NItems, ID: 2 + rng.Intn(6), OffUs: int64(rng.Intn(600)) - 100})
			others = append(others, sp.NItems)
			sp.NItems++
		}
	}
	return sp
}

func (r *run) client(ci int, ops []opSpec) {
	defer r.clientsWG.Done()
	for j, op := range ops {
		switch op.T {
		case "add":
			r.schedule(r.items[op.Item])
		case "cancel":
			r.cancelItem(r.items[op.Item])
		case "cancelid":
			r.cancelID(op.ID)
		case "open":
			r.open(r.items[op.Item])
		case "pause":
			time.Sleep(time.Duration(op.PauseUs) * time.Microsecond) // jitter only
		}
		if r.sp.ShutdownMode == 2 && ci == 0 && j == r.sp.ShutdownAt {
			r.shutdownAsync()
		}
	}
}

// monitor takes snapshots while the clients run: every snapshot in which all workers
// are parked is a quiescent point of the delivery machinery.
func (r *run) monitor(stop, done chan struct{}) {
	defer close(done)
	for i := 0; ; i++ {
		select {
		case <-stop:
			return
		default:
		}
		o := r.observe()
		r.checkDead(o) // not guarded here: only counts consecutive candidates
		if r.deadSeen >= 2 {
			r.deadCandSeen.Store(true) // the clients may be stuck for ever: the driver must not wait for them
		}
		time.Sleep(time.Duration(200+(i%7)*150) * time.Microsecond) // pacing only
	}
}

func runRandom(sp spec) *run {
	r := newRun(sp)
	r.items = make([]*item, sp.NItems)
	for _, ops := range sp.Clients {
		for _, op := range ops {
			if op.T == "add" {
				r.items[op.Item] = r.newItem(op.Item, op.ID, op.OffUs, op.Gated)
				r.items[op.Item].when = op.When
				r.items[op.Item].via, r.items[op.Item].delayNs = op.Via, op.DelayNs
			}
		}
	}
	r.publishItems()
	stop, done := make(chan struct{}), make(chan struct{})
	go r.monitor(stop, done)
	for ci, ops := range sp.Clients {
		r.clientsWG.Add(1)
		go r.client(ci, ops)
	}
	joined := make(chan struct{})
	go func() { r.clientsWG.Wait(); close(joined) }()
wait:
	for i := 0; ; i++ {
		select {
		case <-joined:
			break wait
		default:
		}
		if r.deadCandSeen.Load() { // Shutdown and a client sit in lock acquisitions: go on, finish() decides structurally
			r.patterns["schedule-aborted-on-deadlock-candidate"] = true
			break wait
		}
		if r.stalled.Load() { // nothing moves any more although clients are alive: finish() gives the case up
			break wait
		}
		pace(i)
	}
	close(stop)
	<-done
	switch sp.ShutdownMode {
	case 0:
		r.openAll()
		r.shutdownAsync()
	case 1:
		r.shutdownAsync()
		for i := 0; ; i++ { // until Shutdown has returned or is parked waiting for the workers
			if o := r.observe(); o.shutdown != 2 || o.deadCand() || r.stalled.Load() {
				break
			}
			pace(i)
		}
		r.openAll()
	default:
		r.shutdownAsync() // no-op: issued by client 0
		r.openAll()
	}
	r.finish()
	return r
}

func runSpec(sp spec) *run {
	if sp.Script != "" {
		return runScript(sp)
	}
	return runRandom(sp)
}
