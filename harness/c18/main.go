// C18 – timed Queue / Executor / TaskExecutor: never early, at most once, cancel
// honoured, exactly once at structural quiescence, TaskExecutor identifier rules.
// Runtime monitoring of the real runtime/timed package: scripted (gated) schedules
// and seeded random histories, in a plain and a -race build, decided from recorded
// histories on a logical clock plus consistent goroutine snapshots.
package main

import (
	"encoding/json"
	"fmt"
	"io"
	"os"
	"runtime"
	"sort"
	"strconv"
	"strings"
	"sync"
	"time"

	"verif/harness/internal/gdump"
	"verif/harness/internal/vf"
)

const timedPkg = "hive.go/runtime/timed"

// ---------------------------------------------------------------- child side

var leakedIDs []uint64

func report(c *vf.Ctx, r *run) {
	sp := r.sp
	if r.blind != "" { // never a violation on ambiguity
		c.Count("runs_undecidable", 1)
		c.Inconclusive("structural rules cannot see the workers: " + r.blind + " (" + sp.key() + ")")
		return
	}
	c.Count("runs", 1)
	if sp.Script != "" {
		c.Count("scripted_runs", 1)
	} else {
		c.Count("random_runs", 1)
	}
	if raceBuild {
		c.Count("runs_race_build", 1)
	}
	for k, v := range r.cnt {
		c.Count(k, v)
	}
	for p := range r.patterns {
		c.Count("pattern:"+p, 1)
	}
	for _, s := range r.shapes {
		c.Distinct("idle_burst_shapes", s)
	}
	// a run is non-trivial if at least one element was delivered or prevented under observation; distinct by configuration + observed patterns
	key := sp.key()
	if r.cnt["cancel_rule_armed"] > 0 {
		key += "|cancel-armed"
	}
	if r.cnt["window_resched_during_callback"] > 0 {
		key += "|resched-during-callback"
	}
	if r.cnt["window_cancel_during_callback"] > 0 {
		key += "|cancel-during-callback"
	}
	if r.cnt["undelivered_excused"] > 0 {
		key += "|prevented"
	}
	if r.cnt["early_allowed_by_ignore_flag"] > 0 {
		key += "|ignore-early"
	}
	if r.cnt["deliveries"]+r.cnt["undelivered_excused"] > 0 {
		c.Distinct("nontrivial", key)
	}
	c.Distinct("configurations", fmt.Sprintf("%s|w%d|m%d|f%d", sp.Kind, sp.Workers, sp.MaxSize, sp.Flags))
	if r.gaveUp != "" {
		c.Count("runs_given_up", 1)
		observe(c, "given-up", "case given up without a verdict on never-delivered elements (all other rules were still applied): "+r.gaveUp+" ("+sp.key()+")")
	}
	if r.hang {
		c.Count("executor_shutdown_hangs_observed", 1)
		observe(c, "executor-shutdown-hang", fmt.Sprintf("outside the statement of C18 (not a violation): Executor.Shutdown never returns - its caller is blocked below Executor.Shutdown waiting for the workers while %d worker(s) are parked for ever below Queue.Poll of a shut-down queue with nothing pending (on the pinned code: Shutdown found the heap non-empty and did not broadcast - lost waitCond wake-up); first seen with kind=%s workers=%d flags=%s", r.lastObs.pollCond+r.lastObs.pollSelect, sp.Kind, sp.Workers, flagNames(sp.Flags)))
	}
	if r.patterns["resched-after-shutdown-cancels-without-replacement"] {
		observe(c, "resched-after-shutdown", "not demanded by C18 (not a violation): TaskExecutor.ExecuteAt after Shutdown cancels the pending task of the identifier and then returns nil, so the old task is lost without a replacement")
	}
	if r.patterns["bounded-queue-size-changed-by-replacement"] {
		observe(c, "bounded-size-changed", "observation: Size() of a full bounded queue was not max after a re-schedule / add-after-cancel (the lost element, if any, is reported as a violation separately)")
	}
	if r.flushForced {
		c.Count("far_mix_flush_forced_after_stall", 1)
	}
	if r.patterns["cancel-false-while-task-pending"] {
		observe(c, "cancel-false-while-pending", "observation (consistent with the literal Cancel clause; consequence of the successor-mapping defect): TaskExecutor.Cancel(id) returned false although a task of id was pending during the whole call, and the task ran")
	}
	if len(r.viols) > 0 || c.WantSample() && sp.Script == "" && len(r.cancels) > 0 && r.cnt["deliveries"] > 2 {
		h := r.history()
		if len(r.viols) == 0 {
			c.Sample(h)
		}
		for _, v := range r.viols {
			c.Violation(v.fp, v.what, h)
		}
	}
	if ids := r.leaked(); len(ids) > 0 {
		leakedIDs = append(leakedIDs, ids...)
	}
}

func child(c *vf.Ctx) {
	switch c.Child {
	case "batch", "stress", "cstress", "burst": // args: first index, count
		first, _ := strconv.Atoi(c.ChildArgs[0])
		n, _ := strconv.Atoi(c.ChildArgs[1])
		for i := first; i < first+n; i++ {
			var sp spec
			if c.Child == "stress" {
				sp = genStress(c.Rand(fmt.Sprintf("stress/%d", i)), i)
				c.Count("add_vs_shutdown_stress_runs", 1)
			} else if c.Child == "burst" {
				sp = genBurst(c.Rand(fmt.Sprintf("burst/%d", i)), i)
				mark(c, fmt.Sprintf("burst run %d %s", i, sp.burstShape()))
				report(c, runScript(sp))
				c.Count("idle_burst_runs", 1)
				if (i-first)%8 == 7 {
					c.FlushStats()
				}
				continue
			} else if c.Child == "cstress" {
				sp = genCancelStress(c.Rand(fmt.Sprintf("cstress/%d", i)), i)
				c.Count("cancel_vs_start_stress_runs", 1)
			} else {
				sp = genSpec(c.Rand(fmt.Sprintf("run/%d", i)), i)
			}
			mark(c, fmt.Sprintf("%s run %d", c.Child, i))
			report(c, runRandom(sp))
			if (i-first)%8 == 7 {
				c.FlushStats()
			}
		}
	case "script": // args: first index, count, repetitions
		first, _ := strconv.Atoi(c.ChildArgs[0])
		n, _ := strconv.Atoi(c.ChildArgs[1])
		list := scriptList()
		for i := first; i < first+n && i < len(list); i++ {
			mark(c, fmt.Sprintf("script %d %s", i, list[i].key()))
			report(c, runScript(list[i]))
			if (i-first)%8 == 7 {
				c.FlushStats()
			}
		}
	case "hangdemo": // self-test of the watchdog classification (VERIF_C18_HANGDEMO=1): provoke the Executor.Shutdown lost wake-up, then really block on it
		for i := 0; ; i++ {
			sp := genStress(c.Rand(fmt.Sprintf("hang/%d", i)), i)
			sp.Kind, sp.Workers, sp.Flags = kExec, 4, 0
			mark(c, fmt.Sprintf("hangdemo run %d", i))
			r := runRandom(sp)
			if r.hang {
				for r.shRet.Load() == 0 { // never returns: wait for the watchdog
					time.Sleep(50 * time.Millisecond)
				}
			}
			leakedIDs = append(leakedIDs, r.leaked()...)
		}
	case "spec": // debugging aid: print the generated specification of random run <index>
		i, _ := strconv.Atoi(c.ChildArgs[0])
		b, _ := json.Marshal(genSpec(c.Rand(fmt.Sprintf("run/%d", i)), i))
		fmt.Println(string(b))
	case "one": // spec on stdin, args: repetitions
		reps, _ := strconv.Atoi(c.ChildArgs[0])
		b, _ := io.ReadAll(os.Stdin)
		var sp spec
		if err := json.Unmarshal(b, &sp); err != nil {
			c.Inconclusive("replay spec: " + err.Error())
			return
		}
		for i := 0; i < reps; i++ {
			mark(c, "replay "+sp.key())
			report(c, runSpec(sp))
		}
	}
}

// observe forwards an observation that is not a violation; the parent keeps one note per class with a count.
func observe(c *vf.Ctx, class, text string) {
	c.Emit("obs", map[string]string{"class": class, "text": text})
}

// mark tells the parent which case starts and which goroutines are left-overs of
// earlier cases (so that a watchdog dump is classified on the current case only).
func mark(c *vf.Ctx, what string) {
	b, _ := json.Marshal(map[string]any{"case": what, "leaked": leakedIDs})
	c.Mark(string(b))
}

// ---------------------------------------------------------------- parent side

type job struct {
	name string
	args []string
	race bool
	runs int
}

var (
	obsMu    sync.Mutex
	obsCount = map[string]int{}
	obsText  = map[string]string{}
)

func handle(c *vf.Ctx, j job, res vf.ChildResult) {
	for _, rec := range res.Records {
		var o struct{ Class, Text string }
		if rec.Kind == "obs" && json.Unmarshal(rec.V, &o) == nil {
			obsMu.Lock()
			obsCount[o.Class]++
			if obsText[o.Class] == "" {
				obsText[o.Class] = o.Text
			}
			obsMu.Unlock()
		}
	}
	if res.TimedOut {
		classifyHang(c, j, res)
	} else if (res.ExitCode != 0 && !(j.race && res.ExitCode == 66 && len(res.Races) > 0)) || res.Fatal != "" { // 66 = the race runtime's exit code after reports
		c.Inconclusive(fmt.Sprintf("child %s %v (race=%v) died: exit=%d %s last=%s stderr=%s", j.name, j.args, j.race, res.ExitCode, res.Fatal, res.LastMark, res.StderrPath))
	}
	reportRaces(c, res.Races)
}

// classifyHang decides what a watchdog firing means. Only one pattern is a known
// observation outside the statement: the current case's Shutdown caller blocked below the
// exported Executor.Shutdown (any primitive but a lock) while every goroutine below Queue.Poll
// is parked in sync.Cond.Wait (the one wait that certainly carries no timer). Everything else is
// INCONCLUSIVE. This is a last resort: finish() is bounded by logical steps and decides in-process.
func classifyHang(c *vf.Ctx, j job, res vf.ChildResult) {
	var m struct {
		Case   string   `json:"case"`
		Leaked []uint64 `json:"leaked"`
	}
	json.Unmarshal([]byte(res.LastMark), &m)
	old := map[uint64]bool{}
	for _, id := range m.Leaked {
		old[id] = true
	}
	shut, cond, other := 0, 0, 0
	for _, g := range gdump.Parse(res.Stderr) {
		if old[g.ID] {
			continue
		}
		switch {
		case g.Has("main.(*run).doShutdown") && hasTimedMethod(g, "Shutdown") && g.Parked() && !inMutexWait(g):
			shut++ // blocked below the exported Shutdown in any primitive but a lock
		case hasPoll(g) && g.State == "sync.Cond.Wait":
			cond++
		case hasPoll(g) || g.Has("main.(*run).deliver") || g.Has("main.(*run).client"):
			other++
		}
	}
	if shut > 0 && cond > 0 && other == 0 {
		c.Count("executor_shutdown_hangs_observed", 1)
		c.Note(fmt.Sprintf("outside the statement of C18: watchdog dump of child %s %v shows Executor.Shutdown parked in WaitGroup.Wait with %d worker(s) parked in sync.Cond.Wait inside Queue.Poll (lost waitCond wake-up); case %s; the remaining cases of this child were not executed", j.name, j.args, cond, m.Case))
		return
	}
	c.Inconclusive(fmt.Sprintf("watchdog fired for child %s %v (race=%v) in case %q and the dump does not match the Executor.Shutdown lost-wake-up pattern (shutdown=%d cond=%d other=%d) stderr=%s", j.name, j.args, j.race, m.Case, shut, cond, other, res.StderrPath))
}

// reportRaces: a report is a violation iff both access stacks run inside runtime/timed
// operations (and the racing access itself is not harness code).
func reportRaces(c *vf.Ctx, rs []vf.RaceReport) {
	seen := map[string]bool{}
	for _, r := range rs {
		c.Count("race_reports", 1)
		if seen[r.Key] {
			continue
		}
		seen[r.Key] = true
		if raceInside(r.Text) {
			txt := r.Text
			if len(txt) > 6000 {
				txt = txt[:6000]
			}
			c.Violation("race:"+r.Key, "data race with both stacks inside runtime/timed: "+r.Key, map[string]any{"report": txt})
		} else {
			c.Note("race report not inside the statement (not both stacks in runtime/timed): " + r.Key)
		}
	}
}

func raceInside(text string) bool {
	head := text
	if i := strings.Index(head, "\nGoroutine "); i >= 0 {
		head = head[:i]
	}
	stacks := 0
	for _, blk := range strings.Split(head, "\n\n") {
		var fns []string
		for _, l := range strings.Split(blk, "\n") {
			if strings.HasPrefix(l, "  ") && !strings.HasPrefix(l, "   ") && strings.Contains(l, "(") {
				fns = append(fns, strings.TrimSpace(l))
			}
		}
		if len(fns) == 0 {
			continue
		}
		stacks++
		inTimed := false
		for _, f := range fns {
			if strings.Contains(f, timedPkg) {
				inTimed = true
			}
		}
		if !inTimed || strings.HasPrefix(fns[0], "main.") {
			return false
		}
	}
	return stacks >= 2
}

func parent(c *vf.Ctx) {
	if c.Replay != "" {
		replay(c)
		return
	}
	if os.Getenv("VERIF_C18_HANGDEMO") != "" {
		j := job{"hangdemo", nil, false, 1}
		handle(c, j, c.RunChild(vf.ChildOpts{Name: "hangdemo", Timeout: 20 * time.Second}))
		flushObs(c)
		c.Count("evaluations", 0)
		return
	}
	c.SetRule("a run drives one real timed.Queue / Executor / TaskExecutor: either a scripted gated schedule (re-schedule an identifier while its callback is held at a gate; Cancel(id) while the callback is held; Cancel while a worker is parked in Poll's select holding the element, before and after Shutdown; Cancel of an element in the heap; size bound filled without a poller; bounded queue (max 1-3) kept full behind gated workers, then a pending identifier re-scheduled with an earlier/equal/later time, or a new element added after a Cancel freed a slot; every entry point (ExecuteAt / ExecuteAfter) as first and as rescheduling call of one identifier with instants/delays from {far negative, -1ns, 0, +1ns, small, far future, zero Time, past} behind gated workers and on an idle executor; far-future (year 2262 boundary +-1 s, 3000, 9999), far-past (before 1677, year 1, zero Time) and UTC / fixed-zone / no-monotonic representations mixed with due elements in one heap, added in seeded order while all workers are gated; every Shutdown flag combination with pending elements) or a seeded random history (1-4 clients x 3-8 operations: Add/ExecuteAt with offsets -5..+40 ms, element Cancel, Cancel(id), gate openings, jitter; 1-4 workers; max size 0/2/5; every flag combination; Shutdown after or concurrent with the clients), or an idle-burst schedule (2-16 workers all parked below Poll; 1-3 bursts of 2..k back-to-back Add / ExecuteAt / ExecuteAfter calls from one or two goroutines mixing elements that are due when added, due elements whose callback blocks at a gate, far-future and a few near-future ones, at most k-1 workers consumed; after each burst a stable point is judged by counting: pending - Size() bounds the elements held inside Poll, so more workers below Poll than that = a provably idle worker, and a born-due element that cannot be held must not exist), plus timer-free stress histories for one window (2-4 clients adding due elements back to back while client 0 calls Shutdown) and for TaskExecutor.Cancel(id) racing with the start of the task under heap-lock contention. evaluations = scheduled elements whose whole life was checked at structural quiescence; distinct_nontrivial = distinct (scenario, kind, workers, max size, flags, clients, shutdown mode, observed windows) of runs in which at least one element was delivered or prevented")
	scripts := len(scriptList())
	nPlain := c.Pick(2400, 32000)
	nRace := c.Pick(1200, 16000)
	per := c.Pick(100, 500)
	reps := c.Pick(1, 3)
	var jobs []job
	for rep := 0; rep < reps; rep++ {
		for _, race := range []bool{false, true} {
			for first := 0; first < scripts; first += 40 {
				jobs = append(jobs, job{"script", []string{strconv.Itoa(first), "40"}, race, 40})
			}
		}
	}
	for first := 0; first < nPlain; first += per {
		jobs = append(jobs, job{"batch", []string{strconv.Itoa(first), strconv.Itoa(min(per, nPlain-first))}, false, per})
	}
	for first := 0; first < nRace; first += per {
		jobs = append(jobs, job{"batch", []string{strconv.Itoa(1000000 + first), strconv.Itoa(min(per, nRace-first))}, true, per})
	}
	nStress := c.Pick(4000, 60000)
	for first := 0; first < nStress; first += 1000 {
		jobs = append(jobs, job{"stress", []string{strconv.Itoa(first), "1000"}, first%3000 == 2000, 1000})
	}
	nCStress := c.Pick(3000, 45000)
	for first := 0; first < nCStress; first += 1000 {
		jobs = append(jobs, job{"cstress", []string{strconv.Itoa(first), "1000"}, first%3000 == 2000, 1000})
	}
	nBurst := c.Pick(480, 12000)
	for first := 0; first < nBurst; first += 40 {
		jobs = append(jobs, job{"burst", []string{strconv.Itoa(first), "40"}, first%120 == 80, 40})
	}
	par := max(2, min(8, runtime.NumCPU()/2))
	vf.Parallel(len(jobs), par, func(i int) {
		j := jobs[i]
		// watchdog, > 10x the normal duration: a scripted or random run takes <= ~0.1 s (bounded by its 40-60 ms timers), a stress run ~5 ms
		perRun := time.Second
		if j.name == "stress" || j.name == "cstress" {
			perRun = 100 * time.Millisecond
		}
		res := c.RunChild(vf.ChildOpts{Name: j.name, Args: j.args, Race: j.race, Timeout: time.Duration(j.runs)*perRun + time.Minute})
		handle(c, j, res)
	})
	if g, n := c.Get("runs_given_up"), c.Get("runs"); g*100 > n {
		c.Inconclusive(fmt.Sprintf("%d of %d runs were given up without established quiescence", g, n))
	}
	flushObs(c)
	c.SetExhaustive(false)
	c.Require("evaluations", c.Pick(30000, 400000))
	c.Require("scripted_runs", 2*scripts)
	c.Require("add_vs_shutdown_stress_runs", c.Pick(4000, 60000))
	c.Require("cancel_vs_start_stress_runs", c.Pick(3000, 45000))
	c.Require("runs_race_build", c.Pick(1200, 16000))
	c.Require("pattern:gated:resched-during-callback", 12)
	c.Require("pattern:gated:cancel-during-callback", 6)
	c.Require("pattern:gated:cancel-while-poll-holds", 12)
	c.Require("pattern:gated:cancel-after-shutdown-while-poll-holds", 8)
	c.Require("pattern:gated:pending-at-shutdown", 40)
	c.Require("pattern:gated:bounded-replace", 60)
	c.Require("pattern:gated:bounded-add-after-cancel", 120)
	for _, rel := range []string{"earlier", "equal", "later"} {
		c.Require("replacements_into_full_bounded_queue:"+rel, 20)
		c.Require("adds_into_full_bounded_queue_after_cancel:"+rel, 40)
	}
	c.Require("pattern:gated:far-mix-in-heap-together", 100)
	c.Require("heap_order_pairs_checked", 2000)
	c.Require("far_future_elements_scheduled", 400)
	c.Require("not_yet_due_at_end_excused", 100)
	c.Require("far_future_elements_delivered_by_ignore_flush", 100)
	c.Require("far_past_elements_delivered", 300)
	c.Require("other_representation_elements_delivered", 300)
	c.Require("pattern:gated:resched-entrypoints", 250)
	c.Require("pattern:gated:entrypoint-idle-due", 30)
	for _, k := range []string{"at>at", "at>after", "after>at", "after>after"} {
		c.Require("resched_pairs:"+k, 60)
	}
	c.Require("execute_after_calls", 2000)
	c.Require("execute_after_calls_with_nonpositive_delay", 500)
	c.Require("cancel_rule_armed", 50)
	c.Require("window_resched_during_callback", 20)
	c.Require("not_early_confirmed", 1000)
	c.Require("early_allowed_by_ignore_flag", 10)
	c.Require("quiescent_points", 1000)
	c.Require("idle_burst_runs", c.Pick(480, 12000))
	c.Require("idle_burst_points_idle_and_consumed_workers_together", c.Pick(400, 10000))
	c.Require("idle_burst_runs_due_delivered_next_to_consumed_workers", c.Pick(300, 7500))
	c.Require("idle_burst_shapes", c.Pick(150, 1500))
	c.Assume("a goroutine that runtime.Stack reports as parked in sync.Cond.Wait / select / chan receive has not passed that point (snapshots are stop-the-world consistent)")
	c.Assume("time.Now() monotonic readings are non-decreasing across goroutines; a delivery instant read after the hand-over is never earlier than the hand-over")
}

func flushObs(c *vf.Ctx) {
	var ks []string
	for k := range obsCount {
		ks = append(ks, k)
	}
	sort.Strings(ks)
	for _, k := range ks {
		c.Note(fmt.Sprintf("%s [seen in %d run(s)]", obsText[k], obsCount[k]))
	}
}

func replay(c *vf.Ctx) {
	var h history
	if err := c.LoadReplay(&h); err != nil || h.Spec.Kind == "" {
		var raw map[string]any
		if c.LoadReplay(&raw) == nil && raw["report"] != nil {
			fmt.Println("race replay: re-running the scripted scenarios and 100 random histories in the -race build")
			for first := 0; first < len(scriptList()); first += 40 {
				j := job{"script", []string{strconv.Itoa(first), "40"}, true, 40}
				handle(c, j, c.RunChild(vf.ChildOpts{Name: j.name, Args: j.args, Race: true, Timeout: 5 * time.Minute}))
			}
			j := job{"batch", []string{"1000000", "100"}, true, 100}
			handle(c, j, c.RunChild(vf.ChildOpts{Name: j.name, Args: j.args, Race: true, Timeout: 6 * time.Minute}))
			return
		}
		fmt.Fprintln(os.Stderr, "cannot load replay:", err)
		os.Exit(3)
	}
	b, _ := json.Marshal(h.Spec)
	reps := 3
	if h.Spec.Script == "" { // free-running history: the schedule is re-sampled, so repeat (more often when no run has to wait for a timer)
		reps = 60
		var maxOff int64
		for _, ops := range h.Spec.Clients {
			for _, op := range ops {
				maxOff = max(maxOff, op.OffUs)
			}
		}
		if maxOff <= 1000 {
			reps = 5000
		}
	}
	for _, race := range []bool{h.Race, !h.Race} {
		j := job{"one", []string{strconv.Itoa(reps)}, race, reps}
		res := c.RunChild(vf.ChildOpts{Name: "one", Args: j.args, Race: race, Stdin: b, Timeout: time.Duration(min(reps, 200))*time.Second + time.Minute})
		handle(c, j, res)
		if c.Violations() > 0 {
			break
		}
	}
	c.Count("evaluations", 0)
}

func main() { vf.Main("C18", "exploration", parent, child) }
