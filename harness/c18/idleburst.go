// Idle-burst family of the C18 check: bounded progress of due elements while workers are idle.
//
// Clause: "every element that is neither cancelled nor dropped is eventually delivered exactly once", restated as
// bounded progress without a stopwatch: an element whose scheduled instant had already passed when it was added must
// not sit in the queue while a worker / poller is idle. The family starts k workers (2..16), waits until all of them are
// parked below the exported Queue.Poll, and then issues bursts of 2..k back-to-back Add / ExecuteAt / ExecuteAfter calls
// (one goroutine, or two concurrently) that mix
//
//	D  elements that are due when they are added (microseconds to centuries in the past, other representations),
//	G  due elements whose callback blocks at a harness gate (a long-running callback: consumes one worker),
//	F  far-future elements (hours to millennia ahead: whoever takes one out of the heap waits for centuries),
//	N  a few near-future elements (become due within milliseconds).
//
// At most k-1 workers are ever consumed by G and F elements, so by the model one worker is always free.
//
// Verdict (structural, by counting, at a stable point = every worker parked below Poll or at a harness gate, no caller in
// flight, identical goroutine states / Size() / number of deliveries in consecutive stop-the-world snapshots):
//
//	pending  P  = accepted elements that have not started (nothing is cancelled, no size bound in this family)
//	in heap  s  = Size()                                         (exported)
//	held     <= P - s      elements taken out of the heap and not yet handed over sit in a worker inside Poll
//	idle     >= w - (P - s)   w = workers parked below the exported Poll frame in anything but a lock acquisition
//	due elements that may be held (popped, timer expired but not yet fired) <= pops since they were added - deliveries since
//
// If at least one worker is provably idle and at least one born-due element is provably not held by any worker (it sits in
// the heap, or is gone), nobody is runnable and no timer exists that could end an idle worker's wait: the due element is
// not delivered before the far-future ones. This needs no knowledge of the primitive the workers park in and no duration:
// a worker that has been woken for the element is runnable (the point is not stable), a worker that holds it is counted.
// What is NOT demanded: delivery while every worker is consumed (head-of-line blocking behind far-future elements), any
// order among due elements, any latency.
package main

import (
	"fmt"
	"math/rand"
	"strings"
)

const burstScript = "idle-burst"

var burstWorkers = []int{2, 2, 2, 3, 3, 4, 4, 5, 6, 8, 12, 16}

// genBurst generates one idle-burst schedule. sp.Clients[p] is burst p (issued back to back).
func genBurst(rng *rand.Rand, idx int) spec {
	sp := spec{Script: burstScript, Index: idx}
	sp.Kind = []string{kQueue, kExec, kTask}[rng.Intn(3)]
	sp.Workers = burstWorkers[rng.Intn(len(burstWorkers))]
	sp.Flags = []int{fIgnore, fIgnore, fIgnore, fCancel, fCancel | fIgnore, 0}[rng.Intn(6)]
	sp.Probe = rng.Intn(4) == 0 // bursts are issued by two goroutines concurrently instead of one
	free := sp.Workers - 1      // workers that may be consumed by gated / far-future elements: one always stays free
	nBursts := 1 + rng.Intn(3)
	wide := rng.Intn(5) == 0
	hasDue, hasConsumer := false, false
	for p := 0; p < nBursts; p++ {
		m := 2 + rng.Intn(min(sp.Workers, 6)-1) // 2..min(k,6)
		if wide {
			m = 2 + rng.Intn(sp.Workers-1) // 2..k
		}
		var ops []opSpec
		for j := 0; j < m; j++ {
			op := opSpec{T: "add", Item: sp.NItems, ID: sp.NItems + 1}
			cls := rng.Intn(100)
			last := p == nBursts-1 && j == m-1
			switch {
			case last && !hasDue:
				cls = 99 // D
			case p == 0 && j == 0 && free > 0:
				cls = rng.Intn(55) // the first element of a run consumes a worker
			}
			if cls < 55 && free == 0 {
				cls = 99
			}
			switch {
			case cls < 25: // G: due, callback blocks at a gate; mostly earlier than every plain due element (so that it is the head)
				op.Gated = true
				if rng.Intn(10) < 7 {
					op.OffUs = -int64(3001 + rng.Intn(3000))
				} else {
					op.OffUs = -int64(1 + rng.Intn(3000))
				}
				free--
				hasConsumer = true
			case cls < 55: // F: far future
				switch q := rng.Intn(6); {
				case q < 4:
					op.When = farFutureWhens[q]
				case q == 4 && sp.Kind != kQueue:
					op.Via, op.DelayNs = "after", int64(2*3600)*1e9
					op.OffUs = op.DelayNs / 1000
				default:
					op.OffUs = 2 * farUs
				}
				free--
				hasConsumer = true
			case cls < 60: // N: becomes due within milliseconds
				op.OffUs = int64(300 + rng.Intn(2200))
			default: // D: due when added
				hasDue = true
				switch q := rng.Intn(20); {
				case q < 3:
					op.When = farPastWhens[q]
				case q == 3:
					op.When, op.OffUs = "nomono", -int64(1+rng.Intn(3000))
				case q == 4:
					op.When, op.OffUs = reprWhens[rng.Intn(2)], -int64(1+rng.Intn(3000))
				case q < 9 && sp.Kind != kQueue:
					op.Via = "after"
					op.DelayNs = []int64{-1, -1000, -int64(rng.Intn(3000000)) - 1, -int64(3 * 3600 * 1e9)}[rng.Intn(4)]
					op.OffUs = op.DelayNs / 1000
				default:
					op.OffUs = -int64(1 + rng.Intn(3000))
				}
			}
			ops = append(ops, op)
			sp.NItems++
		}
		sp.Clients = append(sp.Clients, ops)
	}
	_ = hasConsumer
	return sp
}

func burstClass(op opSpec) string {
	switch {
	case op.Gated:
		return "G"
	case isFarFutureWhen(op.When), op.OffUs >= farUs:
		return "F"
	case op.When == "" && op.OffUs > 0:
		return "N"
	}
	return "D"
}

func isFarFutureWhen(w string) bool {
	for _, f := range farFutureWhens {
		if f == w {
			return true
		}
	}
	return false
}

func (sp spec) burstShape() string {
	var b strings.Builder
	for p, ops := range sp.Clients {
		if p > 0 {
			b.WriteByte('|')
		}
		for _, op := range ops {
			b.WriteString(burstClass(op))
		}
	}
	return b.String()
}

// burstModel carries the counting model from one stable point to the next.
type burstModel struct {
	size      int // Size() at the previous stable point
	dueHeldUB int // upper bound of the pending born-due elements that a worker may be holding inside Poll
}

// stablePt is one consistent round: snapshot, Size(), tallies of the log - with the number of deliveries unchanged across it.
type stablePt struct {
	o             obs
	size, started int
	pending       int   // accepted, not started
	far, due      int   // of these: far-future / already due when added
	burstStarted  int   // elements of the current burst that have started (they were certainly popped in this phase)
	first         *item // first pending born-due element
	key           string
}

func (r *run) tally(burst []*item) (t stablePt) {
	for _, it := range r.allItems() {
		if it == nil || it.schedRet.Load() == 0 || !it.accepted.Load() || it.starts.Load() > 0 {
			continue
		}
		t.pending++
		switch {
		case it.far > 0:
			t.far++
		case it.bornDue:
			if t.due++; t.first == nil {
				t.first = it
			}
		}
	}
	for _, it := range burst {
		if it.starts.Load() > 0 {
			t.burstStarted++
		}
	}
	return t
}

// stablePoint waits for a stable point: every worker parked (below Poll in anything but a lock acquisition, or inside a
// harness callback), no harness caller in flight, and the same goroutine states, Size(), pending elements and number of
// deliveries in three consecutive rounds (a round = snapshot, Size(), tallies; invalid if a delivery happened across it).
func (r *run) stablePoint(burst []*item) stablePt {
	last, same := "", 0
	for i := 0; ; i++ {
		st0 := r.startedCount()
		o := r.observe()
		r.checkDead(o)
		if o.allParked() && o.pollOther == 0 && o.clients == 0 && o.shutdown == 0 && !o.deadCand() {
			size := r.size()
			t := r.tally(burst)
			t.o, t.size, t.started = o, size, r.startedCount()
			t.key = fmt.Sprintf("%s|%d|%d|%d", o.sig, size, t.started, t.pending)
			switch {
			case st0 != t.started:
				last, same = "", 0
			case t.key == last:
				if same++; same >= 2 {
					return t
				}
			default:
				last, same = t.key, 0
			}
		} else {
			last, same = "", 0
		}
		pace(i)
	}
}

// judgeIdleDue applies the counting rule at a stable point. added = accepted Add / ExecuteAt calls since the previous point.
func (r *run) judgeIdleDue(t stablePt, added int, bm *burstModel, burst int) {
	o := t.o
	w := o.pollCond + o.pollSelect
	heldUB := max(0, t.pending-t.size)
	dueHeldUB := min(t.due, heldUB)
	// elements popped in this phase = Size() before + added - Size() now; those of them that have not started are held. Only
	// deliveries of this burst's own elements are subtracted (an older element delivered now may have been popped earlier).
	if pops := bm.size + added - t.size; pops >= 0 {
		dueHeldUB = min(dueHeldUB, bm.dueHeldUB+max(0, pops-t.burstStarted))
	} else {
		r.cnt["idle_burst_size_model_mismatch"]++ // Size() grew by more than what was added: no sharpening from this phase
	}
	idleLB := w - heldUB
	stuckLB := t.due - dueHeldUB
	bm.size, bm.dueHeldUB = t.size, dueHeldUB

	r.cnt["idle_burst_stable_points"]++
	consumed := o.inCallback + min(t.far, heldUB)
	if idleLB >= 1 {
		r.cnt["idle_burst_points_with_provably_idle_worker"]++
		if consumed >= 1 {
			r.cnt["idle_burst_points_idle_and_consumed_workers_together"]++
		}
	}
	if idleLB >= 1 && stuckLB >= 1 {
		r.violate(r.sp.Kind+"/due-element-not-taken-while-worker-idle",
			"stable point after burst %d (%s): every one of the %d workers is parked (%d below Poll, %d in a callback held by the harness), nothing is runnable and no caller is in flight in consecutive identical snapshots; %d accepted element(s) have not started, Size()=%d, so at most %d of them are held by workers inside Poll and at least %d worker(s) below Poll are idle; %d pending element(s) were already due when they were added (first: element %d, offset %dus, %s) and at most %d of those can be held, so at least %d due element(s) sit in the queue (or are gone) while an idle worker sleeps - nothing can wake it before the %d far-future element(s) expire",
			burst, r.sp.burstShape(), o.nWorkers, w, o.inCallback, t.pending, t.size, heldUB, idleLB, t.due, t.first.idx, t.first.offUs, whenName(t.first), dueHeldUB, stuckLB, t.far)
	}
}

func (r *run) scriptIdleBurst() {
	sp := r.sp
	r.shapes = append(r.shapes, fmt.Sprintf("%s/w%d/c%v/%s", sp.Kind, sp.Workers, sp.Probe, sp.burstShape()))
	// all items exist before the first call (client goroutines index r.items)
	for _, ops := range sp.Clients {
		for _, op := range ops {
			it := r.appendItem(op.ID, op.OffUs, op.Gated)
			it.when, it.via, it.delayNs = op.When, op.Via, op.DelayNs
		}
	}
	t := r.stablePoint(nil)
	if w := t.o.pollCond + t.o.pollSelect; w != sp.Workers || t.size != 0 { // calibration: all k workers idle below Poll, or the rule is blind
		r.blind = fmt.Sprintf("idle-burst calibration: %d of %d workers visible below Queue.Poll on an idle queue (Size()=%d)", w, sp.Workers, t.size)
		return
	}
	bm := &burstModel{size: t.size}
	for p, ops := range sp.Clients {
		if sp.Probe && len(ops) >= 2 { // two concurrent callers
			r.clientsWG.Add(2)
			go r.client(1, ops[:len(ops)/2])
			go r.client(2, ops[len(ops)/2:])
			r.clientsWG.Wait()
		} else {
			for _, op := range ops { // back to back
				r.schedule(r.items[op.Item])
			}
		}
		added := 0
		var burst []*item
		for _, op := range ops {
			burst = append(burst, r.items[op.Item])
			if r.items[op.Item].accepted.Load() {
				added++
			}
		}
		r.cnt["idle_burst_bursts"]++
		r.cnt["idle_burst_bursts_of_"+map[bool]string{true: "7_to_16", false: fmt.Sprint(len(ops))}[len(ops) > 6]]++
		t = r.stablePoint(burst)
		if t.o.nWorkers != sp.Workers {
			r.blind = fmt.Sprintf("idle-burst: %d of %d workers visible", t.o.nWorkers, sp.Workers)
			return
		}
		r.judgeIdleDue(t, added, bm, p)
	}
	// evidence: born-due elements delivered before the harness released anything, while other workers were consumed
	consumers, dueDone := 0, 0
	for _, it := range r.allItems() {
		switch {
		case it.gated && it.starts.Load() > 0, it.far > 0 && it.accepted.Load():
			consumers++
		case it.bornDue && !it.gated && it.starts.Load() > 0:
			dueDone++
		}
	}
	r.cnt["idle_burst_due_elements_delivered_before_release"] += dueDone
	if consumers > 0 && dueDone > 0 {
		r.cnt["idle_burst_runs_due_delivered_next_to_consumed_workers"]++
	}
	r.patterns["gated:idle-burst"] = true
}

// judgeStalled applies the counting rule (without the per-burst sharpening) to a run of any family whose final wait ran
// into the logical bound: the same picture in hundreds of consecutive snapshots, no element waiting for a near due time.
// Only for histories the simple model covers: no size bound, nothing cancelled or replaced, no CancelPendingElements.
func (r *run) judgeStalled(o obs) {
	if r.sp.MaxSize != 0 || r.flags&fCancel != 0 && r.shCall.Load() != 0 || o.clients != 0 || !o.allParked() || o.pollOther != 0 || o.deadCand() || r.stallN <= stallLimit {
		return
	}
	r.mu.Lock()
	nc := len(r.cancels)
	r.mu.Unlock()
	if nc > 0 {
		return
	}
	ids := map[int]bool{}
	pending, far, due := 0, 0, 0
	var first *item
	for _, it := range r.allItems() {
		if it == nil || it.schedCall.Load() == 0 {
			continue
		}
		if it.schedRet.Load() == 0 || r.sp.Kind == kTask && ids[it.id] {
			return // a call never returned / an identifier was scheduled twice: outside the simple model
		}
		ids[it.id] = true
		if !it.accepted.Load() || it.starts.Load() > 0 {
			continue
		}
		pending++
		switch {
		case it.far > 0:
			far++
		case it.bornDue:
			if due++; first == nil {
				first = it
			}
		}
	}
	st0 := r.startedCount()
	size := r.size()
	o2 := r.observe()
	if o2.sig != o.sig || r.startedCount() != st0 || !o2.allParked() {
		return
	}
	w := o.pollCond + o.pollSelect
	heldUB := max(0, pending-size)
	if idleLB, stuckLB := w-heldUB, due-min(due, heldUB); idleLB >= 1 && stuckLB >= 1 {
		r.violate(r.sp.Kind+"/due-element-not-taken-while-worker-idle",
			"the run does not come to rest (same picture in %d consecutive snapshots, Shutdown flags %s, shutdown call tick %d): every remaining worker is parked (%d below Poll, %d in a callback), nothing is runnable; %d accepted element(s) have not started, Size()=%d, so at most %d are held by workers inside Poll and at least %d worker(s) below Poll are idle; %d pending element(s) were already due when they were added (first: element %d, offset %dus, %s), so at least %d of them sit in the queue (or are gone) while an idle worker sleeps - nothing can wake it before the %d far-future element(s) expire",
			r.stallN, flagNames(r.flags), r.shCall.Load(), w, o.inCallback, pending, size, heldUB, idleLB, due, first.idx, first.offUs, whenName(first), stuckLB, far)
	}
}
