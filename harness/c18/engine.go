// Engine of the C18 check: one "run" drives a real timed.Queue / timed.Executor /
// timed.TaskExecutor, records every operation on a logical clock and decides the
// clauses of the property from the recorded history plus consistent goroutine
// snapshots (structural quiescence). Wall clock is read for one purpose only:
// the one-directional comparison "delivery instant >= scheduled instant"
// (monotonic readings). Sleeps are pacing/jitter; no verdict depends on them.
package main

import (
	"fmt"
	"math"
	"runtime"
	"sort"
	"strings"
	"sync"
	"sync/atomic"
	"time"

	"github.com/iotaledger/hive.go/runtime/timed"
	"verif/harness/internal/gdump"
)

const (
	kQueue = "queue"
	kExec  = "executor"
	kTask  = "taskexec"
)

// harness-side flag bits (stable in replay files)
const (
	fCancel   = 1 // timed.CancelPendingElements
	fIgnore   = 2 // timed.IgnorePendingTimeouts
	fPanic    = 4 // timed.PanicOnModificationsAfterShutdown
	fDontWait = 8 // timed.DontWaitForShutdown
)

func flagNames(f int) string {
	var s []string
	if f&fCancel != 0 {
		s = append(s, "CancelPendingElements")
	}
	if f&fIgnore != 0 {
		s = append(s, "IgnorePendingTimeouts")
	}
	if f&fPanic != 0 {
		s = append(s, "PanicOnModificationsAfterShutdown")
	}
	if f&fDontWait != 0 {
		s = append(s, "DontWaitForShutdown")
	}
	if len(s) == 0 {
		return "none"
	}
	return strings.Join(s, "|")
}

func timedFlags(f int) []timed.ShutdownFlag {
	var out []timed.ShutdownFlag
	if f&fCancel != 0 {
		out = append(out, timed.CancelPendingElements)
	}
	if f&fIgnore != 0 {
		out = append(out, timed.IgnorePendingTimeouts)
	}
	if f&fPanic != 0 {
		out = append(out, timed.PanicOnModificationsAfterShutdown)
	}
	if f&fDontWait != 0 {
		out = append(out, timed.DontWaitForShutdown)
	}
	return out
}

// ---------------------------------------------------------------- logical clock

var clock atomic.Uint64

func tick() uint64 { return clock.Add(1) }

func atomicMax(a *atomic.Uint64, v uint64) {
	for {
		o := a.Load()
		if o >= v || a.CompareAndSwap(o, v) {
			return
		}
	}
}

// ---------------------------------------------------------------- specification of a run (replayable)

type opSpec struct {
	T       string `json:"t"` // add | cancel | cancelid | open | pause
	Item    int    `json:"item,omitempty"`
	ID      int    `json:"id,omitempty"`
	OffUs   int64  `json:"off_us,omitempty"`
	Gated   bool   `json:"gated,omitempty"`
	PauseUs int    `json:"pause_us,omitempty"`
	When    string `json:"when,omitempty"` // special scheduled instant (see instant); "" = now + OffUs
	Via     string `json:"via,omitempty"`  // "after": the element is scheduled through ExecuteAfter(delay) instead of ExecuteAt(instant) (Executor, TaskExecutor)
	DelayNs int64  `json:"delay_ns,omitempty"`
}

type spec struct {
	Script  string `json:"script,omitempty"` // scripted (gated, deterministic) scenario name; "" = seeded random run
	Kind    string `json:"kind"`
	Workers int    `json:"workers"`
	MaxSize int    `json:"max_size"`
	Flags   int    `json:"flags"`
	Far     bool   `json:"far,omitempty"`   // scripted: pending elements are scheduled one hour ahead and flushed by Shutdown(IgnorePendingTimeouts)
	Probe   bool   `json:"probe,omitempty"` // scripted: scenario-specific extra step
	Blocker bool   `json:"blocker,omitempty"`
	Perm    int    `json:"perm,omitempty"` // scripted far-mix scenarios: seed of the order in which the elements are added
	Rel     int    `json:"rel,omitempty"`  // scripted bounded-queue scenarios: new element earlier (-1), equal (0), later (+1) than the pending ones

	Clients      [][]opSpec `json:"clients,omitempty"`
	NItems       int        `json:"n_items,omitempty"`
	ShutdownMode int        `json:"shutdown_mode,omitempty"` // 0: after clients, gates opened first; 1: after clients, gates opened after the Shutdown call; 2: concurrent with clients
	ShutdownAt   int        `json:"shutdown_at,omitempty"`   // mode 2: after this many operations of client 0
	A            string     `json:"a,omitempty"`             // scripted resched-entrypoints: entry point and time class of the first call ("after:0", "at:zero", ...)
	B            string     `json:"b,omitempty"`             // ... and of the rescheduling call
	Index        int        `json:"index"`
}

func (s spec) key() string {
	return fmt.Sprintf("%s|%s>%s|%s|w%d|m%d|f%d|far%v|p%v|b%v|r%d|c%d|sm%d", s.Script, s.A, s.B, s.Kind, s.Workers, s.MaxSize, s.Flags, s.Far, s.Probe, s.Blocker, s.Rel*10+s.Perm, len(s.Clients), s.ShutdownMode)
}

// ---------------------------------------------------------------- recorded history

type item struct {
	idx     int
	id      int // TaskExecutor identifier (0 for the other kinds)
	offUs   int64
	gated   bool
	gate    chan struct{}
	once    sync.Once
	sched   time.Time // scheduled instant (monotonic reading inside)
	abs     time.Time // scripted scenarios: absolute scheduled instant (overrides now+offUs) to produce equal/earlier/later keys
	hasAbs  bool
	via     string // "after": scheduled through ExecuteAfter(delay); the scheduled instant is then only known as a lower bound
	delayNs int64
	when    string // special instant class (far future / far past / representation of an ordinary instant)
	far     int    // +1: scheduled more than an hour after the Add (not due within any run), -1: more than an hour before, 0: ordinary
	bornDue bool   // the scheduled instant had already passed when Add / ExecuteAt / ExecuteAfter was called: no clock can make it wait

	schedCall, schedRet atomic.Uint64
	accepted            atomic.Bool
	panicked            atomic.Bool
	cancelFn            atomic.Value // func()

	starts    atomic.Int32
	startTick atomic.Uint64
	endTick   atomic.Uint64
	earlyNs   atomic.Int64  // scheduled instant - delivery instant; > 0 = delivered early
	prevEndLB atomic.Uint64 // the deciding Poll began after this tick (end of the previous callback of the same worker / tick before the Poll call)
	snapLB    atomic.Uint64 // last tick at which a snapshot showed every worker parked while this element had not started
	doneTick  atomic.Uint64 // a tick at which the worker that ran the callback was known to be back in Poll (TaskExecutor wrapper finished)
}

// lb is a lower bound (tick) of the moment the decision to deliver this element was taken.
func (it *item) lb() uint64 { return max(it.prevEndLB.Load(), it.snapLB.Load()) }

type cancelRec struct {
	ByID     bool   `json:"by_id,omitempty"`
	Item     int    `json:"item"`
	ID       int    `json:"id,omitempty"`
	Call     uint64 `json:"call"`
	Ret      uint64 `json:"ret"`
	Result   bool   `json:"result,omitempty"`
	Panicked bool   `json:"panicked,omitempty"`
}

type workerState struct {
	prevEnd  uint64
	prevItem *item
}

type viol struct {
	fp, what string
}

type run struct {
	sp   spec
	base map[uint64]bool

	q  *timed.Queue[int]
	ex *timed.Executor
	te *timed.TaskExecutor[int]

	items  []*item                 // owned by the driver goroutine (scripted runs append, random runs preallocate)
	itemsV atomic.Pointer[[]*item] // published copy: readers never park on a lock between a delivery decision and "started"

	mu      sync.Mutex
	cancels []cancelRec

	shCall, shRet atomic.Uint64
	shPanicked    atomic.Bool
	shIssued      atomic.Bool

	workers sync.Map // goroutine id -> *workerState (touched by its owner only)

	clientsWG sync.WaitGroup

	bogus atomic.Int32 // values returned by Poll that were never added

	// results
	hang       bool // Executor.Shutdown parked for ever (outside the statement)
	sizeAtEnd  int
	viols      []viol
	cnt        map[string]int
	patterns   map[string]bool
	lastObs    obs
	notes      []string
	windowHeld bool
	blind      string // non-empty: workers not identifiable, run is undecidable

	flags        int       // flags actually given to Shutdown (sp.Flags, or forced IgnorePendingTimeouts after a stall, see waitDue)
	flushForced  bool      // the due elements did not come out while far-future ones were pending: flushed to decide by delivery order
	endAt        time.Time // instant at which structural quiescence was established
	together     []*item   // elements that were in the heap together (all workers held at gates, none of them started)
	stallKey     string
	stallN       int
	stalled      atomic.Bool
	gaveUp       string // the case could not be decided within the logical bound: no never-delivered verdicts, reported as a note
	deadlock     string // fingerprint of a structurally decided Shutdown dead-lock
	deadText     string
	deadSig      string
	deadSeen     int
	guarded      bool
	deadCandSeen atomic.Bool // set by the monitor of a random run
	holders      int         // workers still holding a (far-future) element inside Poll at quiescence
	shapes       []string    // idle-burst runs: shape of the schedule (distinct-class evidence)
}

func newRun(sp spec) *run {
	r := &run{sp: sp, flags: sp.Flags, base: map[uint64]bool{}, cnt: map[string]int{}, patterns: map[string]bool{}}
	for _, g := range gdump.Snapshot() {
		r.base[g.ID] = true
	}
	switch sp.Kind {
	case kQueue:
		r.q = timed.NewQueue[int](timed.WithMaxSize[int](sp.MaxSize))
		if sp.Script != "size-bound" { // that scenario fills the queue before any poller exists
			r.startPollers(sp.Workers)
		}
	case kExec:
		r.ex = timed.NewExecutor(sp.Workers, timed.WithMaxQueueSize(sp.MaxSize))
	case kTask:
		r.te = timed.NewTaskExecutor[int](sp.Workers, timed.WithMaxQueueSize(sp.MaxSize))
	default:
		panic("kind " + sp.Kind)
	}
	// self-check of the structural rules: every worker that must exist by configuration has to be visible in a snapshot
	// (runnable or parked). If not, the snapshot rules are blind on this build and no verdict may be derived from them.
	if o := r.observe(); o.nWorkers != sp.Workers && sp.Script != "size-bound" || sp.Script == "size-bound" && sp.Kind != kQueue && o.nWorkers != sp.Workers {
		r.blind = fmt.Sprintf("snapshot shows %d worker goroutine(s) of runtime/timed, configuration has %d", o.nWorkers, sp.Workers)
	}
	return r
}

func (r *run) size() int {
	switch r.sp.Kind {
	case kQueue:
		return r.q.Size()
	case kExec:
		return r.ex.Size()
	}
	return r.te.Size()
}

func (r *run) newItem(idx, id int, offUs int64, gated bool) *item {
	it := &item{idx: idx, id: id, offUs: offUs, gated: gated}
	if gated {
		it.gate = make(chan struct{})
	}
	return it
}

func (r *run) appendItem(id int, offUs int64, gated bool) *item {
	it := r.newItem(len(r.items), id, offUs, gated)
	r.items = append(r.items, it)
	r.publishItems()
	return it
}

func (r *run) publishItems() {
	cp := append([]*item(nil), r.items...)
	r.itemsV.Store(&cp)
}

func (r *run) allItems() []*item {
	if p := r.itemsV.Load(); p != nil {
		return *p
	}
	return nil
}

// startPollers starts n pollers and returns when each of them is running (a goroutine that
// has not run yet shows only its go-statement wrapper in a snapshot and would be invisible).
func (r *run) startPollers(n int) {
	up := make(chan struct{})
	for i := 0; i < n; i++ {
		go r.poller(up)
	}
	for i := 0; i < n; i++ {
		<-up
	}
}

// poller is the consumer of a directly used Queue (the harness' counterpart of an Executor worker).
func (r *run) poller(up chan struct{}) {
	up <- struct{}{}
	for {
		pc := tick()
		v := r.q.Poll(true)
		if v == 0 {
			if r.q.IsShutdown() {
				return
			}
			runtime.Gosched()
			continue
		}
		its := r.allItems()
		if v < 1 || v > len(its) || its[v-1] == nil {
			r.bogus.Add(1)
			continue
		}
		r.deliver(its[v-1], pc)
	}
}

// deliver is the body of every callback / the hand-over of every polled value.
func (r *run) deliver(it *item, pollCall uint64) {
	n := it.starts.Add(1) // first statement: "started" is visible before anything can park
	now := time.Now()
	st := tick()
	w := gdump.GoID()
	var ws *workerState
	if v, ok := r.workers.Load(w); ok {
		ws = v.(*workerState)
	} else {
		ws = &workerState{}
		r.workers.Store(w, ws)
	}
	if n == 1 {
		it.earlyNs.Store(int64(it.sched.Sub(now)))
		atomicMax(&it.prevEndLB, max(ws.prevEnd, pollCall))
		it.startTick.Store(st)
	}
	if ws.prevItem != nil {
		ws.prevItem.doneTick.CompareAndSwap(0, st)
	}
	if it.gated {
		<-it.gate
	}
	e := tick()
	if n == 1 {
		it.endTick.Store(e)
	}
	ws.prevEnd = e
	ws.prevItem = it
}

func (r *run) open(it *item) {
	if it != nil && it.gated {
		it.once.Do(func() { close(it.gate) })
	}
}

func (r *run) openAll() {
	for _, it := range r.allItems() {
		if it != nil {
			r.open(it)
		}
	}
}

// instant builds the scheduled instant of an element: ordinary (now + offset), far in the future (around the year-2262 end
// of the int64-nanosecond range, year 3000, year 9999), far in the past (before the 1677 start of that range, year 1, the
// zero Time), or the ordinary instant in another representation (UTC, fixed zone, without monotonic reading).
func instant(when string, now time.Time, offUs int64) time.Time {
	ord := now.Add(time.Duration(offUs) * time.Microsecond)
	switch when {
	case "y2262-1s":
		return time.Unix(0, math.MaxInt64).Add(-time.Second)
	case "y2262+1s":
		return time.Unix(0, math.MaxInt64).Add(time.Second)
	case "y3000":
		return time.Date(3000, 1, 1, 0, 0, 0, 0, time.UTC)
	case "y9999":
		return time.Date(9999, 12, 31, 23, 59, 59, 0, time.UTC)
	case "y1677":
		return time.Unix(0, math.MinInt64).Add(-time.Second)
	case "y1":
		return time.Date(1, 1, 1, 0, 0, 1, 0, time.UTC)
	case "zero":
		return time.Time{}
	case "utc":
		return ord.UTC()
	case "zone":
		return ord.In(time.FixedZone("c18", 5*3600+1800))
	case "nomono":
		return ord.Round(0)
	}
	return ord
}

var farFutureWhens = []string{"y2262-1s", "y2262+1s", "y3000", "y9999"}
var farPastWhens = []string{"y1677", "y1", "zero"}
var reprWhens = []string{"utc", "zone", "nomono"}

// schedule performs Add / ExecuteAt for the element.
func (r *run) schedule(it *item) {
	now := time.Now()
	after := it.via == "after" && r.sp.Kind != kQueue
	delay := time.Duration(it.delayNs)
	if after {
		// ExecuteAfter computes time.Now().Add(delay) itself, later than this reading: now+delay is a lower bound of the
		// scheduled instant, so "delivered before now+delay" still proves an early delivery (and nothing else is claimed).
		it.sched = now.Add(delay)
	} else if it.hasAbs || !it.abs.IsZero() {
		it.sched = it.abs
	} else {
		it.sched = instant(it.when, now, it.offUs)
	}
	switch {
	case it.sched.After(now.Add(time.Hour)):
		it.far = 1
	case it.sched.Before(now.Add(-time.Hour)):
		it.far = -1
	}
	it.bornDue = it.sched.Before(now) && (!after || delay < 0)
	it.schedCall.Store(tick())
	func() {
		defer func() {
			if p := recover(); p != nil {
				it.panicked.Store(true)
			}
		}()
		switch r.sp.Kind {
		case kQueue:
			if el := r.q.Add(it.idx+1, it.sched); el != nil {
				it.cancelFn.Store(el.Cancel)
				it.accepted.Store(true)
			}
		case kExec:
			var el *timed.ScheduledTask
			if after {
				el = r.ex.ExecuteAfter(func() { r.deliver(it, 0) }, delay)
			} else {
				el = r.ex.ExecuteAt(func() { r.deliver(it, 0) }, it.sched)
			}
			if el != nil {
				it.cancelFn.Store(el.Cancel)
				it.accepted.Store(true)
			}
		case kTask:
			var el *timed.ScheduledTask
			if after {
				el = r.te.ExecuteAfter(it.id, func() { r.deliver(it, 0) }, delay)
			} else {
				el = r.te.ExecuteAt(it.id, func() { r.deliver(it, 0) }, it.sched)
			}
			if el != nil {
				it.cancelFn.Store(el.Cancel)
				it.accepted.Store(true)
			}
		}
	}()
	it.schedRet.Store(tick())
}

// cancelItem calls QueueElement.Cancel of the element (all kinds).
func (r *run) cancelItem(it *item) bool {
	f, _ := it.cancelFn.Load().(func())
	if f == nil {
		return false
	}
	rec := cancelRec{Item: it.idx, ID: it.id, Call: tick()}
	func() {
		defer func() {
			if p := recover(); p != nil {
				rec.Panicked = true
			}
		}()
		f()
	}()
	rec.Ret = tick()
	r.mu.Lock()
	r.cancels = append(r.cancels, rec)
	r.mu.Unlock()
	return true
}

// cancelID calls TaskExecutor.Cancel(id).
func (r *run) cancelID(id int) bool {
	rec := cancelRec{ByID: true, ID: id, Item: -1, Call: tick()}
	func() {
		defer func() {
			if p := recover(); p != nil {
				rec.Panicked = true
			}
		}()
		rec.Result = r.te.Cancel(id)
	}()
	rec.Ret = tick()
	r.mu.Lock()
	r.cancels = append(r.cancels, rec)
	r.mu.Unlock()
	return rec.Result
}

// shutdownAsync calls Shutdown in its own goroutine (Executor.Shutdown may wait for callbacks the harness still gates).
func (r *run) shutdownAsync() {
	if !r.shIssued.CompareAndSwap(false, true) {
		return
	}
	started := make(chan struct{})
	go r.doShutdown(started)
	<-started
}

func (r *run) doShutdown(started chan struct{}) {
	fl := timedFlags(r.flags)
	r.shCall.Store(tick())
	close(started)
	func() {
		defer func() {
			if p := recover(); p != nil {
				r.shPanicked.Store(true)
			}
		}()
		switch r.sp.Kind {
		case kQueue:
			r.q.Shutdown(fl...)
		case kExec:
			r.ex.Shutdown(fl...)
		case kTask:
			r.te.Shutdown(fl...)
		}
	}()
	r.shRet.Store(tick())
}

// ---------------------------------------------------------------- snapshots

type obs struct {
	s0         uint64 // tick taken before the snapshot
	nWorkers   int    // worker / poller goroutines of this run still alive
	parked     int    // of these: parked (sync primitive, channel, select)
	pollCond   int    // below the exported Queue.Poll in sync.Cond.Wait: certainly idle (waiting for an element)
	pollSelect int    // below Queue.Poll in any other non-lock blocking primitive: holding an element (timer/cancel/shutdown) or idle on a channel
	pollOther  int    // inside Queue.Poll parked on one of the queue's mutexes
	inCallback int    // parked inside a harness callback (gate)
	clients    int
	shutdown   int // 0: no Shutdown goroutine, 1: parked in WaitGroup.Wait inside Executor.Shutdown, 2: otherwise alive
	sig        string

	// lock waits: goroutines of this run parked in sync.(*Mutex).Lock / sync.(*RWMutex).Lock / RLock below a runtime/timed frame
	mutexShutdown    bool // the Shutdown caller (exported Shutdown frame) is one of them
	mutexAdd         int  // callers of the exported Add / ExecuteAt / ExecuteAfter
	mutexPoll        int  // callers of the exported Poll (workers, pollers)
	mutexOther       int  // Cancel, Size, ...
	waitingUnderPoll int  // goroutines parked below the exported Poll in a primitive that may carry a timer (select, channel, ...)
	busy             int  // goroutines of this run touching the queue that are NOT parked for good (runnable, select/timer, gate, sleep, ...)
}

// deadCand: the Shutdown caller and at least one other caller are parked in lock acquisitions.
func (o obs) deadCand() bool { return o.mutexShutdown && o.mutexAdd+o.mutexPoll+o.mutexOther > 0 }

// dead: ... and every other goroutine of the run that can touch the queue is parked where only one of them could release it
// (sync.Cond.Wait under Poll, WaitGroup.Wait under Executor.Shutdown). A mutex wait involves no timer: with nobody
// runnable, nobody can ever unlock, signal or broadcast.
func (o obs) dead() bool { return o.deadCand() && o.busy == 0 }

// stall detection: a logical bound for every wait loop (no case may spin until the child-wide watchdog)
const stallLimit = 400

var errGiveUp = fmt.Errorf("undecidable case")

func (o obs) deadFP() string {
	switch {
	case o.mutexAdd > 0:
		return "shutdown/deadlock-with-concurrent-add"
	case o.mutexPoll > 0:
		return "shutdown/deadlock-with-concurrent-poll"
	}
	return "shutdown/deadlock-with-concurrent-call"
}

// hasTimedMethod: an exported method of package runtime/timed with one of the names is on the stack (any receiver, any depth).
func hasTimedMethod(g gdump.G, names ...string) bool {
	for _, f := range g.Frames {
		if !strings.Contains(f, timedPkgFrame) {
			continue
		}
		for _, n := range names {
			if strings.HasSuffix(f, ")."+n) {
				return true
			}
		}
	}
	return false
}

func inMutexWait(g gdump.G) bool {
	switch g.State {
	case "sync.Mutex.Lock", "sync.RWMutex.Lock", "sync.RWMutex.RLock":
		return g.Has(timedPkgFrame) && (g.Has("sync.(*Mutex).Lock") || g.Has("sync.(*RWMutex).Lock") || g.Has("sync.(*RWMutex).RLock"))
	}
	return false
}

var errDeadCandidate = fmt.Errorf("deadlock candidate")

func (o obs) allParked() bool { return o.parked == o.nWorkers }
func (o obs) allInPoll() bool { return o.pollCond+o.pollSelect+o.pollOther == o.nWorkers }
func (o obs) allIdle() bool   { return o.pollCond == o.nWorkers }

// timedPkgFrame matches any function of package runtime/timed (methods, closures, generic instantiations).
const timedPkgFrame = "hive.go/runtime/timed."

// isPollFrame matches the exported method Queue.Poll - the only hive.go function name the snapshot rules rely on
// (besides Executor.Shutdown); it may appear anywhere in the stack, whatever helpers it calls.
func isPollFrame(f string) bool {
	return strings.Contains(f, "runtime/timed.(*Queue[") && strings.HasSuffix(f, ".Poll")
}

func hasPoll(g gdump.G) bool {
	for _, f := range g.Frames {
		if isPollFrame(f) {
			return true
		}
	}
	return false
}

// observe takes one consistent snapshot, classifies the goroutines of this run and
// derives the two structural facts the oracle uses:
//   - if every worker is parked, no delivery decision is in progress, so every element
//     that has not started by then was undecided at tick s0 (snapLB);
//   - if every worker is parked inside Poll, every callback that had ended before the
//     snapshot has also left the TaskExecutor wrapper (doneTick).
func (r *run) observe() obs {
	its := r.allItems()
	var ended []*item
	for _, it := range its {
		if it != nil && it.endTick.Load() != 0 && it.doneTick.Load() == 0 {
			ended = append(ended, it)
		}
	}
	o := obs{s0: tick()}
	gs := gdump.Snapshot()
	s1 := tick()
	var sig strings.Builder
	running := 0
	for _, g := range gs {
		if g.State == "running" { // the snapshotting goroutine itself; any further one means something is still executing
			if running++; running > 1 {
				o.busy++
			}
			continue
		}
		if r.base[g.ID] {
			continue
		}
		if touches := g.Has(timedPkgFrame) || g.Has("main.(*run).client") || g.Has("main.(*run).poller") || g.Has("main.(*run).doShutdown"); touches {
			switch {
			case inMutexWait(g) && g.Has("main.(*run).doShutdown") && hasTimedMethod(g, "Shutdown"):
				o.mutexShutdown = true
			case inMutexWait(g) && hasTimedMethod(g, "Add", "ExecuteAt", "ExecuteAfter"):
				o.mutexAdd++
			case inMutexWait(g) && hasPoll(g):
				o.mutexPoll++
			case inMutexWait(g):
				o.mutexOther++
			case g.State == "sync.Cond.Wait" && hasPoll(g): // a condition variable has no timer: idle for good unless somebody signals
			case g.Parked() && hasPoll(g): // any other blocking primitive under Poll: holding an element (timer) or idle on a channel - see nearMayBeHeld
				o.waitingUnderPoll++
			case g.Parked() && g.Has("main.(*run).doShutdown") && hasTimedMethod(g, "Shutdown"): // Shutdown waiting for its workers, whatever the primitive
			default:
				o.busy++
			}
		}
		switch {
		case g.Has("main.(*run).doShutdown"):
			// harness-owned goroutine calling the exported Shutdown
			// "Shutdown has parked" = the harness' own shutdown goroutine is blocked below the exported Shutdown in ANY
			// primitive (WaitGroup, channel, select, Cond, ...) except a lock acquisition, which is transient or a dead-lock.
			if g.Parked() && hasTimedMethod(g, "Shutdown") && !inMutexWait(g) {
				o.shutdown = 1
			} else {
				o.shutdown = 2
			}
		case g.Has("main.(*run).client"):
			o.clients++
		case g.Has("main.(*run).monitor"), g.Has("main.runScript"), g.Has("main.runRandom"):
			// other harness-owned goroutines (driver, monitor): never workers
		case g.Has("main.(*run).poller") || g.Has(timedPkgFrame):
			// worker: a poller the harness started itself, or a goroutine the harness did not create that has any frame
			// in package runtime/timed (an Executor worker, whatever its function is called). Its position is decided from
			// the goroutine state, stdlib frames, the exported Queue.Poll frame anywhere in the stack and harness frames only.
			o.nWorkers++
			fmt.Fprintf(&sig, "%d:%s;", g.ID, g.State)
			// A worker counts as parked only where no delivery decision can be in flight: anywhere inside Queue.Poll
			// (the decision is the return from Poll) or inside the harness callback (already counted as started).
			// A worker parked elsewhere - e.g. on the TaskExecutor mutex between Poll and the callback - does not.
			switch {
			case !g.Parked():
			case hasPoll(g) && g.State == "sync.Cond.Wait": // certainly idle: no timer can end this wait
				o.parked++
				o.pollCond++
			case hasPoll(g) && inMutexWait(g): // before any decision, waiting for one of the queue's locks
				o.parked++
				o.pollOther++
			case hasPoll(g): // any other blocking primitive: holding an element until it is due, or idle in a channel-based wait
				o.parked++
				o.pollSelect++
			case g.Has("main.(*run).deliver"):
				o.parked++
				o.inCallback++
			}
		}
	}
	o.sig = sig.String()
	if o.allParked() {
		for _, it := range its {
			if it != nil && it.schedRet.Load() != 0 && it.starts.Load() == 0 {
				atomicMax(&it.snapLB, o.s0)
			}
		}
		r.cnt["quiescent_points"]++
	}
	if o.allInPoll() {
		for _, it := range ended {
			it.doneTick.CompareAndSwap(0, s1)
		}
	}
	// logical bound for all wait loops: count consecutive snapshots in which nothing at all changed (worker states,
	// deliveries, callers, Shutdown) while no element is legitimately waiting for a due time within the next hour.
	started := 0
	timerPending := false
	// (elements scheduled half an hour or more ahead cannot end any wait of a run: they do not keep the bound from counting)
	now, soon := time.Now(), time.Now().Add(30*time.Minute)
	for _, it := range its {
		if it == nil || it.schedRet.Load() == 0 {
			continue
		}
		if it.starts.Load() > 0 {
			started++
		} else if it.accepted.Load() && it.sched.After(now) && it.sched.Before(soon) {
			timerPending = true
		}
	}
	key := fmt.Sprintf("%s|%d|%d|%d|%v%d%d%d|%d", o.sig, started, o.clients, o.shutdown, o.mutexShutdown, o.mutexAdd, o.mutexPoll, o.mutexOther, len(its))
	if key == r.stallKey && !timerPending {
		r.stallN++
	} else {
		r.stallKey, r.stallN = key, 0
	}
	if r.stallN > stallLimit {
		r.stalled.Store(true)
		if r.guarded {
			panic(errGiveUp)
		}
	}
	r.lastObs = o
	return o
}

// checkDead aborts a scripted schedule (panic, recovered by guard) when the Shutdown caller and another caller sit in lock
// acquisitions in consecutive snapshots: the remaining steps could block the driver itself. The verdict is taken in finish.
func (r *run) checkDead(o obs) {
	if o.deadCand() && o.sig == r.deadSig {
		if r.deadSeen++; r.deadSeen >= 2 && r.guarded {
			panic(errDeadCandidate)
		}
		return
	}
	r.deadSeen = 0
	if o.deadCand() {
		r.deadSig = o.sig
	}
}

func (r *run) guard(f func()) {
	r.guarded = true
	defer func() {
		r.guarded = false
		if p := recover(); p != nil {
			switch p {
			case errDeadCandidate:
				r.patterns["schedule-aborted-on-deadlock-candidate"] = true
			case errGiveUp:
				r.gaveUp = "scripted schedule: an expected state was not reached within the logical bound; last picture " + r.stallKey
			default:
				panic(p)
			}
		}
	}()
	f()
}

func pace(i int) {
	if i < 10 {
		runtime.Gosched()
		return
	}
	time.Sleep(time.Duration(min(i*20, 1500)) * time.Microsecond) // pacing only; no verdict depends on it
}

// settle waits until every worker is parked in two consecutive snapshots with identical states.
func (r *run) settle(pred func(o obs) bool) obs {
	last := ""
	for i := 0; ; i++ {
		o := r.observe()
		r.checkDead(o)
		if o.allParked() && o.clients == 0 && (pred == nil || pred(o)) {
			if o.sig == last {
				return o
			}
			last = o.sig
		} else {
			last = ""
		}
		pace(i)
	}
}

// waitStarted waits until the element has started; false = structurally impossible (every worker idle or gated, nothing held).
func (r *run) waitStarted(it *item) bool {
	for i := 0; ; i++ {
		if it.starts.Load() > 0 {
			return true
		}
		o := r.observe()
		r.checkDead(o)
		if o.allParked() && o.pollSelect == 0 && it.starts.Load() == 0 {
			return false
		}
		pace(i)
	}
}

// waitHeld waits until some worker holds an element inside Poll (parked in select) and the heap is empty.
// false = structurally impossible: every worker is parked and none of them below Poll in a timer-capable wait, or the same
// picture (every worker parked, same goroutine states, same Size() > 0, nothing delivered) is seen in consecutive snapshots -
// a worker that was woken for the elements left in the heap would be runnable, so nobody is going to take them.
func (r *run) waitHeld() bool {
	last, same := "", 0
	for i := 0; ; i++ {
		o := r.observe()
		r.checkDead(o)
		if o.allParked() {
			sz := r.size()
			if o.pollSelect >= 1 && sz == 0 {
				return true
			}
			if o.pollSelect == 0 {
				return false
			}
			if key := fmt.Sprintf("%s|%d|%d", o.sig, sz, r.startedCount()); key == last {
				if same++; same >= 3 {
					r.patterns["elements-left-in-heap-while-workers-parked"] = true
					return false
				}
			} else {
				last, same = key, 0
			}
		} else {
			last, same = "", 0
		}
		pace(i)
	}
}

func (r *run) startedCount() int {
	n := 0
	for _, it := range r.allItems() {
		if it != nil && it.starts.Load() > 0 {
			n++
		}
	}
	return n
}

// finish waits for structural quiescence after Shutdown and evaluates the history.
// Quiescent: no client alive, the Shutdown goroutine gone or parked for ever in
// WaitGroup.Wait, and every remaining worker idle in sync.Cond.Wait inside Poll
// (no worker holds an element, waits on a timer, runs a callback or is runnable).
// From then on nothing can be delivered any more.
func (r *run) finish() {
	var o obs
	deadKey, deadN := "", 0
	for i := 0; ; i++ {
		o = r.observe()
		if o.clients == 0 && o.shutdown != 2 && (o.allIdle() || r.onlyFarFutureHeld(o)) {
			break
		}
		if r.stallN > stallLimit || r.gaveUp != "" { // nothing has changed for stallLimit consecutive snapshots and no rule applies: give this case up
			r.judgeStalled(o)
			if r.gaveUp == "" {
				r.gaveUp = fmt.Sprintf("quiescence could not be established within the logical bound (clients=%d shutdown=%d workers=%d idle=%d waiting-under-Poll=%d in-callback=%d lock-waits=%d); last picture %s", o.clients, o.shutdown, o.nWorkers, o.pollCond, o.pollSelect, o.inCallback, o.mutexAdd+o.mutexPoll+o.mutexOther, r.stallKey)
			}
			break
		}
		// Dead-lock of Shutdown with a concurrent caller: decided only when the same picture (who waits for which kind of
		// lock, everybody else parked for good, nobody runnable) is seen in consecutive consistent snapshots.
		if key := fmt.Sprintf("%v|%d|%d|%d|%s", o.mutexShutdown, o.mutexAdd, o.mutexPoll, o.mutexOther, o.sig); o.dead() && (o.waitingUnderPoll == 0 || !r.nearMayBeHeld()) && key == deadKey {
			if deadN++; deadN >= 2 {
				r.deadlock = o.deadFP()
				r.deadText = fmt.Sprintf("the Shutdown caller is parked in a lock acquisition inside runtime/timed together with %d Add/ExecuteAt caller(s), %d Poll caller(s) and %d other caller(s); every other goroutine of the run is parked in sync.Cond.Wait under Poll or gone, nothing is runnable and no timer is involved: none of these calls can ever return and the elements still queued are never delivered", o.mutexAdd, o.mutexPoll, o.mutexOther)
				break
			}
		} else {
			deadKey, deadN = key, 0
		}
		pace(i)
	}
	// known observation outside the statement: Shutdown waits for workers that are parked below Poll although by the
	// log nothing is pending any more (not even a far-future element) - nobody will ever wake them
	r.hang = o.shutdown == 1 && o.nWorkers > 0 && o.pollCond+o.pollSelect == o.nWorkers && (o.allIdle() || r.pendingByLogNone(true))
	r.holders = o.pollSelect
	r.endAt = time.Now()
	switch {
	case r.deadlock != "":
		r.hang, r.holders, r.sizeAtEnd = false, 0, -1 // Size() would block on the dead-locked heap lock
	case r.gaveUp != "":
		r.hang, r.sizeAtEnd = false, -1
	default:
		r.sizeAtEnd = r.size()
	}
	r.evaluate()
}

// onlyFarFutureHeld: every worker is parked inside Poll, some of them in select - holding an element and waiting for its
// due time - and by the log no element that could be due within the run can be what they hold: every accepted element that
// has not started and was not cancelled / replaced is scheduled more than an hour ahead. Such workers are "holding", not
// idle, and stay so for centuries; nothing else can be delivered, so the run is over. The far-future elements are not
// waited for. (A held element that is due soon keeps the loop waiting: its delivery is decidable.)
func (r *run) onlyFarFutureHeld(o obs) bool {
	if o.pollSelect == 0 || o.parked != o.nWorkers || o.pollCond+o.pollSelect != o.nWorkers {
		return false
	}
	return !r.nearMayBeHeld()
}

// nearMayBeHeld consults the log: is there an accepted element that has not started, was not cancelled or replaced and is
// not scheduled more than an hour ahead? Only such an element can end the wait of a worker that is parked below Poll.
func (r *run) nearMayBeHeld() bool {
	return r.pendingByLog(false)
}

// pendingByLog: some accepted element has not started and was neither cancelled nor replaced (far-future ones count only if asked for).
func (r *run) pendingByLog(includeFar bool) bool {
	return !r.pendingByLogNone(includeFar)
}

func (r *run) pendingByLogNone(includeFar bool) bool {
	horizon := time.Now().Add(time.Hour)
	if includeFar {
		horizon = time.Date(9999, 12, 31, 23, 59, 59, 999, time.UTC).Add(time.Hour)
	}
	if r.flags&fCancel != 0 && r.shCall.Load() != 0 {
		return true // CancelPendingElements: whatever is left was dropped by the flag
	}
	r.mu.Lock()
	cancels := append([]cancelRec(nil), r.cancels...)
	r.mu.Unlock()
	its := r.allItems()
	for _, it := range its {
		if it == nil || it.schedRet.Load() == 0 || !it.accepted.Load() || it.starts.Load() > 0 || it.sched.After(horizon) {
			continue
		}
		gone := false
		for _, c := range cancels {
			if !c.ByID && c.Item == it.idx || c.ByID && c.Result && c.ID == it.id && r.sp.Kind == kTask && c.Ret > it.schedCall.Load() {
				gone = true
			}
		}
		if r.sp.Kind == kTask {
			for _, k2 := range its {
				if k2 != nil && k2 != it && k2.id == it.id && k2.schedRet.Load() > it.schedCall.Load() {
					gone = true // replaced
				}
			}
		}
		if !gone {
			return false // an ordinary element may be what a worker holds: wait for it
		}
	}
	return true
}

// waitDue is used by scenarios that mix far-future elements with due ones: it waits until every element that is due
// (not far-future, not cancelled) has started. If instead every worker sits parked inside Poll in consecutive snapshots
// while due elements are missing, it returns true ("stalled") WITHOUT a verdict - which element a parked worker holds is
// not observable, and an expired timer may simply not have fired yet. The caller then flushes with IgnorePendingTimeouts,
// and the verdict comes from the order in which a single worker hands out elements that were in the heap together.
func (r *run) waitDue() (stalled bool) {
	last, same := "", 0
	for i := 0; ; i++ {
		missing := 0
		for _, it := range r.allItems() {
			if it != nil && it.accepted.Load() && it.far <= 0 && it.starts.Load() == 0 && it.cancelFn.Load() != nil && !r.hasElemCancel(it.idx) {
				missing++
			}
		}
		if missing == 0 {
			return false
		}
		o := r.observe()
		r.checkDead(o)
		key := fmt.Sprintf("%s/%d", o.sig, missing)
		if o.allParked() && o.inCallback == 0 && key == last {
			if same++; same >= 3 {
				return true
			}
		} else {
			same = 0
		}
		last = key
		pace(i + 10)
	}
}

func (r *run) hasElemCancel(idx int) bool {
	r.mu.Lock()
	defer r.mu.Unlock()
	for _, c := range r.cancels {
		if !c.ByID && c.Item == idx {
			return true
		}
	}
	return false
}

// leaked returns the goroutines of this run that stay parked for ever (reported to the parent for dump classification).
func (r *run) leaked() []uint64 {
	var ids []uint64
	for _, g := range gdump.Snapshot() {
		if !r.base[g.ID] && g.State != "running" && (g.Has("runtime/timed.") || g.Has("main.(*run)")) {
			ids = append(ids, g.ID)
		}
	}
	return ids
}

// ---------------------------------------------------------------- oracle

func (r *run) violate(fp, format string, a ...any) {
	for _, v := range r.viols {
		if v.fp == fp {
			return // one per class and run
		}
	}
	r.viols = append(r.viols, viol{fp, fmt.Sprintf(format, a...)})
}

func (r *run) evaluate() {
	kind := r.sp.Kind
	its := r.allItems()
	shCall, shRet := r.shCall.Load(), r.shRet.Load()
	ignoreGiven := r.flags&fIgnore != 0 && shCall != 0
	cancelGiven := r.flags&fCancel != 0 && shCall != 0
	elemCancels := map[int][]cancelRec{}
	idCancels := map[int][]cancelRec{}
	for _, c := range r.cancels {
		if c.ByID {
			idCancels[c.ID] = append(idCancels[c.ID], c)
		} else {
			elemCancels[c.Item] = append(elemCancels[c.Item], c)
		}
	}
	byID := map[int][]*item{}
	var sched []*item
	for _, it := range its {
		if it == nil || it.schedCall.Load() == 0 {
			continue
		}
		sched = append(sched, it)
		if kind == kTask {
			byID[it.id] = append(byID[it.id], it)
		}
	}
	if r.deadlock != "" {
		r.violate(r.deadlock, "%s (kind %s, workers %d, Shutdown flags %s, Shutdown call tick %d never returned)", r.deadText, kind, r.sp.Workers, flagNames(r.flags), shCall)
	}
	if n := r.bogus.Load(); n > 0 {
		r.violate(kind+"/delivered-unknown-value", "Poll returned %d value(s) that were never added", n)
	}

	// pattern: task k was scheduled while an earlier task p of the same identifier had been handed to a worker and p's
	// TaskExecutor wrapper was not yet known to be finished (p ran; it was scheduled before k; its wrapper ended, as far
	// as observed, after k's ExecuteAt began) - the precondition for p's wrapper to remove k's mapping.
	reschedDuringCallback := func(k *item) bool {
		for _, p := range byID[k.id] {
			if p == k || p.starts.Load() == 0 {
				continue
			}
			if p.schedCall.Load() < k.schedRet.Load() && (p.doneTick.Load() == 0 || p.doneTick.Load() > k.schedCall.Load()) {
				return true
			}
		}
		return false
	}
	teFP := func(k *item, other string) string {
		if reschedDuringCallback(k) {
			return "taskexec/successor-mapping-deleted"
		}
		return other
	}

	accepted := 0
	var unexcused []*item
	for _, it := range sched {
		r.cnt["evaluations"]++
		n := int(it.starts.Load())
		if n > 1 {
			r.violate(kind+"/delivered-more-than-once", "element %d (offset %dus) was delivered %d times", it.idx, it.offUs, n)
		}
		if n >= 1 {
			r.cnt["deliveries"]++
			if it.far > 0 || it.far == 0 && it.offUs > 0 {
				r.cnt["future_elements_delivered"]++
			}
			switch {
			case it.far > 0:
				r.cnt["far_future_elements_delivered_by_ignore_flush"]++
			case it.far < 0:
				r.cnt["far_past_elements_delivered"]++
			case it.when != "":
				r.cnt["other_representation_elements_delivered"]++
			}
			if e := it.earlyNs.Load(); e > 0 {
				if ignoreGiven && shCall < it.startTick.Load() {
					r.cnt["early_allowed_by_ignore_flag"]++
				} else {
					r.violate(kind+"/early-delivery", "element %d scheduled %dus ahead was delivered %dns before its scheduled instant (Shutdown flags %s, shutdown call tick %d, delivery tick %d)", it.idx, it.offUs, e, flagNames(r.flags), shCall, it.startTick.Load())
				}
			} else if it.far > 0 || it.far == 0 && it.offUs > 0 {
				r.cnt["not_early_confirmed"]++
			}
		}
		if it.schedRet.Load() == 0 { // the call never returned (only possible in a decided dead-lock)
			r.cnt["calls_never_returned"]++
			continue
		}
		if !it.accepted.Load() {
			r.cnt["rejected_adds"]++
			if !(shCall != 0 && shCall < it.schedRet.Load()) {
				r.violate(kind+"/rejected-without-shutdown", "Add/ExecuteAt of element %d returned nil (panicked=%v) although Shutdown had not been called", it.idx, it.panicked.Load())
			}
			if n >= 1 {
				r.violate(kind+"/rejected-but-delivered", "element %d was rejected (nil) but delivered", it.idx)
			}
			continue
		}
		accepted++
		for _, c := range elemCancels[it.idx] {
			if it.snapLB.Load() > c.Ret {
				r.cnt["cancel_rule_armed"]++ // the element was observed undecided after Cancel had returned
			}
			if n >= 1 && c.Ret < it.lb() {
				r.violate(kind+"/delivered-after-cancel", "element %d: Cancel returned at tick %d, the delivery was decided after tick %d, delivered at tick %d", it.idx, c.Ret, it.lb(), it.startTick.Load())
			}
		}
		if n == 0 {
			excused := cancelGiven || len(elemCancels[it.idx]) > 0
			if !excused && kind == kTask {
				for _, c := range idCancels[it.id] {
					if c.Result && c.Ret > it.schedCall.Load() {
						excused = true
					}
				}
				for _, k2 := range byID[it.id] {
					if k2 != it && k2.schedRet.Load() > it.schedCall.Load() {
						excused = true // replaced (or the replacement was attempted)
						if !k2.accepted.Load() {
							r.patterns["resched-after-shutdown-cancels-without-replacement"] = true
						}
					}
				}
			}
			if !excused {
				unexcused = append(unexcused, it)
			} else {
				r.cnt["undelivered_excused"]++
			}
		}
	}
	// Size bound. A drop is excused only if the bound was really exceeded: at the moment of some accepted Add/ExecuteAt e
	// the number of elements the MODEL allows to be pending (e included) was above max. The count is an upper bound of what
	// a correct heap can hold at that moment: accepted elements whose Add began before e's Add returned, minus those that
	// were certainly out of the heap before e's Add began (delivered, element-cancelled, Cancel(id)==true, replaced by a
	// later accepted task of the same identifier). For TaskExecutor an identifier contributes at most one pending task and
	// e replaces the earlier tasks of its own identifier (replace = cancel old + add new, never +1). Elements held by a
	// worker inside Poll and elements already dropped still count (not observable), which only makes the excuse wider.
	// Every Add drops at most one element, so allowed drops = number of such e (and never more than accepted - max).
	looseDrops, allowedDrops := 0, 0
	if r.sp.MaxSize > 0 {
		looseDrops = max(0, accepted-r.sp.MaxSize)
		outBefore := func(x *item, t uint64) bool { // x certainly left the heap before tick t
			if x.starts.Load() > 0 && x.startTick.Load() < t {
				return true
			}
			for _, c := range elemCancels[x.idx] {
				if c.Ret < t {
					return true
				}
			}
			if kind == kTask {
				for _, c := range idCancels[x.id] {
					if c.Result && c.Ret < t && x.schedRet.Load() < c.Call {
						return true
					}
				}
				for _, x2 := range byID[x.id] {
					if x2 != x && x2.accepted.Load() && x.schedRet.Load() < x2.schedCall.Load() && x2.schedRet.Load() < t {
						return true
					}
				}
			}
			return false
		}
		for _, e := range sched {
			if !e.accepted.Load() {
				continue
			}
			size := 1
			ids := map[int]bool{}
			for _, x := range sched {
				if x == e || !x.accepted.Load() || x.schedCall.Load() >= e.schedRet.Load() || outBefore(x, e.schedCall.Load()) {
					continue
				}
				if kind == kTask {
					if x.id != e.id && !ids[x.id] {
						ids[x.id] = true
						size++
					}
					continue
				}
				size++
			}
			if size > r.sp.MaxSize {
				allowedDrops++
			} else if size == r.sp.MaxSize {
				r.cnt["adds_into_full_bounded_queue_model"]++
			}
		}
		r.cnt["adds_exceeding_size_bound_model"] += allowedDrops
		allowedDrops = min(allowedDrops, looseDrops)
	}
	if r.gaveUp != "" {
		unexcused = nil // no "never delivered" verdict without established quiescence
	}
	// "Scheduled after the end of the run": an undelivered element is excused as not yet due only if (a) its scheduled
	// instant is later than the instant at which quiescence was established, (b) the run ended with workers still holding
	// elements inside Poll (so the element will be handed out when its time comes), and (c) it can physically be there:
	// at most (workers holding an element + Size()) elements are excused this way.
	if r.holders > 0 {
		present := r.holders + r.sizeAtEnd
		sort.SliceStable(unexcused, func(i, j int) bool { return unexcused[i].far > unexcused[j].far })
		var rest []*item
		for _, it := range unexcused {
			if present > 0 && it.sched.After(r.endAt) {
				present--
				r.cnt["not_yet_due_at_end_excused"]++
				continue
			}
			rest = append(rest, it)
		}
		unexcused = rest
	}
	// Heap order on a single worker: elements that sat in the heap together (all workers held at gates, none started) are
	// popped in order of their scheduled instants, and one worker delivers what it pops before it pops again. So if b was
	// delivered, every a with an earlier instant (not cancelled) was delivered before it.
	if r.sp.Workers == 1 && r.sp.MaxSize == 0 && r.flags&fCancel == 0 {
		for _, a := range r.together {
			if len(elemCancels[a.idx]) > 0 || !a.accepted.Load() {
				continue
			}
			for _, b := range r.together {
				if b.starts.Load() == 0 || !a.sched.Before(b.sched) {
					continue
				}
				r.cnt["heap_order_pairs_checked"]++
				if a.starts.Load() == 0 || a.startTick.Load() > b.startTick.Load() {
					r.violate(kind+"/heap-order", "single worker; elements %d (%s, offset %dus) and %d (%s, offset %dus) were in the heap together and the first is scheduled earlier, but %d was delivered at tick %d and %d %s (flush forced after a stall: %v)", a.idx, whenName(a), a.offUs, b.idx, whenName(b), b.offUs, b.idx, b.startTick.Load(), a.idx, map[bool]string{true: "never", false: fmt.Sprintf("only at tick %d", a.startTick.Load())}[a.starts.Load() == 0], r.flushForced)
				}
			}
		}
	}
	for _, it := range sched {
		if it.far > 0 {
			r.cnt["far_future_elements_scheduled"]++
		}
		if it.via == "after" && kind != kQueue {
			r.cnt["execute_after_calls"]++
			if it.delayNs <= 0 {
				r.cnt["execute_after_calls_with_nonpositive_delay"]++
			}
		}
	}
	overl := func(it *item) bool {
		return shCall != 0 && it.schedRet.Load() > shCall && (shRet == 0 || it.schedCall.Load() < shRet)
	}
	var lostPending, lostRace []*item
	for _, it := range unexcused {
		if overl(it) {
			lostRace = append(lostRace, it)
		} else {
			lostPending = append(lostPending, it)
		}
	}
	r.cnt["dropped_by_size_bound_max"] += min(len(unexcused), allowedDrops)
	switch {
	case len(lostPending) > allowedDrops && len(unexcused) <= looseDrops:
		it := lostPending[0]
		r.violate(kind+"/lost-element/dropped-below-size-bound", "%d accepted element(s) (first: %d, identifier %d, offset %dus, scheduled tick %d..%d) were neither cancelled, replaced nor dropped by a flag and were never delivered at structural quiescence, but the size bound %d was exceeded by at most %d Add/ExecuteAt call(s) (pending elements per the model: accepted, not delivered, not cancelled, not replaced; a re-schedule of an identifier does not add one), so at most %d may have been dropped (Size()=%d)", len(unexcused), it.idx, it.id, it.offUs, it.schedCall.Load(), it.schedRet.Load(), r.sp.MaxSize, allowedDrops, allowedDrops, r.sizeAtEnd)
	case len(lostPending) > allowedDrops:
		it := lostPending[0]
		r.violate(kind+"/lost-element/pending", "%d accepted element(s) (first: %d, offset %dus, scheduled tick %d..%d) were neither cancelled nor dropped by a flag, at most %d may be dropped by the size bound %d, and none of them was delivered at structural quiescence (Size()=%d, Shutdown flags %s)", len(unexcused), it.idx, it.offUs, it.schedCall.Load(), it.schedRet.Load(), allowedDrops, r.sp.MaxSize, r.sizeAtEnd, flagNames(r.flags))
	case len(unexcused) > allowedDrops:
		it := lostRace[0]
		r.violate("queue.Add/accepted-during-shutdown-lost", "kind %s, element %d: Add/ExecuteAt (ticks %d..%d) overlapped Shutdown (ticks %d..%d), returned an element, and the element was never delivered (Size()=%d at quiescence)", kind, it.idx, it.schedCall.Load(), it.schedRet.Load(), shCall, shRet, r.sizeAtEnd)
	}
	if r.sp.MaxSize > 0 && accepted > r.sp.MaxSize {
		r.cnt["size_bound_exceeded_runs"]++
	}

	if kind != kTask {
		return
	}
	for id, ts := range byID {
		// replacement / at most one pending
		for _, k := range ts {
			if !k.accepted.Load() || k.starts.Load() == 0 {
				continue
			}
			for _, k2 := range ts {
				if k2 == k || !k2.accepted.Load() {
					continue
				}
				if k.schedRet.Load() < k2.schedCall.Load() && k.lb() > k2.schedRet.Load() {
					r.violate(teFP(k, "taskexec/not-replaced"), "identifier %d: task %d was scheduled (ticks %d..%d), then task %d was scheduled (ticks %d..%d) while task %d was still undecided (undecided at tick %d), yet task %d ran (tick %d): the pending task was not replaced", id, k.idx, k.schedCall.Load(), k.schedRet.Load(), k2.idx, k2.schedCall.Load(), k2.schedRet.Load(), k.idx, k.lb(), k.idx, k.startTick.Load())
				}
				if k2.starts.Load() > 0 && k.idx < k2.idx {
					m := min(k.lb(), k2.lb())
					if m > max(k.schedRet.Load(), k2.schedRet.Load()) {
						fp := "taskexec/two-pending"
						if reschedDuringCallback(k) || reschedDuringCallback(k2) {
							fp = "taskexec/successor-mapping-deleted"
						}
						r.violate(fp, "identifier %d: tasks %d and %d were both scheduled and both still undecided at tick %d, and both ran: two pending tasks for one identifier", id, k.idx, k2.idx, m)
					}
				}
			}
		}
		for _, k := range ts {
			if reschedDuringCallback(k) && k.accepted.Load() {
				r.cnt["window_resched_during_callback"]++
			}
		}
		// Cancel(id) truthfulness
		neverStarted := 0
		for _, t := range ts {
			if t.accepted.Load() && t.starts.Load() == 0 {
				neverStarted++
			}
		}
		trues, runningFP := 0, false
		for _, c := range idCancels[id] {
			running := false // some task of the identifier was handed to a worker (about to run, running, or its wrapper not known to be finished) when Cancel was called
			for _, t := range ts {
				if t.starts.Load() > 0 && t.schedCall.Load() < c.Ret && (t.doneTick.Load() == 0 || t.doneTick.Load() > c.Call) {
					running = true
				}
				if t.starts.Load() > 0 && t.startTick.Load() < c.Call && (t.endTick.Load() == 0 || t.endTick.Load() > c.Ret) {
					r.cnt["window_cancel_during_callback"]++
				}
			}
			if !c.Result {
				r.cnt["cancel_id_false"]++
				for _, t := range ts {
					if t.accepted.Load() && t.schedRet.Load() < c.Call && t.starts.Load() > 0 && t.lb() > c.Ret {
						r.patterns["cancel-false-while-task-pending"] = true
					}
				}
				continue
			}
			r.cnt["cancel_id_true"]++
			trues++
			exists := false
			for _, t := range ts {
				if t.accepted.Load() && t.schedCall.Load() < c.Ret && t.starts.Load() == 0 {
					exists = true
				}
			}
			if running {
				runningFP = true
			}
			if !exists {
				if running {
					r.violate("taskexec/cancel-true-task-handed-over", "identifier %d: Cancel (ticks %d..%d) returned true although no task of the identifier scheduled before it was prevented from running - every one of them ran; one of them had already been handed to a worker (about to run / callback running / wrapper not known to be finished) when Cancel was called", id, c.Call, c.Ret)
				} else {
					r.violate("taskexec/cancel-true-nothing-prevented", "identifier %d: Cancel (ticks %d..%d) returned true although no task of the identifier scheduled before it was prevented from running", id, c.Call, c.Ret)
				}
			}
			for _, k := range ts {
				if k.accepted.Load() && k.starts.Load() > 0 && k.schedRet.Load() < c.Call && k.lb() > c.Ret {
					r.violate(teFP(k, "taskexec/cancel-true-task-still-ran"), "identifier %d: task %d was pending during the whole Cancel call (scheduled by tick %d, undecided at tick %d, Cancel ticks %d..%d returned true) and still ran", id, k.idx, k.schedRet.Load(), k.lb(), c.Call, c.Ret)
				}
			}
		}
		if trues > neverStarted {
			fp := "taskexec/cancel-true-more-often-than-prevented"
			if runningFP {
				fp = "taskexec/cancel-true-task-handed-over"
			}
			r.violate(fp, "identifier %d: Cancel returned true %d times but only %d task(s) of the identifier never ran", id, trues, neverStarted)
		}
	}
}

func whenName(it *item) string {
	if it.when == "" {
		return "ordinary"
	}
	return it.when
}

// ---------------------------------------------------------------- history dump (replay file / samples)

type itemRec struct {
	Idx       int    `json:"idx"`
	ID        int    `json:"id,omitempty"`
	OffUs     int64  `json:"off_us"`
	Gated     bool   `json:"gated,omitempty"`
	SchedCall uint64 `json:"sched_call"`
	SchedRet  uint64 `json:"sched_ret"`
	Accepted  bool   `json:"accepted"`
	Starts    int    `json:"starts"`
	StartTick uint64 `json:"start_tick,omitempty"`
	EndTick   uint64 `json:"end_tick,omitempty"`
	DoneTick  uint64 `json:"done_tick,omitempty"`
	EarlyNs   int64  `json:"early_ns,omitempty"`
	LB        uint64 `json:"undecided_at,omitempty"`
	When      string `json:"when,omitempty"`
	Far       int    `json:"far,omitempty"`
	Via       string `json:"via,omitempty"`
	DelayNs   int64  `json:"delay_ns,omitempty"`
}

type history struct {
	Spec         spec        `json:"spec"`
	Items        []itemRec   `json:"items"`
	Cancels      []cancelRec `json:"cancels,omitempty"`
	ShutdownCall uint64      `json:"shutdown_call"`
	ShutdownRet  uint64      `json:"shutdown_ret"`
	ShutdownHang bool        `json:"shutdown_hang,omitempty"`
	SizeAtEnd    int         `json:"size_at_end"`
	Patterns     []string    `json:"patterns,omitempty"`
	Race         bool        `json:"race_build,omitempty"`
	FlushForced  bool        `json:"flush_forced_after_stall,omitempty"`
	Holders      int         `json:"workers_holding_far_future_at_end,omitempty"`
}

func (r *run) history() history {
	h := history{Spec: r.sp, Cancels: r.cancels, ShutdownCall: r.shCall.Load(), ShutdownRet: r.shRet.Load(), ShutdownHang: r.hang, SizeAtEnd: r.sizeAtEnd, Race: raceBuild, FlushForced: r.flushForced, Holders: r.holders}
	for _, it := range r.allItems() {
		if it == nil || it.schedCall.Load() == 0 {
			continue
		}
		e := it.earlyNs.Load()
		if e < 0 {
			e = 0
		}
		h.Items = append(h.Items, itemRec{it.idx, it.id, it.offUs, it.gated, it.schedCall.Load(), it.schedRet.Load(), it.accepted.Load(), int(it.starts.Load()),
			it.startTick.Load(), it.endTick.Load(), it.doneTick.Load(), e, it.lb(), it.when, it.far, it.via, it.delayNs})
	}
	for p := range r.patterns {
		h.Patterns = append(h.Patterns, p)
	}
	sort.Strings(h.Patterns)
	return h
}
