// Whole-uint64-range part of C07 ("all intervals", marks anywhere in the number space).
//
// The other sequential parts use intervals 1..7 and marks near 0 (or k<<40) and do their
// bookkeeping in int64. Here intervals and starting marks sit on the boundaries of the
// uint64 range and of its narrower / signed sub-ranges (2^31, 2^32, 2^63 +-1, MaxUint64-k,
// the "lease everything once" interval MaxUint64 of the repository's own test), every
// object makes several Next calls, and all oracle arithmetic is exact uint64 arithmetic.
//
// A case = (Prefix, IA, IB, ops, faults). A non-zero Prefix means: an earlier owner with
// interval Prefix handed out one number and was abandoned, so the persisted mark is Prefix
// when the history proper starts (the mark is produced through the exported API only, the
// prefix owner's store calls are fault sites like all others). The first object has
// interval IA, every S abandons / parks the current object and opens a fresh one with the
// other interval (IA, IB alternate); the replacement after a crash keeps the interval.
//
// Oracle (same statement-level rules as everywhere in C07, on uint64):
//   - every number returned by Next is greater than all numbers returned before (store life);
//   - after every step and at every crash point the persisted mark is above every number
//     handed out so far (a successor would otherwise hand it out again);
//     and not further above the last one than the waste allowed if the owner stopped right there;
//   - numbers skipped between two issued numbers <= sum of the intervals of the objects that
//     crashed / were abandoned mid-lease / saw a store error in between (saturating); none
//     without such an event, none after a clean Release;
//   - Next / Release do not fail on a healthy store.
//
// Exhaustion: when an object that holds no lease calls Next while persisted mark + interval
// does not fit into a uint64, the statement can only be met by handing out what is left
// below the top of the range or by refusing. From that call on the history is "in the
// exhaustion zone": an error from such a Next is accepted, violations are reported under the
// one fingerprint exhaustion/uint64-wraparound (reuse and the persisted-mark rule stay in
// force, wrapping around is never legitimate). Whether an object holds a lease is decided by
// the model (it issued v and the mark it persisted is above v+1; not after Release / a store
// error), never by what the library did, so a spurious renewal outside the zone is judged by
// the strict rules.
package main

import (
	"encoding/json"
	"errors"
	"fmt"
	"hash/fnv"
	"math"
	"math/rand"
	"sort"
	"strconv"
	"strings"
	"time"

	"github.com/iotaledger/hive.go/kvstore"
	"github.com/iotaledger/hive.go/kvstore/mapdb"
	"verif/harness/internal/faultkv"
	"verif/harness/internal/vf"
)

const maxU = uint64(math.MaxUint64)

type wideCase struct {
	Wide   bool      `json:"wide"`
	Prefix uint64    `json:"prefix,string"`
	IA     uint64    `json:"ia,string"`
	IB     uint64    `json:"ib,string"`
	Ops    []string  `json:"ops"` // N Next, R Release, S fresh object with the other interval
	Faults []crashAt `json:"faults"`
	Trace  string    `json:"trace,omitempty"`
}

type wideResult struct {
	viol           *violation
	trace          string
	sites          int
	issued         int
	issuedHigh     int  // numbers above MaxInt64
	hugeMultiNext  bool // an object with an interval above MaxInt64 issued two or more numbers
	crossedSign    bool // two consecutive numbers of one lease on both sides of 2^63 / 2^32
	zone           bool
	zoneErrors     int
	zoneIssued     int // numbers issued after the history entered the exhaustion zone
	crashes, fails int
	events         int
	kinds          []string
}

func satAdd(a, b uint64) uint64 {
	if a+b < a {
		return maxU
	}
	return a + b
}

func fmtU(v uint64) string {
	switch {
	case v > maxU-1000:
		if v == maxU {
			return "Max"
		}
		return "Max-" + strconv.FormatUint(maxU-v, 10)
	case v >= 1<<63:
		return "2^63+" + strconv.FormatUint(v-1<<63, 10)
	case v > 1<<63-1000:
		return "2^63-" + strconv.FormatUint(1<<63-v, 10)
	}
	return strconv.FormatUint(v, 10)
}

func runWide(cs wideCase) (res wideResult) {
	inner := mapdb.NewMapDB()
	plan := map[int]faultkv.Action{}
	for _, f := range cs.Faults {
		switch {
		case f.Fail:
			plan[f.Site] = faultkv.Fail
		case f.After:
			plan[f.Site] = faultkv.CrashAfter
		default:
			plan[f.Site] = faultkv.CrashBefore
		}
	}
	in := faultkv.NewInjector(plan, false)
	st := faultkv.Wrap(inner, in)

	ops := cs.Ops
	ivs := []uint64{cs.IA, cs.IB}
	ivIdx := 0
	interval := cs.IA
	if cs.Prefix > 0 {
		ops = append([]string{"N", "S"}, cs.Ops...)
		interval, ivIdx = cs.Prefix, -1
	}

	var (
		obj      *kvstore.Sequence
		last     uint64
		hasLast  bool
		slack    uint64
		touched  bool // the object attempted Next / Release since it was created or cleanly Released
		lease    bool // model: the object holds numbers it has not handed out yet
		objNexts int
		sinceLs  []string
		tr       strings.Builder
	)
	fail := func(cls, what string) wideResult {
		fp := "wide/" + cls
		if res.zone {
			fp = "exhaustion/uint64-wraparound"
			what = "(" + cls + ", after a lease renewal whose mark+interval exceeds MaxUint64) " + what
		}
		res.viol = &violation{fp, what + "; prefix=" + fmtU(cs.Prefix) + " intervals=" + fmtU(cs.IA) + "," + fmtU(cs.IB) + "; trace: " + tr.String()}
		res.trace = tr.String()
		res.sites = in.Sites()
		return res
	}
	openErr := ""
	open := func() {
		obj, touched, lease, objNexts = nil, false, false, 0
		for tries := 0; tries < 16; tries++ {
			var sq *kvstore.Sequence
			var err error
			cr, other := call(func() { sq, err = kvstore.NewSequence(st, seqKey, interval) })
			switch {
			case other != "":
				openErr = "NewSequence panicked: " + other
				return
			case cr != nil:
				fmt.Fprintf(&tr, "open!%d%s ", cr.Site, ba(cr.After))
				res.crashes++
				slack = satAdd(slack, interval)
				sinceLs = append(sinceLs, "crash")
			case err != nil:
				tr.WriteString("open? ")
				slack = satAdd(slack, interval)
				sinceLs = append(sinceLs, "store-error")
			default:
				obj = sq
				return
			}
		}
		openErr = "NewSequence did not succeed in 16 attempts"
	}
	abandon := func() {
		slack = satAdd(slack, interval)
		sinceLs = append(sinceLs, "crash")
		res.crashes++
		open()
	}
	// markRule: the persisted mark is above every number handed out so far
	markRule := func(step string) *wideResult {
		if !hasLast || last == maxU {
			return nil
		}
		m, ok := readMark(inner)
		if ok && m > last {
			// ... and not further above them than the waste the statement allows if the owner stopped
			// right now: what crashed / failed objects may have wasted so far plus one interval of the
			// current object once it has touched the key (near the top of the range a successor can no
			// longer exhibit the waste by the number it starts with)
			budget := slack
			if touched {
				budget = satAdd(budget, interval)
			}
			if ahead := m - last - 1; ahead > budget {
				r := fail("persisted-mark-too-far-ahead", fmt.Sprintf("after %s the persisted mark is %s while the last number handed out is %s: %s numbers would be lost if the owner stopped now, at most %s allowed (events since then: %v)", step, fmtU(m), fmtU(last), fmtU(ahead), fmtU(budget), sinceLs))
				return &r
			}
			return nil
		}
		what := fmt.Sprintf("after %s the persisted mark is %s although %s was handed out: the next owner hands it out again", step, fmtU(m), fmtU(last))
		if !ok {
			what = fmt.Sprintf("after %s there is no persisted mark although %s was handed out", step, fmtU(last))
		}
		r := fail("persisted-mark-behind-issued", what)
		return &r
	}

	open()
	for i, op := range ops {
		if openErr != "" {
			return fail("NewSequence-failed", openErr)
		}
		switch op {
		case "N":
			mb, _ := readMark(inner)
			zoneCall := !lease && interval > maxU-mb
			if zoneCall {
				res.zone = true
			}
			touched = true
			firedBefore := in.FiredCount()
			var v uint64
			var err error
			cr, other := call(func() { v, err = obj.Next() })
			switch {
			case other != "":
				return fail("Next-panic", fmt.Sprintf("step %d: Next panicked: %s", i, other))
			case cr != nil:
				fmt.Fprintf(&tr, "N!%d%s ", cr.Site, ba(cr.After))
				res.kinds = append(res.kinds, "Next:"+cr.Kind+":"+ba(cr.After))
				abandon()
				if r := markRule("a crash inside Next"); r != nil {
					return *r
				}
				continue
			case err != nil && errors.Is(err, faultkv.ErrInjected):
				tr.WriteString("N? ")
				res.kinds = append(res.kinds, "Next:fail")
				res.fails++
				lease = false
				slack = satAdd(slack, interval)
				sinceLs = append(sinceLs, "store-error")
				if r := markRule("a Next that returned a store error"); r != nil {
					return *r
				}
				continue
			case err != nil && zoneCall:
				// nothing (or not the whole interval) is left below the top of the range: refusing is legitimate
				tr.WriteString("N=exhausted ")
				res.zoneErrors++
				lease = false
				if r := markRule("a Next that refused for lack of numbers"); r != nil {
					return *r
				}
				continue
			case err != nil:
				return fail("Next-unexpected-error", fmt.Sprintf("step %d: Next returned an error on a healthy store although persisted mark %s + interval %s fits into the number space", i, fmtU(mb), fmtU(interval)))
			case in.FiredCount() > firedBefore:
				return fail("store-error-not-reported", fmt.Sprintf("step %d: a store call failed inside Next but Next returned %s, nil", i, fmtU(v)))
			}
			fmt.Fprintf(&tr, "N=%s ", fmtU(v))
			if hasLast && v <= last {
				return fail("reuse", fmt.Sprintf("step %d: Next returned %s although %s was already handed out (events since then: %v)", i, fmtU(v), fmtU(last), sinceLs))
			}
			gap := v
			if hasLast {
				gap = v - last - 1
			}
			if gap > slack {
				cls := "gap-without-crash"
				for _, e := range sinceLs {
					if e == "release" && cls == "gap-without-crash" {
						cls = "waste-after-clean-release"
					}
					if e != "release" {
						cls = "waste-exceeds-one-interval-per-crash"
					}
				}
				return fail(cls, fmt.Sprintf("step %d: Next returned %s after %s: %s numbers skipped, at most %s allowed (events since then: %v)", i, fmtU(v), fmtU(last), fmtU(gap), fmtU(slack), sinceLs))
			}
			if hasLast && len(sinceLs) > 0 {
				res.events += len(sinceLs)
			}
			if hasLast && len(sinceLs) == 0 && ((last < 1<<63) != (v < 1<<63) || (last < 1<<32) != (v < 1<<32)) {
				res.crossedSign = true
			}
			last, hasLast, slack, sinceLs = v, true, 0, nil
			res.issued++
			objNexts++
			if v > math.MaxInt64 {
				res.issuedHigh++
			}
			if res.zone {
				res.zoneIssued++
			}
			if objNexts >= 2 && interval > math.MaxInt64 {
				res.hugeMultiNext = true
			}
			ma, ok := readMark(inner)
			lease = ok && v != maxU && ma > v+1
			if r := markRule("Next"); r != nil {
				return *r
			}
		case "R":
			touched = true
			firedBefore := in.FiredCount()
			var err error
			cr, other := call(func() { err = obj.Release() })
			switch {
			case other != "":
				return fail("Release-panic", fmt.Sprintf("step %d: Release panicked: %s", i, other))
			case cr != nil:
				fmt.Fprintf(&tr, "R!%d%s ", cr.Site, ba(cr.After))
				res.kinds = append(res.kinds, "Release:"+cr.Kind+":"+ba(cr.After))
				abandon()
				if r := markRule("a crash inside Release"); r != nil {
					return *r
				}
				continue
			case err != nil && errors.Is(err, faultkv.ErrInjected):
				tr.WriteString("R? ")
				res.kinds = append(res.kinds, "Release:fail")
				res.fails++
				// whether the object still holds its lease after a Release that failed is the library's
				// choice (keeping it is only safe if the write surely did not take effect; giving it up is
				// always safe): like after a failed Next the model no longer counts on a lease, so a
				// refusal in the exhaustion zone is accepted
				lease = false
				slack = satAdd(slack, interval)
				sinceLs = append(sinceLs, "store-error")
				if r := markRule("a Release that returned a store error"); r != nil {
					return *r
				}
				continue
			case err != nil:
				return fail("Release-unexpected-error", fmt.Sprintf("step %d: Release returned an error on a healthy store", i))
			case in.FiredCount() > firedBefore:
				return fail("store-error-not-reported", fmt.Sprintf("step %d: a store call failed inside Release but Release returned nil", i))
			}
			tr.WriteString("R ")
			touched, lease = false, false
			sinceLs = append(sinceLs, "release")
			if r := markRule("Release"); r != nil {
				return *r
			}
		case "S":
			if touched {
				slack = satAdd(slack, interval)
			}
			sinceLs = append(sinceLs, "restart")
			ivIdx++
			interval = ivs[ivIdx%2]
			fmt.Fprintf(&tr, "S(i=%s) ", fmtU(interval))
			open()
		}
	}
	if openErr != "" {
		return fail("NewSequence-failed", openErr)
	}
	res.trace = tr.String()
	res.sites = in.Sites()
	return res
}

// ---------------------------------------------------------------- enumeration

var wideIntervals = []uint64{
	1, 2, 3,
	1<<31 - 1, 1 << 31, 1<<32 - 1, 1 << 32, 1<<32 + 1,
	math.MaxInt64 - 1, math.MaxInt64, 1 << 63, 1<<63 + 1, 1<<63 + 1000,
	maxU - 2, maxU - 1, maxU,
}

var widePrefixes = []uint64{
	0, 1, 3, 1<<32 - 2,
	math.MaxInt64 - 1, math.MaxInt64, 1 << 63, 1<<63 + 5,
	maxU - 7, maxU - 2, maxU - 1, maxU,
}

var wideAlphabet = []string{"N", "R", "S"}

const wideChildren = 4

type wideCombo struct{ prefix, ia, ib uint64 }

func wideCombos() []wideCombo {
	var out []wideCombo
	for _, p := range widePrefixes {
		for _, ia := range wideIntervals {
			seen := map[uint64]bool{}
			for _, ib := range []uint64{ia, 1, maxU} {
				if seen[ib] {
					continue
				}
				seen[ib] = true
				out = append(out, wideCombo{p, ia, ib})
			}
		}
	}
	return out
}

// nearBoundary draws a value next to a power of two, next to the top of the range, or small.
func nearBoundary(rng *rand.Rand) uint64 {
	d := uint64(rng.Intn(9))
	switch rng.Intn(5) {
	case 0:
		return 1 + d
	case 1:
		return maxU - d
	default:
		w := uint(8 + rng.Intn(56))
		if rng.Intn(3) == 0 {
			w = []uint{31, 32, 63}[rng.Intn(3)]
		}
		v := uint64(1)<<w + d - 4
		if v == 0 {
			v = 1
		}
		return v
	}
}

type wideStats struct {
	runs, issued, issuedHigh, hugeMulti, crossed, zoneRuns, zoneErrors, zoneIssued int
	crashRuns, crashes, fails, nontrivial                                          int
	kinds                                                                          map[string]int
	viols                                                                          []pendingViol
	nviol                                                                          int
}

func wideHash(cs wideCase) uint64 {
	h := fnv.New64a()
	fmt.Fprintf(h, "w|%d|%d|%d|%s", cs.Prefix, cs.IA, cs.IB, strings.Join(cs.Ops, ""))
	return h.Sum64()
}

// wideExplore runs the case and then, if maxFaults allows, with one more fault at every
// later store call (crash before / crash after / store error).
func wideExplore(c *vf.Ctx, ws *wideStats, cs wideCase, maxFaults int) {
	r := runWide(cs)
	ws.runs++
	ws.issued += r.issued
	ws.issuedHigh += r.issuedHigh
	ws.zoneErrors += r.zoneErrors
	ws.zoneIssued += r.zoneIssued
	ws.crashes += r.crashes
	ws.fails += r.fails
	if len(cs.Faults) > 0 {
		ws.crashRuns++
	}
	if r.hugeMultiNext {
		ws.hugeMulti++
	}
	if r.crossedSign {
		ws.crossed++
	}
	if r.zone {
		ws.zoneRuns++
	}
	for _, k := range r.kinds {
		ws.kinds[k]++
	}
	if r.issued >= 2 && r.events > 0 {
		ws.nontrivial++
		if len(cs.Faults) == 0 {
			c.DistinctHash("wide_nontrivial", wideHash(cs))
		}
	}
	if r.viol != nil {
		ws.nviol++
		if len(ws.viols) < 40 {
			cc := cs
			cc.Ops = append([]string(nil), cs.Ops...)
			cc.Faults = append([]crashAt(nil), cs.Faults...)
			cc.Trace = r.trace
			raw, _ := jsonRoundTrip(cc)
			ws.viols = append(ws.viols, pendingViol{FP: r.viol.fp, What: r.viol.what, Raw: raw})
		}
		return
	}
	if len(cs.Faults) >= maxFaults {
		return
	}
	from := 0
	if n := len(cs.Faults); n > 0 {
		from = cs.Faults[n-1].Site
	}
	for s := from + 1; s <= r.sites; s++ {
		for _, f := range []crashAt{{Site: s}, {Site: s, After: true}, {Site: s, Fail: true}} {
			next := cs
			next.Faults = append(append([]crashAt(nil), cs.Faults...), f)
			wideExplore(c, ws, next, maxFaults)
		}
	}
}

func wideBounds(c *vf.Ctx) (plainLen, faultLen int) { return c.Pick(6, 7), c.Pick(4, 5) }

// wideChild: args = [k]; handles the combinations j with j % wideChildren == k and the
// sampled cases with the same residue.
func wideChild(c *vf.Ctx) {
	k, _ := strconv.Atoi(c.ChildArgs[0])
	plainLen, faultLen := wideBounds(c)
	ws := &wideStats{kinds: map[string]int{}}
	flush := func() {
		c.Count("evaluations", ws.runs)
		c.Count("wide_runs", ws.runs)
		c.Count("wide_runs_with_fault", ws.crashRuns)
		c.Count("wide_crash_points_fired", ws.crashes)
		c.Count("wide_store_errors_fired", ws.fails)
		c.Count("wide_numbers_issued", ws.issued)
		c.Count("wide_numbers_issued_above_maxint64", ws.issuedHigh)
		c.Count("wide_runs_interval_above_maxint64_two_or_more_next_on_one_object", ws.hugeMulti)
		c.Count("wide_runs_lease_crossing_2^32_or_2^63", ws.crossed)
		c.Count("wide_runs_in_exhaustion_zone", ws.zoneRuns)
		c.Count("wide_exhaustion_refusals_accepted", ws.zoneErrors)
		c.Count("wide_numbers_issued_in_exhaustion_zone", ws.zoneIssued)
		c.Count("wide_nontrivial_runs", ws.nontrivial)
		c.Count("wide_violating_runs", ws.nviol)
		for kd, v := range ws.kinds {
			c.Count("wide_fault@"+kd, v)
		}
		viols := ws.viols
		*ws = wideStats{kinds: map[string]int{}, viols: viols}
		c.FlushStats()
	}
	if k == 0 {
		for _, cs := range []wideCase{
			{Wide: true, IA: maxU, IB: maxU, Ops: []string{"N", "N", "N", "R", "S", "N", "N"}},
			{Wide: true, IA: 1<<63 + 1000, IB: 1, Ops: []string{"N", "N", "S", "N"}},
			{Wide: true, Prefix: maxU - 7, IA: 3, IB: 3, Ops: []string{"N", "N", "N", "N", "N", "N", "N"}},
			{Wide: true, Prefix: math.MaxInt64 - 1, IA: 3, IB: 1 << 63, Ops: []string{"N", "N", "N", "S", "N", "N"}},
		} {
			c.Mark(fmt.Sprintf("wide sample prefix=%s ia=%s ib=%s ops=%v", fmtU(cs.Prefix), fmtU(cs.IA), fmtU(cs.IB), cs.Ops))
			r := runWide(cs)
			cs.Trace = r.trace
			c.Sample(cs)
		}
	}
	for j, cb := range wideCombos() {
		if j%wideChildren != k {
			continue
		}
		for l := 1; l <= plainLen; l++ {
			total := pow(len(wideAlphabet), l)
			for idx := 0; idx < total; idx++ {
				ops := make([]string, l)
				x := idx
				for i := l - 1; i >= 0; i-- {
					ops[i] = wideAlphabet[x%len(wideAlphabet)]
					x /= len(wideAlphabet)
				}
				cs := wideCase{Wide: true, Prefix: cb.prefix, IA: cb.ia, IB: cb.ib, Ops: ops}
				if idx%64 == 0 {
					c.Mark(fmt.Sprintf("wide prefix=%s ia=%s ib=%s len=%d idx=%d..", fmtU(cb.prefix), fmtU(cb.ia), fmtU(cb.ib), l, idx))
				}
				mf := 0
				if l <= faultLen {
					mf = 1
				}
				wideExplore(c, ws, cs, mf)
			}
		}
		c.Count("wide_histories_exhaustive_combos", 1)
		flush()
	}
	// sampled: arbitrary near-boundary values, longer histories, up to two faults
	nSample := c.Pick(24000, 400000)
	for s := k; s < nSample; s += wideChildren {
		rng := c.Rand(fmt.Sprintf("wide/%d", s))
		cs := wideCase{Wide: true, IA: nearBoundary(rng), IB: nearBoundary(rng)}
		if rng.Intn(4) > 0 {
			cs.Prefix = nearBoundary(rng)
		}
		if rng.Intn(4) == 0 {
			// a lease that ends exactly at / one past the top of the range
			cs.IA = maxU - cs.Prefix + uint64(rng.Intn(3)) - 1
			if cs.IA == 0 {
				cs.IA = 1
			}
		}
		n := 4 + rng.Intn(7)
		for i := 0; i < n; i++ {
			cs.Ops = append(cs.Ops, string("NNNNNRRSSS"[rng.Intn(10)]))
		}
		if s%64 < wideChildren {
			c.Mark(fmt.Sprintf("wide sampled #%d prefix=%s ia=%s ib=%s ops=%v", s, fmtU(cs.Prefix), fmtU(cs.IA), fmtU(cs.IB), cs.Ops))
		}
		wideExplore(c, ws, cs, 0)
		for t := 0; t < 3; t++ {
			fc := cs
			sites := map[int]bool{}
			for nf := 1 + rng.Intn(2); len(sites) < nf; {
				sites[1+rng.Intn(2*n+2)] = true
			}
			for st := range sites {
				f := crashAt{Site: st, After: rng.Intn(2) == 0}
				if rng.Intn(3) == 0 {
					f = crashAt{Site: st, Fail: true}
				}
				fc.Faults = append(fc.Faults, f)
			}
			sort.Slice(fc.Faults, func(a, b int) bool { return fc.Faults[a].Site < fc.Faults[b].Site })
			wideExplore(c, ws, fc, 0)
		}
		c.Count("wide_histories_sampled", 1)
		if s/wideChildren%2000 == 1999 {
			flush()
		}
	}
	flush()
	sort.SliceStable(ws.viols, func(a, b int) bool { return len(ws.viols[a].Raw) < len(ws.viols[b].Raw) })
	for _, v := range ws.viols {
		c.Emit("viol", v)
	}
}

// widePart starts the children of this part; it runs next to the sequential children.
func widePart(c *vf.Ctx) {
	plainLen, faultLen := wideBounds(c)
	c.Extra("wide_bound", fmt.Sprintf("for every (prefix mark, interval A, interval B) in %d combinations of boundary values (1..3, 2^31, 2^32, 2^63 +-1, 2^63+1000, MaxUint64-k): all histories over {Next, Release, Switch-to-fresh-object-with-the-other-interval} of length <= %d fault-free and of length <= %d with a crash before / a crash after / a store error at every store call; plus seeded near-boundary samples of length 4-10 with 0-2 faults", len(wideCombos()), plainLen, faultLen))
	vf.Parallel(wideChildren, wideChildren, func(k int) {
		res := c.RunChild(vf.ChildOpts{Name: "wide", Args: []string{strconv.Itoa(k)}, Timeout: 15 * time.Minute})
		if res.TimedOut || res.ExitCode != 0 {
			// a process-fatal error under the panic-based crash model is not itself a refutation
			c.Count("wide_child_deaths", 1)
			c.Note(fmt.Sprintf("wide-range child %d died (%s, exit code %d) in %q (stderr: %s)", k, res.Fatal, res.ExitCode, res.LastMark, res.StderrPath))
			c.Inconclusive(fmt.Sprintf("wide-range child %d died (%s) in %q", k, res.Fatal, res.LastMark))
		}
		pendingMu.Lock()
		defer pendingMu.Unlock()
		for _, r := range res.Records {
			if r.Kind == "viol" {
				var p pendingViol
				if json.Unmarshal(r.V, &p) == nil {
					pendingViols = append(pendingViols, p)
				}
			}
		}
	})
	c.Count("wide_children", wideChildren)
}
