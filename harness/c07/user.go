// User code under the Sequence: the three workload disciplines of DISCIPLINES.md applied to every
// exported entry point of C07 (NewSequence, Next, Release). The "user code" of a Sequence is the
// KVStore it is built on (and whatever wrappers / callbacks sit in that store).
//
//  3. user code that PANICS, then the object is used again (fault kind Cont): the store call panics
//     before or after applying the call, the caller recovers the panic out of Next / Release and keeps
//     using the SAME object – further Next / Release calls, then crashes, restarts, hand-backs. The
//     panic comes out of the harness store (faultkv, both sides of the call) or out of the
//     AccessCallback of the repository's own kvstore/debug wrapper (before the call, that is where
//     debug invokes it). The ordinary oracle of runSeq decides (no number twice, waste bounds with one
//     interval of slack per recovered panic, no error on a healthy store). A call on the object that
//     never returns after the recovered panic (lock left held) ends the plain-build, timer-free child
//     with the runtime's dead-lock verdict and is a violation.
//  1. memory ownership across the store boundary (store "retain"): a KVStore that keeps the very
//     slice it was given by Set as the persisted value and hands out its own slice from Get – the
//     KVStore interface does not say who owns either, mapdb's own BatchedMutations.Set keeps the
//     slice until Commit. A Sequence that re-uses a buffer it passed to Set, or writes into what Get
//     returned, changes the persisted mark; again the ordinary oracle decides (no buffer identity is
//     demanded). The caller's key slice must never be written to (key-argument-changed).
//  2. re-entrant user code: (a) a call that returns on the unchanged tree – Release of a parked,
//     lease-less object of the same key – made from INSIDE a store call of the owner (fault kind
//     Reent), judged by the ordinary oracle; (b) Next / Release on the SAME object from inside its own
//     store call: the unchanged tree self-dead-locks there (the store round trip runs under the
//     object's mutex), which is established per entry point in plain-build children and recorded;
//     nothing is demanded of a call that does not return on the unchanged tree, and if it does
//     return the numbers it produced are judged like all others.
package main

import (
	"encoding/json"
	"errors"
	"fmt"
	"runtime"
	"strconv"
	"strings"
	"time"

	"github.com/iotaledger/hive.go/kvstore"
	"github.com/iotaledger/hive.go/kvstore/debug"
	"github.com/iotaledger/hive.go/kvstore/mapdb"
	"verif/harness/internal/faultkv"
	"verif/harness/internal/vf"
)

// Scope (DISCIPLINES.md, scope rule): what the unchanged tree guarantees today is demanded – every
// recovered panic out of Next (before / after Get, before / after Set) and out of Release before its
// Set leaves the object and the store consistent. One case is NOT guaranteed today and is robustness
// beyond the statement (it needs user code that panics): a panic out of Release AFTER the store
// applied the write. The object then keeps a lease the store has taken back and re-issues numbers.
// That is recorded (counter + one note), not demanded. The same weakness reached WITHOUT a panic – the
// store applies Release's write and then reports an error, as kvstore/flushkv.Set does when its Flush
// fails – breaks the statement in a plain sequential history and is demanded.
const demandLeaseGivenUpWhenReleaseWritePanics = true

const undemandedCause = "recovered-panic-out-of-Release:store.Set:after"

// ---------------------------------------------------------------- stores

var errRetainUnsupported = errors.New("retainKV: operation not supported")

// retainKV keeps the slices it is given and hands out its own slices (no copy in either direction).
type retainKV struct {
	m      map[string][]byte
	shadow map[string]string // value at the time of the Set (evidence only)
}

func newRetainKV() *retainKV { return &retainKV{m: map[string][]byte{}, shadow: map[string]string{}} }

func (s *retainKV) WithRealm(kvstore.Realm) (kvstore.KVStore, error) {
	return nil, errRetainUnsupported
}
func (s *retainKV) WithExtendedRealm(kvstore.Realm) (kvstore.KVStore, error) {
	return nil, errRetainUnsupported
}
func (s *retainKV) Realm() kvstore.Realm { return nil }
func (s *retainKV) Iterate(kvstore.KeyPrefix, kvstore.IteratorKeyValueConsumerFunc, ...kvstore.IterDirection) error {
	return errRetainUnsupported
}
func (s *retainKV) IterateKeys(kvstore.KeyPrefix, kvstore.IteratorKeyConsumerFunc, ...kvstore.IterDirection) error {
	return errRetainUnsupported
}
func (s *retainKV) Clear() error {
	s.m, s.shadow = map[string][]byte{}, map[string]string{}
	return nil
}
func (s *retainKV) Get(key kvstore.Key) (kvstore.Value, error) {
	v, ok := s.m[string(key)]
	if !ok {
		return nil, kvstore.ErrKeyNotFound
	}
	return v, nil
}
func (s *retainKV) Set(key kvstore.Key, value kvstore.Value) error {
	s.m[string(key)] = value
	s.shadow[string(key)] = string(value)
	return nil
}
func (s *retainKV) Has(key kvstore.Key) (bool, error) { _, ok := s.m[string(key)]; return ok, nil }
func (s *retainKV) Delete(key kvstore.Key) error {
	delete(s.m, string(key))
	delete(s.shadow, string(key))
	return nil
}
func (s *retainKV) DeletePrefix(p kvstore.KeyPrefix) error {
	for k := range s.m {
		if strings.HasPrefix(k, string(p)) {
			delete(s.m, k)
			delete(s.shadow, k)
		}
	}
	return nil
}
func (s *retainKV) Flush() error                               { return nil }
func (s *retainKV) Close() error                               { return nil }
func (s *retainKV) Batched() (kvstore.BatchedMutations, error) { return nil, errRetainUnsupported }

// drifted: a persisted value differs from what it was when it was Set (somebody wrote into a slice
// the store owns). Evidence only – the verdict is the number oracle's.
func (s *retainKV) drifted() bool {
	for k, v := range s.m {
		if string(v) != s.shadow[k] {
			return true
		}
	}
	return false
}

var _ kvstore.KVStore = (*retainKV)(nil)

// postFailKV makes chosen store calls report the injected error AFTER they were applied (what
// kvstore/flushkv.Set does when the Flush behind the write fails). The site number of a call is the
// one the injector is about to assign (single goroutine).
type postFailKV struct {
	kvstore.KVStore
	in      *faultkv.Injector
	sites   map[int]bool
	count   int
	last    faultkv.Fired
	pending bool
}

func (w *postFailKV) after(site int, kind string) error {
	if !w.sites[site] {
		return nil
	}
	w.count++
	w.last, w.pending = faultkv.Fired{Site: site, Kind: kind, Action: faultkv.Fail}, true
	return fmt.Errorf("%w at site %d (%s), reported after the call was applied", faultkv.ErrInjected, site, kind)
}

func (w *postFailKV) Get(key kvstore.Key) (kvstore.Value, error) {
	site := w.in.Sites() + 1
	v, err := w.KVStore.Get(key)
	if err == nil || errors.Is(err, kvstore.ErrKeyNotFound) {
		if e := w.after(site, "store.Get"); e != nil {
			return nil, e
		}
	}
	return v, err
}

func (w *postFailKV) Set(key kvstore.Key, value kvstore.Value) error {
	site := w.in.Sites() + 1
	err := w.KVStore.Set(key, value)
	if err == nil {
		err = w.after(site, "store.Set")
	}
	return err
}

func (w *postFailKV) Has(key kvstore.Key) (bool, error) {
	site := w.in.Sites() + 1
	ok, err := w.KVStore.Has(key)
	if err == nil {
		err = w.after(site, "store.Has")
	}
	return ok, err
}

func (w *postFailKV) Delete(key kvstore.Key) error {
	site := w.in.Sites() + 1
	err := w.KVStore.Delete(key)
	if err == nil {
		err = w.after(site, "store.Delete")
	}
	return err
}

// userStore builds the store a case runs on: inner is what the oracle reads the persisted mark
// from, st is what the Sequence gets.
func userStore(kind string, in *faultkv.Injector) (inner kvstore.KVStore, st kvstore.KVStore, rk *retainKV) {
	switch kind {
	case "retain":
		rk = newRetainKV()
		return rk, faultkv.Wrap(rk, in), rk
	case "debug":
		inner = mapdb.NewMapDB()
		// the fault site is the user's AccessCallback, which kvstore/debug runs before it forwards the
		// call: any planned fault there is a panic out of user code before the call is applied
		st = debug.New(inner, func(cmd debug.Command, _ ...[]byte) {
			kind := "store." + debug.CommandNames[cmd]
			site, act := in.Hit(kind)
			if act != faultkv.None {
				panic(&faultkv.Crash{Site: site, Kind: kind})
			}
		})
		return inner, st, nil
	default:
		inner = mapdb.NewMapDB()
		return inner, faultkv.Wrap(inner, in), nil
	}
}

// ---------------------------------------------------------------- enumeration

// userFamily: which store, which faults, how deep.
type userFamily struct {
	name  string
	store string
	// fault kinds tried at every site
	kinds []crashAt
	// a plan is evaluated (counted, judged) only if it contains a fault for which isNew holds; plans
	// without one are still executed where needed to learn the number of sites, but belong to the
	// sequential part of main.go
	needNew bool
	// full alphabet: exhaustive history length for single faults / pairs of faults; then the dense
	// alphabet denseAlphabet (half of its symbols make store calls) for lengths len1+1 .. lenDense,
	// single faults
	len1, len2, lenDense func(c *vf.Ctx) int
}

// denseAlphabet leaves out the symbols that do not touch the store on the unchanged tree (L, O) and
// the larger restart intervals: more store calls – fault sites – per history.
var denseAlphabet = []string{"N", "R", "S1", "S2", "B"}

func isNewKind(f crashAt) bool { return f.Cont || f.Reent || (f.Fail && f.After) }

func pick(q, t int) func(c *vf.Ctx) int { return func(c *vf.Ctx) int { return c.Pick(q, t) } }

func userFamilies() []userFamily {
	all := []crashAt{{}, {After: true}, {Fail: true}, {Fail: true, After: true}, {Cont: true}, {Cont: true, After: true}, {Reent: true}}
	return []userFamily{
		{name: "panic", store: "", kinds: all, needNew: true, len1: pick(5, 6), len2: pick(4, 5), lenDense: pick(6, 7)},
		{name: "retain", store: "retain", kinds: all, needNew: false, len1: pick(4, 5), len2: pick(3, 4), lenDense: pick(5, 7)},
		{name: "debug", store: "debug", kinds: []crashAt{{}, {Cont: true}}, needNew: true, len1: pick(5, 6), len2: pick(4, 5), lenDense: pick(6, 7)},
	}
}

type userStats struct {
	stats
	panics, usesAfter, issuedAfter, panicThenCrashRuns, panicRuns int
	reent, reentMidLease, reentRuns                               int
	keyChecks, retainChecks, retainRuns, retainFaultRuns          int
	retainDrift, postFails, undemanded                            int
	debugRuns                                                     int
}

var pinMarks string // non-empty: announce every single execution with c.Mark (pin mode), prefix

func hasNew(cr []crashAt) bool {
	for _, f := range cr {
		if isNewKind(f) {
			return true
		}
	}
	return false
}

func exploreUser(c *vf.Ctx, us *userStats, fam *userFamily, cs seqCase, maxFaults int) {
	if pinMarks != "" {
		b, _ := json.Marshal(cs)
		c.Mark(pinMarks + " case=" + string(b))
	}
	r := runSeq(cs)
	if r.redundant && r.viol == nil {
		us.pruned++
		return
	}
	counted := !fam.needNew || hasNew(cs.Crashes)
	if counted {
		us.runs++
		us.issued += r.issued
		for _, k := range r.firedKinds {
			us.kinds[fam.name+"/"+k]++
		}
		us.crashesFired += r.crashesFired
		us.failsFired += r.failsFired
		us.panics += r.panicsRecovered
		us.postFails += r.postFails
		us.undemanded += r.undemandedReuse
		us.usesAfter += r.usesAfterPanic
		us.issuedAfter += r.issuedAfterPanic
		if r.panicsRecovered > 0 {
			us.panicRuns++
			if r.panicThenCrash {
				us.panicThenCrashRuns++
			}
		}
		us.reent += r.reentCalls
		us.reentMidLease += r.reentOwnerMidLease
		if r.reentCalls > 0 {
			us.reentRuns++
		}
		us.keyChecks += r.keyChecks
		switch fam.store {
		case "retain":
			us.retainRuns++
			us.retainChecks += r.retainChecks
			us.retainDrift += r.retainDrift
			if r.fired > 0 {
				us.retainFaultRuns++
			}
		case "debug":
			us.debugRuns++
		}
		if r.issued >= 2 && r.events > 0 {
			us.nontrivialRuns++
		}
		if r.viol != nil {
			if len(us.viols) < 50 {
				cc := cs
				cc.Ops = append([]string(nil), cs.Ops...)
				cc.Crashes = append([]crashAt(nil), cs.Crashes...)
				cc.Trace = r.trace
				us.viols = append(us.viols, struct {
					v  violation
					cs seqCase
				}{*r.viol, cc})
			}
			return
		}
	} else if r.viol != nil {
		return // belongs to the sequential part
	}
	if len(cs.Crashes) >= maxFaults {
		return
	}
	from := 0
	if n := len(cs.Crashes); n > 0 {
		from = cs.Crashes[n-1].Site
	}
	last := len(cs.Crashes)+1 == maxFaults
	for s := from + 1; s <= r.sites; s++ {
		for _, f := range fam.kinds {
			f.Site = s
			if fam.needNew && last && !isNewKind(f) && !hasNew(cs.Crashes) {
				continue // would complete a plan without any new kind
			}
			next := cs
			next.Crashes = append(append([]crashAt(nil), cs.Crashes...), f)
			exploreUser(c, us, fam, next, maxFaults)
		}
	}
}

func mergeUserStats(c *vf.Ctx, us *userStats) {
	c.Count("evaluations", us.runs)
	c.Count("user_runs", us.runs)
	c.Count("user_numbers_issued", us.issued)
	c.Count("user_nontrivial_runs", us.nontrivialRuns)
	c.Count("user_histories_pruned_noop_symbol", us.pruned)
	c.Count("user_crash_points_fired", us.crashesFired)
	c.Count("user_store_errors_fired", us.failsFired)
	c.Count("user_store_errors_reported_after_applying", us.postFails)
	c.Count("user_reuse_after_panic_out_of_applied_release_write_not_demanded", us.undemanded)
	c.Count("user_panics_recovered_object_kept", us.panics)
	c.Count("user_runs_with_recovered_panic", us.panicRuns)
	c.Count("user_calls_on_object_after_recovered_panic", us.usesAfter)
	c.Count("user_numbers_issued_by_object_after_recovered_panic", us.issuedAfter)
	c.Count("user_runs_recovered_panic_then_crash_or_restart", us.panicThenCrashRuns)
	c.Count("user_reentrant_release_of_parked_object_inside_store_call", us.reent)
	c.Count("user_reentrant_release_while_owner_mid_lease", us.reentMidLease)
	c.Count("user_runs_with_reentrant_release", us.reentRuns)
	c.Count("user_key_slice_rechecked", us.keyChecks)
	c.Count("user_retaining_store_runs", us.retainRuns)
	c.Count("user_retaining_store_runs_with_fault", us.retainFaultRuns)
	c.Count("user_retained_slices_rechecked", us.retainChecks)
	c.Count("user_retained_slices_found_changed", us.retainDrift)
	c.Count("user_debug_callback_runs", us.debugRuns)
	for k, v := range us.kinds {
		c.Count("user_fault@"+k, v)
		if strings.Contains(k, "-recovered") {
			c.Distinct("user_panic_site_kinds", k)
		}
	}
	for _, v := range us.viols {
		c.Emit("viol", pendingViol{FP: v.v.fp, What: v.v.what, Case: v.cs})
	}
}

// ---------------------------------------------------------------- child

const userChildren = 12

type userJob struct {
	fam        int
	dense      bool
	i0, length int
	lo, hi     int
}

func userJobs(c *vf.Ctx) []userJob {
	var jobs []userJob
	for fi, fam := range userFamilies() {
		for l := 1; l <= fam.lenDense(c); l++ {
			dense := l > fam.len1(c)
			alpha := alphabet
			if dense {
				alpha = denseAlphabet
			}
			for _, i0 := range intervals {
				n := pow(len(alpha), l)
				step := 1500
				for lo := 0; lo < n; lo += step {
					hi := lo + step
					if hi > n {
						hi = n
					}
					jobs = append(jobs, userJob{fi, dense, i0, l, lo, hi})
				}
			}
		}
	}
	return jobs
}

func decodeHistoryIn(alpha []string, length, idx int) []string {
	ops := make([]string, length)
	for i := length - 1; i >= 0; i-- {
		ops[i] = alpha[idx%len(alpha)]
		idx /= len(alpha)
	}
	return ops
}

// userChild: args = [k, resumeJob, resumeIdx, pin]; like seqChild. With pin=1 only the history
// (resumeJob, resumeIdx) is run and every execution is announced, so that a death can be attributed
// to one (history, fault plan).
func userChild(c *vf.Ctx) {
	k, _ := strconv.Atoi(c.ChildArgs[0])
	resumeJ, _ := strconv.Atoi(c.ChildArgs[1])
	resumeI, _ := strconv.Atoi(c.ChildArgs[2])
	pin := len(c.ChildArgs) > 3 && c.ChildArgs[3] == "1"
	fams := userFamilies()
	jobs := userJobs(c)
	childViols := 0
	for j, jb := range jobs {
		if j%userChildren != k || j < resumeJ {
			continue
		}
		if pin && j != resumeJ {
			continue
		}
		fam := &fams[jb.fam]
		us := &userStats{stats: stats{kinds: map[string]int{}}}
		done := 0
		for idx := jb.lo; idx < jb.hi; idx++ {
			if pin && idx != resumeI {
				continue
			}
			if !pin && j == resumeJ && idx <= resumeI {
				continue
			}
			alpha := alphabet
			if jb.dense {
				alpha = denseAlphabet
			}
			cs := seqCase{Interval0: jb.i0, Ops: decodeHistoryIn(alpha, jb.length, idx), Store: fam.store}
			mark := fmt.Sprintf("%d:%d family=%s interval0=%d ops=%s", j, idx, fam.name, cs.Interval0, strings.Join(cs.Ops, ","))
			c.Mark(mark)
			if pin {
				pinMarks = fmt.Sprintf("%d:%d", j, idx)
			}
			maxF := 1
			if jb.length <= fam.len2(c) {
				maxF = 2
			}
			exploreUser(c, us, fam, cs, maxF)
			done++
		}
		if pin {
			return // a pin run only attributes a death; its observations were (or will be) counted by the regular run
		}
		c.Count("user_histories", done)
		c.Count("user_histories_"+fam.name, done)
		c.Count(fmt.Sprintf("user_runs_%s_len%d", fam.name, jb.length), us.runs)
		childViols += len(us.viols)
		mergeUserStats(c, us)
		c.FlushStats()
		if childViols >= 150 {
			c.Count("user_chunks_stopped_after_150_violations", 1)
			c.FlushStats()
			return
		}
	}
}

func collectViols(res vf.ChildResult) {
	pendingMu.Lock()
	defer pendingMu.Unlock()
	for _, r := range res.Records {
		if r.Kind == "viol" {
			var p pendingViol
			if json.Unmarshal(r.V, &p) == nil {
				pendingViols = append(pendingViols, p)
			}
		}
	}
}

const fpNeverReturns = "user-code/call-never-returns-after-recovered-panic-or-reentrant-call"

func userPart(c *vf.Ctx) {
	fams := userFamilies()
	var b strings.Builder
	for _, f := range fams {
		fmt.Fprintf(&b, "%s: single faults to length %d, pairs to length %d, single faults over {N,R,S1,S2,B} to length %d; ", f.name, f.len1(c), f.len2(c), f.lenDense(c))
	}
	c.Extra("user_code_bound", "histories over the alphabet of the sequential part for every initial interval, with faults {crash before, crash after, store error, PANIC before / after that the caller recovers keeping the object, re-entrant Release of a parked object inside the store call} at every store call; family panic (mapdb behind the harness store; plans with at least one panic-and-continue or re-entrant call), family retain (store that keeps the slices it is given and hands out its own; all plans), family debug (kvstore/debug AccessCallback panics: crash / panic-and-continue before the call): "+b.String())
	vf.Parallel(userChildren, runtime.NumCPU(), func(k int) {
		resumeJ, resumeI := -1, -1
		for deaths := 0; ; {
			res := c.RunChild(vf.ChildOpts{Name: "user", Args: []string{strconv.Itoa(k), strconv.Itoa(resumeJ), strconv.Itoa(resumeI), "0"}, Timeout: 15 * time.Minute})
			collectViols(res)
			if res.TimedOut {
				c.Inconclusive(fmt.Sprintf("user-code chunk %d: watchdog fired at history %q", k, res.LastMark))
				return
			}
			if res.ExitCode == 0 {
				return
			}
			deaths++
			c.Count("user_child_deaths", 1)
			var j, i int
			parsed, _ := fmt.Sscanf(res.LastMark, "%d:%d", &j, &i)
			if res.Deadlock && parsed == 2 {
				// structural verdict of the Go runtime: the single goroutine of the child is parked for ever
				// inside a Sequence call. Pin it to one (history, fault plan).
				pr := c.RunChild(vf.ChildOpts{Name: "user", Args: []string{strconv.Itoa(k), strconv.Itoa(j), strconv.Itoa(i), "1"}, Timeout: 5 * time.Minute})
				var cs seqCase
				if at := strings.Index(pr.LastMark, " case="); pr.Deadlock && at >= 0 && json.Unmarshal([]byte(pr.LastMark[at+6:]), &cs) == nil {
					cs.Trace = "dead-lock"
					pendingMu.Lock()
					pendingViols = append(pendingViols, pendingViol{FP: fpNeverReturns,
						What: fmt.Sprintf("a Next / Release call never returns (plain build, Go runtime: all goroutines are asleep) in history interval0=%d ops=%v store=%q faults=%+v", cs.Interval0, cs.Ops, cs.Store, cs.Crashes), Case: cs})
					pendingMu.Unlock()
					c.Count("user_deadlocks_pinned", 1)
				} else {
					c.Inconclusive(fmt.Sprintf("user-code chunk %d: child dead-locked in history %q but the pin run did not (last mark %q)", k, res.LastMark, pr.LastMark))
				}
			} else {
				fatal := res.Fatal
				if fatal == "" {
					fatal = fmt.Sprintf("exit code %d", res.ExitCode)
				}
				c.Note(fmt.Sprintf("user-code chunk %d: child process died (%s) while running history %q (stderr: %s)", k, fatal, res.LastMark, res.StderrPath))
				if deaths == 1 {
					c.Inconclusive(fmt.Sprintf("user-code chunk %d: child died with %q in history %q", k, fatal, res.LastMark))
				}
			}
			if parsed != 2 || deaths >= 6 {
				c.Count("user_chunks_abandoned", 1)
				return
			}
			resumeJ, resumeI = j, i
		}
	})
	c.Count("user_children", userChildren)
	if n := c.Get("user_reuse_after_panic_out_of_applied_release_write_not_demanded"); n > 0 {
		c.Note(fmt.Sprintf("not demanded (robustness beyond the statement, scope rule of DISCIPLINES.md): in %d runs a store call of Release panicked AFTER the store had applied the write, the caller recovered and kept the object, and the object went on serving its old lease although the persisted mark had been rolled back to its next number, so a number was handed out twice (e.g. interval 2: Next=0, Release panics after Set(mark=1), Next=1, Next=1). Giving the lease up in memory before the write would close it", n))
	}
	reentProbePart(c)
}

// ---------------------------------------------------------------- same-object re-entrancy probe

// reentProbes: store call of the owner inside which the user code calls the SAME object again.
var reentProbes = []struct{ entry, site, nested string }{
	{"Next(renewal)", "store.Get", "Next"},
	{"Next(renewal)", "store.Get", "Release"},
	{"Next(renewal)", "store.Set", "Next"},
	{"Next(renewal)", "store.Set", "Release"},
	{"Release", "store.Set", "Next"},
	{"Release", "store.Set", "Release"},
}

// reentProbeChild runs probe #idx in the main goroutine, timer-free: lease of 3, two numbers used, then
// the entry point whose store call (first one of the wanted kind) calls back into the same object.
// If that returns, the history goes on (Next, restart, Next ×4) and every number – the nested one
// included – must be new.
func reentProbeChild(c *vf.Ctx) {
	idx, _ := strconv.Atoi(c.ChildArgs[0])
	p := reentProbes[idx]
	inner := mapdb.NewMapDB()
	in := faultkv.NewInjector(nil, false)
	st := faultkv.Wrap(inner, in)
	var seq *kvstore.Sequence
	armed, fired := false, false
	var nested []uint64
	nestedErr := ""
	in.Hook = func(site int, kind string) {
		if !armed || fired || kind != p.site {
			return
		}
		fired = true
		if p.nested == "Next" {
			v, err := seq.Next()
			if err != nil {
				nestedErr = "nested Next: " + err.Error()
			} else {
				nested = append(nested, v)
			}
		} else if err := seq.Release(); err != nil {
			nestedErr = "nested Release: " + err.Error()
		}
	}
	var issued []uint64
	var tr strings.Builder
	next := func(s *kvstore.Sequence) bool {
		v, err := s.Next()
		if err != nil {
			c.Violation("Next/unexpected-error", fmt.Sprintf("re-entrancy probe %d (%s, %s inside %s): Next returned %v on a healthy store; trace: %s", idx, p.entry, p.nested, p.site, err, tr.String()), nil)
			return false
		}
		issued = append(issued, nested...) // numbers produced inside the call come first
		nested = nil
		issued = append(issued, v)
		fmt.Fprintf(&tr, "N=%d ", v)
		return true
	}
	seq, _ = kvstore.NewSequence(st, seqKey, 3)
	n0 := 2
	if p.entry != "Release" {
		n0 = 3 // use the lease up, so that the next Next renews
	}
	for i := 0; i < n0; i++ {
		if !next(seq) {
			return
		}
	}
	c.Mark(strconv.Itoa(idx))
	armed = true
	if p.entry == "Release" {
		if err := seq.Release(); err != nil {
			tr.WriteString("R?(" + err.Error() + ") ")
		} else {
			tr.WriteString("R ")
		}
		issued = append(issued, nested...)
		nested = nil
	} else if !next(seq) {
		return
	}
	armed = false
	if !fired {
		c.Count("user_reentrant_probe_site_not_reached", 1)
		return
	}
	c.Count("user_reentrant_same_object_call_returned", 1)
	if !next(seq) {
		return
	}
	seq2, _ := kvstore.NewSequence(st, seqKey, 2)
	for i := 0; i < 4; i++ {
		if !next(seq2) {
			return
		}
	}
	seen := map[uint64]bool{}
	for _, v := range issued {
		if seen[v] {
			c.Violation("reuse/reentrant-call-on-same-object", fmt.Sprintf("re-entrancy probe %d: %s called from inside the %s of %s on the same object returned (%s), and number %d was handed out twice; numbers in order: %v", idx, p.nested, p.site, p.entry, nestedErr, v, issued), nil)
			return
		}
		seen[v] = true
	}
}

func reentProbePart(c *vf.Ctx) {
	vf.Parallel(len(reentProbes), 6, func(i int) {
		res := c.RunChild(vf.ChildOpts{Name: "reentprobe", Args: []string{strconv.Itoa(i)}, Timeout: 2 * time.Minute})
		p := reentProbes[i]
		switch {
		case res.Deadlock && res.LastMark == strconv.Itoa(i):
			// what the unchanged tree does: the store round trip runs under the object's own mutex
			c.Count("user_reentrant_same_object_call_self_deadlocks", 1)
			c.Distinct("user_reentrant_probe_outcomes", fmt.Sprintf("%s/%s/%s: self-dead-lock", p.entry, p.site, p.nested))
		case res.TimedOut:
			c.Inconclusive(fmt.Sprintf("re-entrancy probe %d: watchdog fired", i))
		case res.ExitCode != 0 && res.ExitCode != 1:
			c.Inconclusive(fmt.Sprintf("re-entrancy probe %d died: %s (exit code %d)", i, res.Fatal, res.ExitCode))
		default:
			c.Distinct("user_reentrant_probe_outcomes", fmt.Sprintf("%s/%s/%s: returned", p.entry, p.site, p.nested))
		}
		c.Count("user_reentrant_same_object_probes", 1)
	})
}
