// Several Sequences on DIFFERENT keys sharing one store and one process.
//
// Deterministic part (child "xkey"): the store wrapper's hook runs, inside the window of
// a Set issued by one key's Sequence and before the value is forwarded to / copied by the
// real store, a renewal of every OTHER key's Sequence (legitimate re-entrancy through the
// store: different objects, different keys). Oracle per key as everywhere in C07, plus:
// after every top-level operation the persisted mark of key k is >= every number handed
// out for k.
//
// Concurrent part (inside the plain and -race "conc" children): 2-4 keys, each with its own
// single owner object and 1-4 Next callers, marks far apart (key 0 near 0, others near
// k<<40), Gosched jitter at store calls.
package main

import (
	"encoding/binary"
	"fmt"
	"runtime"
	"sort"
	"strconv"
	"strings"
	"sync"
	"sync/atomic"

	"github.com/iotaledger/hive.go/kvstore"
	"github.com/iotaledger/hive.go/kvstore/mapdb"
	"verif/harness/internal/faultkv"
	"verif/harness/internal/vf"
)

type xkeyCase struct {
	XKey      bool     `json:"xkey"`
	Intervals []int    `json:"intervals"` // per key
	Bases     []uint64 `json:"bases"`     // mark persisted under each key before the run (0 = none)
	Ops       []string `json:"ops"`       // N<k> Next, R<k> Release, S<k> restart (abandon + fresh object) on key k
	Trace     string   `json:"trace,omitempty"`
}

type xkeyResult struct {
	viol          *violation
	trace         string
	issued        int
	nestedSets    int // store writes of another key performed inside a Set window
	nestedNumbers int
}

func xkeyName(k int) []byte { return []byte("seq-" + strconv.Itoa(k)) }

func be(v uint64) []byte {
	var b [8]byte
	binary.BigEndian.PutUint64(b[:], v)
	return b[:]
}

func runXKey(cs xkeyCase) (res xkeyResult) {
	n := len(cs.Intervals)
	inner := mapdb.NewMapDB()
	for k := 0; k < n; k++ {
		if cs.Bases[k] > 0 {
			inner.Set(xkeyName(k), be(cs.Bases[k]))
		}
	}
	in := faultkv.NewInjector(nil, false)
	st := faultkv.Wrap(inner, in)
	seqs := make([]*kvstore.Sequence, n)
	last := make([]int64, n)  // last number issued for the key (base-1: numbers below the initial mark belong to an earlier life)
	slack := make([]int64, n) // numbers that may be skipped
	touched := make([]bool, n)
	for k := 0; k < n; k++ {
		seqs[k], _ = kvstore.NewSequence(st, xkeyName(k), uint64(cs.Intervals[k]))
		last[k] = int64(cs.Bases[k]) - 1
	}
	var tr strings.Builder
	bad := func(fp, what string) {
		if res.viol == nil {
			res.viol = &violation{fp, what + "; trace: " + tr.String()}
		}
	}
	issue := func(k int, v uint64, nested bool) {
		res.issued++
		if nested {
			fmt.Fprintf(&tr, "[N%d=%d] ", k, v)
		} else {
			fmt.Fprintf(&tr, "N%d=%d ", k, v)
		}
		if int64(v) <= last[k] {
			bad("xkey/reuse", fmt.Sprintf("key %d: Next returned %d although %d was already issued for this key", k, v, last[k]))
		} else if gap := int64(v) - last[k] - 1; gap > slack[k] {
			bad("xkey/waste", fmt.Sprintf("key %d: Next returned %d after %d: %d numbers skipped, at most %d allowed", k, v, last[k], gap, slack[k]))
		}
		last[k], slack[k] = int64(v), 0
		touched[k] = true
	}
	active, inHook := -1, false
	in.Hook = func(site int, kind string) {
		if kind != "store.Set" || inHook || active < 0 {
			return
		}
		inHook = true
		defer func() { inHook = false }()
		for j := 0; j < n; j++ {
			if j == active {
				continue
			}
			before := in.Sites()
			for x := 0; x < cs.Intervals[j]; x++ { // interval calls force one renewal (= one Set) of key j
				v, err := seqs[j].Next()
				if err != nil {
					bad("xkey/Next-unexpected-error", fmt.Sprintf("key %d: Next failed on a healthy store: %v", j, err))
					return
				}
				issue(j, v, true)
				res.nestedNumbers++
			}
			if in.Sites() > before {
				res.nestedSets++
			}
		}
	}
	for i, op := range cs.Ops {
		k, _ := strconv.Atoi(op[1:])
		if k >= n {
			continue
		}
		active = k
		switch op[0] {
		case 'N':
			v, err := seqs[k].Next()
			if err != nil {
				bad("xkey/Next-unexpected-error", fmt.Sprintf("step %d key %d: Next failed on a healthy store: %v", i, k, err))
			} else {
				issue(k, v, false)
			}
		case 'R':
			if err := seqs[k].Release(); err != nil {
				bad("xkey/Release-unexpected-error", fmt.Sprintf("step %d key %d: Release failed on a healthy store: %v", i, k, err))
			}
			fmt.Fprintf(&tr, "R%d ", k)
			touched[k] = false
		case 'S':
			if touched[k] {
				slack[k] += int64(cs.Intervals[k])
			}
			touched[k] = false
			seqs[k], _ = kvstore.NewSequence(st, xkeyName(k), uint64(cs.Intervals[k]))
			fmt.Fprintf(&tr, "S%d ", k)
		}
		active = -1
		// quiescent: the persisted mark of every key covers every number handed out for it
		for j := 0; j < n; j++ {
			if last[j] < 0 || last[j] == int64(cs.Bases[j])-1 {
				continue
			}
			b, err := inner.Get(xkeyName(j))
			if err != nil || len(b) != 8 {
				bad("xkey/persisted-mark-behind-issued", fmt.Sprintf("step %d: key %d has no persisted mark although %d was handed out", i, j, last[j]))
			} else if m := binary.BigEndian.Uint64(b); int64(m) < last[j] {
				bad("xkey/persisted-mark-behind-issued", fmt.Sprintf("step %d (%s): persisted mark of key %d is %d although %d was handed out for that key", i, op, j, m, last[j]))
			}
		}
		if res.viol != nil {
			break
		}
	}
	res.trace = tr.String()
	return res
}

var xkeyAlphabet2 = []string{"N0", "N1", "R0", "R1", "S0", "S1"}

// xkeyChild enumerates all histories over two keys up to the tier's length for every pair
// of intervals and both placements of the far-apart marks, plus seeded three/four-key ones.
func xkeyChild(c *vf.Ctx) {
	maxLen := c.Pick(5, 6)
	var viols []pendingViol
	runOne := func(cs xkeyCase) {
		c.Mark(fmt.Sprintf("xkey intervals=%v bases=%v ops=%v", cs.Intervals, cs.Bases, cs.Ops))
		r := runXKey(cs)
		c.Count("evaluations", 1)
		c.Count("xkey_runs", 1)
		c.Count("xkey_numbers_issued", r.issued)
		c.Count("xkey_renewals_inside_other_keys_set_window", r.nestedSets)
		if r.nestedSets > 0 && r.issued >= 2 {
			c.Count("xkey_runs_with_nested_renewal", 1)
		}
		if r.viol != nil && len(viols) < 200 {
			cs.Trace = r.trace
			cc, _ := jsonRoundTrip(cs)
			viols = append(viols, pendingViol{FP: r.viol.fp, What: r.viol.what, Raw: cc})
		}
	}
	for _, bases := range [][]uint64{{0, 1 << 40}, {1 << 40, 0}, {0, 0}} {
		for _, ia := range intervals {
			for _, ib := range intervals {
				for l := 1; l <= maxLen; l++ {
					total := pow(len(xkeyAlphabet2), l)
					for idx := 0; idx < total; idx++ {
						ops := make([]string, l)
						x := idx
						for i := l - 1; i >= 0; i-- {
							ops[i] = xkeyAlphabet2[x%len(xkeyAlphabet2)]
							x /= len(xkeyAlphabet2)
						}
						runOne(xkeyCase{XKey: true, Intervals: []int{ia, ib}, Bases: bases, Ops: ops})
					}
				}
			}
		}
		if len(viols) >= 150 {
			break
		}
	}
	rng := c.Rand("xkey")
	for s := 0; s < c.Pick(4000, 60000) && len(viols) < 150; s++ {
		n := 3 + rng.Intn(2)
		cs := xkeyCase{XKey: true}
		for k := 0; k < n; k++ {
			cs.Intervals = append(cs.Intervals, intervals[rng.Intn(4)])
			cs.Bases = append(cs.Bases, uint64(k)<<40*uint64(rng.Intn(2)))
		}
		for i := 0; i < 4+rng.Intn(6); i++ {
			cs.Ops = append(cs.Ops, string("NNNRS"[rng.Intn(5)])+strconv.Itoa(rng.Intn(n)))
		}
		runOne(cs)
	}
	sort.SliceStable(viols, func(a, b int) bool { return len(viols[a].Raw) < len(viols[b].Raw) })
	for _, v := range viols {
		c.Emit("viol", v)
	}
}

// ---------------------------------------------------------------- concurrent multi-key rounds

func multiKeyRounds(c *vf.Ctx, race bool) {
	rounds := c.Pick(60, 600)
	if race {
		rounds = c.Pick(25, 200)
	}
	rng := c.Rand("multikey")
	for r := 0; r < rounds; r++ {
		nk := 2 + rng.Intn(3)
		inner := mapdb.NewMapDB()
		in := faultkv.NewInjector(nil, false)
		jit := uint64(rng.Int63()) | 1
		in.Jitter = func(site int64) {
			x := uint64(site)*0x9E3779B97F4A7C15 ^ jit
			x ^= x >> 29
			for y := uint64(0); y < x&3; y++ { // Gosched-only: yields inside the window before the store copies the value
				runtime.Gosched()
			}
		}
		st := faultkv.Wrap(inner, in)
		ivs := make([]int, nk)
		bases := make([]uint64, nk)
		seen := make([]map[uint64]struct{}, nk)
		prevMax := make([]int64, nk)
		for k := 0; k < nk; k++ {
			ivs[k] = []int{1, 1, 2, 3, 7}[rng.Intn(5)]
			bases[k] = uint64(k) << 40 // key 0 near 0, the others far away
			if bases[k] > 0 {
				inner.Set(xkeyName(k), be(bases[k]))
			}
			seen[k] = map[uint64]struct{}{}
			prevMax[k] = int64(bases[k]) - 1
		}
		desc := fmt.Sprintf("multi-key round %d (%d keys, intervals %v)", r, nk, ivs)
		rep := map[string]any{"multikey_round": r, "seed": c.Seed, "keys": nk, "intervals": ivs}
		for gen := 0; gen < 1+rng.Intn(3); gen++ {
			calls := 100 + rng.Intn(150)
			type gkey struct{ k, g int }
			var wg sync.WaitGroup
			var errCount atomic.Int64
			start := make(chan struct{})
			evs := map[gkey][]nextEv{}
			var evMu sync.Mutex
			for k := 0; k < nk; k++ {
				seq, _ := kvstore.NewSequence(st, xkeyName(k), uint64(ivs[k]))
				for g := 0; g < 1+rng.Intn(4); g++ {
					wg.Add(1)
					go func(k, g int, seq *kvstore.Sequence) {
						defer wg.Done()
						buf := make([]nextEv, 0, calls)
						<-start
						for x := 0; x < calls; x++ {
							ct := tick.Add(1)
							v, err := seq.Next()
							rt := tick.Add(1)
							if err != nil {
								errCount.Add(1)
								continue
							}
							buf = append(buf, nextEv{g, ct, rt, v})
						}
						evMu.Lock()
						evs[gkey{k, g}] = buf
						evMu.Unlock()
					}(k, g, seq)
				}
			}
			close(start)
			wg.Wait()
			if errCount.Load() > 0 {
				c.Violation("multikey/Next-unexpected-error", desc+": Next returned an error on a healthy store", rep)
			}
			for k := 0; k < nk; k++ {
				var all []nextEv
				for gk, buf := range evs {
					if gk.k != k {
						continue
					}
					for i, e := range buf {
						if i > 0 && e.v <= buf[i-1].v {
							c.Violation("multikey/not-increasing-in-one-goroutine", fmt.Sprintf("%s key %d: a goroutine got %d after %d", desc, k, e.v, buf[i-1].v), rep)
						}
						if _, dup := seen[k][e.v]; dup {
							c.Violation("multikey/duplicate", fmt.Sprintf("%s key %d: number %d handed out twice", desc, k, e.v), rep)
						}
						seen[k][e.v] = struct{}{}
						all = append(all, e)
					}
				}
				c.Count("multikey_next_calls", len(all))
				c.Count("evaluations", len(all))
				if len(all) == 0 {
					continue
				}
				sort.Slice(all, func(a, b int) bool { return all[a].call < all[b].call })
				byRet := append([]nextEv(nil), all...)
				sort.Slice(byRet, func(a, b int) bool { return byRet[a].ret < byRet[b].ret })
				maxDone, j := int64(-1), 0
				lo, hi := int64(all[0].v), int64(all[0].v)
				for _, b := range all {
					for j < len(byRet) && byRet[j].ret < b.call {
						if int64(byRet[j].v) > maxDone {
							maxDone = int64(byRet[j].v)
						}
						j++
					}
					if int64(b.v) <= maxDone {
						c.Violation("multikey/real-time-order", fmt.Sprintf("%s key %d: Next returned %d although a call that had already returned got %d", desc, k, b.v, maxDone), rep)
					}
					if int64(b.v) < lo {
						lo = int64(b.v)
					}
					if int64(b.v) > hi {
						hi = int64(b.v)
					}
				}
				if lo <= prevMax[k] {
					c.Violation("multikey/reuse-across-generations", fmt.Sprintf("%s key %d generation %d starts at %d, earlier numbers reached %d", desc, k, gen, lo, prevMax[k]), rep)
				} else if lo-prevMax[k]-1 > int64(ivs[k]) {
					c.Violation("multikey/waste-between-generations", fmt.Sprintf("%s key %d generation %d starts at %d, earlier numbers reached %d, more than one interval (%d) wasted", desc, k, gen, lo, prevMax[k], ivs[k]), rep)
				}
				prevMax[k] = hi
				// quiescent: persisted mark covers every number handed out for the key
				b, err := inner.Get(xkeyName(k))
				if err != nil || len(b) != 8 {
					c.Violation("multikey/persisted-mark-behind-issued", fmt.Sprintf("%s key %d: no persisted mark although %d was handed out", desc, k, hi), rep)
				} else if m := binary.BigEndian.Uint64(b); int64(m) < hi {
					c.Violation("multikey/persisted-mark-behind-issued", fmt.Sprintf("%s key %d: persisted mark %d although %d was handed out", desc, k, m, hi), rep)
				}
			}
			// every object is abandoned with an open lease at the end of a generation (restart)
		}
		c.Count("multikey_rounds", 1)
		c.DistinctHash("concurrent_shapes", uint64(7000+nk))
	}
}

var _ = vf.Parallel
