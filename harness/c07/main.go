// C07 – Sequence numbers are never reused across crashes and restarts.
//
// Crash enumeration: histories over {Next, Release, Restart(interval)} are run on a
// mapdb wrapped in faultkv; the wrapper panics at store call #i either before or
// after applying it (both sides of every store-operation boundary). The harness
// recovers, abandons the Sequence object and continues with a fresh NewSequence on
// the same store. Oracle over the numbers returned by Next during the whole life of
// the store: strictly increasing; waste bounded by one interval per crashed/abandoned
// object; no waste after a clean Release.
//
// User code under the Sequence (user.go): store calls that panic and are recovered by the caller
// who keeps the object, store errors reported after the call was applied, a store that keeps the
// slices it is given, kvstore/debug callbacks that panic, re-entrant calls from inside a store call.
//
// Concurrent part (children, plain and -race): 2–16 goroutines calling Next on one
// Sequence, several object generations per store.
package main

import (
	"encoding/binary"
	"encoding/json"
	"errors"
	"fmt"
	"hash/fnv"
	"math/rand"
	"os"
	"runtime"
	"sort"
	"strconv"
	"strings"
	"sync"
	"sync/atomic"
	"time"

	"github.com/iotaledger/hive.go/kvstore"
	"github.com/iotaledger/hive.go/kvstore/mapdb"
	"verif/harness/internal/faultkv"
	"verif/harness/internal/vf"
)

var seqKey = []byte("seq")

var intervals = []int{1, 2, 3, 7}

// alphabet of history symbols
// N = Next, R = Release, S<i> = restart: a fresh object with interval i takes over,
// B = hand the key back to the most recently parked object (an earlier object that
// was cleanly Released or never used), or to a fresh object if there is none.
// Switching objects (S, B) parks the current object if it holds no un-released lease
// and abandons it for good otherwise, so at most one object ever holds a lease.
// L = a late / duplicate Release on the most recently parked object (one that holds NO
// un-released lease: cleanly Released, never used, or its lease used up exactly) while
// the current owner keeps the key; it must change nothing. Without a parked object L is
// a no-op and the history is pruned (it equals the history without that symbol).
// O = open the successor early: NewSequence for the next owner is called now (while the
// current owner has not called Next yet or is mid-lease); that object is only USED once
// the current owner was released, abandoned or crashed (B, or the replacement after a
// crash, take the early-opened object). An O that is never consumed, or a second O while
// one is pending, makes the history equal to a shorter one (pruned).
var alphabet = []string{"N", "R", "S1", "S2", "S3", "S7", "B", "L", "O"}

// crashAt is one injected fault at store call #Site: a crash (panic before / after
// applying the call, the object is abandoned) or, with Fail, a store error (sentinel
// returned, call not applied) after which the history continues with the SAME object.
type crashAt struct {
	Site  int  `json:"site"`
	After bool `json:"after"`
	Fail  bool `json:"fail,omitempty"`
	// Cont (user.go): the store call PANICS (before / after applying it, as After says) with a user
	// panic; the caller recovers it and keeps using the SAME Sequence object.
	Cont bool `json:"cont,omitempty"`
	// Reent (user.go): no fault; the user code under the Sequence (store wrapper) calls, inside the
	// window of this store call and before it is applied, Release on the most recently parked
	// (lease-less) object of the same key.
	Reent bool `json:"reent,omitempty"`
}

type seqCase struct {
	Interval0 int       `json:"interval0"`
	Ops       []string  `json:"ops"`
	Crashes   []crashAt `json:"crashes"`
	Trace     string    `json:"trace,omitempty"` // observed (informational)
	// Store (user.go) selects the user code under the Sequence: "" = mapdb behind faultkv,
	// "retain" = a store that keeps the slices it is given / hands out its own slices, behind faultkv,
	// "debug" = mapdb under kvstore/debug whose AccessCallback is the fault site (panics only).
	Store string `json:"store,omitempty"`
}

type violation struct {
	fp, what string
}

type seqResult struct {
	sites                    int
	fired                    int
	firedKinds               []string
	failsFired, crashesFired int
	failThenCrash            bool // a crash fired after a store error had been returned earlier in the run
	failThenRestart          bool // a Restart followed a store error
	reuseAfterRelease        int  // numbers issued by an object that was parked after a Release and picked up again
	lateReleases             int  // Release calls on a parked (lease-less) object
	lateReleasesOwnerActive  int  // … while the current owner holds an un-released lease
	redundant                bool // the history contains a no-op symbol: it equals a shorter history
	earlyOpened, earlyUsed   int  // successors constructed early / later used as the owner
	earlyOpenedMidLease      int  // … constructed while the current owner held a lease
	openErrors               int  // NewSequence returned an error
	postFails                int  // store calls that were applied and then reported the injected error
	panicsRecovered          int  // store calls that panicked, recovered by the caller, same object kept in use
	usesAfterPanic           int  // Next / Release calls on an object after a recovered panic out of it
	issuedAfterPanic         int  // numbers issued by an object after a recovered panic out of it
	panicThenCrash           bool // a crash / restart followed a recovered panic
	reentCalls               int  // Release of a parked object made from inside a store call of the owner
	reentOwnerMidLease       int  // … while the owner held a lease
	undemandedReuse          int  // reuse after a recovered panic out of Release's applied write (not demanded, see user.go)
	keyChecks                int  // comparisons of the caller's key slice with its copy
	retainChecks             int  // retaining store: persisted slices compared with their value at Set time
	retainDrift              int  // … and found changed (evidence; the number oracle decides)
	issued                   int
	events                   int // crash / restart / release between first and last issued number
	trace                    string
	viol                     *violation
}

func readMark(inner kvstore.KVStore) (uint64, bool) {
	b, err := inner.Get(seqKey)
	if err != nil || len(b) != 8 {
		return 0, false
	}
	return binary.BigEndian.Uint64(b), true
}

// call runs f and converts an injected crash into crashed=true; any other panic
// is returned as text.
func call(f func()) (crashed *faultkv.Crash, other string) {
	defer func() {
		if p := recover(); p != nil {
			if cr, ok := p.(*faultkv.Crash); ok {
				crashed = cr
				return
			}
			other = fmt.Sprint(p)
		}
	}()
	f()
	return nil, ""
}

// runSeq executes one history with one crash plan on a fresh store.
func runSeq(cs seqCase) seqResult {
	var res seqResult
	plan := map[int]faultkv.Action{}
	contSites := map[int]bool{}  // panics the caller recovers from, keeping the object
	reentSites := map[int]bool{} // store calls inside which a parked object is Released
	postFail := map[int]bool{}   // store calls that are applied and then report the injected error
	for _, c := range cs.Crashes {
		switch {
		case c.Reent:
			reentSites[c.Site] = true
		case c.Fail && c.After:
			postFail[c.Site] = true
		case c.Fail:
			plan[c.Site] = faultkv.Fail
		case c.After:
			plan[c.Site] = faultkv.CrashAfter
		default:
			plan[c.Site] = faultkv.CrashBefore
		}
		if c.Cont {
			contSites[c.Site] = true
		}
	}
	in := faultkv.NewInjector(plan, false)
	inner, st, rk := userStore(cs.Store, in)
	var pf *postFailKV
	if len(postFail) > 0 {
		pf = &postFailKV{KVStore: st, in: in, sites: postFail}
		st = pf
	}
	firedCount := func() int {
		if pf != nil {
			return in.FiredCount() + pf.count
		}
		return in.FiredCount()
	}
	// faults that fired inside a re-entrant call made from a store call belong to that call, not to the
	// operation around it
	nestedFired := 0
	ownFired := func() int { return firedCount() - nestedFired }
	// lastFault: site, kind and class of the store error that was returned last
	lastFault := func() (int, string, string) {
		if pf != nil && pf.pending {
			pf.pending = false
			return pf.last.Site, pf.last.Kind, "fail-after-apply"
		}
		f := in.Fired()
		if len(f) == 0 {
			return 0, "?", "fail"
		}
		return f[len(f)-1].Site, f[len(f)-1].Kind, "fail"
	}
	callerKey := append([]byte(nil), seqKey...) // the caller's own key slice (the Sequence keeps it by design)

	interval := cs.Interval0
	var obj *kvstore.Sequence
	objNexts := 0        // successful Next calls on this object
	objTouched := false  // the object attempted Next/Release since creation or its last clean Release
	objFailed := false   // a store call of this object returned an injected error
	objPicked := false   // the object was parked after a clean Release and is in use again
	objPanicked := false // a user panic came out of a call on this object, was recovered, and the object is still in use
	objPanicKind := ""   // … out of which call / store call / side
	objPostFailed := ""  // a store call of this object was applied and then reported an error: which
	last := int64(-1)    // last issued number
	slack := int64(0)    // numbers that may legitimately be skipped before the next issued one
	type parkedObj struct {
		seq             *kvstore.Sequence
		interval, nexts int
	}
	var parked []parkedObj
	// leaveCurrent parks the current object (no un-released lease) or abandons it.
	objExhausted := false // the last call on the object was a Next that issued mark-1: its lease is used up exactly
	leaveCurrent := func() {
		if objTouched {
			slack += int64(interval)
		}
		if !objTouched || objExhausted {
			parked = append(parked, parkedObj{obj, interval, objNexts})
		}
		objExhausted = false
	}

	var sinceLast []string // event classes since the last issued number
	regressBy := ""        // class of the first step after which the stored mark was behind last+1
	var tr strings.Builder

	// openSeq constructs a Sequence. Store calls made by the constructor are fault sites like
	// any other: a constructor that crashes (or returns an error) means that object does not
	// exist – the process starts again.
	openErr := ""
	openSeq := func(iv int) *kvstore.Sequence {
		for tries := 0; tries < 32; tries++ {
			var sq *kvstore.Sequence
			var err error
			cr, other := call(func() { sq, err = kvstore.NewSequence(st, callerKey, uint64(iv)) })
			switch {
			case other != "":
				openErr = "NewSequence panicked: " + other
				return nil
			case cr != nil:
				fmt.Fprintf(&tr, "open!%d%s ", cr.Site, ba(cr.After))
				res.firedKinds = append(res.firedKinds, "Open:"+cr.Kind+":"+ba(cr.After))
				res.crashesFired++
				if res.failsFired > 0 {
					res.failThenCrash = true
				}
				slack += int64(iv)
				sinceLast = append(sinceLast, "crash")
			case err != nil:
				fmt.Fprintf(&tr, "open?(%v) ", err)
				res.openErrors++
				slack += int64(iv)
				sinceLast = append(sinceLast, "store-error")
			default:
				return sq
			}
		}
		openErr = "NewSequence did not succeed in 32 attempts"
		return nil
	}
	var early *kvstore.Sequence // successor opened early, not used yet
	earlyInterval := 0
	// freshObject returns the object a new owner works with: the early-opened successor if there is one
	freshObject := func() {
		if early != nil {
			obj, interval = early, earlyInterval
			early = nil
			res.earlyUsed++
			fmt.Fprintf(&tr, "(early-opened,i=%d) ", interval)
		} else {
			obj = openSeq(interval)
		}
		objNexts, objTouched, objFailed, objPicked, objPanicked, objPostFailed = 0, false, false, false, false, ""
	}
	abandon := func(why string) {
		if objTouched {
			slack += int64(interval)
		}
		sinceLast = append(sinceLast, why)
		freshObject()
		objNexts, objTouched, objFailed, objPicked, objPanicked, objPostFailed = 0, false, false, false, false, ""
		res.crashesFired++
		if res.failsFired > 0 {
			res.failThenCrash = true
		}
		if res.panicsRecovered > 0 {
			res.panicThenCrash = true
		}
	}
	// recovered handles a Next/Release out of which a user panic of the store call came that the
	// caller recovered: nothing was issued / released, the SAME object stays in use. Like a store
	// error it may waste one interval (the store may have applied a reservation the object did
	// not take note of); reuse stays strict.
	recovered := func(opName string, cr *faultkv.Crash) {
		fmt.Fprintf(&tr, "%s~%d%s ", opName[:1], cr.Site, ba(cr.After))
		res.firedKinds = append(res.firedKinds, opName+":"+cr.Kind+":panic-"+ba(cr.After)+"-recovered")
		res.panicsRecovered++
		objFailed, objPanicked = true, true
		objPanicKind = opName + ":" + cr.Kind + ":" + ba(cr.After)
		slack += int64(interval)
		sinceLast = append(sinceLast, "recovered-panic")
	}
	// keyIntact: the key slice handed to NewSequence belongs to the caller; no call may write into it.
	keyIntact := func() bool {
		res.keyChecks++
		if rk != nil {
			res.retainChecks++
			if rk.drifted() {
				res.retainDrift++
			}
		}
		return string(callerKey) == string(seqKey)
	}
	// storeError handles a Next/Release that returned the injected store error: nothing was
	// issued / released, the object stays in use. The statement does not say how much a
	// failed reservation may waste, so the waste bound is relaxed by one interval (reuse
	// stays strict).
	storeError := func(opName string, err error) {
		site, kind, class := lastFault()
		if class == "fail" {
			fmt.Fprintf(&tr, "%s?%d ", opName[:1], site)
		} else {
			fmt.Fprintf(&tr, "%s?%dapplied ", opName[:1], site)
			res.postFails++
			objPostFailed = opName + ":" + kind + ":" + class
		}
		res.firedKinds = append(res.firedKinds, opName+":"+kind+":"+class)
		res.failsFired++
		objFailed = true
		slack += int64(interval)
		sinceLast = append(sinceLast, "store-error")
	}
	checkMark := func(stepClass string) {
		if last < 0 || regressBy != "" {
			return
		}
		m, ok := readMark(inner)
		if !ok || int64(m) < last+1 {
			regressBy = stepClass
		}
	}
	fail := func(fp, what string) seqResult {
		res.viol = &violation{fp, what}
		res.trace = tr.String()
		res.sites = in.Sites()
		res.fired = firedCount()
		return res
	}

	// re-entrant user code: inside the window of a chosen store call (before it is applied) the store
	// wrapper Releases the most recently parked lease-less object of the same key – a call that
	// returns and changes nothing on the unchanged tree, also from there.
	var reentViol *violation
	var busy *kvstore.Sequence // the object whose Next / Release is in progress
	touchedBefore := false     // the owner had attempted Next / Release before the operation that is running now
	if len(reentSites) > 0 {
		inHook := false
		in.Hook = func(site int, kind string) {
			if !reentSites[site] || inHook {
				return
			}
			n := len(parked)
			if n == 0 {
				res.redundant = true
				return
			}
			pk := parked[n-1]
			if pk.seq == busy {
				// the call in progress is a (late) Release of that very object: calling it again from inside
				// would be same-object re-entrancy, which self-dead-locks by design (see the probe in user.go)
				return
			}
			inHook = true
			defer func() { inHook = false }()
			res.reentCalls++
			if touchedBefore {
				res.reentOwnerMidLease++
			}
			var err error
			f0 := firedCount()
			cr, other := call(func() { err = pk.seq.Release() })
			nestedFired += firedCount() - f0
			fmt.Fprintf(&tr, "[%d:parked.Release] ", site)
			switch {
			case other != "":
				reentViol = &violation{"Release/panic", "Release of a parked object called from inside store call #" + strconv.Itoa(site) + " (" + kind + ") panicked: " + other}
			case cr != nil:
				// a later planned fault hit a store call made by that Release: that object's process died
				parked = parked[:n-1]
				slack += int64(pk.interval)
				sinceLast = append(sinceLast, "crash")
				res.crashesFired++
			case err != nil && errors.Is(err, faultkv.ErrInjected):
				lastFault() // consumed here
				res.failsFired++
				slack += int64(pk.interval)
				sinceLast = append(sinceLast, "store-error")
			case err != nil:
				reentViol = &violation{"Release/unexpected-error", fmt.Sprintf("Release of a parked object called from inside store call #%d (%s) returned error %v on a healthy store", site, kind, err)}
			default:
				sinceLast = append(sinceLast, "late-release")
			}
			checkMark("re-entrant-Release-of-parked-object-from-inside-a-store-call")
		}
	}

	obj = openSeq(interval)
	for i, op := range cs.Ops {
		if openErr != "" {
			return fail("NewSequence/failed", openErr)
		}
		switch {
		case op == "O":
			if early != nil {
				res.redundant = true
				tr.WriteString("O(-) ")
				continue
			}
			earlyInterval = interval
			early = openSeq(interval)
			res.earlyOpened++
			if objTouched {
				res.earlyOpenedMidLease++
			}
			fmt.Fprintf(&tr, "O(i=%d) ", interval)
		case op == "N":
			var v uint64
			var err error
			touchedBefore = objTouched
			objTouched, objExhausted = true, false
			firedBefore := ownFired()
			if objPanicked {
				res.usesAfterPanic++
			}
			busy = obj
			cr, other := call(func() { v, err = obj.Next() })
			busy = nil
			if other != "" {
				return fail("Next/panic", fmt.Sprintf("step %d: Next panicked: %s", i, other))
			}
			if !keyIntact() {
				return fail("key-argument-changed", fmt.Sprintf("step %d: after Next the caller's key slice reads %q (it was %q); trace: %s", i, callerKey, seqKey, tr.String()))
			}
			if reentViol != nil {
				return fail(reentViol.fp, fmt.Sprintf("step %d (Next): %s; trace: %s", i, reentViol.what, tr.String()))
			}
			if cr != nil && contSites[cr.Site] {
				recovered("Next", cr)
				checkMark("recovered-panic-in-Next")
				continue
			}
			if cr != nil {
				fmt.Fprintf(&tr, "N!%d%s ", cr.Site, ba(cr.After))
				res.firedKinds = append(res.firedKinds, "Next:"+cr.Kind+":"+ba(cr.After))
				abandon("crash")
				checkMark("crash-in-Next")
				continue
			}
			if err != nil && errors.Is(err, faultkv.ErrInjected) {
				storeError("Next", err)
				checkMark("failed-Next")
				continue
			}
			if err != nil {
				return fail("Next/unexpected-error", fmt.Sprintf("step %d: Next returned error %v on a healthy store", i, err))
			}
			if ownFired() > firedBefore {
				return fail("Next/store-error-not-reported", fmt.Sprintf("step %d: a store call failed inside Next but Next returned %d, nil", i, v))
			}
			fmt.Fprintf(&tr, "N=%d ", v)
			if int64(v) <= last {
				cause := regressBy
				if cause == "" {
					cause = "none-observed"
				}
				if !demandLeaseGivenUpWhenReleaseWritePanics && strings.Contains(cause, undemandedCause) {
					// scope rule of DISCIPLINES.md: the statement says nothing about user code that panics, and
					// the unchanged tree does not guarantee this case today – recorded, not demanded
					res.undemandedReuse++
					res.trace = tr.String()
					res.sites = in.Sites()
					res.fired = firedCount()
					return res
				}
				if objPicked {
					cause += "(object-in-use-again-after-its-Release)"
				}
				return fail("reuse/mark-behind-after:"+cause,
					fmt.Sprintf("step %d: Next returned %d although %d was already issued (events since then: %v; stored mark fell behind after: %s); trace: %s", i, v, last, sinceLast, cause, tr.String()))
			}
			if gap := int64(v) - last - 1; gap > slack {
				cls := "gap-without-crash"
				for _, e := range sinceLast {
					if e == "crash" || e == "restart" || e == "store-error" || e == "recovered-panic" {
						cls = "waste-exceeds-one-interval-per-crash"
					}
				}
				if cls == "gap-without-crash" {
					for _, e := range sinceLast {
						if strings.HasPrefix(e, "release") {
							cls = "waste-after-clean-release"
						}
					}
				}
				return fail("waste/"+cls,
					fmt.Sprintf("step %d: Next returned %d after %d: %d numbers skipped, at most %d allowed (events since then: %v); trace: %s", i, v, last, gap, slack, sinceLast, tr.String()))
			}
			if last >= 0 && len(sinceLast) > 0 {
				res.events += len(sinceLast)
			}
			last, slack, sinceLast = int64(v), 0, nil
			objNexts++
			res.issued++
			if objPicked {
				res.reuseAfterRelease++
			}
			if m, ok := readMark(inner); ok && m == v+1 && !objFailed {
				objExhausted = true
			}
			if objPanicked {
				res.issuedAfterPanic++
				checkMark("Next(same-object-after-recovered-panic-out-of-" + objPanicKind + ")")
			} else if objPostFailed != "" {
				checkMark("Next(same-object-after-" + objPostFailed + ")")
			} else if objFailed {
				checkMark("Next(after-store-error-on-same-object)")
			} else {
				checkMark("Next")
			}
		case op == "R":
			var err error
			cls := "Release(after-Next)"
			if objNexts == 0 {
				cls = "Release(object-never-called-Next)"
			}
			touchedBefore = objTouched
			objTouched, objExhausted = true, false
			firedBefore := ownFired()
			if objPanicked {
				res.usesAfterPanic++
			}
			busy = obj
			cr, other := call(func() { err = obj.Release() })
			busy = nil
			if other != "" {
				return fail("Release/panic", fmt.Sprintf("step %d: Release panicked: %s", i, other))
			}
			if !keyIntact() {
				return fail("key-argument-changed", fmt.Sprintf("step %d: after Release the caller's key slice reads %q (it was %q); trace: %s", i, callerKey, seqKey, tr.String()))
			}
			if reentViol != nil {
				return fail(reentViol.fp, fmt.Sprintf("step %d (Release): %s; trace: %s", i, reentViol.what, tr.String()))
			}
			if cr != nil && contSites[cr.Site] {
				recovered("Release", cr)
				checkMark("recovered-panic-in-" + cls)
				continue
			}
			if cr != nil {
				fmt.Fprintf(&tr, "R!%d%s ", cr.Site, ba(cr.After))
				res.firedKinds = append(res.firedKinds, "Release:"+cr.Kind+":"+ba(cr.After))
				abandon("crash")
				checkMark(cls) // only a crash after the Set can move the mark: same cause as a completed Release
				continue
			}
			if err != nil && errors.Is(err, faultkv.ErrInjected) {
				storeError("Release", err)
				checkMark("failed-" + cls)
				continue
			}
			if err != nil {
				return fail("Release/unexpected-error", fmt.Sprintf("step %d: Release returned error %v on a healthy store", i, err))
			}
			if ownFired() > firedBefore {
				return fail("Release/store-error-not-reported", fmt.Sprintf("step %d: a store call failed inside Release but Release returned nil", i))
			}
			tr.WriteString("R ")
			objTouched = false // clean release: this object wastes nothing
			sinceLast = append(sinceLast, "release")
			checkMark(cls)
		case strings.HasPrefix(op, "S"):
			iv, _ := strconv.Atoi(op[1:])
			fmt.Fprintf(&tr, "S%d ", iv)
			// the old object is abandoned between two operations (= crash at an operation boundary)
			// if it holds a lease, parked otherwise
			leaveCurrent()
			interval = iv
			sinceLast = append(sinceLast, "restart")
			if res.failsFired > 0 {
				res.failThenRestart = true
			}
			if res.panicsRecovered > 0 {
				res.panicThenCrash = true
			}
			obj = openSeq(interval)
			objNexts, objTouched, objFailed, objPicked, objPanicked, objPostFailed = 0, false, false, false, false, ""
		case op == "L":
			n := len(parked)
			if n == 0 {
				res.redundant = true
				tr.WriteString("L(-) ")
				continue
			}
			pk := parked[n-1]
			res.lateReleases++
			if objTouched {
				res.lateReleasesOwnerActive++
			}
			cls := "late-Release(on an object without lease, another object owns the key)"
			var err error
			busy = pk.seq
			cr, other := call(func() { err = pk.seq.Release() })
			busy = nil
			if other != "" {
				return fail("Release/panic", fmt.Sprintf("step %d: late Release panicked: %s", i, other))
			}
			if cr != nil && contSites[cr.Site] {
				// the caller of the parked object recovered the panic: the object stays parked
				fmt.Fprintf(&tr, "L~%d%s ", cr.Site, ba(cr.After))
				res.firedKinds = append(res.firedKinds, "LateRelease:"+cr.Kind+":panic-"+ba(cr.After)+"-recovered")
				res.panicsRecovered++
				slack += int64(pk.interval)
				sinceLast = append(sinceLast, "recovered-panic")
				checkMark(cls)
				continue
			}
			if cr != nil {
				// the process of the parked object died inside its Release; the current owner is not affected
				fmt.Fprintf(&tr, "L!%d%s ", cr.Site, ba(cr.After))
				res.firedKinds = append(res.firedKinds, "LateRelease:"+cr.Kind+":"+ba(cr.After))
				parked = parked[:n-1]
				slack += int64(pk.interval)
				sinceLast = append(sinceLast, "crash")
				res.crashesFired++
				checkMark(cls)
				continue
			}
			if err != nil && errors.Is(err, faultkv.ErrInjected) {
				site, kind, class := lastFault()
				fmt.Fprintf(&tr, "L?%d ", site)
				res.firedKinds = append(res.firedKinds, "LateRelease:"+kind+":"+class)
				res.failsFired++
				slack += int64(pk.interval)
				sinceLast = append(sinceLast, "store-error")
				checkMark(cls)
				continue
			}
			if err != nil {
				return fail("Release/unexpected-error", fmt.Sprintf("step %d: late Release returned error %v on a healthy store", i, err))
			}
			tr.WriteString("L ")
			sinceLast = append(sinceLast, "late-release")
			checkMark(cls)
		case op == "B":
			n := len(parked)
			leaveCurrent()
			sinceLast = append(sinceLast, "restart")
			if res.failsFired > 0 {
				res.failThenRestart = true
			}
			if res.panicsRecovered > 0 {
				res.panicThenCrash = true
			}
			if early != nil {
				freshObject()
			} else if n > 0 {
				pk := parked[n-1]
				parked = append(parked[:n-1], parked[n:]...)
				obj, interval, objNexts = pk.seq, pk.interval, pk.nexts
				objTouched, objFailed, objPicked, objPanicked, objPostFailed = false, false, pk.nexts > 0, false, ""
				fmt.Fprintf(&tr, "B(back,i=%d) ", interval)
			} else {
				freshObject()
				fmt.Fprintf(&tr, "B(new,i=%d) ", interval)
			}
		}
	}
	if openErr != "" {
		return fail("NewSequence/failed", openErr)
	}
	if res.earlyOpened > res.earlyUsed {
		res.redundant = true // an early-opened object that is never used: same as the history without O
	}
	res.trace = tr.String()
	res.sites = in.Sites()
	res.fired = firedCount()
	return res
}

func ba(after bool) string {
	if after {
		return "after"
	}
	return "before"
}

type stats struct {
	runs, crashRuns, crashesFired, issued, nontrivialRuns, doubleCrashRuns int
	failsFired, failRuns, failThenCrashRuns, failThenRestartRuns           int
	reuseAfterRelease, reuseRuns                                           int
	lateReleases, lateReleasesOwnerActive, pruned                          int
	earlyUsed, earlyMidLease                                               int
	kinds                                                                  map[string]int
	viols                                                                  []struct {
		v  violation
		cs seqCase
	}
}

func caseHash(cs seqCase) uint64 {
	h := fnv.New64a()
	fmt.Fprintf(h, "%d|%s", cs.Interval0, strings.Join(cs.Ops, ","))
	return h.Sum64()
}

// explore runs the history with the given crash plan and then, recursively, with
// one more crash at every later store-call boundary (both sides).
func explore(c *vf.Ctx, st *stats, cs seqCase, maxCrashes int) {
	r := runSeq(cs)
	if r.redundant && r.viol == nil {
		st.pruned++
		return
	}
	st.lateReleases += r.lateReleases
	st.earlyUsed += r.earlyUsed
	if r.earlyUsed > 0 {
		st.earlyMidLease += r.earlyOpenedMidLease
	}
	st.lateReleasesOwnerActive += r.lateReleasesOwnerActive
	st.runs++
	st.issued += r.issued
	if len(cs.Crashes) > 0 {
		st.crashRuns++
		if len(cs.Crashes) > 1 {
			st.doubleCrashRuns++
		}
		st.crashesFired += r.crashesFired
	}
	for _, k := range r.firedKinds {
		st.kinds[k]++
	}
	st.failsFired += r.failsFired
	st.reuseAfterRelease += r.reuseAfterRelease
	if r.reuseAfterRelease > 0 {
		st.reuseRuns++
	}
	if r.failsFired > 0 {
		st.failRuns++
		if r.failThenCrash {
			st.failThenCrashRuns++
		}
		if r.failThenRestart {
			st.failThenRestartRuns++
		}
	}
	if r.issued >= 2 && r.events > 0 {
		st.nontrivialRuns++
		if len(cs.Crashes) == 0 {
			c.DistinctHash("nontrivial", caseHash(cs))
		}
	}
	if r.viol != nil {
		if len(st.viols) < 50 {
			cc := cs
			cc.Ops = append([]string(nil), cs.Ops...)
			cc.Crashes = append([]crashAt(nil), cs.Crashes...)
			cc.Trace = r.trace
			st.viols = append(st.viols, struct {
				v  violation
				cs seqCase
			}{*r.viol, cc})
		}
		return // later crash points of a history that already failed add nothing
	}
	if len(cs.Crashes) >= maxCrashes {
		return
	}
	from := 0
	if n := len(cs.Crashes); n > 0 {
		from = cs.Crashes[n-1].Site
	}
	for s := from + 1; s <= r.sites; s++ {
		for _, f := range []crashAt{{Site: s}, {Site: s, After: true}, {Site: s, Fail: true}} {
			next := cs
			next.Crashes = append(append([]crashAt(nil), cs.Crashes...), f)
			explore(c, st, next, maxCrashes)
		}
	}
}

func decodeHistory(length, idx int) []string {
	ops := make([]string, length)
	for i := length - 1; i >= 0; i-- {
		ops[i] = alphabet[idx%len(alphabet)]
		idx /= len(alphabet)
	}
	return ops
}

func pow(b, e int) int {
	r := 1
	for i := 0; i < e; i++ {
		r *= b
	}
	return r
}

func mergeStats(c *vf.Ctx, st *stats) {
	c.Count("evaluations", st.runs)
	c.Count("crash_runs", st.crashRuns)
	c.Count("multi_crash_runs", st.doubleCrashRuns)
	c.Count("crash_points_fired", st.crashesFired)
	c.Count("store_errors_fired", st.failsFired)
	c.Count("runs_with_store_error", st.failRuns)
	c.Count("runs_store_error_then_crash", st.failThenCrashRuns)
	c.Count("runs_store_error_then_restart", st.failThenRestartRuns)
	c.Count("numbers_issued", st.issued)
	c.Count("numbers_issued_by_object_reused_after_release", st.reuseAfterRelease)
	c.Count("runs_object_reused_after_release", st.reuseRuns)
	c.Count("late_release_calls_on_leaseless_object", st.lateReleases)
	c.Count("late_release_calls_while_other_owner_holds_lease", st.lateReleasesOwnerActive)
	c.Count("histories_pruned_noop_symbol", st.pruned)
	c.Count("early_opened_successor_used", st.earlyUsed)
	c.Count("early_opened_successor_mid_lease", st.earlyMidLease)
	c.Count("nontrivial_runs", st.nontrivialRuns)
	for k, v := range st.kinds {
		c.Count("crash@"+k, v)
		c.Distinct("crash_site_kinds", k)
	}
	for _, v := range st.viols {
		// sent as a record: the parent sorts them (shortest reproducer first) before reporting
		c.Emit("viol", pendingViol{FP: v.v.fp, What: v.v.what, Case: v.cs})
	}
}

// violations of the sequential part are reported shortest history first, so that the
// replay files kept per fingerprint are the minimal reproducers.
type pendingViol struct {
	FP   string          `json:"fp"`
	What string          `json:"what"`
	Case seqCase         `json:"case"`
	Raw  json.RawMessage `json:"raw,omitempty"` // a case of another kind (cross-key), already encoded
}

func jsonRoundTrip(v any) (json.RawMessage, error) {
	b, err := json.Marshal(v)
	return b, err
}

var (
	pendingMu    sync.Mutex
	pendingViols []pendingViol
)

func flushViols(c *vf.Ctx) {
	sort.SliceStable(pendingViols, func(a, b int) bool {
		x, y := pendingViols[a].Case, pendingViols[b].Case
		if lx, ly := len(x.Ops)+2*len(x.Crashes), len(y.Ops)+2*len(y.Crashes); lx != ly {
			return lx < ly
		}
		if x.Interval0 != y.Interval0 {
			return x.Interval0 < y.Interval0
		}
		return strings.Join(x.Ops, "") < strings.Join(y.Ops, "")
	})
	for _, p := range pendingViols {
		if os.Getenv("C07_LIST_FPS") != "" {
			fmt.Fprintln(os.Stderr, "FP "+p.FP)
		}
		if p.Raw != nil {
			c.Violation(p.FP, p.What, p.Raw)
		} else {
			c.Violation(p.FP, p.What, p.Case)
		}
	}
	pendingViols = nil
}

// The sequential exploration runs the library under a panic-based crash model, which
// can make the library die with a process-fatal error (e.g. "unlock of unlocked mutex"
// while the injected panic unwinds through a deferred Unlock). It therefore runs in
// child processes: the deterministic job list is dealt round-robin to seqChildren
// single-threaded children, each history is announced with c.Mark before it runs, and
// a child that dies is restarted after the marked history.

const seqChildren = 16

type seqJob struct {
	kind       string // exh | long
	i0, length int
	lo, hi     int // exh: history indices; long: sample indices
}

func seqBounds(c *vf.Ctx) (exhLen, dblLen, triLen int) {
	return c.Pick(6, 7), c.Pick(6, 7), c.Pick(4, 6)
}

func seqJobs(c *vf.Ctx) []seqJob {
	exhLen, _, _ := seqBounds(c)
	var jobs []seqJob
	for l := 1; l <= exhLen; l++ {
		for _, i0 := range intervals {
			n := pow(len(alphabet), l)
			step := 2000
			for lo := 0; lo < n; lo += step {
				hi := lo + step
				if hi > n {
					hi = n
				}
				jobs = append(jobs, seqJob{"exh", i0, l, lo, hi})
			}
		}
	}
	nSample := c.Pick(3000, 60000)
	for lo := 0; lo < nSample; lo += 250 {
		hi := lo + 250
		if hi > nSample {
			hi = nSample
		}
		jobs = append(jobs, seqJob{kind: "long", lo: lo, hi: hi})
	}
	return jobs
}

func longCase(c *vf.Ctx, idx int) (seqCase, *rand.Rand) {
	exhLen, _, _ := seqBounds(c)
	rng := c.Rand(fmt.Sprintf("long/%d", idx))
	l := exhLen + 1 + rng.Intn(9-exhLen)
	ops := make([]string, l)
	for i := range ops {
		// bias to Next so that leases are actually consumed
		switch r := rng.Intn(10); {
		case r < 5:
			ops[i] = "N"
		case r < 7:
			ops[i] = "R"
		default:
			ops[i] = alphabet[2+rng.Intn(7)] // a restart, a hand-back, a late Release or an early-opened successor
		}
	}
	return seqCase{Interval0: intervals[rng.Intn(4)], Ops: ops}, rng
}

// seqChild: args = [k, resumeJob, resumeIdx]; runs jobs j with j % seqChildren == k,
// skipping everything up to and including (resumeJob, resumeIdx).
func seqChild(c *vf.Ctx) {
	k, _ := strconv.Atoi(c.ChildArgs[0])
	resumeJ, _ := strconv.Atoi(c.ChildArgs[1])
	resumeI, _ := strconv.Atoi(c.ChildArgs[2])
	_, dblLen, triLen := seqBounds(c)
	jobs := seqJobs(c)
	childViols := 0
	if k == 0 && resumeJ < 0 {
		// named scenarios from the property text (also covered by the enumeration; kept as samples)
		for _, cs := range []seqCase{
			{Interval0: 3, Ops: []string{"N", "N", "S3", "R", "S3", "N"}},
			{Interval0: 3, Ops: []string{"N", "R", "R", "N"}},
			{Interval0: 2, Ops: []string{"N", "R", "N", "N", "N"}},
			{Interval0: 2, Ops: []string{"N", "N", "N"}, Crashes: []crashAt{{Site: 4}}},
			{Interval0: 2, Ops: []string{"N", "N", "N"}, Crashes: []crashAt{{Site: 4, After: true}}},
			{Interval0: 2, Ops: []string{"N", "N", "S2", "N"}, Crashes: []crashAt{{Site: 2, Fail: true}}},
		} {
			c.Mark(fmt.Sprintf("-1:0 sample interval0=%d ops=%v faults=%v", cs.Interval0, cs.Ops, cs.Crashes))
			r := runSeq(cs)
			cs.Trace = r.trace
			c.Sample(cs)
		}
	}
	for j, jb := range jobs {
		if j%seqChildren != k || j < resumeJ {
			continue
		}
		st := &stats{kinds: map[string]int{}}
		done := 0
		for idx := jb.lo; idx < jb.hi; idx++ {
			if j == resumeJ && idx <= resumeI {
				continue
			}
			if jb.kind == "exh" {
				cs := seqCase{Interval0: jb.i0, Ops: decodeHistory(jb.length, idx)}
				c.Mark(fmt.Sprintf("%d:%d interval0=%d ops=%s", j, idx, cs.Interval0, strings.Join(cs.Ops, ",")))
				maxC := 1
				if jb.length <= dblLen {
					maxC = 2
				}
				if jb.length <= triLen {
					maxC = 3
				}
				explore(c, st, cs, maxC)
			} else {
				cs, rng := longCase(c, idx)
				c.Mark(fmt.Sprintf("%d:%d interval0=%d ops=%s (sampled)", j, idx, cs.Interval0, strings.Join(cs.Ops, ",")))
				// base run + every single fault; then a few random multi-fault plans
				explore(c, st, cs, 1)
				base := runSeq(cs)
				for t := 0; t < 6 && base.sites >= 2; t++ {
					nc := 2 + rng.Intn(2)
					sites := map[int]bool{}
					for len(sites) < nc && len(sites) < base.sites {
						sites[1+rng.Intn(base.sites+2)] = true
					}
					var cr []crashAt
					for s := range sites {
						f := crashAt{Site: s, After: rng.Intn(2) == 0}
						if rng.Intn(3) == 0 {
							f = crashAt{Site: s, Fail: true}
						}
						cr = append(cr, f)
					}
					sort.Slice(cr, func(a, b int) bool { return cr[a].Site < cr[b].Site })
					mc := cs
					mc.Crashes = cr
					explore(c, st, mc, 0)
				}
			}
			done++
		}
		c.Count("histories", done)
		if jb.kind == "exh" {
			c.Count("histories_exhaustive", done)
		} else {
			c.Count("histories_sampled_long", done)
		}
		childViols += len(st.viols)
		mergeStats(c, st)
		c.FlushStats() // what was observed so far survives a later death of this child
		if childViols >= 150 {
			// this chunk has already refuted the property many times over; further histories add nothing
			c.Count("sequential_chunks_stopped_after_150_violations", 1)
			c.FlushStats()
			return
		}
	}
}

func sequentialPart(c *vf.Ctx) {
	exhLen, dblLen, triLen := seqBounds(c)
	c.Extra("exhaustive_bound", fmt.Sprintf("all histories over {Next, Release, Restart(1|2|3|7), Back-to-parked-object, Late-Release-on-parked-object, Open-successor-early} of length <= %d for every initial interval in {1,2,3,7}, each fault-free and with a crash before / a crash after / a store error at every store call; every pair of faults for length <= %d, every triple for length <= %d", exhLen, dblLen, triLen))
	vf.Parallel(seqChildren, runtime.NumCPU(), func(k int) {
		resumeJ, resumeI := -1, -1
		for deaths := 0; ; {
			res := c.RunChild(vf.ChildOpts{Name: "seq", Args: []string{strconv.Itoa(k), strconv.Itoa(resumeJ), strconv.Itoa(resumeI)}, Timeout: 15 * time.Minute})
			pendingMu.Lock()
			for _, r := range res.Records {
				if r.Kind == "viol" {
					var p pendingViol
					if json.Unmarshal(r.V, &p) == nil {
						pendingViols = append(pendingViols, p)
					}
				}
			}
			pendingMu.Unlock()
			if res.TimedOut {
				c.Inconclusive(fmt.Sprintf("sequential chunk %d: watchdog fired at history %q", k, res.LastMark))
				return
			}
			if res.ExitCode == 0 {
				return
			}
			// The child died. Under the panic-based crash model a fatal runtime error is not by
			// itself a refutation of C07 (no number was observed twice): note it, mark the chunk
			// inconclusive and go on after the history that was running.
			deaths++
			c.Count("sequential_child_deaths", 1)
			fatal := res.Fatal
			if fatal == "" {
				fatal = fmt.Sprintf("exit code %d", res.ExitCode)
			}
			c.Note(fmt.Sprintf("sequential chunk %d: child process died (%s) while running history %q (stderr: %s)", k, fatal, res.LastMark, res.StderrPath))
			if deaths == 1 {
				c.Inconclusive(fmt.Sprintf("sequential chunk %d: child died with %q in history %q; histories of this chunk are not fully explored", k, fatal, res.LastMark))
			}
			var j, i int
			if n, _ := fmt.Sscanf(res.LastMark, "%d:%d", &j, &i); n != 2 || deaths >= 3 {
				c.Count("sequential_chunks_abandoned", 1)
				return
			}
			if j < 0 { // died in the named samples: continue with the job list
				j, i = 0, -1
			}
			resumeJ, resumeI = j, i
		}
	})
	c.Count("sequential_children", seqChildren)
}

// ---------------------------------------------------------------- concurrent part

type nextEv struct {
	g         int
	call, ret int64
	v         uint64
}

var tick atomic.Int64

func concurrentChild(c *vf.Ctx) {
	race := len(c.ChildArgs) > 0 && c.ChildArgs[0] == "race"
	rounds := c.Pick(120, 1200)
	calls := 200
	if race {
		rounds = c.Pick(40, 300)
	}
	rng := c.Rand("conc")
	for r := 0; r < rounds; r++ {
		g := []int{2, 3, 4, 8, 16}[rng.Intn(5)]
		inner := mapdb.NewMapDB()
		in := faultkv.NewInjector(nil, false)
		jit := uint64(rng.Int63()) | 1
		in.Jitter = func(site int64) {
			x := uint64(site)*0x9E3779B97F4A7C15 ^ jit
			x ^= x >> 29
			// Gosched-only jitter at every store call: widens the window around the store round trip
			switch x & 7 {
			case 0, 1:
				runtime.Gosched()
			case 2:
				runtime.Gosched()
				runtime.Gosched()
				runtime.Gosched()
			}
		}
		st := faultkv.Wrap(inner, in)
		gens := 1 + rng.Intn(4)
		var seq *kvstore.Sequence
		interval := 0
		prevMax := int64(-1)
		allowed := int64(0)
		seen := map[uint64]struct{}{}
		desc := fmt.Sprintf("round %d goroutines %d", r, g)
		for gen := 0; gen < gens; gen++ {
			if seq == nil { // a new owner; otherwise the object of the previous generation (cleanly Released) is used again
				interval = []int{1, 1, 2, 2, 3, 3, 7, 7, 16}[rng.Intn(9)] // mostly small: a renewal every 1-3 calls
				seq, _ = kvstore.NewSequence(st, seqKey, uint64(interval))
			} else {
				c.Count("generations_on_reused_object", 1)
			}
			cur := seq
			// in half of the generations a releaser calls Release on the same object while the Next callers run
			racing := rng.Intn(2) == 0
			evs := make([][]nextEv, g)
			var wg sync.WaitGroup
			var errCount atomic.Int64
			var running atomic.Int64
			running.Store(int64(g))
			type relEv struct{ call, ret int64 }
			var rels []relEv
			var relWg sync.WaitGroup
			start := make(chan struct{})
			if racing {
				relWg.Add(1)
				go func() {
					defer relWg.Done()
					<-start
					for k := 0; k < 5000 && running.Load() > 0; k++ {
						ct := tick.Add(1)
						err := cur.Release()
						rt := tick.Add(1)
						if err != nil {
							errCount.Add(1)
						}
						rels = append(rels, relEv{ct, rt})
						for y := 0; y < 1+k%4; y++ {
							runtime.Gosched()
						}
					}
				}()
			}
			for gi := 0; gi < g; gi++ {
				wg.Add(1)
				go func(gi int) {
					defer wg.Done()
					defer running.Add(-1)
					buf := make([]nextEv, 0, calls)
					<-start
					for k := 0; k < calls; k++ {
						ct := tick.Add(1)
						v, err := cur.Next()
						rt := tick.Add(1)
						if err != nil {
							errCount.Add(1)
							continue
						}
						buf = append(buf, nextEv{gi, ct, rt, v})
					}
					evs[gi] = buf
				}(gi)
			}
			close(start)
			wg.Wait()
			relWg.Wait()
			if racing {
				desc = fmt.Sprintf("round %d goroutines %d (Release racing with Next on the same object)", r, g)
			} else {
				desc = fmt.Sprintf("round %d goroutines %d", r, g)
			}
			if errCount.Load() > 0 {
				c.Violation("concurrent/Next-unexpected-error", desc+": Next or Release returned an error on a healthy store", map[string]any{"round": r, "seed": c.Seed})
			}
			var all []nextEv
			for gi := range evs {
				for k, e := range evs[gi] {
					if k > 0 && e.v <= evs[gi][k-1].v {
						c.Violation("concurrent/not-increasing-in-one-goroutine", fmt.Sprintf("%s: goroutine %d got %d after %d", desc, gi, e.v, evs[gi][k-1].v), map[string]any{"round": r, "seed": c.Seed, "goroutines": g, "interval": interval})
					}
					if _, dup := seen[e.v]; dup {
						c.Violation("concurrent/duplicate", fmt.Sprintf("%s generation %d: number %d handed out twice", desc, gen, e.v), map[string]any{"round": r, "seed": c.Seed, "goroutines": g, "interval": interval})
					}
					seen[e.v] = struct{}{}
					all = append(all, e)
				}
			}
			c.Count("concurrent_next_calls", len(all))
			c.Count("evaluations", len(all))
			// real-time order: A returned before B was called => v(A) < v(B)
			sort.Slice(all, func(a, b int) bool { return all[a].call < all[b].call })
			byRet := append([]nextEv(nil), all...)
			sort.Slice(byRet, func(a, b int) bool { return byRet[a].ret < byRet[b].ret })
			maxDone := int64(-1)
			j := 0
			maxRet := int64(-1)
			overl := 0
			for _, b := range all {
				for j < len(byRet) && byRet[j].ret < b.call {
					if int64(byRet[j].v) > maxDone {
						maxDone = int64(byRet[j].v)
					}
					j++
				}
				if int64(b.v) <= maxDone {
					c.Violation("concurrent/real-time-order", fmt.Sprintf("%s: Next returned %d although a call that had already returned got %d", desc, b.v, maxDone), map[string]any{"round": r, "seed": c.Seed, "goroutines": g, "interval": interval})
				}
				if b.call < maxRet {
					overl++
				}
				if b.ret > maxRet {
					maxRet = b.ret
				}
			}
			c.Count("overlapping_calls", overl)
			if racing {
				// Next calls overlapping a Release: call(Next) < ret(Release) and ret(Next) > call(Release)
				calls := make([]int64, len(all))
				rets := make([]int64, len(all))
				for i := range all {
					calls[i], rets[i] = all[i].call, byRet[i].ret
				}
				ov, relOv := 0, 0
				for _, re := range rels {
					a := sort.Search(len(calls), func(i int) bool { return calls[i] >= re.ret })
					b := sort.Search(len(rets), func(i int) bool { return rets[i] > re.call })
					if n := a - b; n > 0 {
						ov += n
						relOv++
					}
				}
				c.Count("racing_release_calls", len(rels))
				c.Count("release_calls_overlapping_a_next", relOv)
				c.Count("release_vs_next_overlaps", ov)
				c.Count("generations_with_racing_release", 1)
			}
			// contiguity within the generation and waste between generations
			vals := make([]int64, len(all))
			for i, e := range all {
				vals[i] = int64(e.v)
			}
			sort.Slice(vals, func(a, b int) bool { return vals[a] < vals[b] })
			if len(vals) > 0 {
				if vals[0] <= prevMax {
					c.Violation("concurrent/reuse-across-generations", fmt.Sprintf("%s generation %d starts at %d, previous generation reached %d", desc, gen, vals[0], prevMax), map[string]any{"round": r, "seed": c.Seed})
				} else if vals[0]-prevMax-1 > allowed {
					c.Violation("concurrent/waste-between-generations", fmt.Sprintf("%s generation %d starts at %d, previous generation reached %d, allowed waste %d", desc, gen, vals[0], prevMax, allowed), map[string]any{"round": r, "seed": c.Seed})
				}
				// (not demanded while Release races with Next: the statement does not say what a Release
				// concurrent with Next may waste; reuse and order stay strict)
				for i := 1; i < len(vals) && !racing; i++ {
					if vals[i] > vals[i-1]+1 {
						c.Violation("concurrent/gap-without-crash", fmt.Sprintf("%s: numbers %d..%d skipped without any crash", desc, vals[i-1]+1, vals[i]-1), map[string]any{"round": r, "seed": c.Seed, "goroutines": g, "interval": interval})
						break
					}
				}
				prevMax = vals[len(vals)-1]
			}
			if rng.Intn(2) == 0 {
				if err := cur.Release(); err != nil {
					c.Violation("concurrent/Release-unexpected-error", desc+": Release failed", nil)
				}
				allowed = 0
				if rng.Intn(2) == 0 {
					seq = nil // restart: a fresh object takes over
				}
			} else {
				allowed = int64(interval) // abandoned with an open lease
				seq = nil
			}
			c.Count("generations", 1)
		}
		c.DistinctHash("concurrent_shapes", uint64(g*100+gens))
	}
	c.Count("concurrent_rounds", rounds)
	multiKeyRounds(c, race)
}

func child(c *vf.Ctx) {
	switch c.Child {
	case "conc":
		concurrentChild(c)
	case "seq":
		seqChild(c)
	case "xkey":
		xkeyChild(c)
	case "wide":
		wideChild(c)
	case "user":
		userChild(c)
	case "reentprobe":
		reentProbeChild(c)
	case "replay":
		c.Replay = c.ChildArgs[0]
		replayChild(c)
	}
}

// replay re-executes a recorded sequential case in a child process (the case may kill
// the process under the crash model).
func replay(c *vf.Ctx) {
	var cs seqCase
	var xk xkeyCase
	var wc wideCase
	c.LoadReplay(&xk)
	c.LoadReplay(&wc)
	if err := c.LoadReplay(&cs); !xk.XKey && !wc.Wide && (err != nil || cs.Interval0 == 0) {
		fmt.Fprintln(os.Stderr, "replay: not a sequential C07 case (concurrent findings are re-run by seed):", err)
		os.Exit(3)
	}
	res := c.RunChild(vf.ChildOpts{Name: "replay", Args: []string{c.Replay}, Timeout: 2 * time.Minute})
	for _, l := range res.Lines {
		fmt.Fprintln(os.Stderr, l)
	}
	if res.Deadlock {
		c.Violation(fpNeverReturns, "replayed case: a Next / Release call never returns (plain build, Go runtime: all goroutines are asleep)", cs)
		return
	}
	if res.TimedOut || res.ExitCode != 0 {
		c.Inconclusive(fmt.Sprintf("replay child died (%s, exit code %d); stderr: %s", res.Fatal, res.ExitCode, res.StderrPath))
	}
}

func replayChild(c *vf.Ctx) {
	var wc wideCase
	if c.LoadReplay(&wc); wc.Wide {
		r := runWide(wc)
		c.Count("evaluations", 1)
		fmt.Printf("replayed trace: %s\n", r.trace)
		if r.viol != nil {
			wc.Trace = r.trace
			c.Violation(r.viol.fp, r.viol.what, wc)
		}
		return
	}
	var xk xkeyCase
	if c.LoadReplay(&xk); xk.XKey {
		r := runXKey(xk)
		c.Count("evaluations", 1)
		fmt.Printf("replayed trace: %s\n", r.trace)
		if r.viol != nil {
			xk.Trace = r.trace
			c.Violation(r.viol.fp, r.viol.what, xk)
		}
		return
	}
	var cs seqCase
	if err := c.LoadReplay(&cs); err != nil {
		os.Exit(3)
	}
	r := runSeq(cs)
	c.Count("evaluations", 1)
	fmt.Printf("replayed trace: %s\n", r.trace)
	if r.viol != nil {
		cs.Trace = r.trace
		c.Violation(r.viol.fp, r.viol.what, cs)
	}
}

func run(c *vf.Ctx) {
	if c.Replay != "" {
		replay(c)
		return
	}
	c.SetRule("sequential: every history over {Next, Release, Restart(interval in 1,2,3,7), Back (the key is handed back to an earlier object that was cleanly Released; objects keep their own interval; only one object ever holds a lease)} up to the exhaustive length, for each initial interval, is executed without a crash and with an injected fault at every store call it makes: a crash before / after applying it (panic, object abandoned, fresh NewSequence on the same store) or a store error (sentinel returned, not applied, the same object keeps being used) (pairs of crash points for the shorter lengths; longer histories sampled from the seed with 1-3 crashes); one evaluation = one execution of a (history, crash plan); distinct_nontrivial = distinct crash-free histories in which at least two numbers were issued with a crash/restart/release between the first and the last of them. wide: the same kind of histories over {Next, Release, Switch} with intervals and starting marks on the boundaries of the uint64 range (2^31, 2^32, 2^63 +-1, MaxUint64-k; a starting mark is produced by an earlier owner through the API), exact uint64 oracle, one evaluation = one (history, fault plan). user code (user.go): the same histories with, at every store call, a PANIC (before / after applying the call) that the caller recovers while it keeps using the same object, a store error reported AFTER the call was applied, or a re-entrant Release of a parked object from inside the call; on mapdb behind the harness store, on a store that keeps the slices it is given and hands out its own, and under kvstore/debug whose AccessCallback panics; one evaluation = one (history, fault plan, store). concurrent: one evaluation = one Next call made while 2-16 goroutines share the Sequence")
	// several keys in one process, renewals nested inside another key's Set window (deterministic);
	// runs next to the sequential children
	xkDone := make(chan struct{})
	go func() {
		defer close(xkDone)
		res := c.RunChild(vf.ChildOpts{Name: "xkey", Timeout: 10 * time.Minute})
		if res.TimedOut || res.ExitCode != 0 {
			c.Count("xkey_child_deaths", 1)
			c.Note(fmt.Sprintf("cross-key child died (%s, exit code %d, deadlock=%v) in %q (stderr: %s)", res.Fatal, res.ExitCode, res.Deadlock, res.LastMark, res.StderrPath))
			c.Inconclusive(fmt.Sprintf("cross-key child died (%s) in %q", res.Fatal, res.LastMark))
			return
		}
		pendingMu.Lock()
		defer pendingMu.Unlock()
		for _, r := range res.Records {
			if r.Kind == "viol" {
				var p pendingViol
				if json.Unmarshal(r.V, &p) == nil {
					pendingViols = append(pendingViols, p)
				}
			}
		}
	}()
	// boundary intervals and marks anywhere in the uint64 range (wide.go); next to the sequential children
	wideDone := make(chan struct{})
	go func() {
		defer close(wideDone)
		widePart(c)
	}()
	// user code under the Sequence: recovered panics, retaining store, re-entrant calls (user.go)
	userDone := make(chan struct{})
	go func() {
		defer close(userDone)
		userPart(c)
	}()
	sequentialPart(c)
	<-xkDone
	<-wideDone
	<-userDone
	flushViols(c)
	c.SetExhaustive(true)

	for _, race := range []bool{false, true} {
		args := []string{"plain"}
		if race {
			args = []string{"race"}
		}
		res := c.RunChild(vf.ChildOpts{Name: "conc", Args: args, Race: race, Timeout: 10 * time.Minute})
		if res.TimedOut {
			c.Inconclusive("concurrent child watchdog fired (" + args[0] + ")")
		} else if res.ExitCode != 0 {
			if res.Fatal != "" && !strings.HasPrefix(res.Fatal, "start:") {
				c.Violation("concurrent/fatal", "concurrent child died: "+res.Fatal, map[string]any{"stderr": tail(res.Stderr, 4000)})
			} else {
				c.Inconclusive(fmt.Sprintf("concurrent child (%s) exit code %d", args[0], res.ExitCode))
			}
		}
		if race {
			c.Count("race_children", 1)
			c.ReportRaces(res.Races, "hive.go/kvstore")
		}
	}
	c.Require("evaluations", 100000)
	c.Require("nontrivial", 1000)
	c.Require("crash_points_fired", 10000)
	c.Require("crash_site_kinds", 9) // Next:{Get,Set}×{before,after,fail}, Release:Set×{before,after,fail}
	c.Require("store_errors_fired", 10000)
	c.Require("runs_store_error_then_crash", 1000)
	c.Require("runs_store_error_then_restart", 1000)
	c.Require("concurrent_next_calls", 10000)
	c.Require("overlapping_calls", 1000)
	c.Require("release_vs_next_overlaps", 1000)
	c.Require("generations_on_reused_object", 10)
	c.Require("late_release_calls_while_other_owner_holds_lease", 1000)
	c.Require("early_opened_successor_used", 1000)
	c.Require("xkey_runs_with_nested_renewal", 10000)
	c.Require("multikey_next_calls", 10000)
	c.Require("runs_object_reused_after_release", 500)
	c.Require("race_children", 1)
	c.Require("wide_runs", 100000)
	c.Require("wide_nontrivial", 1000)
	c.Require("wide_numbers_issued_above_maxint64", 10000)
	c.Require("wide_runs_interval_above_maxint64_two_or_more_next_on_one_object", 10000)
	c.Require("wide_runs_lease_crossing_2^32_or_2^63", 100)
	c.Require("wide_runs_in_exhaustion_zone", 1000)
	c.Require("user_runs", 500000)
	c.Require("user_panic_site_kinds", 15) // {Next:Get, Next:Set, Release:Set} x {before, after} on mapdb and on the retaining store, x {before} under kvstore/debug
	c.Require("user_panics_recovered_object_kept", 100000)
	c.Require("user_calls_on_object_after_recovered_panic", 50000)
	c.Require("user_numbers_issued_by_object_after_recovered_panic", 20000)
	c.Require("user_runs_recovered_panic_then_crash_or_restart", 50000)
	c.Require("user_store_errors_reported_after_applying", 50000)
	c.Require("user_retaining_store_runs_with_fault", 100000)
	c.Require("user_retained_slices_rechecked", 100000)
	c.Require("user_key_slice_rechecked", 100000)
	c.Require("user_debug_callback_runs", 50000)
	c.Require("user_reentrant_release_of_parked_object_inside_store_call", 20000)
	c.Require("user_reentrant_same_object_probes", 6)
	c.Assume("a KVStore may keep the slice it is given by Set and may hand out its own slice from Get (the interface is silent; mapdb's BatchedMutations.Set keeps the slice until Commit); a store call may panic or report an error after it was applied (kvstore/flushkv.Set: write applied, Flush failed)")
	c.Assume("a crash of the owning process is modelled by a panic out of the store call followed by abandoning the Sequence object; mapdb applies Set atomically")
	c.Assume("errors.Is / panics of faultkv are the only injected faults; mapdb itself never fails")
}

func tail(s string, n int) string {
	if len(s) > n {
		return s[len(s)-n:]
	}
	return s
}

var _ = errors.Is

func main() { vf.Main("C07", "fault_enumeration", run, child) }
