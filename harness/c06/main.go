// C06 – TypedValue / TypedStore are transparent, error-faithful typed views.
//
// Sequential fault enumeration: every history is first run fault-free on a mapdb
// wrapped in faultkv (store calls and codec calls share one site counter), then
// once per fallible site with that site failing (store call: sentinel error before
// applying; codec: sentinel error). Oracle = a model of the raw bytes: an injected
// failure must surface as an error carrying the sentinel, the raw store must equal
// the model after every step (bytes = encoding of the last successfully written
// value) and every later operation must answer as the model does.
//
// Concurrent part (children, plain and -race): lost updates under Compute(+1) and
// a porcupine register model for mixed Compute/Set/Delete/Get/Has on one TypedValue.
package main

import (
	"bytes"
	"encoding/binary"
	"errors"
	"fmt"
	"hash/fnv"
	"math/rand"
	"os"
	"runtime"
	"sort"
	"strings"
	"sync"
	"sync/atomic"
	"time"

	"github.com/anishathalye/porcupine"
	"github.com/iotaledger/hive.go/ierrors"
	"github.com/iotaledger/hive.go/kvstore"
	"github.com/iotaledger/hive.go/kvstore/debug"
	"github.com/iotaledger/hive.go/kvstore/flushkv"
	"github.com/iotaledger/hive.go/kvstore/mapdb"
	"verif/harness/internal/faultkv"
	"verif/harness/internal/gdump"
	"verif/harness/internal/vf"
)

// ---------------------------------------------------------------- case description

type op struct {
	K      string `json:"k"` // value: get has set del cinc cnc cncw cfail cconst kvs; store: get has set del iter iterk delp clear kvs rawset
	Key    string `json:"key,omitempty"`
	V      int64  `json:"v,omitempty"`
	Prefix string `json:"prefix,omitempty"`
	Stop   int    `json:"stop,omitempty"` // iter: callback returns false after this many entries (0 = never)
	Back   bool   `json:"back,omitempty"`
	Raw    string `json:"raw,omitempty"` // rawset: "valid" | "garbage" bytes written directly into the raw store; cncw: how the sentinel is wrapped (wrapKinds); cfail: "nf" = the function's error also wraps ErrKeyNotFound
}

type initEnt struct {
	Key   string `json:"key"`   // raw key
	State string `json:"state"` // present | garbage
	V     int64  `json:"v,omitempty"`
}

type caseRec struct {
	Target string    `json:"target"`           // value | store
	Flavor string    `json:"flavor,omitempty"` // every injected failure additionally wraps a sentinel the typed layer interprets elsewhere: "nf" ErrKeyNotFound (not on store Get, where it MEANS absent) | "nc" ErrTypedValueNotChanged
	Codec  string    `json:"codec,omitempty"`  // "" = fixed (8 bytes) | varlen (0 -> zero bytes, 1..255 -> one byte)
	View   *viewRec  `json:"view,omitempty"`   // nil = the typed view is built directly on the fault-injecting wrapper of a root mapdb
	Init   []initEnt `json:"init"`
	Ops    []op      `json:"ops"`
	Faults []int     `json:"faults"`          // 1-based fallible sites that fail
	Kinds  []string  `json:"kinds,omitempty"` // kinds of the sites of the fault-free run (informational)
	Trace  []string  `json:"trace,omitempty"` // observed per step (informational)
}

var tvKey = []byte("tv")

var (
	errGarbage = errors.New("harness codec: cannot decode")
	errBadKey  = errors.New("harness codec: key cannot be encoded")
	errCompute = errors.New("harness: compute function failed")
)

// reference codecs (pure)
func encV(v int64) []byte {
	var b [8]byte
	binary.BigEndian.PutUint64(b[:], uint64(v))
	return b[:]
}
func decV(b []byte) (int64, int, error) {
	if len(b) != 8 {
		return 0, 0, errGarbage
	}
	return int64(binary.BigEndian.Uint64(b)), 8, nil
}
func encK(k string) ([]byte, error) {
	if strings.Contains(k, "?") {
		return nil, errBadKey
	}
	return []byte(k), nil
}
func decK(b []byte) (string, int, error) {
	if bytes.IndexByte(b, '!') >= 0 {
		return "", 0, errGarbage
	}
	return string(b), len(b), nil
}

var garbageBytes = []byte("garbage")

// valueCodec is the reference value codec of a case. "fixed": 8 bytes big endian.
// "varlen": 0 encodes to ZERO bytes, 1..255 to one byte, everything else to 8 bytes
// (so presence and content of the raw key are distinguishable concerns).
type valueCodec struct {
	enc func(int64) []byte
	dec func([]byte) (int64, int, error)
}

func encVar(v int64) []byte {
	switch {
	case v == 0:
		return []byte{}
	case v > 0 && v < 256:
		return []byte{byte(v)}
	}
	return encV(v)
}

func decVar(b []byte) (int64, int, error) {
	switch len(b) {
	case 0:
		return 0, 0, nil
	case 1:
		return int64(b[0]), 1, nil
	}
	return decV(b)
}

func codecOf(cr caseRec) valueCodec {
	if cr.Codec == "varlen" {
		return valueCodec{encVar, decVar}
	}
	return valueCodec{encV, decV}
}

// ---------------------------------------------------------------- running one case

type violation struct{ fp, what string }

type runResult struct {
	sites  int
	kinds  []string
	fired  []faultkv.Fired
	ctx    []string // "<Target.Op>@<site kind>" for every fired fault
	viol   *violation
	trace  []string
	checks int

	keysOnlyOps, valueCodecCallsInKeysOnlyOps int // evidence: keys-only operations and value-codec invocations inside them

	zeroLenWrites, noopWrites int // successful writes whose encoding is empty / equals the bytes already stored

	// evidence of the view family
	viewOps    map[string]int // steps executed through a typed view whose underlying KVStore has a NON-EMPTY realm, by operation
	debugCalls int            // access callbacks of a debug wrapper in the stack
	flushVoid  bool           // run ended (not judged further) at a failing Flush of a flush-on-write wrapper above the injector
	nfWrapped  int            // lookups answered with an error WRAPPING ErrKeyNotFound
	wrappedNC  int            // compute functions that aborted with a wrapped ErrTypedValueNotChanged
	voidView   bool           // the wrapper chain itself reported another realm than the chain of WithRealm/WithExtendedRealm calls asks for

	wantTrace bool
}

func protect(f func()) (p string) {
	defer func() {
		if r := recover(); r != nil {
			p = fmt.Sprint(r)
		}
	}()
	f()
	return ""
}

func errStr(err error) string {
	if err == nil {
		return "nil"
	}
	s := err.Error()
	if len(s) > 120 {
		s = s[:120]
	}
	return s
}

// wrapKinds: the ways in which a sentinel can reach the typed layer other than bare. The
// typed layer matches sentinels with errors.Is semantics (ierrors.Is), so every one of them
// must be treated exactly like the bare sentinel.
var wrapKinds = []string{"fmt", "ierr", "join", "joinr", "deep"}

var errOther = errors.New("harness: some other error")

func wrapSentinel(s error, kind string) error {
	switch kind {
	case "fmt":
		return fmt.Errorf("annotated: %w", s)
	case "ierr":
		return ierrors.Wrap(s, "annotated")
	case "join":
		return errors.Join(s, errOther)
	case "joinr":
		return errors.Join(errOther, s)
	case "deep":
		return fmt.Errorf("outer: %w", ierrors.Wrapf(fmt.Errorf("inner: %w", s), "middle %d", 1))
	}
	return s
}

// flavored adds the case's flavor sentinel to an injected failure.
func flavored(err error, flavor string) error {
	switch flavor {
	case "nf":
		return fmt.Errorf("%w [%w]", err, kvstore.ErrKeyNotFound)
	case "nc":
		return fmt.Errorf("%w [%w]", err, kvstore.ErrTypedValueNotChanged)
	}
	return err
}

// errMapKV is a KVStore wrapper of the harness that rewrites the errors of the store below it.
type errMapKV struct {
	kvstore.KVStore
	f func(method string, err error) error
}

func (e *errMapKV) WithRealm(r kvstore.Realm) (kvstore.KVStore, error) {
	s, err := e.KVStore.WithRealm(r)
	if err != nil {
		return nil, err
	}
	return &errMapKV{s, e.f}, nil
}
func (e *errMapKV) WithExtendedRealm(r kvstore.Realm) (kvstore.KVStore, error) {
	s, err := e.KVStore.WithExtendedRealm(r)
	if err != nil {
		return nil, err
	}
	return &errMapKV{s, e.f}, nil
}
func (e *errMapKV) Get(k kvstore.Key) (kvstore.Value, error) {
	v, err := e.KVStore.Get(k)
	return v, e.f("Get", err)
}
func (e *errMapKV) Has(k kvstore.Key) (bool, error) {
	h, err := e.KVStore.Has(k)
	return h, e.f("Has", err)
}
func (e *errMapKV) Set(k kvstore.Key, v kvstore.Value) error { return e.f("Set", e.KVStore.Set(k, v)) }
func (e *errMapKV) Delete(k kvstore.Key) error               { return e.f("Delete", e.KVStore.Delete(k)) }
func (e *errMapKV) DeletePrefix(p kvstore.KeyPrefix) error {
	return e.f("DeletePrefix", e.KVStore.DeletePrefix(p))
}
func (e *errMapKV) Clear() error { return e.f("Clear", e.KVStore.Clear()) }
func (e *errMapKV) Flush() error { return e.f("Flush", e.KVStore.Flush()) }
func (e *errMapKV) Iterate(p kvstore.KeyPrefix, c kvstore.IteratorKeyValueConsumerFunc, d ...kvstore.IterDirection) error {
	return e.f("Iterate", e.KVStore.Iterate(p, c, d...))
}
func (e *errMapKV) IterateKeys(p kvstore.KeyPrefix, c kvstore.IteratorKeyConsumerFunc, d ...kvstore.IterDirection) error {
	return e.f("IterateKeys", e.KVStore.IterateKeys(p, c, d...))
}

// nfWrap: a store that reports absence as an error WRAPPING ErrKeyNotFound (as a remote or
// decorated store would) - under errors.Is semantics that still means "absent".
func nfWrap(s kvstore.KVStore, n *int) kvstore.KVStore {
	return &errMapKV{s, func(m string, err error) error {
		if m == "Get" && err != nil && errors.Is(err, kvstore.ErrKeyNotFound) && !errors.Is(err, faultkv.ErrInjected) {
			*n++
			return fmt.Errorf("lookup failed: %w", err)
		}
		return err
	}}
}

// flavorWrap decorates the injected failures of the store calls (see caseRec.Flavor).
func flavorWrap(s kvstore.KVStore, flavor string) kvstore.KVStore {
	return &errMapKV{s, func(m string, err error) error {
		if err == nil || !errors.Is(err, faultkv.ErrInjected) || (m == "Get" && flavor == "nf") {
			return err
		}
		return flavored(err, flavor)
	}}
}

func opName(target string, o op) string {
	t := "TypedValue."
	if target == "store" {
		t = "TypedStore."
	}
	switch o.K {
	case "get":
		return t + "Get"
	case "has":
		return t + "Has"
	case "set":
		return t + "Set"
	case "del":
		return t + "Delete"
	case "cinc":
		return t + "Compute(inc)"
	case "cconst":
		return t + "Compute(const)"
	case "cnc":
		return t + "Compute(ErrTypedValueNotChanged)"
	case "cncw":
		return t + "Compute(wrapped ErrTypedValueNotChanged)"
	case "cfail":
		return t + "Compute(fails)"
	case "iter":
		return t + "Iterate"
	case "iterk":
		return t + "IterateKeys"
	case "delp":
		return t + "DeletePrefix"
	case "clear":
		return t + "Clear"
	case "kvs":
		return t + "KVStore"
	case "rawset":
		return "raw write behind " + t[:len(t)-1]
	}
	return t + o.K
}

// ---------------------------------------------------------------- views: the typed layer over ANY KVStore
//
// A viewRec says on which KVStore the TypedStore / TypedValue is built: a stack of
// wrappers over one root mapdb (the fault injector exactly once; the flush-on-write
// and the debug wrapper below or above it) and a chain of WithRealm /
// WithExtendedRealm calls applied at some level of that stack. The root store also
// holds entries OUTSIDE the resulting realm ("siblings": parent realms, neighbouring
// realms, the view's own keys without the realm in front) which no operation of the
// typed view may touch.

type realmStep struct {
	Ext bool   `json:"ext,omitempty"` // WithExtendedRealm (append) instead of WithRealm (replace)
	R   string `json:"r"`
}

type viewRec struct {
	Layers   []string    `json:"layers,omitempty"`   // bottom-up: "fault" (exactly once), "flush", "debug", "nfwrap"; empty = ["fault"]
	StepsAt  int         `json:"steps_at,omitempty"` // the realm chain is applied on top of this many layers (0 = on the root mapdb itself)
	Steps    []realmStep `json:"steps,omitempty"`
	Siblings []initEnt   `json:"siblings,omitempty"` // root keys outside the realm (entries that start with the realm are ignored)
}

func (v *viewRec) layers() []string {
	if v == nil || len(v.Layers) == 0 {
		return []string{"fault"}
	}
	return v.Layers
}

// realmOf is the realm the chain of steps asks for.
func (v *viewRec) realmOf() string {
	r := ""
	if v == nil {
		return r
	}
	for _, s := range v.Steps {
		if s.Ext {
			r += s.R
		} else {
			r = s.R
		}
	}
	return r
}

func (v *viewRec) shape() string {
	if v == nil {
		return "root"
	}
	var b strings.Builder
	b.WriteString(strings.Join(v.layers(), "+"))
	fmt.Fprintf(&b, "@%d:", v.StepsAt)
	for _, s := range v.Steps {
		if s.Ext {
			b.WriteString("E")
		} else {
			b.WriteString("W")
		}
		fmt.Fprintf(&b, "%q", s.R)
	}
	return b.String()
}

func (v *viewRec) key() string {
	if v == nil {
		return ""
	}
	return fmt.Sprint(v.shape(), v.Siblings)
}

// world is everything a run needs besides the typed object.
type world struct {
	root  kvstore.KVStore   // the root mapdb (all realms)
	inner kvstore.KVStore   // reference access to the view's realm: root.WithRealm(realm), no wrapper, no faults
	st    kvstore.KVStore   // what the typed view is built on
	realm string            // realm of st
	sib   map[string][]byte // root entries outside the realm
}

func buildWorld(cr caseRec, in *faultkv.Injector, res *runResult) *world {
	v := cr.View
	w := &world{root: mapdb.NewMapDB(), realm: v.realmOf(), sib: map[string][]byte{}}
	must := func(s kvstore.KVStore, err error) kvstore.KVStore {
		if err != nil {
			panic("harness: building the view failed: " + err.Error())
		}
		return s
	}
	layers := v.layers()
	cur := w.root
	for i := 0; i <= len(layers); i++ {
		if v != nil && i == v.StepsAt {
			for _, s := range v.Steps {
				if s.Ext {
					cur = must(cur.WithExtendedRealm([]byte(s.R)))
				} else {
					cur = must(cur.WithRealm([]byte(s.R)))
				}
			}
		}
		if i == len(layers) {
			break
		}
		switch layers[i] {
		case "fault":
			cur = faultkv.Wrap(cur, in)
			if cr.Flavor != "" {
				cur = flavorWrap(cur, cr.Flavor)
			}
		case "nfwrap":
			cur = nfWrap(cur, &res.nfWrapped)
		case "flush":
			cur = flushkv.New(cur)
		case "debug":
			cur = debug.New(cur, func(debug.Command, ...[]byte) { res.debugCalls++ })
		default:
			panic("harness: unknown layer " + layers[i])
		}
	}
	w.st = cur
	if !bytes.Equal(cur.Realm(), []byte(w.realm)) {
		res.voidView = true // the wrappers' realm bookkeeping is not this property's business
	}
	w.inner = w.root
	if w.realm != "" {
		w.inner = must(w.root.WithRealm([]byte(w.realm)))
	}
	if v != nil {
		cd := codecOf(cr)
		for _, e := range v.Siblings {
			if e.Key == "" || strings.HasPrefix(e.Key, w.realm) {
				continue
			}
			b := cd.enc(e.V)
			if e.State == "garbage" {
				b = garbageBytes
			}
			w.root.Set([]byte(e.Key), b)
			w.sib[e.Key] = append([]byte(nil), b...)
		}
	}
	return w
}

func runCase(cr caseRec, trace bool) runResult {
	plan := map[int]faultkv.Action{}
	for _, s := range cr.Faults {
		plan[s] = faultkv.Fail
	}
	in := faultkv.NewInjector(plan, trace)
	var res runResult
	res.wantTrace = trace
	w := buildWorld(cr, in, &res)
	if res.voidView {
		return res
	}
	model := map[string][]byte{}
	for _, e := range cr.Init {
		b := codecOf(cr).enc(e.V)
		if e.State == "garbage" {
			b = garbageBytes
		}
		w.inner.Set([]byte(e.Key), b)
		model[e.Key] = append([]byte(nil), b...)
	}
	if w.realm != "" {
		res.viewOps = map[string]int{}
	}
	if cr.Target == "value" {
		runValue(cr, in, w, model, &res)
	} else {
		runStore(cr, in, w, model, &res)
	}
	res.sites = in.Sites()
	res.kinds = in.Kinds()
	res.fired = in.Fired()
	return res
}

// rawDiff compares the WHOLE root store (all realms) with the model of the view's
// realm plus the entries outside it. The first member of the result is the class:
// "store-diverged" (inside the realm) or "other-realm-touched".
func rawDiff(w *world, model map[string][]byte) (string, string) {
	n := 0
	cls, diff := "", ""
	w.root.Iterate(kvstore.EmptyPrefix, func(k, v []byte) bool {
		n++
		if !strings.HasPrefix(string(k), w.realm) {
			m, ok := w.sib[string(k)]
			if !ok {
				cls, diff = "other-realm-touched", fmt.Sprintf("underlying store now holds key %q = %x OUTSIDE the realm %q of the KVStore the typed view was built on", k, v, w.realm)
				return false
			}
			if !bytes.Equal(m, v) {
				cls, diff = "other-realm-touched", fmt.Sprintf("entry %q outside the realm %q was changed from %x to %x", k, w.realm, m, v)
				return false
			}
			return true
		}
		rel := string(k[len(w.realm):])
		m, ok := model[rel]
		if !ok {
			cls, diff = "store-diverged", fmt.Sprintf("raw store holds key %q = %x (realm %q) which the model does not", rel, v, w.realm)
			return false
		}
		if !bytes.Equal(m, v) {
			cls, diff = "store-diverged", fmt.Sprintf("raw store holds %q = %x, model (last successfully written value) = %x", rel, v, m)
			return false
		}
		return true
	})
	if diff == "" && n != len(model)+len(w.sib) {
		for k := range w.sib {
			if h, _ := w.root.Has([]byte(k)); !h {
				return "other-realm-touched", fmt.Sprintf("entry %q outside the realm %q of the KVStore the typed view was built on was removed", k, w.realm)
			}
		}
		for k := range model {
			if h, _ := w.root.Has([]byte(w.realm + k)); !h {
				return "store-diverged", fmt.Sprintf("raw store lost key %q (realm %q) that the model holds", k, w.realm)
			}
		}
	}
	return cls, diff
}

// flushFault handles a failing Flush issued by a flush-on-write wrapper that sits above the
// injector: the write below it has been applied already, so which state is "right" is the
// wrapper's semantics, not the typed view's. The error must still reach the caller; the run
// ends there without a verdict on the state.
func flushFault(fired []faultkv.Fired) bool {
	return len(fired) > 0 && fired[0].Kind == "store.Flush"
}

func runValue(cr caseRec, in *faultkv.Injector, w *world, model map[string][]byte, res *runResult) {
	st, inner := w.st, w.inner
	cd := codecOf(cr)
	enc := func(v int64) ([]byte, error) {
		if err := in.FailHere("enc.value"); err != nil {
			return nil, flavored(err, cr.Flavor)
		}
		return cd.enc(v), nil
	}
	dec := func(b []byte) (int64, int, error) {
		if err := in.FailHere("dec.value"); err != nil {
			return 0, 0, flavored(err, cr.Flavor)
		}
		return cd.dec(b)
	}
	tv := kvstore.NewTypedValue[int64](st, tvKey, enc, dec)
	key := string(tvKey)
	write := func(v int64) { // a successful write of v: the raw key must now hold exactly enc(v)
		b := cd.enc(v)
		if old, ok := model[key]; ok && bytes.Equal(old, b) {
			res.noopWrites++
		}
		if len(b) == 0 {
			res.zeroLenWrites++
		}
		model[key] = b
	}
	for i, o := range cr.Ops {
		name := opName("value", o)
		// model view before the operation
		mb, exists := model[key]
		cur, _, decErr := cd.dec(mb)
		garbage := exists && decErr != nil

		f0 := in.FiredCount()
		var err error
		var gotV int64
		var gotHas bool
		fnCalls := 0
		var fnCur int64
		var fnExists bool
		pan := protect(func() {
			switch o.K {
			case "get":
				gotV, err = tv.Get()
			case "has":
				gotHas, err = tv.Has()
			case "set":
				err = tv.Set(o.V)
			case "del":
				err = tv.Delete()
			case "kvs":
				if tv.KVStore() != st {
					err = errors.New("KVStore() does not return the store the TypedValue was built on")
				}
			case "cinc", "cnc", "cncw", "cfail", "cconst":
				gotV, err = tv.Compute(func(c int64, ex bool) (int64, error) {
					fnCalls++
					fnCur, fnExists = c, ex
					switch o.K {
					case "cnc":
						return 0, kvstore.ErrTypedValueNotChanged
					case "cncw":
						res.wrappedNC++
						return 0, wrapSentinel(kvstore.ErrTypedValueNotChanged, o.Raw)
					case "cfail":
						if o.Raw == "nf" {
							return 0, fmt.Errorf("%w (%w)", errCompute, kvstore.ErrKeyNotFound)
						}
						return 0, errCompute
					case "cconst":
						return o.V, nil
					}
					if !ex {
						return 1, nil
					}
					return c + 1, nil
				})
			}
		})
		fired := in.Fired()[f0:]
		label := "nofault"
		if len(fired) > 0 {
			label = "fault@" + fired[0].Kind
			res.ctx = append(res.ctx, name+"@"+fired[0].Kind)
		}
		if res.wantTrace {
			res.trace = append(res.trace, fmt.Sprintf("%d %s[%s] -> v=%d has=%v err=%s", i, name, label, gotV, gotHas, errStr(err)))
		}
		res.checks++
		bad := func(cls, what string) {
			if res.viol == nil {
				res.viol = &violation{name + "/" + label + "/" + cls, fmt.Sprintf("step %d %s (%s): %s", i, name, label, what)}
			}
		}
		if pan != "" {
			bad("panic", "panicked: "+pan)
			return
		}
		if res.viewOps != nil {
			res.viewOps[name]++
		}
		if flushFault(fired) {
			if err == nil {
				bad("error-not-reported", fmt.Sprintf("the Flush of the flush-on-write store below the typed view failed at site %d but the call returned err=nil", fired[0].Site))
			}
			res.flushVoid = true
			return
		}
		state := "absent"
		if garbage {
			state = "undecodable bytes"
		} else if exists {
			state = fmt.Sprintf("value %d", cur)
		}
		if len(fired) > 0 {
			// an injected failure must be reported and change nothing
			if err == nil {
				after := "absent"
				if b, e := inner.Get(tvKey); e == nil {
					after = fmt.Sprintf("bytes %x (len %d)", b, len(b))
				}
				bad("error-not-reported", fmt.Sprintf("%s failed at site %d but the call returned err=nil (v=%d); raw key before: %s, after: %s", fired[0].Kind, fired[0].Site, gotV, state, after))
			} else if !errors.Is(err, faultkv.ErrInjected) {
				bad("wrong-error", fmt.Sprintf("%s failed but the returned error %q does not carry the injected failure", fired[0].Kind, errStr(err)))
			}
		} else {
			checkFn := func() {
				if fnCalls > 0 && (fnExists != exists || (exists && fnCur != cur)) {
					bad("compute-saw-wrong-current", fmt.Sprintf("compute function was given (current=%d, exists=%v), raw key holds: %s", fnCur, fnExists, state))
				}
			}
			switch o.K {
			case "get":
				switch {
				case !exists:
					if err == nil {
						bad("wrong-result", fmt.Sprintf("returned %d,nil but the raw key is absent", gotV))
					} else if !errors.Is(err, kvstore.ErrKeyNotFound) {
						bad("wrong-error", fmt.Sprintf("raw key is absent but the error %q is not ErrKeyNotFound", errStr(err)))
					}
				case garbage:
					if err == nil {
						bad("error-not-reported", fmt.Sprintf("returned %d,nil but the raw bytes cannot be decoded", gotV))
					}
				default:
					if err != nil {
						bad("spurious-error", fmt.Sprintf("raw key holds %d but Get failed: %s", cur, errStr(err)))
					} else if gotV != cur {
						bad("wrong-result", fmt.Sprintf("returned %d, raw key holds %d", gotV, cur))
					}
				}
			case "kvs":
				if err != nil {
					bad("wrong-result", err.Error())
				}
			case "has":
				if err != nil {
					bad("spurious-error", "Has failed: "+errStr(err))
				} else if gotHas != exists {
					bad("wrong-result", fmt.Sprintf("returned %v, raw key present=%v", gotHas, exists))
				}
			case "set":
				if err != nil {
					bad("spurious-error", "Set failed: "+errStr(err))
				} else {
					write(o.V)
				}
			case "del":
				if err != nil {
					bad("spurious-error", "Delete failed: "+errStr(err))
				} else {
					delete(model, key)
				}
			case "cinc", "cconst":
				if garbage {
					if err == nil {
						bad("error-not-reported", fmt.Sprintf("returned %d,nil but the current raw bytes cannot be decoded", gotV))
					}
					break
				}
				want := int64(1)
				if exists {
					want = cur + 1
				}
				if o.K == "cconst" {
					want = o.V
				}
				if err != nil {
					bad("spurious-error", "Compute failed: "+errStr(err))
				} else {
					checkFn()
					if gotV != want {
						bad("wrong-result", fmt.Sprintf("returned %d, expected %d (raw key held: %s)", gotV, want, state))
					}
					write(want)
				}
			case "cnc", "cncw":
				if garbage {
					if err == nil {
						bad("error-not-reported", "returned nil error but the current raw bytes cannot be decoded")
					}
					break
				}
				if err != nil {
					bad("spurious-error", "a compute function that aborts with (an error that errors.Is) ErrTypedValueNotChanged makes Compute return (current, nil), got: "+errStr(err))
				} else {
					checkFn()
					if exists && gotV != cur {
						bad("wrong-result", fmt.Sprintf("returned %d, raw key holds %d", gotV, cur))
					}
				}
			case "cfail":
				if garbage {
					if err == nil {
						bad("error-not-reported", "returned nil error but the current raw bytes cannot be decoded")
					}
					break
				}
				if err == nil {
					bad("error-not-reported", "compute function failed but Compute returned nil")
				} else if !errors.Is(err, errCompute) {
					bad("wrong-error", "compute function's error is not in the returned chain: "+errStr(err))
				} else {
					checkFn()
				}
			}
		}
		if res.viol != nil {
			return
		}
		if cls, d := rawDiff(w, model); d != "" {
			bad(cls, d)
			return
		}
	}
}

type kvp struct {
	k string
	v int64
}

func runStore(cr caseRec, in *faultkv.Injector, w *world, model map[string][]byte, res *runResult) {
	st, inner := w.st, w.inner
	cd := codecOf(cr)
	var valueCodecCalls int // invocations of the value codec (evidence only, never a verdict)
	ts := kvstore.NewTypedStore[string, int64](st,
		func(k string) ([]byte, error) {
			if err := in.FailHere("enc.key"); err != nil {
				return nil, flavored(err, cr.Flavor)
			}
			return encK(k)
		},
		func(b []byte) (string, int, error) {
			if err := in.FailHere("dec.key"); err != nil {
				return "", 0, flavored(err, cr.Flavor)
			}
			return decK(b)
		},
		func(v int64) ([]byte, error) {
			valueCodecCalls++
			if err := in.FailHere("enc.value"); err != nil {
				return nil, flavored(err, cr.Flavor)
			}
			return cd.enc(v), nil
		},
		func(b []byte) (int64, int, error) {
			valueCodecCalls++
			if err := in.FailHere("dec.value"); err != nil {
				return 0, 0, flavored(err, cr.Flavor)
			}
			return cd.dec(b)
		})
	for i, o := range cr.Ops {
		name := opName("store", o)
		kb, keyErr := encK(o.Key)
		mb, exists := model[string(kb)]
		cur, _, decErr := cd.dec(mb)
		garbage := exists && decErr != nil

		// expected callback sequence of Iterate = raw iteration under the reference codec
		var exp []kvp
		expErr := false
		dir := kvstore.IterDirectionForward
		if o.Back {
			dir = kvstore.IterDirectionBackward
		}
		if o.K == "iterk" {
			// keys-only: the result depends on the raw key iteration and the key codec alone
			inner.IterateKeys([]byte(o.Prefix), func(k []byte) bool {
				kk, _, e1 := decK(k)
				if e1 != nil {
					expErr = true
					return false
				}
				exp = append(exp, kvp{kk, 0})
				return o.Stop == 0 || len(exp) < o.Stop
			}, dir)
		}
		if o.K == "iter" {
			inner.Iterate([]byte(o.Prefix), func(k, v []byte) bool {
				kk, _, e1 := decK(k)
				vv, _, e2 := cd.dec(v)
				if e1 != nil || e2 != nil {
					expErr = true
					return false
				}
				exp = append(exp, kvp{kk, vv})
				return o.Stop == 0 || len(exp) < o.Stop
			}, dir)
		}

		f0 := in.FiredCount()
		vc0 := valueCodecCalls
		var gotKVS kvstore.KVStore
		var err error
		var gotV int64
		var gotHas bool
		var cbs []kvp
		pan := protect(func() {
			switch o.K {
			case "get":
				gotV, err = ts.Get(o.Key)
			case "has":
				gotHas, err = ts.Has(o.Key)
			case "set":
				err = ts.Set(o.Key, o.V)
			case "del":
				err = ts.Delete(o.Key)
			case "iter":
				err = ts.Iterate([]byte(o.Prefix), func(k string, v int64) bool {
					cbs = append(cbs, kvp{k, v})
					return o.Stop == 0 || len(cbs) < o.Stop
				}, dir)
			case "iterk":
				err = ts.IterateKeys([]byte(o.Prefix), func(k string) bool {
					cbs = append(cbs, kvp{k, 0})
					return o.Stop == 0 || len(cbs) < o.Stop
				}, dir)
			case "delp":
				err = ts.DeletePrefix([]byte(o.Prefix))
			case "clear":
				err = ts.Clear()
			case "kvs":
				gotKVS = ts.KVStore()
			case "rawset":
				// an entry written behind the typed layer's back (not an operation of the typed store)
				b := cd.enc(o.V)
				if o.Raw == "garbage" {
					b = garbageBytes
				}
				inner.Set([]byte(o.Key), b)
				model[o.Key] = append([]byte(nil), b...)
			}
		})
		fired := in.Fired()[f0:]
		keysOnly := o.K == "iterk" || o.K == "has" || o.K == "del" || o.K == "delp" || o.K == "clear"
		if keysOnly {
			res.keysOnlyOps++
			res.valueCodecCallsInKeysOnlyOps += valueCodecCalls - vc0
		}
		if keysOnly && len(fired) > 0 && strings.HasSuffix(fired[0].Kind, ".value") {
			// the result of a keys-only operation does not depend on the value codec: a value-codec
			// failure (should the implementation consult it at all) must not change the outcome
			res.ctx = append(res.ctx, name+"@"+fired[0].Kind+"(irrelevant)")
			fired = nil
		}
		label := "nofault"
		if len(fired) > 0 {
			label = "fault@" + fired[0].Kind
			res.ctx = append(res.ctx, name+"@"+fired[0].Kind)
		}
		if res.wantTrace {
			res.trace = append(res.trace, fmt.Sprintf("%d %s(%q%s)[%s] -> v=%d has=%v callbacks=%v err=%s", i, name, o.Key, o.Prefix, label, gotV, gotHas, cbs, errStr(err)))
		}
		res.checks++
		bad := func(cls, what string) {
			if res.viol == nil {
				res.viol = &violation{name + "/" + label + "/" + cls, fmt.Sprintf("step %d %s (%s): %s", i, name, label, what)}
			}
		}
		if pan != "" {
			bad("panic", "panicked: "+pan)
			return
		}
		if res.viewOps != nil {
			res.viewOps[name]++
		}
		if flushFault(fired) {
			if err == nil {
				bad("error-not-reported", fmt.Sprintf("the Flush of the flush-on-write store below the typed view failed at site %d but the call returned err=nil", fired[0].Site))
			}
			res.flushVoid = true
			return
		}
		isPrefix := func() bool {
			if len(cbs) > len(exp) {
				return false
			}
			for j := range cbs {
				if cbs[j] != exp[j] {
					return false
				}
			}
			return true
		}
		switch {
		case len(fired) > 0:
			if err == nil {
				bad("error-not-reported", fmt.Sprintf("%s failed at site %d but the call returned err=nil", fired[0].Kind, fired[0].Site))
			} else if !errors.Is(err, faultkv.ErrInjected) {
				bad("wrong-error", fmt.Sprintf("%s failed but the returned error %q does not carry the injected failure", fired[0].Kind, errStr(err)))
			} else if (o.K == "iter" || o.K == "iterk") && !isPrefix() {
				bad("callback-after-error", fmt.Sprintf("callbacks %v are not a prefix of the raw entries %v: iteration went on after the failure", cbs, exp))
			}
		case o.K == "rawset":
		case o.K == "kvs":
			if gotKVS != st {
				bad("wrong-result", "KVStore() does not return the store the TypedStore was built on")
			}
		case keyErr != nil && (o.K == "get" || o.K == "has" || o.K == "set" || o.K == "del"):
			if err == nil {
				bad("error-not-reported", "key codec failed but the call returned nil")
			}
		default:
			switch o.K {
			case "get":
				switch {
				case !exists:
					if err == nil {
						bad("wrong-result", fmt.Sprintf("returned %d,nil but the raw key is absent", gotV))
					} else if !errors.Is(err, kvstore.ErrKeyNotFound) {
						bad("wrong-error", fmt.Sprintf("raw key is absent but the error %q is not ErrKeyNotFound", errStr(err)))
					}
				case garbage:
					if err == nil {
						bad("error-not-reported", fmt.Sprintf("returned %d,nil but the raw bytes cannot be decoded", gotV))
					}
				default:
					if err != nil {
						bad("spurious-error", "Get failed: "+errStr(err))
					} else if gotV != cur {
						bad("wrong-result", fmt.Sprintf("returned %d, raw key holds %d", gotV, cur))
					}
				}
			case "has":
				if err != nil {
					bad("spurious-error", "Has failed: "+errStr(err))
				} else if gotHas != exists {
					bad("wrong-result", fmt.Sprintf("returned %v, raw key present=%v", gotHas, exists))
				}
			case "set":
				if err != nil {
					bad("spurious-error", "Set failed: "+errStr(err))
				} else {
					nb := cd.enc(o.V)
					if old, ok := model[string(kb)]; ok && bytes.Equal(old, nb) {
						res.noopWrites++
					}
					if len(nb) == 0 {
						res.zeroLenWrites++
					}
					model[string(kb)] = nb
				}
			case "del":
				if err != nil {
					bad("spurious-error", "Delete failed: "+errStr(err))
				} else {
					delete(model, string(kb))
				}
			case "delp":
				if err != nil {
					bad("spurious-error", "DeletePrefix failed: "+errStr(err))
				} else {
					for k := range model {
						if strings.HasPrefix(k, o.Prefix) {
							delete(model, k)
						}
					}
				}
			case "clear":
				if err != nil {
					bad("spurious-error", "Clear failed: "+errStr(err))
				} else {
					for k := range model {
						delete(model, k)
					}
				}
			case "iter", "iterk":
				if expErr && err == nil {
					bad("error-not-reported", fmt.Sprintf("an entry under prefix %q cannot be decoded but Iterate returned nil (callbacks %v)", o.Prefix, cbs))
				} else if !expErr && err != nil {
					bad("spurious-error", "Iterate failed: "+errStr(err))
				} else if len(cbs) != len(exp) || !isPrefix() {
					cls := "wrong-result"
					if expErr {
						cls = "callback-after-error"
					}
					bad(cls, fmt.Sprintf("callbacks %v, raw entries under the codec (up to the first undecodable one / the stop) %v", cbs, exp))
				}
			}
		}
		if res.viol != nil {
			return
		}
		if cls, d := rawDiff(w, model); d != "" {
			bad(cls, d)
			return
		}
	}
}

// ---------------------------------------------------------------- generation

var valueKinds = []string{"get", "has", "set", "del", "cinc", "cnc", "cfail", "cncw"}
var valueKindsC = []string{"get", "has", "set", "del", "cinc", "cnc", "cfail", "cconst", "cncw"}

func valueInits() [][]initEnt {
	return [][]initEnt{nil, {{Key: "tv", State: "present", V: 5}}, {{Key: "tv", State: "garbage"}}}
}

// genVal draws a value: for the varlen codec from a small domain with empty (0),
// one-byte and 8-byte encodings, so that equal re-writes (no-op writes) are frequent.
func genVal(rng *rand.Rand, codec string) int64 {
	if codec == "varlen" {
		return []int64{0, 0, 1, 7, 300}[rng.Intn(5)]
	}
	if rng.Intn(3) == 0 {
		return []int64{5, 100, 101}[rng.Intn(3)]
	}
	return int64(100 + rng.Intn(900))
}

func genCodec(rng *rand.Rand) string {
	if rng.Intn(2) == 0 {
		return "varlen"
	}
	return ""
}

func genFlavor(rng *rand.Rand) string {
	return []string{"", "", "", "", "nf", "nc"}[rng.Intn(6)]
}

func genValueCase(rng *rand.Rand) caseRec {
	cr := caseRec{Target: "value", Codec: genCodec(rng)}
	switch rng.Intn(3) {
	case 1:
		cr.Init = []initEnt{{Key: "tv", State: "present", V: genVal(rng, cr.Codec)}}
	case 2:
		cr.Init = []initEnt{{Key: "tv", State: "garbage"}}
	}
	n := 1 + rng.Intn(8)
	for i := 0; i < n; i++ {
		k := valueKindsC[rng.Intn(len(valueKindsC))]
		if rng.Intn(5) == 0 {
			k = "cinc"
		}
		o := op{K: k}
		if k == "set" || k == "cconst" {
			o.V = genVal(rng, cr.Codec)
		}
		if k == "cncw" {
			o.Raw = wrapKinds[rng.Intn(len(wrapKinds))]
		}
		if k == "cfail" && rng.Intn(2) == 0 {
			o.Raw = "nf"
		}
		if rng.Intn(30) == 0 {
			o = op{K: "kvs"}
		}
		cr.Ops = append(cr.Ops, o)
	}
	cr.Flavor = genFlavor(rng)
	return cr
}

var storeKeys = []string{"a", "ab", "b"}

func genStoreCase(rng *rand.Rand) caseRec {
	cr := caseRec{Target: "store", Codec: genCodec(rng)}
	for _, k := range storeKeys {
		switch rng.Intn(4) {
		case 0, 1:
			cr.Init = append(cr.Init, initEnt{Key: k, State: "present", V: genVal(rng, cr.Codec)})
		case 2:
			if rng.Intn(2) == 0 {
				cr.Init = append(cr.Init, initEnt{Key: k, State: "garbage"})
			}
		}
	}
	if rng.Intn(5) == 0 {
		cr.Init = append(cr.Init, initEnt{Key: []string{"a!", "b!", "aa!"}[rng.Intn(3)], State: []string{"present", "garbage"}[rng.Intn(2)], V: 7})
	}
	n := 1 + rng.Intn(8)
	for i := 0; i < n; i++ {
		key := storeKeys[rng.Intn(3)]
		if rng.Intn(25) == 0 {
			key = "?"
		}
		var o op
		switch r := rng.Intn(10); {
		case r < 2:
			o = op{K: "get", Key: key}
		case r < 3:
			o = op{K: "has", Key: key}
		case r < 5:
			o = op{K: "set", Key: key, V: genVal(rng, cr.Codec)}
		case r < 6:
			o = op{K: "del", Key: key}
		case r < 8:
			o = op{K: "iter", Prefix: []string{"", "a", "b", "ab"}[rng.Intn(4)], Stop: []int{0, 0, 1, 2}[rng.Intn(4)], Back: rng.Intn(3) == 0}
		default:
			o = op{K: "iterk", Prefix: []string{"", "a", "b", "ab"}[rng.Intn(4)], Stop: []int{0, 0, 1, 2}[rng.Intn(4)], Back: rng.Intn(3) == 0}
		}
		switch rng.Intn(16) {
		case 0:
			o = op{K: "delp", Prefix: []string{"", "a", "b", "ab"}[rng.Intn(4)]}
		case 1:
			if rng.Intn(2) == 0 {
				o = op{K: "clear"}
			} else {
				o = op{K: "kvs"}
			}
		case 2, 3:
			// an entry written behind the typed layer's back: valid or undecodable value under a decodable or undecodable key
			o = op{K: "rawset", Key: []string{"a", "ab", "b", "a!", "b!"}[rng.Intn(5)], V: genVal(rng, cr.Codec), Raw: []string{"valid", "garbage", "garbage"}[rng.Intn(3)]}
		}
		cr.Ops = append(cr.Ops, o)
	}
	cr.Flavor = genFlavor(rng)
	return cr
}

// ---------------------------------------------------------------- generation of views

var layerStacks = [][]string{
	{"fault"},
	{"flush", "fault"}, {"fault", "flush"},
	{"debug", "fault"}, {"fault", "debug"},
	{"flush", "debug", "fault"}, {"fault", "debug", "flush"},
	{"nfwrap", "fault"}, {"fault", "nfwrap"},
}

// realm pieces: prefixes of / equal to the encoded keys of the cases ("a", "ab", "b", "tv", "a!"),
// unrelated ones, a zero byte, and the empty piece (a no-op extension / a reset to the root).
var realmPieces = []string{"a", "b", "ab", "t", "tv", "v", "x", "\x00", "a!", ""}

// siblingKeys lists root keys that are NOT inside realm r: the view's own keys without the realm,
// every proper prefix of the realm (parent realms) alone and extended, and the neighbours that
// differ from the realm in its last byte.
func siblingKeys(r string) []string {
	if r == "" {
		return nil
	}
	c := []string{"a", "ab", "b", "tv", "a!", "\x00", "z"}
	for i := 1; i < len(r); i++ {
		c = append(c, r[:i], r[:i]+"~", r[:i]+"a")
	}
	last := r[len(r)-1]
	c = append(c, r[:len(r)-1]+string(rune(last+1)), r[:len(r)-1]+string(rune(last+1))+"a")
	if last > 0 {
		c = append(c, r[:len(r)-1]+string(rune(last-1))+"b")
	}
	seen := map[string]bool{}
	var out []string
	for _, k := range c {
		if k == "" || strings.HasPrefix(k, r) || seen[k] {
			continue
		}
		seen[k] = true
		out = append(out, k)
	}
	return out
}

func genView(rng *rand.Rand, codec string) *viewRec {
	v := &viewRec{}
	if rng.Intn(5) < 2 {
		v.Layers = layerStacks[0]
	} else {
		v.Layers = layerStacks[1+rng.Intn(len(layerStacks)-1)]
	}
	v.StepsAt = rng.Intn(len(v.Layers) + 1)
	n := 1 + rng.Intn(3)
	for i := 0; i < n; i++ {
		v.Steps = append(v.Steps, realmStep{Ext: rng.Intn(2) == 0, R: realmPieces[rng.Intn(len(realmPieces))]})
	}
	if v.realmOf() == "" && rng.Intn(4) != 0 {
		v.Steps = append(v.Steps, realmStep{Ext: rng.Intn(2) == 0, R: realmPieces[rng.Intn(5)]})
	}
	for _, k := range siblingKeys(v.realmOf()) {
		if rng.Intn(2) == 0 {
			e := initEnt{Key: k, State: "present", V: genVal(rng, codec)}
			if rng.Intn(4) == 0 {
				e = initEnt{Key: k, State: "garbage"}
			}
			v.Siblings = append(v.Siblings, e)
		}
	}
	return v
}

var viewPrefixes = []string{"", "a", "b", "ab"}

// genViewStoreCase: a TypedStore history as in genStoreCase, with the whole-store operations
// (Clear, DeletePrefix, Iterate, IterateKeys - also with the realm itself as the prefix) more frequent.
func genViewStoreCase(rng *rand.Rand) caseRec {
	cr := genStoreCase(rng)
	cr.View = genView(rng, cr.Codec)
	pfx := func() string {
		if rng.Intn(5) == 0 {
			return cr.View.realmOf()
		}
		return viewPrefixes[rng.Intn(len(viewPrefixes))]
	}
	for i := range cr.Ops {
		if rng.Intn(5) != 0 {
			continue
		}
		switch rng.Intn(4) {
		case 0:
			cr.Ops[i] = op{K: "clear"}
		case 1:
			cr.Ops[i] = op{K: "delp", Prefix: pfx()}
		case 2:
			cr.Ops[i] = op{K: "iter", Prefix: pfx(), Stop: rng.Intn(3), Back: rng.Intn(2) == 0}
		case 3:
			cr.Ops[i] = op{K: "iterk", Prefix: pfx(), Stop: rng.Intn(3), Back: rng.Intn(2) == 0}
		}
	}
	return cr
}

// matrixViews: a fixed list of realm chains x layer stacks x the level at which the chain is applied.
func matrixViews() []*viewRec {
	chains := [][]realmStep{
		{{R: "a"}}, {{R: "ab"}}, {{R: "t"}}, {{R: "\x00"}},
		{{R: "a"}, {Ext: true, R: "b"}}, {{R: "x"}, {R: "b"}}, {{Ext: true, R: "t"}, {Ext: true, R: "v"}},
		{{R: "a"}, {Ext: true, R: ""}}, {{R: "b"}, {Ext: true, R: "a"}, {Ext: true, R: "!"}},
		{}, // the root itself (empty realm) under every wrapper stack
	}
	var out []*viewRec
	for _, ch := range chains {
		for _, ls := range layerStacks {
			for at := 0; at <= len(ls); at++ {
				if len(ch) == 0 && at > 0 {
					continue
				}
				v := &viewRec{Layers: ls, StepsAt: at, Steps: ch}
				for i, k := range siblingKeys(v.realmOf()) {
					e := initEnt{Key: k, State: "present", V: int64(40 + i)}
					if i%5 == 4 {
						e = initEnt{Key: k, State: "garbage"}
					}
					v.Siblings = append(v.Siblings, e)
				}
				out = append(out, v)
			}
		}
	}
	return out
}

// viewPart: the typed views over KVStores other than a bare root store.
func viewPart(c *vf.Ctx, workers, chunk, pairs int) {
	// (3) matrix: every view of matrixViews x every single TypedStore operation (followed by a full
	// iteration) from a fixed populated state, and every TypedValue history of length <= 2
	views := matrixViews()
	var cases []caseRec
	full := []initEnt{{Key: "a", State: "present", V: 1}, {Key: "ab", State: "present", V: 2}, {Key: "b", State: "present", V: 3}}
	for _, v := range views {
		r := v.realmOf()
		var single []op
		single = append(single, op{K: "clear"}, op{K: "kvs"})
		pf := append([]string{}, viewPrefixes...)
		if r != "" && r != "a" && r != "b" && r != "ab" {
			pf = append(pf, r)
		}
		for _, p := range pf {
			single = append(single, op{K: "delp", Prefix: p})
			for _, back := range []bool{false, true} {
				for _, stop := range []int{0, 1} {
					single = append(single, op{K: "iter", Prefix: p, Back: back, Stop: stop}, op{K: "iterk", Prefix: p, Back: back, Stop: stop})
				}
			}
		}
		for _, k := range storeKeys {
			single = append(single, op{K: "get", Key: k}, op{K: "has", Key: k}, op{K: "set", Key: k, V: 77}, op{K: "del", Key: k})
		}
		single = append(single, op{K: "set", Key: "c", V: 78}, op{K: "get", Key: "c"}, op{K: "has", Key: "c"}, op{K: "del", Key: "c"})
		for _, o := range single {
			cases = append(cases, caseRec{Target: "store", View: v, Init: full, Ops: []op{o, {K: "iter"}, {K: "has", Key: "b"}}})
		}
		for _, init := range valueInits() {
			for _, k1 := range valueKinds {
				o1 := op{K: k1}
				if k1 == "set" {
					o1.V = 10
				}
				if k1 == "cncw" {
					o1.Raw = wrapKinds[len(cases)%len(wrapKinds)]
				}
				cases = append(cases, caseRec{Target: "value", View: v, Init: init, Ops: []op{o1, {K: "get"}}})
				if len(v.layers()) > 2 {
					continue
				}
				for _, k2 := range valueKinds {
					o2 := op{K: k2}
					if k2 == "set" {
						o2.V = 20
					}
					if k2 == "cncw" {
						o2.Raw = wrapKinds[len(cases)%len(wrapKinds)]
					}
					cases = append(cases, caseRec{Target: "value", View: v, Init: init, Ops: []op{o1, o2, {K: "has"}}})
				}
			}
		}
	}
	note := func(cr caseRec) {
		c.Distinct("view_shapes", cr.View.shape())
		c.Distinct("view_realms", cr.View.realmOf())
		if cr.View.realmOf() != "" {
			c.Count("view_histories_nonempty_realm", 1)
		}
		if len(cr.View.Siblings) > 0 {
			c.Count("view_histories_with_entries_outside_the_realm", 1)
		}
		if len(cr.View.layers()) > 1 {
			c.Count("view_histories_over_flush_or_debug_wrapper", 1)
		}
	}
	vf.Parallel((len(cases)+chunk-1)/chunk, workers, func(w int) {
		st := &stats{ctx: map[string]int{}}
		for i := w * chunk; i < (w+1)*chunk && i < len(cases); i++ {
			note(cases[i])
			enumerate(c, st, cases[i], nil, 0)
		}
		merge(c, st)
	})
	c.Count("view_histories_matrix", len(cases))

	// (4) seeded histories over seeded views
	n := c.Pick(12000, 600000)
	vf.Parallel((n+chunk-1)/chunk, workers, func(w int) {
		rng := c.Rand(fmt.Sprintf("viewhist/%d", w))
		st := &stats{ctx: map[string]int{}}
		for i := w * chunk; i < (w+1)*chunk && i < n; i++ {
			var cr caseRec
			if rng.Intn(3) == 0 {
				cr = genValueCase(rng)
				cr.View = genView(rng, cr.Codec)
			} else {
				cr = genViewStoreCase(rng)
			}
			note(cr)
			enumerate(c, st, cr, rng, pairs)
		}
		merge(c, st)
	})
	c.Count("view_histories_seeded", n)
}

type stats struct {
	runs, faultRuns, fired, checks, histories int
	zeroLen, noop                             int
	keysOnly, vcInKeysOnly                    int
	ctx                                       map[string]int
	viols                                     []pending

	viewRuns, viewSteps, debugCalls, flushVoid, voidView int
	nfWrapped, wrappedNC, flavored                       int
}

type pending struct {
	v  violation
	cr caseRec
}

func caseHash(cr caseRec, fault int) uint64 {
	h := fnv.New64a()
	fmt.Fprintf(h, "%s|%s|%s|%v|%v|%d|%s", cr.Target, cr.Codec, cr.Flavor, cr.Init, cr.Ops, fault, cr.View.key())
	return h.Sum64()
}

func record(st *stats, r runResult, cr caseRec) {
	st.runs++
	st.checks += r.checks
	st.fired += len(r.fired)
	st.zeroLen += r.zeroLenWrites
	st.keysOnly += r.keysOnlyOps
	st.vcInKeysOnly += r.valueCodecCallsInKeysOnlyOps
	st.noop += r.noopWrites
	for _, x := range r.ctx {
		st.ctx[x]++
	}
	if cr.View != nil {
		st.viewRuns++
	}
	for k, n := range r.viewOps {
		st.ctx["viewop:"+k] += n
		st.viewSteps += n
	}
	st.debugCalls += r.debugCalls
	st.nfWrapped += r.nfWrapped
	st.wrappedNC += r.wrappedNC
	if cr.Flavor != "" && len(r.fired) > 0 {
		st.flavored++
	}
	if r.flushVoid {
		st.flushVoid++
	}
	if r.voidView {
		st.voidView++
	}
	if r.viol != nil && len(st.viols) < 100 {
		if r.trace == nil {
			r.trace = runCase(cr, true).trace
		}
		cc := cr
		cc.Faults = append([]int(nil), cr.Faults...)
		cc.Trace = r.trace
		st.viols = append(st.viols, pending{*r.viol, cc})
	}
}

// enumerate runs the history fault-free, then with each single site failing, then
// (pairs > 0) with some pairs of sites failing.
func enumerate(c *vf.Ctx, st *stats, cr caseRec, rng *rand.Rand, pairs int) {
	st.histories++
	base := runCase(cr, true)
	cr.Kinds = base.kinds
	record(st, base, cr)
	if base.viol != nil {
		return
	}
	for s := 1; s <= base.sites; s++ {
		fc := cr
		fc.Faults = []int{s}
		r := runCase(fc, false)
		record(st, r, fc)
		if len(r.fired) > 0 {
			st.faultRuns++
			c.DistinctHash("nontrivial", caseHash(cr, s))
		}
	}
	for p := 0; p < pairs && base.sites >= 2 && rng != nil; p++ {
		a := 1 + rng.Intn(base.sites)
		b := 1 + rng.Intn(base.sites+2)
		if a == b {
			continue
		}
		if a > b {
			a, b = b, a
		}
		fc := cr
		fc.Faults = []int{a, b}
		r := runCase(fc, false)
		record(st, r, fc)
		if len(r.fired) > 1 {
			st.faultRuns++
			c.Count("two_fault_runs", 1)
		}
	}
}

var allViols []pending
var mergeMu sync.Mutex

func merge(c *vf.Ctx, st *stats) {
	mergeMu.Lock()
	defer mergeMu.Unlock()
	c.Count("evaluations", st.runs)
	c.Count("histories", st.histories)
	c.Count("fault_runs", st.faultRuns)
	c.Count("faults_injected", st.fired)
	c.Count("steps_checked", st.checks)
	c.Count("zero_length_encodings_written", st.zeroLen)
	c.Count("keys_only_ops", st.keysOnly)
	c.Count("value_codec_calls_inside_keys_only_ops", st.vcInKeysOnly)
	c.Count("noop_writes_same_bytes", st.noop)
	c.Count("sentinel_wrapped_not_changed_computes", st.wrappedNC)
	c.Count("sentinel_wrapped_not_found_lookups", st.nfWrapped)
	c.Count("sentinel_flavored_fault_runs", st.flavored)
	c.Count("view_runs", st.viewRuns)
	c.Count("view_steps_nonempty_realm", st.viewSteps)
	c.Count("view_debug_wrapper_callbacks", st.debugCalls)
	c.Count("view_flush_fault_runs_not_judged", st.flushVoid)
	c.Count("view_realm_mismatch_runs_not_judged", st.voidView)
	for k, v := range st.ctx {
		if strings.HasPrefix(k, "viewop:") {
			c.Count(k, v)
			continue
		}
		c.Count("fault:"+k, v)
		c.Distinct("fault_contexts", k)
	}
	allViols = append(allViols, st.viols...)
}

func sequentialPart(c *vf.Ctx) {
	workers := runtime.NumCPU()
	// (1) exhaustive short TypedValue histories
	exhLen := c.Pick(4, 5)
	var exh []caseRec
	for _, codec := range []string{"", "varlen"} {
		kinds, inits := valueKinds, valueInits()
		if codec == "varlen" {
			kinds = valueKindsC
			inits = append(inits, []initEnt{{Key: "tv", State: "present", V: 0}}) // present with ZERO-length bytes
		}
		for _, init := range inits {
			for l := 1; l <= exhLen; l++ {
				n := 1
				for i := 0; i < l; i++ {
					n *= len(kinds)
				}
				for idx := 0; idx < n; idx++ {
					cr := caseRec{Target: "value", Codec: codec, Init: init}
					x := idx
					ops := make([]op, l)
					for i := l - 1; i >= 0; i-- {
						ops[i] = op{K: kinds[x%len(kinds)]}
						switch {
						case ops[i].K == "cncw":
							ops[i].Raw = wrapKinds[(i+idx)%len(wrapKinds)]
						case codec == "varlen" && ops[i].K == "set":
							ops[i].V = []int64{0, 7}[i%2] // 0 encodes to zero bytes
						case ops[i].K == "set":
							ops[i].V = int64(10 * (i + 1))
						}
						x /= len(kinds)
					}
					cr.Ops = ops
					exh = append(exh, cr)
				}
			}
		}
	}
	chunk := 64
	vf.Parallel((len(exh)+chunk-1)/chunk, workers, func(w int) {
		st := &stats{ctx: map[string]int{}}
		for i := w * chunk; i < (w+1)*chunk && i < len(exh); i++ {
			enumerate(c, st, exh[i], nil, 0)
		}
		merge(c, st)
	})
	c.Count("histories_exhaustive_value", len(exh))
	c.Extra("exhaustive_bound", fmt.Sprintf("TypedValue: all histories of length <= %d over {Get, Has, Set, Delete, Compute(inc), Compute(NotChanged), Compute(NotChanged wrapped fmt/ierrors/Join/deep), Compute(fails)} x initial raw state {absent, present, undecodable} with the fixed-width codec, and the same plus Compute(const 0) and initial state present-with-zero-length-bytes under a variable-length codec (0 -> zero bytes, 1..255 -> one byte), each with every single fallible site failing", exhLen))

	// (2) seeded histories (length 1..8) on TypedValue and TypedStore
	n := c.Pick(20000, 1500000)
	pairs := c.Pick(1, 3)
	vf.Parallel((n+chunk-1)/chunk, workers, func(w int) {
		rng := c.Rand(fmt.Sprintf("hist/%d", w))
		st := &stats{ctx: map[string]int{}}
		for i := w * chunk; i < (w+1)*chunk && i < n; i++ {
			var cr caseRec
			if rng.Intn(2) == 0 {
				cr = genValueCase(rng)
			} else {
				cr = genStoreCase(rng)
			}
			enumerate(c, st, cr, rng, pairs)
		}
		merge(c, st)
	})
	c.Count("histories_seeded", n)

	viewPart(c, workers, chunk, pairs)

	// report shortest reproducer first
	sort.SliceStable(allViols, func(a, b int) bool {
		x, y := allViols[a].cr, allViols[b].cr
		if lx, ly := len(x.Ops)+len(x.Init)+len(x.Faults), len(y.Ops)+len(y.Init)+len(y.Faults); lx != ly {
			return lx < ly
		}
		return fmt.Sprint(x.Ops, x.Init, x.Faults) < fmt.Sprint(y.Ops, y.Init, y.Faults)
	})
	for _, p := range allViols {
		c.Violation(p.v.fp, p.v.what, p.cr)
	}
	for _, cr := range []caseRec{
		{Target: "value", Init: []initEnt{{Key: "tv", State: "present", V: 5}}, Ops: []op{{K: "cinc"}, {K: "get"}}, Faults: []int{3}},
		{Target: "value", Ops: []op{{K: "has"}, {K: "set", V: 9}, {K: "get"}}, Faults: []int{3}},
		{Target: "store", Init: []initEnt{{Key: "a", State: "present", V: 1}, {Key: "ab", State: "garbage"}, {Key: "b", State: "present", V: 2}}, Ops: []op{{K: "iter"}, {K: "del", Key: "a"}}, Faults: []int{5}},
	} {
		r := runCase(cr, true)
		cr.Kinds, cr.Trace = r.kinds, r.trace
		c.Sample(cr)
	}
}

// ---------------------------------------------------------------- concurrent part

type regIn struct {
	Op string
	V  int64
}
type regOut struct {
	V     int64
	Found bool
}
type regState struct {
	ex bool
	v  int64
}

var regModel = porcupine.Model{
	Init: func() interface{} { return regState{} },
	Step: func(state, input, output interface{}) (bool, interface{}) {
		s := state.(regState)
		in := input.(regIn)
		out := output.(regOut)
		switch in.Op {
		case "set":
			return true, regState{true, in.V}
		case "del":
			return true, regState{}
		case "get", "rawget":
			return out.Found == s.ex && (!s.ex || out.V == s.v), s
		case "has":
			return out.Found == s.ex, s
		case "cinc":
			n := int64(1)
			if s.ex {
				n = s.v + 1
			}
			return out.V == n, regState{true, n}
		case "cnc":
			return !s.ex || out.V == s.v, s
		}
		return false, s
	},
	Equal: func(a, b interface{}) bool { return a.(regState) == b.(regState) },
	DescribeOperation: func(i, o interface{}) string {
		return fmt.Sprintf("%v -> %v", i, o)
	},
}

type histOp struct {
	G    int    `json:"g"`
	Op   string `json:"op"`
	In   int64  `json:"in,omitempty"`
	Out  int64  `json:"out"`
	Fnd  bool   `json:"found"`
	Call int64  `json:"call"`
	Ret  int64  `json:"ret"`
}

type concReplay struct {
	Concurrent string   `json:"concurrent"`
	Round      int      `json:"round"`
	Goroutines int      `json:"goroutines"`
	History    []histOp `json:"history,omitempty"`
}

var tick atomic.Int64

func newStressStore(rng *rand.Rand, plan ...map[int]faultkv.Action) (kvstore.KVStore, kvstore.KVStore) {
	inner := mapdb.NewMapDB()
	var pl map[int]faultkv.Action
	if len(plan) > 0 {
		pl = plan[0]
	}
	in := faultkv.NewInjector(pl, false)
	jit := uint64(rng.Int63()) | 1
	in.Jitter = func(site int64) {
		x := uint64(site)*0x9E3779B97F4A7C15 ^ jit
		x ^= x >> 29
		if x&3 == 0 {
			runtime.Gosched()
		}
	}
	return faultkv.Wrap(inner, in), inner
}

func plainCodec() (kvstore.ObjectToBytes[int64], kvstore.BytesToObject[int64]) {
	return func(v int64) ([]byte, error) { return encV(v), nil }, decV
}

func checkHistory(h []histOp) porcupine.CheckResult {
	ops := make([]porcupine.Operation, len(h))
	for i, e := range h {
		ops[i] = porcupine.Operation{ClientId: e.G, Input: regIn{e.Op, e.In}, Output: regOut{e.Out, e.Fnd}, Call: e.Call, Return: e.Ret}
	}
	return porcupine.CheckOperationsTimeout(regModel, ops, 60*time.Second)
}

func overlaps(h []histOp) int {
	s := append([]histOp(nil), h...)
	sort.Slice(s, func(a, b int) bool { return s[a].Call < s[b].Call })
	maxRet, n := int64(-1), 0
	for _, e := range s {
		if e.Call < maxRet {
			n++
		}
		if e.Ret > maxRet {
			maxRet = e.Ret
		}
	}
	return n
}

func concurrentChild(c *vf.Ctx) {
	race := len(c.ChildArgs) > 0 && c.ChildArgs[0] == "race"
	rng := c.Rand("conc")
	enc, dec := plainCodec()

	// (a) only Compute(+1): final value = number of calls
	roundsA := c.Pick(300, 12000)
	if race {
		roundsA = c.Pick(80, 2500)
	}
	for r := 0; r < roundsA; r++ {
		g := 2 + rng.Intn(7)
		calls := 50 + rng.Intn(150)
		st, inner := newStressStore(rng)
		tv := kvstore.NewTypedValue[int64](st, tvKey, enc, dec)
		results := make([][]int64, g)
		var wg sync.WaitGroup
		var errs atomic.Int64
		start := make(chan struct{})
		for gi := 0; gi < g; gi++ {
			wg.Add(1)
			go func(gi int) {
				defer wg.Done()
				<-start
				for k := 0; k < calls; k++ {
					v, err := tv.Compute(func(cur int64, ex bool) (int64, error) {
						if !ex {
							return 1, nil
						}
						return cur + 1, nil
					})
					if err != nil {
						errs.Add(1)
						continue
					}
					results[gi] = append(results[gi], v)
				}
			}(gi)
		}
		close(start)
		wg.Wait()
		total := int64(g * calls)
		rep := concReplay{Concurrent: "compute-only", Round: r, Goroutines: g}
		if errs.Load() > 0 {
			c.Violation("concurrent/Compute-unexpected-error", fmt.Sprintf("round %d: Compute failed on a healthy store", r), rep)
		}
		final, ferr := tv.Get()
		rawB, _ := inner.Get(tvKey)
		rawV, _, rerr := decV(rawB)
		if ferr != nil || final != total || rerr != nil || rawV != total {
			c.Violation("concurrent/Compute-lost-update", fmt.Sprintf("round %d: %d goroutines x %d Compute(+1) calls: Get()=%d (err %v), raw store=%d, expected %d", r, g, calls, final, ferr, rawV, total), rep)
		}
		seen := map[int64]bool{}
		dup := false
		for gi := range results {
			for k, v := range results[gi] {
				if seen[v] || (k > 0 && v <= results[gi][k-1]) {
					dup = true
				}
				seen[v] = true
			}
		}
		if dup {
			c.Violation("concurrent/Compute-duplicate-result", fmt.Sprintf("round %d: two Compute(+1) calls returned the same new value (or a goroutine saw the counter go back)", r), rep)
		}
		c.Count("compute_only_calls", int(total))
		c.Count("evaluations", int(total))
	}
	c.Count("compute_only_rounds", roundsA)

	// (b) mixed operations, porcupine register model
	roundsB := c.Pick(2000, 100000)
	if race {
		roundsB = c.Pick(400, 12000)
	}
	kinds := []string{"cinc", "cinc", "cinc", "set", "set", "del", "get", "get", "has", "cnc"}
	for r := 0; r < roundsB; r++ {
		g := 2 + rng.Intn(7)
		per := 4 + rng.Intn(9)
		// every third round the store fails seeded calls (before applying them): such an operation must
		// report the failure and - as far as every other operation can tell - not have happened
		var plan map[int]faultkv.Action
		if r%3 == 2 {
			plan = map[int]faultkv.Action{}
			for s := 1; s <= 3*g*per; s++ {
				if rng.Intn(6) == 0 {
					plan[s] = faultkv.Fail
				}
			}
		}
		st, inner := newStressStore(rng, plan)
		if rng.Intn(2) == 0 {
			inner.Set(tvKey, encV(7))
		}
		initial, initialHas := int64(0), false
		if b, err := inner.Get(tvKey); err == nil {
			initial, _, _ = decV(b)
			initialHas = true
		}
		tv := kvstore.NewTypedValue[int64](st, tvKey, enc, dec)
		plans := make([][]regIn, g)
		for gi := range plans {
			for k := 0; k < per; k++ {
				in := regIn{Op: kinds[rng.Intn(len(kinds))]}
				if in.Op == "set" {
					in.V = int64((gi+1)*1000000 + k*1000)
				}
				plans[gi] = append(plans[gi], in)
			}
		}
		hist := make([][]histOp, g)
		var wg sync.WaitGroup
		var errs atomic.Int64
		var errTxt atomic.Value
		var injected atomic.Int64
		start := make(chan struct{})
		for gi := 0; gi < g; gi++ {
			wg.Add(1)
			go func(gi int) {
				defer wg.Done()
				<-start
				for _, in := range plans[gi] {
					e := histOp{G: gi, Op: in.Op, In: in.V}
					var err error
					e.Call = tick.Add(1)
					switch in.Op {
					case "set":
						err = tv.Set(in.V)
					case "del":
						err = tv.Delete()
					case "get":
						e.Out, err = tv.Get()
						e.Fnd = err == nil
						if errors.Is(err, kvstore.ErrKeyNotFound) {
							err = nil
						}
					case "has":
						e.Fnd, err = tv.Has()
					case "cinc":
						e.Out, err = tv.Compute(func(cur int64, ex bool) (int64, error) {
							if !ex {
								return 1, nil
							}
							return cur + 1, nil
						})
					case "cnc":
						e.Out, err = tv.Compute(func(cur int64, ex bool) (int64, error) {
							return 0, kvstore.ErrTypedValueNotChanged
						})
					}
					e.Ret = tick.Add(1)
					if err != nil && plan != nil && errors.Is(err, faultkv.ErrInjected) {
						injected.Add(1)
						continue
					}
					if err != nil {
						errs.Add(1)
						errTxt.Store(in.Op + ": " + err.Error())
						continue
					}
					hist[gi] = append(hist[gi], e)
				}
			}(gi)
		}
		close(start)
		wg.Wait()
		// the initial state enters the history as a completed write
		var h []histOp
		if initialHas {
			h = append(h, histOp{G: g, Op: "set", In: initial, Call: -2, Ret: -1})
		}
		for gi := range hist {
			h = append(h, hist[gi]...)
		}
		// final reads: through the TypedValue (cache) and from the raw store
		e := histOp{G: g, Op: "get", Call: tick.Add(1)}
		var gerr error
		e.Out, gerr = tv.Get()
		e.Fnd = gerr == nil
		e.Ret = tick.Add(1)
		if gerr == nil || errors.Is(gerr, kvstore.ErrKeyNotFound) {
			h = append(h, e)
		} else if !errors.Is(gerr, faultkv.ErrInjected) {
			errs.Add(1)
			errTxt.Store("final get: " + gerr.Error())
		}
		c.Count("mixed_injected_store_failures", int(injected.Load()))
		if plan != nil {
			c.Count("mixed_rounds_with_failing_store", 1)
		}
		e2 := histOp{G: g, Op: "rawget", Call: tick.Add(1)}
		if b, err := inner.Get(tvKey); err == nil {
			e2.Out, _, err = decV(b)
			e2.Fnd = err == nil
		}
		e2.Ret = tick.Add(1)
		h = append(h, e2)

		rep := concReplay{Concurrent: "mixed", Round: r, Goroutines: g, History: h}
		if errs.Load() > 0 {
			c.Violation("concurrent/unexpected-error", fmt.Sprintf("round %d: an operation failed on a healthy store: %v", r, errTxt.Load()), rep)
		}
		switch checkHistory(h) {
		case porcupine.Illegal:
			c.Violation("concurrent/not-linearizable", fmt.Sprintf("round %d: history of %d operations by %d goroutines on one TypedValue has no linearization under the register model (lost update or a read of a value that was never written)", r, len(h), g), rep)
		case porcupine.Unknown:
			c.Count("porcupine_undecided", 1)
		}
		c.Count("mixed_ops", len(h))
		c.Count("evaluations", len(h))
		c.Count("overlapping_ops", overlaps(h))
		c.DistinctHash("concurrent_shapes", uint64(g*100+per))
	}
	c.Count("mixed_rounds", roundsB)

	gatedPart(c, race)
}

// ---------------------------------------------------------------- gated windows with failing writes
//
// Scripted two-party schedules on one TypedValue: a reader's operation (Get, Has, Compute) is
// PARKED inside its first store read (the store wrapper of the harness holds the call), a
// writer then runs 1-4 operations of which seeded ones fail in the store (Set/Delete/Get
// refused before being applied), the reader is released, everything completes, and Get/Has
// through the TypedValue plus a raw read close the history. Whether the writer can run while
// the read is parked (it cannot when the read happens under the object's lock, it can when it
// happens outside) is observed structurally (gdump actor: returned or parked) and is NOT part
// of any verdict. Verdicts: a refused store call must surface as an error carrying the
// injected failure, and the history of all operations that did not fail must be linearizable
// under the register model - a failed write is treated as not having happened, which is what
// the unchanged code guarantees (store refused it, cache untouched).

type gatePlan struct {
	parkRead  atomic.Int32 // 1: the next store read parks before it reads, 2: after it has read (its result is then as old as the park is long)
	failWrite atomic.Bool
	failRead  atomic.Bool
	fired     atomic.Int64
}

type gateKV struct {
	kvstore.KVStore
	plans   map[uint64]*gatePlan // by goroutine id; fixed after construction
	parked  chan struct{}
	release chan struct{}
}

func (g *gateKV) read(p *gatePlan) error {
	if p == nil {
		return nil
	}
	if p.parkRead.CompareAndSwap(1, 0) {
		g.parked <- struct{}{}
		<-g.release
	}
	if p.failRead.CompareAndSwap(true, false) {
		p.fired.Add(1)
		return fmt.Errorf("%w (gated store read)", faultkv.ErrInjected)
	}
	return nil
}

func (g *gateKV) afterRead(p *gatePlan) {
	if p != nil && p.parkRead.CompareAndSwap(2, 0) {
		g.parked <- struct{}{}
		<-g.release
	}
}

func (g *gateKV) write() error {
	p := g.plans[gdump.GoID()]
	if p != nil && p.failWrite.CompareAndSwap(true, false) {
		p.fired.Add(1)
		return fmt.Errorf("%w (gated store write)", faultkv.ErrInjected)
	}
	return nil
}

func (g *gateKV) Get(k kvstore.Key) (kvstore.Value, error) {
	p := g.plans[gdump.GoID()]
	if err := g.read(p); err != nil {
		return nil, err
	}
	v, err := g.KVStore.Get(k)
	g.afterRead(p)
	return v, err
}
func (g *gateKV) Has(k kvstore.Key) (bool, error) {
	p := g.plans[gdump.GoID()]
	if err := g.read(p); err != nil {
		return false, err
	}
	h, err := g.KVStore.Has(k)
	g.afterRead(p)
	return h, err
}
func (g *gateKV) Set(k kvstore.Key, v kvstore.Value) error {
	if err := g.write(); err != nil {
		return err
	}
	return g.KVStore.Set(k, v)
}
func (g *gateKV) Delete(k kvstore.Key) error {
	if err := g.write(); err != nil {
		return err
	}
	return g.KVStore.Delete(k)
}

type gatedOp struct {
	Op   string `json:"op"` // get has set del cinc cnc
	V    int64  `json:"v,omitempty"`
	Fail string `json:"fail,omitempty"` // "w": the store refuses this operation's write; "r": its read
}

type gatedEp struct {
	After bool      `json:"park_after_read,omitempty"` // the store read is held after it has read (else before)
	R     gatedOp   `json:"parked"`
	W     []gatedOp `json:"writer"`
}

type gatedScn struct {
	Init     bool      `json:"init_present"`
	Pre      string    `json:"pre,omitempty"` // operation run before the episodes (decides what is cached): "" has get cnc
	Episodes []gatedEp `json:"episodes"`
}

func genGated(rng *rand.Rand) gatedScn {
	sc := gatedScn{Init: rng.Intn(2) == 0, Pre: []string{"", "", "", "has", "get", "cnc"}[rng.Intn(6)]}
	val := int64(1000)
	wop := func() gatedOp {
		val += 1000
		switch rng.Intn(10) {
		case 0, 1:
			return gatedOp{Op: "set", V: val}
		case 2, 3:
			return gatedOp{Op: "set", V: val, Fail: "w"}
		case 4:
			return gatedOp{Op: "del"}
		case 5:
			return gatedOp{Op: "del", Fail: "w"}
		case 6:
			return gatedOp{Op: "cinc"}
		case 7:
			return gatedOp{Op: "cinc", Fail: []string{"w", "w", "r"}[rng.Intn(3)]}
		case 8:
			return gatedOp{Op: "get"}
		}
		return gatedOp{Op: "has"}
	}
	n := 1 + rng.Intn(2)
	for i := 0; i < n; i++ {
		ep := gatedEp{R: gatedOp{Op: []string{"get", "get", "get", "has", "cnc", "cinc"}[rng.Intn(6)]}}
		ep.After = rng.Intn(3) != 0
		if ep.R.Op == "cinc" && rng.Intn(3) == 0 {
			ep.R.Fail = "w"
		}
		m := 1 + rng.Intn(4)
		for j := 0; j < m; j++ {
			ep.W = append(ep.W, wop())
		}
		sc.Episodes = append(sc.Episodes, ep)
	}
	return sc
}

type gatedRun struct {
	c    *vf.Ctx
	tv   *kvstore.TypedValue[int64]
	g    *gateKV
	mu   sync.Mutex
	hist []histOp
	bad  []violation
}

func (gr *gatedRun) do(gi int, o gatedOp) {
	p := gr.g.plans[gdump.GoID()]
	var f0 int64
	if p != nil {
		f0 = p.fired.Load()
		p.failWrite.Store(o.Fail == "w")
		p.failRead.Store(o.Fail == "r")
	}
	e := histOp{G: gi, Op: o.Op, In: o.V}
	var err error
	e.Call = tick.Add(1)
	switch o.Op {
	case "set":
		err = gr.tv.Set(o.V)
	case "del":
		err = gr.tv.Delete()
	case "get":
		e.Out, err = gr.tv.Get()
		e.Fnd = err == nil
		if errors.Is(err, kvstore.ErrKeyNotFound) && !errors.Is(err, faultkv.ErrInjected) {
			err = nil
		}
	case "has":
		e.Fnd, err = gr.tv.Has()
	case "cinc":
		e.Out, err = gr.tv.Compute(func(cur int64, ex bool) (int64, error) {
			if !ex {
				return 1, nil
			}
			return cur + 1, nil
		})
	case "cnc":
		e.Out, err = gr.tv.Compute(func(cur int64, ex bool) (int64, error) {
			return 0, kvstore.ErrTypedValueNotChanged
		})
	}
	e.Ret = tick.Add(1)
	fired := false
	if p != nil {
		fired = p.fired.Load() > f0
		p.failWrite.Store(false)
		p.failRead.Store(false)
	}
	gr.mu.Lock()
	defer gr.mu.Unlock()
	switch {
	case fired && err == nil:
		gr.bad = append(gr.bad, violation{"concurrent/gated/" + o.Op + "/error-not-reported", "the store refused a call of " + o.Op + " but the operation returned nil"})
	case fired && !errors.Is(err, faultkv.ErrInjected):
		gr.bad = append(gr.bad, violation{"concurrent/gated/" + o.Op + "/wrong-error", "the store refused a call of " + o.Op + " but the returned error does not carry that failure: " + errStr(err)})
	case fired:
		gr.c.Count("gated_refused_operations", 1) // reported; must not have had any effect
	case err != nil:
		gr.bad = append(gr.bad, violation{"concurrent/gated/" + o.Op + "/unexpected-error", o.Op + " failed on a healthy store: " + errStr(err)})
	default:
		gr.hist = append(gr.hist, e)
	}
}

func gatedPart(c *vf.Ctx, race bool) {
	rng := c.Rand("gated")
	rounds := c.Pick(2500, 60000)
	if race {
		rounds = c.Pick(500, 8000)
	}
	enc, dec := plainCodec()
	R, W := gdump.NewActor("parked-reader"), gdump.NewActor("writer")
	for r := 0; r < rounds; r++ {
		sc := genGated(rng)
		inner := mapdb.NewMapDB()
		g := &gateKV{KVStore: inner, plans: map[uint64]*gatePlan{R.ID(): {}, W.ID(): {}}}
		gr := &gatedRun{c: c, g: g}
		if sc.Init {
			inner.Set(tvKey, encV(7))
			gr.hist = append(gr.hist, histOp{G: 3, Op: "set", In: 7, Call: -2, Ret: -1})
		}
		gr.tv = kvstore.NewTypedValue[int64](g, tvKey, enc, dec)
		if sc.Pre != "" {
			gr.do(2, gatedOp{Op: sc.Pre})
		}
		stuck := false
		for _, ep := range sc.Episodes {
			g.parked = make(chan struct{}, 1)
			g.release = make(chan struct{})
			rp := g.plans[R.ID()]
			rp.parkRead.Store(1)
			if ep.After {
				rp.parkRead.Store(2)
			}
			rdone := make(chan struct{})
			R.Start(func() { gr.do(0, ep.R); close(rdone) })
			parked := false
			select {
			case <-g.parked:
				parked = true
			case <-rdone:
			}
			rp.parkRead.Store(0)
			ws := W.Do(func() {
				for _, o := range ep.W {
					gr.do(1, o)
				}
			})
			if parked {
				c.Count("gated_parked_reads", 1)
				if ws == gdump.Blocked {
					c.Count("gated_writer_waited_for_the_parked_read", 1)
				} else {
					c.Count("gated_writer_ran_inside_the_parked_read", 1)
				}
				close(g.release)
			}
			if R.Settle() == gdump.Blocked || W.Settle() == gdump.Blocked {
				stuck = true
				break
			}
		}
		if stuck {
			c.Inconclusive("gated scenario: an operation stayed parked after the held store read was released")
			return
		}
		gr.do(2, gatedOp{Op: "get"})
		gr.do(2, gatedOp{Op: "has"})
		e2 := histOp{G: 2, Op: "rawget", Call: tick.Add(1)}
		if b, err := inner.Get(tvKey); err == nil {
			e2.Out, _, err = decV(b)
			e2.Fnd = err == nil
		}
		e2.Ret = tick.Add(1)
		gr.hist = append(gr.hist, e2)

		rep := map[string]any{"concurrent": "gated", "round": r, "scenario": sc, "history": gr.hist}
		for _, b := range gr.bad {
			c.Violation(b.fp, fmt.Sprintf("gated round %d: %s", r, b.what), rep)
		}
		switch checkHistory(gr.hist) {
		case porcupine.Illegal:
			c.Violation("concurrent/gated/not-linearizable", fmt.Sprintf("gated round %d: a store read of one operation was held while another goroutine's writes (some refused by the store) were issued; the %d operations that did not fail, closed by Get/Has and a raw read after everything had returned, have no linearization under the register model (a successfully written value was lost, or a refused write took effect)", r, len(gr.hist)), rep)
		case porcupine.Unknown:
			c.Count("porcupine_undecided", 1)
		}
		c.Count("gated_ops", len(gr.hist))
		c.Count("evaluations", len(gr.hist))
		c.DistinctHash("gated_scenarios", caseHashAny(sc))
	}
	c.Count("gated_rounds", rounds)
	R.Close()
	W.Close()
}

func caseHashAny(v any) uint64 {
	h := fnv.New64a()
	fmt.Fprintf(h, "%v", v)
	return h.Sum64()
}

func child(c *vf.Ctx) {
	switch c.Child {
	case "conc":
		concurrentChild(c)
	case "disc":
		discChild(c)
	}
}

// ---------------------------------------------------------------- main

func replay(c *vf.Ctx) {
	var probe struct {
		Concurrent string `json:"concurrent"`
		Report     string `json:"report"`
		Disc       string `json:"disc"`
	}
	c.LoadReplay(&probe)
	if probe.Disc != "" {
		discReplay(c)
		return
	}
	if probe.Report != "" {
		fmt.Fprintln(os.Stderr, "race reports are re-produced by re-running the check with the recorded seed")
		os.Exit(3)
	}
	if probe.Concurrent != "" {
		var cr concReplay
		c.LoadReplay(&cr)
		c.Count("evaluations", 1)
		if len(cr.History) > 0 && checkHistory(cr.History) == porcupine.Illegal {
			c.Violation("concurrent/not-linearizable", "recorded history has no linearization under the register model", cr)
		} else if len(cr.History) == 0 {
			fmt.Fprintln(os.Stderr, "compute-only rounds are schedule dependent: re-run the check with the recorded seed")
			os.Exit(3)
		}
		return
	}
	var cr caseRec
	if err := c.LoadReplay(&cr); err != nil {
		fmt.Fprintln(os.Stderr, err)
		os.Exit(3)
	}
	r := runCase(cr, true)
	c.Count("evaluations", 1)
	for _, l := range r.trace {
		fmt.Fprintln(os.Stderr, "  ", l)
	}
	if r.viol != nil {
		cr.Trace, cr.Kinds = r.trace, r.kinds
		c.Violation(r.viol.fp, r.viol.what, cr)
	}
}

func run(c *vf.Ctx) {
	if c.Replay != "" {
		replay(c)
		return
	}
	c.SetRule("sequential: a history (TypedValue: all of length <= 4 (quick) / 5 (thorough) plus seeded ones of length 1-8; TypedStore: seeded, length 1-8 over every exported method (Get, Has, Set, Delete, Iterate, IterateKeys, DeletePrefix, Clear, KVStore) plus raw writes behind the typed layer, three keys sharing prefixes, raw entries absent/present/undecodable value/undecodable key/both) is run fault-free to learn its N fallible sites (store calls and codec calls in one numbering), then N times with site i failing (plus seeded pairs of sites); one evaluation = one such run; distinct_nontrivial = distinct (history, failing site) in which the fault actually fired; fault_contexts = distinct (method, kind of failing site). views: the same histories with the typed object built on a KVStore other than a bare root store - a stack of {fault injector, flush-on-write wrapper, debug wrapper} over one root mapdb with a chain of 0-4 WithRealm/WithExtendedRealm calls applied at any level of the stack (realm pieces are prefixes of / equal to the encoded keys, unrelated, a zero byte, empty), the root store also holding entries outside the realm; a fixed matrix (10 realm chains x 7 stacks x every level, every single TypedStore operation incl. every prefix/direction/stop, all TypedValue histories of length <= 2) plus seeded ones; after every step the WHOLE root store is compared with model + outside entries; view_shapes = distinct (stack, level, chain). sentinels: compute functions also abort with ErrTypedValueNotChanged wrapped five ways (fmt %w, ierrors.Wrap, errors.Join either side, nested) - to be treated as the bare sentinel (errors.Is semantics) - or fail with an error that also wraps ErrKeyNotFound; a store layer that reports absence as a wrapped ErrKeyNotFound; every injected codec/store failure optionally also wraps ErrKeyNotFound or ErrTypedValueNotChanged (never on a store Get, where ErrKeyNotFound means absent) and must still be reported and change nothing. concurrent: one evaluation = one operation executed while 2-8 goroutines share one TypedValue (every third mixed round over a store that refuses seeded calls; a refused operation must report it and is left out of the history); gated: one operation is parked inside its first store read (before or after the read) while a second goroutine issues 1-4 operations some of which the store refuses, 1-2 such episodes, closed by Get/Has/raw read - the non-failed operations must be linearizable")
	discDone := make(chan struct{})
	go func() { // the disciplines child (two goroutines) runs next to the sequential part
		defer close(discDone)
		discPart(c)
	}()
	sequentialPart(c)
	c.SetExhaustive(false)
	<-discDone
	for _, race := range []bool{false, true} {
		args := []string{"plain"}
		if race {
			args = []string{"race"}
		}
		res := c.RunChild(vf.ChildOpts{Name: "conc", Args: args, Race: race, Timeout: 12 * time.Minute})
		if res.TimedOut {
			c.Inconclusive("concurrent child watchdog fired (" + args[0] + ")")
		} else if res.ExitCode != 0 {
			if res.Fatal != "" && !strings.HasPrefix(res.Fatal, "start:") {
				c.Violation("concurrent/fatal", "concurrent child died: "+res.Fatal, map[string]any{"concurrent": "fatal", "stderr": tail(res.Stderr, 4000)})
			} else {
				c.Inconclusive(fmt.Sprintf("concurrent child (%s) exit code %d", args[0], res.ExitCode))
			}
		}
		if race {
			c.Count("race_children", 1)
			c.ReportRaces(res.Races, "hive.go/kvstore")
		}
	}
	if c.Get("porcupine_undecided") > 0 {
		c.Inconclusive("porcupine timed out on some histories")
	}
	c.Require("evaluations", 20000)
	c.Require("nontrivial", 10000)
	c.Require("fault_contexts", 31) // + IterateKeys@{store.IterateKeys, dec.key}, DeletePrefix@store.DeletePrefix, Clear@store.Clear
	c.Require("keys_only_ops", 10000)
	c.Require("zero_length_encodings_written", 1000)
	c.Require("noop_writes_same_bytes", 1000)
	c.Require("view_histories_nonempty_realm", 10000)
	c.Require("view_histories_with_entries_outside_the_realm", 8000)
	c.Require("view_histories_over_flush_or_debug_wrapper", 5000)
	c.Require("view_steps_nonempty_realm", 100000)
	c.Require("view_shapes", 200)
	for _, m := range []string{"TypedStore.Clear", "TypedStore.DeletePrefix", "TypedStore.Iterate", "TypedStore.IterateKeys", "TypedStore.Get", "TypedStore.Has", "TypedStore.Set", "TypedStore.Delete",
		"TypedValue.Get", "TypedValue.Has", "TypedValue.Set", "TypedValue.Delete", "TypedValue.Compute(inc)"} {
		c.Require("viewop:"+m, 1000)
	}
	c.Require("sentinel_wrapped_not_changed_computes", 10000)
	c.Require("sentinel_wrapped_not_found_lookups", 5000)
	c.Require("sentinel_flavored_fault_runs", 5000)
	c.Require("compute_only_calls", 10000)
	c.Require("mixed_ops", 5000)
	c.Require("overlapping_ops", 1000)
	c.Require("gated_parked_reads", 2000)
	c.Require("gated_refused_operations", 1500)
	c.Require("gated_scenarios", 1500)
	c.Require("mixed_injected_store_failures", 500)
	c.Require("race_children", 1)
	c.Assume("mapdb's realm views (WithRealm) address exactly the root keys that start with the realm; they serve as the reference access to the realm of a view")
	c.Assume("mapdb itself never fails and applies each call atomically; faultkv fails a store call before applying it")
	c.Assume("porcupine v1.3.0 decides linearizability of the recorded histories correctly; ticks come from one atomic counter")
}

func tail(s string, n int) string {
	if len(s) > n {
		return s[len(s)-n:]
	}
	return s
}

func main() { vf.Main("C06", "fault_enumeration", run, child) }
