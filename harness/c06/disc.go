// C06 – three workload disciplines (harness/DISCIPLINES.md) applied to every exported
// entry point of TypedValue / TypedStore. Everything here runs in ONE plain-build,
// timer-free child ("disc"): every history runs on a gdump actor, so that "the next call
// never returns" is decided structurally (actor parked on a sync primitive with nothing
// else runnable), never by a stop-watch.
//
//  1. Caller-owned memory. Codecs encode every key / value into ONE scratch buffer that is
//     overwritten right after each operation; V = []byte (identity codec: the encoder hands
//     the caller's slice on, the decoder hands the store's slice on) and V = *obj (decoder
//     allocating, or decoding into ONE reused object); K = string / []byte (identity).
//     Arguments must be unchanged by the call, the caller recycles ONE argument object for
//     consecutive writes and scribbles arguments, results, objects handed to its compute
//     function / iteration consumer (overwrite, append within capacity); held results are
//     re-checked against a deep copy for the next steps. The raw store is compared with the
//     model after every step (bytes = encoding of the value AT THE TIME of the last
//     successful write). A typed result that shares memory with an object the caller
//     scribbled since it last handed it over is not content-checked (TypedValue caches the
//     caller's object by design - nothing more is demanded).
//  2. Re-entrant user code. Iteration consumers and codecs of a TypedStore call back into
//     the SAME TypedStore (visited / neighbour / unrelated key, delete-then-insert, nested
//     iteration, DeletePrefix, Clear); oracle = the same program run on a raw twin store
//     under the reference codec (event log and final content must agree). Compute functions,
//     codecs and the store below a TypedValue run under that TypedValue's lock on the
//     unchanged tree: calls back into the same TypedValue self-dead-lock there (established
//     per entry point x site x call, evidence only, never demanded); what is demanded is
//     what returns on the unchanged tree: KVStore(), sibling TypedValues / a TypedStore /
//     raw access on the same store.
//  3. Failing / panicking user code, then further use. Every fallible site (compute
//     function, codecs, store calls below) fails or PANICS (recovered by the caller), the
//     iteration consumer panics at a delivery; then the same object is used by the rest of
//     the history: the next call returns (structural), state = model in which the failed
//     operation did nothing.
package main

import (
	"bytes"
	"encoding/json"
	"errors"
	"fmt"
	"io"
	"math/rand"
	"os"
	"runtime"
	"sort"
	"strings"
	"sync"
	"time"
	"unsafe"

	"github.com/iotaledger/hive.go/kvstore"
	"github.com/iotaledger/hive.go/kvstore/mapdb"
	"verif/harness/internal/faultkv"
	"verif/harness/internal/gdump"
	"verif/harness/internal/vf"
)

// ---------------------------------------------------------------- case description

// rop is one call made by user code that the library invoked (re-entrancy).
type rop struct {
	K      string `json:"k"` // value target (sibling objects on the same store): sget sset sdel scinc | kget kset (raw, via KVStore()) | tget tset titer (a TypedStore on the same store); store target (the SAME TypedStore): get has set del delins iter iterk delp clear
	Key    string `json:"key,omitempty"`
	V      int64  `json:"v,omitempty"`
	Prefix string `json:"prefix,omitempty"`
}

const (
	memScribResult = 1 << iota // the caller scribbles the result(s) of this call afterwards
	memRecycleArg              // the caller re-uses the object it passed to the previous write as this call's argument
	memScribArg                // the caller scribbles the argument after the call returned
	memInPlace                 // the compute function updates the object it was handed in place and returns it
	memScribInCb               // the iteration consumer scribbles (overwrites + appends within capacity) what it is handed
)

type dop struct {
	K      string `json:"k"` // value: get has set del cinc cnc cfail cpanic cconst kvs | store: get has set del iter iterk delp clear kvs
	Key    string `json:"key,omitempty"`
	V      int64  `json:"v,omitempty"`
	Prefix string `json:"prefix,omitempty"`
	Stop   int    `json:"stop,omitempty"`
	Back   bool   `json:"back,omitempty"`
	Mem    int    `json:"mem,omitempty"`
	Re     []rop  `json:"re,omitempty"`   // calls made by the user code invoked inside this operation
	At     int    `json:"at,omitempty"`   // iteration: delivery (1-based) at which Re runs / the consumer panics
	Site   string `json:"site,omitempty"` // "" = Re runs in the compute function / consumer; else in the first codec / store call of this kind inside the operation
	Pan    bool   `json:"pan,omitempty"`  // iteration: the consumer panics at delivery At (after Re)
}

type discRec struct {
	Disc    string    `json:"disc"`            // value | store
	VK      string    `json:"vk"`              // int | bytes | ptr | ptrreuse
	KK      string    `json:"kk,omitempty"`    // store: str | bytes
	Codec   string    `json:"codec,omitempty"` // "" fixed | varlen
	Fresh   bool      `json:"fresh,omitempty"` // codecs allocate per call (no scratch buffer): needed where a codec itself re-enters the typed store
	Init    []initEnt `json:"init"`
	Ops     []dop     `json:"ops"`
	Fault   int       `json:"fault,omitempty"` // 1-based fallible site
	Act     string    `json:"act,omitempty"`   // fail | panic | panic-after
	Kinds   []string  `json:"kinds,omitempty"`
	Trace   []string  `json:"trace,omitempty"`
	Blocked string    `json:"blocked,omitempty"` // informational: where the run was parked
}

type userPanic struct{ where string }

func (u *userPanic) Error() string { return "harness: user code panics in " + u.where }

// ---------------------------------------------------------------- value kinds

type span struct {
	lo, hi uintptr
	keep   any
}

func (a span) overlaps(b span) bool { return a.lo != 0 && b.lo != 0 && a.lo < b.hi && b.lo < a.hi }

type obj struct {
	N   int64
	Pad int64
}

// vops is what the harness needs to know about a value type V of the typed layer.
type vops[V any] interface {
	ref() bool                    // reference type: a result may share memory with objects of the caller
	mk(n int64) V                 // a fresh value standing for n
	num(v V) (int64, bool)        // the number v stands for now
	enc(v V) []byte               // library-facing encoder body
	dec(b []byte) (V, int, error) // library-facing decoder body
	scribble(v V)                 // the caller overwrites the memory of v
	recycle(old V, n int64) V     // the caller re-uses old's memory for n
	span(v V) span
	reused(v V) bool // v is the object the decoder re-uses
	poison()         // the codec's scratch memory is used for something else
}

type scratchBuf struct {
	fresh bool
	buf   []byte
}

func (s *scratchBuf) put(b []byte) []byte {
	if s.fresh {
		return append(make([]byte, 0, len(b)+3), b...)
	}
	if s.buf == nil {
		s.buf = make([]byte, 0, 16)
	}
	s.buf = append(s.buf[:0], b...)
	return s.buf
}

func (s *scratchBuf) poison() {
	if s.buf != nil {
		b := s.buf[:cap(s.buf)]
		for i := range b {
			b[i] = 0xEE
		}
	}
}

type intOps struct {
	cd valueCodec
	sc scratchBuf
}

func (o *intOps) ref() bool                        { return false }
func (o *intOps) mk(n int64) int64                 { return n }
func (o *intOps) num(v int64) (int64, bool)        { return v, true }
func (o *intOps) enc(v int64) []byte               { return o.sc.put(o.cd.enc(v)) }
func (o *intOps) dec(b []byte) (int64, int, error) { return o.cd.dec(b) }
func (o *intOps) scribble(int64)                   {}
func (o *intOps) recycle(_ int64, n int64) int64   { return n }
func (o *intOps) span(int64) span                  { return span{} }
func (o *intOps) reused(int64) bool                { return false }
func (o *intOps) poison()                          { o.sc.poison() }

type bytesOps struct{ cd valueCodec }

func (o *bytesOps) ref() bool { return true }
func (o *bytesOps) mk(n int64) []byte {
	return append(make([]byte, 0, 12), o.cd.enc(n)...)
}
func (o *bytesOps) num(v []byte) (int64, bool) {
	if v == nil {
		return 0, false
	}
	n, _, err := o.cd.dec(v)
	return n, err == nil
}
func (o *bytesOps) enc(v []byte) []byte { return v }
func (o *bytesOps) dec(b []byte) ([]byte, int, error) {
	if _, _, err := o.cd.dec(b); err != nil {
		return nil, 0, err
	}
	if b == nil {
		b = []byte{}
	}
	return b, len(b), nil
}
func (o *bytesOps) scribble(v []byte) {
	for i := range v {
		v[i] ^= 0xA5
	}
	w := v[:cap(v)]
	for i := len(v); i < len(w); i++ { // what append(v, ...) within capacity writes
		w[i] = 0xAB
	}
}
func (o *bytesOps) recycle(old []byte, n int64) []byte {
	if old == nil {
		return o.mk(n)
	}
	return append(old[:0], o.cd.enc(n)...)
}
func (o *bytesOps) span(v []byte) span {
	if cap(v) == 0 {
		return span{}
	}
	p := uintptr(unsafe.Pointer(unsafe.SliceData(v)))
	return span{p, p + uintptr(cap(v)), v}
}
func (o *bytesOps) reused([]byte) bool { return false }
func (o *bytesOps) poison()            {}

type ptrOps struct {
	cd    valueCodec
	sc    scratchBuf
	reuse bool
	one   *obj
}

func (o *ptrOps) ref() bool       { return true }
func (o *ptrOps) mk(n int64) *obj { return &obj{N: n} }
func (o *ptrOps) num(v *obj) (int64, bool) {
	if v == nil {
		return 0, false
	}
	return v.N, true
}
func (o *ptrOps) enc(v *obj) []byte { return o.sc.put(o.cd.enc(v.N)) }
func (o *ptrOps) dec(b []byte) (*obj, int, error) {
	n, c, err := o.cd.dec(b)
	if err != nil {
		return nil, 0, err
	}
	if o.reuse {
		if o.one == nil {
			o.one = &obj{}
		}
		o.one.N = n
		return o.one, c, nil
	}
	return &obj{N: n}, c, nil
}
func (o *ptrOps) scribble(v *obj) {
	if v != nil {
		v.N ^= 0x5A5A
		v.Pad++
	}
}
func (o *ptrOps) recycle(old *obj, n int64) *obj {
	if old == nil {
		return o.mk(n)
	}
	old.N = n
	return old
}
func (o *ptrOps) span(v *obj) span {
	if v == nil {
		return span{}
	}
	p := uintptr(unsafe.Pointer(v))
	return span{p, p + unsafe.Sizeof(*v), v}
}
func (o *ptrOps) reused(v *obj) bool { return o.reuse && v != nil && v == o.one }
func (o *ptrOps) poison()            { o.sc.poison() }

// kops: the same for key types.
type kops[K any] interface {
	mk(s string) K
	str(k K) string
	enc(k K) ([]byte, error)
	dec(b []byte) (K, int, error)
	scribble(k K)
	poison()
}

type strKeys struct{ sc scratchBuf }

func (o *strKeys) mk(s string) string  { return s }
func (o *strKeys) str(k string) string { return k }
func (o *strKeys) enc(k string) ([]byte, error) {
	b, err := encK(k)
	if err != nil {
		return nil, err
	}
	return o.sc.put(b), nil
}
func (o *strKeys) dec(b []byte) (string, int, error) { return decK(b) }
func (o *strKeys) scribble(string)                   {}
func (o *strKeys) poison()                           { o.sc.poison() }

type bytesKeys struct{}

func (o *bytesKeys) mk(s string) []byte  { return append(make([]byte, 0, len(s)+4), s...) }
func (o *bytesKeys) str(k []byte) string { return string(k) }
func (o *bytesKeys) enc(k []byte) ([]byte, error) {
	if _, err := encK(string(k)); err != nil {
		return nil, err
	}
	return k, nil
}
func (o *bytesKeys) dec(b []byte) ([]byte, int, error) {
	if _, _, err := decK(b); err != nil {
		return nil, 0, err
	}
	return b, len(b), nil
}
func (o *bytesKeys) scribble(k []byte) {
	for i := range k {
		k[i] ^= 0x20
	}
	w := k[:cap(k)]
	for i := len(k); i < len(w); i++ {
		w[i] = '!'
	}
}
func (o *bytesKeys) poison() {}

// ---------------------------------------------------------------- one run

type drun struct {
	dr    discRec
	cd    valueCodec
	in    *faultkv.Injector
	root  kvstore.KVStore
	st    kvstore.KVStore
	model map[string][]byte
	viol  *violation
	trace []string
	want  bool // trace wanted
	ev    map[string]int
	pairs map[string]bool // (where, call) of the re-entrant calls made
	ctx   []string
	dirty []span // memory the caller scribbled since it last handed it to the library
	void  bool   // state no longer judged (panic AFTER a store write was applied): liveness only
	hook  func(kind string)

	// progress, read by the observer while the actor is parked
	mu        sync.Mutex
	step      string // operation in flight
	lastPanic string // "<operation>/panic@<site kind>" of the last recovered panic
	panicked  bool
}

func (r *drun) progress(step string) {
	r.mu.Lock()
	r.step = step
	r.mu.Unlock()
}

func (r *drun) notePanic(where string) {
	r.mu.Lock()
	r.lastPanic = where
	r.panicked = true
	r.mu.Unlock()
}

// hit registers a fallible site of a codec function.
func (r *drun) hit(kind string) error {
	site, act := r.in.Hit(kind)
	switch act {
	case faultkv.Fail:
		return fmt.Errorf("%w at site %d (%s)", faultkv.ErrInjected, site, kind)
	case faultkv.CrashBefore, faultkv.CrashAfter:
		panic(&faultkv.Crash{Site: site, Kind: kind})
	}
	return nil
}

func (r *drun) isDirty(s span) bool {
	for _, d := range r.dirty {
		if d.overlaps(s) {
			return true
		}
	}
	return false
}

// recovered runs f and returns the recovered panic value (nil = none).
func recovered(f func()) (p any) {
	defer func() { p = recover() }()
	f()
	return nil
}

func ourPanic(p any) bool {
	switch p.(type) {
	case *faultkv.Crash, *userPanic:
		return true
	}
	return false
}

func (r *drun) rawDiff() string {
	n := 0
	diff := ""
	r.root.Iterate(kvstore.EmptyPrefix, func(k, v []byte) bool {
		n++
		m, ok := r.model[string(k)]
		if !ok {
			diff = fmt.Sprintf("raw store holds key %q = %x which the model does not", k, v)
			return false
		}
		if !bytes.Equal(m, v) {
			diff = fmt.Sprintf("raw store holds %q = %x, model (encoding of the value at the time of the last successful write) = %x", k, v, m)
			return false
		}
		return true
	})
	if diff == "" && n != len(r.model) {
		for k := range r.model {
			if h, _ := r.root.Has([]byte(k)); !h {
				return fmt.Sprintf("raw store lost key %q that the model holds", k)
			}
		}
	}
	return diff
}

func newRun(dr discRec, trace bool) *drun {
	plan := map[int]faultkv.Action{}
	if dr.Fault > 0 {
		switch dr.Act {
		case "panic":
			plan[dr.Fault] = faultkv.CrashBefore
		case "panic-after":
			plan[dr.Fault] = faultkv.CrashAfter
		default:
			plan[dr.Fault] = faultkv.Fail
		}
	}
	r := &drun{dr: dr, want: trace, ev: map[string]int{}, pairs: map[string]bool{}, model: map[string][]byte{}}
	r.cd = valueCodec{encV, decV}
	if dr.Codec == "varlen" {
		r.cd = valueCodec{encVar, decVar}
	}
	r.in = faultkv.NewInjector(plan, true)
	r.in.Hook = func(site int, kind string) {
		if h := r.hook; h != nil {
			h(kind)
		}
	}
	r.root = mapdb.NewMapDB()
	r.st = faultkv.Wrap(r.root, r.in)
	for _, e := range dr.Init {
		b := r.cd.enc(e.V)
		if e.State == "garbage" {
			b = garbageBytes
		}
		r.root.Set([]byte(e.Key), b)
		r.model[e.Key] = append([]byte(nil), b...)
	}
	return r
}

// execute runs the case on the calling goroutine (the actor).
func (r *drun) execute() {
	cd := r.cd
	switch r.dr.Disc + "/" + r.dr.KK + "/" + r.dr.VK {
	case "value//int":
		runDV[int64](r, &intOps{cd: cd, sc: scratchBuf{fresh: r.dr.Fresh}})
	case "value//bytes":
		runDV[[]byte](r, &bytesOps{cd})
	case "value//ptr":
		runDV[*obj](r, &ptrOps{cd: cd, sc: scratchBuf{fresh: r.dr.Fresh}})
	case "value//ptrreuse":
		runDV[*obj](r, &ptrOps{cd: cd, sc: scratchBuf{fresh: r.dr.Fresh}, reuse: true})
	case "store/str/int":
		runDS[string, int64](r, &strKeys{scratchBuf{fresh: r.dr.Fresh}}, &intOps{cd: cd, sc: scratchBuf{fresh: r.dr.Fresh}})
	case "store/str/bytes":
		runDS[string, []byte](r, &strKeys{scratchBuf{fresh: r.dr.Fresh}}, &bytesOps{cd})
	case "store/str/ptr":
		runDS[string, *obj](r, &strKeys{scratchBuf{fresh: r.dr.Fresh}}, &ptrOps{cd: cd, sc: scratchBuf{fresh: r.dr.Fresh}})
	case "store/str/ptrreuse":
		runDS[string, *obj](r, &strKeys{scratchBuf{fresh: r.dr.Fresh}}, &ptrOps{cd: cd, sc: scratchBuf{fresh: r.dr.Fresh}, reuse: true})
	case "store/bytes/int":
		runDS[[]byte, int64](r, &bytesKeys{}, &intOps{cd: cd, sc: scratchBuf{fresh: r.dr.Fresh}})
	case "store/bytes/bytes":
		runDS[[]byte, []byte](r, &bytesKeys{}, &bytesOps{cd})
	case "store/bytes/ptr":
		runDS[[]byte, *obj](r, &bytesKeys{}, &ptrOps{cd: cd, sc: scratchBuf{fresh: r.dr.Fresh}})
	case "store/bytes/ptrreuse":
		runDS[[]byte, *obj](r, &bytesKeys{}, &ptrOps{cd: cd, sc: scratchBuf{fresh: r.dr.Fresh}, reuse: true})
	default:
		panic("harness: unknown discipline case " + r.dr.Disc + "/" + r.dr.KK + "/" + r.dr.VK)
	}
}

func dopName(target string, o dop) string {
	if o.K == "cpanic" {
		return "TypedValue.Compute(panics)"
	}
	return opName(target, op{K: o.K})
}

type heldV[V any] struct {
	v    V
	n    int64
	age  int
	what string
}

// ---------------------------------------------------------------- TypedValue

func runDV[V any](r *drun, vo vops[V]) {
	cd := r.cd
	encF := func(v V) ([]byte, error) {
		if err := r.hit("enc.value"); err != nil {
			return nil, err
		}
		return vo.enc(v), nil
	}
	decF := func(b []byte) (V, int, error) {
		if err := r.hit("dec.value"); err != nil {
			var z V
			return z, 0, err
		}
		return vo.dec(b)
	}
	tv := kvstore.NewTypedValue[V](r.st, tvKey, encF, decF)
	// sibling objects on the same underlying store, used by re-entrant user code. They are
	// built on the root store with site-free codecs, so the numbering of the fallible sites
	// of the history does not depend on them.
	sibKey := "sib"
	sibKeyOf := func(k string) string { // every kind of sibling object has a key of its own (none of them is written behind another one's back)
		switch k[0] {
		case 'k':
			return "sraw"
		case 't':
			return "st"
		}
		return "sib"
	}
	sib := kvstore.NewTypedValue[int64](r.root, []byte(sibKey), func(v int64) ([]byte, error) { return cd.enc(v), nil }, cd.dec)
	sts := kvstore.NewTypedStore[string, int64](r.root, encK, decK, func(v int64) ([]byte, error) { return cd.enc(v), nil }, cd.dec)

	key := string(tvKey)
	var held []heldV[V]
	var prevArg V
	havePrev := false

	for i, o := range r.dr.Ops {
		name := dopName("value", o)
		r.progress(name)
		mb, exists := r.model[key]
		cur, _, decErr := cd.dec(mb)
		garbage := exists && decErr != nil
		label := "nofault"
		bad := func(cls, what string) {
			if r.viol == nil {
				r.viol = &violation{name + "/" + label + "/" + cls, fmt.Sprintf("step %d %s [%s values] (%s): %s", i, name, r.dr.VK, label, what)}
			}
		}
		// what the new value of a Compute is, decided from the MODEL (never from what the
		// function is handed, which the caller may itself have scribbled)
		want := int64(1)
		if exists {
			want = cur + 1
		}
		if o.K == "cconst" {
			want = o.V
		}

		// re-entrant user code: calls on sibling objects, judged against the model at once
		reRan := false
		runRe := func(where string) {
			if reRan || len(o.Re) == 0 {
				return
			}
			reRan = true
			for _, q := range o.Re {
				r.ev["reentrant_calls:from "+where]++
				r.ev["reentrant_calls:sibling "+q.K]++
				r.pairs["value:"+where+":"+q.K] = true
				sibKey := sibKeyOf(q.K)
				sb, sex := r.model[sibKey]
				sv, _, _ := cd.dec(sb)
				rbad := func(what string) {
					bad("reentrant-call-wrong", fmt.Sprintf("user code running in %s called %s on a sibling object of the same store: %s", where, q.K, what))
				}
				switch q.K {
				case "kvs":
					if tv.KVStore() != r.st {
						rbad("KVStore() does not return the store the TypedValue was built on")
					}
				case "sget":
					v, err := sib.Get()
					if sex != (err == nil) || (sex && v != sv) {
						rbad(fmt.Sprintf("sibling Get = %d, %s; raw key present=%v value=%d", v, errStr(err), sex, sv))
					}
				case "sset":
					if err := sib.Set(q.V); err != nil {
						rbad("sibling Set failed: " + errStr(err))
					}
					r.model[sibKey] = cd.enc(q.V)
				case "sdel":
					if err := sib.Delete(); err != nil {
						rbad("sibling Delete failed: " + errStr(err))
					}
					delete(r.model, sibKey)
				case "scinc":
					w := int64(1)
					if sex {
						w = sv + 1
					}
					v, err := sib.Compute(func(c int64, ex bool) (int64, error) {
						if !ex {
							return 1, nil
						}
						return c + 1, nil
					})
					if err != nil || v != w {
						rbad(fmt.Sprintf("sibling Compute(inc) = %d, %s; expected %d", v, errStr(err), w))
					}
					r.model[sibKey] = cd.enc(w)
				case "kget":
					rb, err := r.root.Get([]byte(sibKey))
					if sex != (err == nil) || (sex && !bytes.Equal(rb, sb)) {
						rbad(fmt.Sprintf("raw Get = %x, %s; model %x present=%v", rb, errStr(err), sb, sex))
					}
				case "kset":
					r.root.Set([]byte(sibKey), cd.enc(q.V))
					r.model[sibKey] = cd.enc(q.V)
				case "tget":
					v, err := sts.Get(sibKey)
					if sex != (err == nil) || (sex && v != sv) {
						rbad(fmt.Sprintf("TypedStore.Get = %d, %s; raw key present=%v value=%d", v, errStr(err), sex, sv))
					}
				case "tset":
					if err := sts.Set(sibKey, q.V); err != nil {
						rbad("TypedStore.Set failed: " + errStr(err))
					}
					r.model[sibKey] = cd.enc(q.V)
				case "titer":
					cnt := 0
					if err := sts.Iterate([]byte("st"), func(string, int64) bool { cnt++; return true }); err != nil {
						rbad("TypedStore.Iterate failed: " + errStr(err))
					}
					if (cnt == 1) != sex {
						rbad(fmt.Sprintf("TypedStore.Iterate delivered %d entries under \"st\", raw key present=%v", cnt, sex))
					}
				}
			}
		}
		r.hook = nil
		if o.Site != "" && len(o.Re) > 0 {
			r.hook = func(kind string) {
				if kind == o.Site {
					runRe(kind)
				}
			}
		}

		// the argument of a write: a fresh object, or the recycled object of the previous write
		var arg V
		var argN int64
		if o.K == "set" {
			if o.Mem&memRecycleArg != 0 && havePrev && vo.ref() {
				arg = vo.recycle(prevArg, o.V)
				r.dirty = append(r.dirty, vo.span(arg)) // the caller wrote into memory it had handed over earlier
				held = dropOverlapping(held, vo, vo.span(arg))
				r.ev["arguments_recycled_for_the_next_write"]++
			} else {
				arg = vo.mk(o.V)
			}
			argN, _ = vo.num(arg)
		}

		f0 := r.in.FiredCount()
		var err error
		var gotV V
		var gotHas bool
		fnCalls := 0
		var fnCur V
		var fnCurN int64
		var fnCurOK, fnExists, fnExempt bool
		var fnNew V
		inPlace := false
		p := recovered(func() {
			switch o.K {
			case "get":
				gotV, err = tv.Get()
			case "has":
				gotHas, err = tv.Has()
			case "set":
				err = tv.Set(arg)
			case "del":
				err = tv.Delete()
			case "kvs":
				if tv.KVStore() != r.st {
					err = errors.New("KVStore() does not return the store the TypedValue was built on")
				}
			case "cinc", "cnc", "cfail", "cconst", "cpanic":
				gotV, err = tv.Compute(func(c V, ex bool) (V, error) {
					fnCalls++
					fnCur, fnExists = c, ex
					fnCurN, fnCurOK = vo.num(c)
					fnExempt = vo.ref() && r.isDirty(vo.span(c))
					var z V
					if o.Site == "" {
						runRe("compute-fn")
					}
					switch o.K {
					case "cnc":
						return z, kvstore.ErrTypedValueNotChanged
					case "cfail":
						return z, errCompute
					case "cpanic":
						panic(&userPanic{"compute-fn"})
					}
					if o.Mem&memInPlace != 0 && vo.ref() && ex && fnCurOK {
						// in-place update of the handed object: the caller's own write into it
						fnNew = vo.recycle(c, want)
						r.dirty = append(r.dirty, vo.span(c), vo.span(fnNew))
						inPlace = true
						r.ev["compute_fn_updates_handed_object_in_place"]++
					} else {
						fnNew = vo.mk(want)
					}
					return fnNew, nil
				})
			}
		})
		r.hook = nil
		if inPlace {
			held = dropOverlapping(held, vo, vo.span(fnCur))
		}
		fired := r.in.Fired()[f0:]
		if len(fired) > 0 {
			label = "fault@" + fired[0].Kind
			if fired[0].Action != faultkv.Fail {
				label = "panic@" + fired[0].Kind
			}
			r.ctx = append(r.ctx, name+"/"+label)
		} else if o.K == "cpanic" && fnCalls > 0 {
			label = "panic@compute-fn"
			r.ctx = append(r.ctx, name+"/"+label)
		}
		if r.want {
			gn, _ := vo.num(gotV)
			r.trace = append(r.trace, fmt.Sprintf("%d %s[%s] mem=%d re=%v -> v=%d has=%v err=%s panic=%v", i, name, label, o.Mem, o.Re, gn, gotHas, errStr(err), p != nil))
		}
		r.ev["steps"]++
		if p != nil {
			if !ourPanic(p) || (len(fired) == 0 && !(o.K == "cpanic" && fnCalls > 0)) {
				bad("panic", fmt.Sprintf("panicked: %v", p))
				return
			}
			r.notePanic(name + "/" + label)
			r.ev["recovered_panics_followed_by_further_use"]++
		}
		// arguments are the caller's: the call itself must not have changed them
		if o.K == "set" && vo.ref() {
			if n, ok := vo.num(arg); !ok || n != argN {
				bad("argument-changed-by-call", fmt.Sprintf("the value passed to Set stood for %d before the call and for %d after it", argN, n))
			}
			r.ev["arguments_compared_after_the_call"]++
		}
		if r.void {
			continue // liveness only
		}
		state := "absent"
		if garbage {
			state = "undecodable bytes"
		} else if exists {
			state = fmt.Sprintf("value %d", cur)
		}
		// a result that shares memory with something the caller scribbled is the caller's business
		checkV := func(v V, w int64, what string) {
			if vo.ref() && r.isDirty(vo.span(v)) {
				r.ev["results_sharing_scribbled_memory_not_content_checked"]++
				return
			}
			if n, ok := vo.num(v); !ok || n != w {
				bad("wrong-result", fmt.Sprintf("%s stands for %d (valid=%v), expected %d (raw key held: %s)", what, n, ok, w, state))
			}
		}
		checkFn := func() {
			if fnCalls == 0 {
				return
			}
			if fnExists != exists {
				bad("compute-saw-wrong-current", fmt.Sprintf("compute function was given exists=%v, raw key holds: %s", fnExists, state))
			} else if exists && !fnExempt && (!fnCurOK || fnCurN != cur) {
				bad("compute-saw-wrong-current", fmt.Sprintf("compute function was given current=%d (valid=%v), raw key holds: %s", fnCurN, fnCurOK, state))
			}
		}
		wrote := false
		switch {
		case len(fired) > 0:
			crashAfterWrite := fired[0].Action == faultkv.CrashAfter && (fired[0].Kind == "store.Set" || fired[0].Kind == "store.Delete")
			if p == nil && err == nil {
				bad("error-not-reported", fmt.Sprintf("%s failed at site %d but the call returned err=nil; raw key before: %s", fired[0].Kind, fired[0].Site, state))
			} else if p == nil && fired[0].Action == faultkv.Fail && !errors.Is(err, faultkv.ErrInjected) {
				bad("wrong-error", fmt.Sprintf("%s failed but the returned error %q does not carry the injected failure", fired[0].Kind, errStr(err)))
			}
			if crashAfterWrite {
				// the store applied the write and then panicked: which state the typed view is in
				// now is not defined by the statement - only liveness is judged from here on
				r.void = true
				r.ev["runs_judged_for_liveness_only_after_panic_behind_an_applied_write"]++
				continue
			}
		case o.K == "cpanic":
			if fnCalls > 0 && p == nil && err == nil {
				bad("error-not-reported", "the compute function panicked but Compute returned err=nil and no panic reached the caller")
			}
			if fnCalls == 0 && !garbage && err == nil {
				bad("wrong-result", "Compute returned nil without calling the compute function")
			}
			checkFn()
		default:
			switch o.K {
			case "get":
				switch {
				case !exists:
					if err == nil {
						bad("wrong-result", "returned a value and nil but the raw key is absent")
					} else if !errors.Is(err, kvstore.ErrKeyNotFound) {
						bad("wrong-error", fmt.Sprintf("raw key is absent but the error %q is not ErrKeyNotFound", errStr(err)))
					}
				case garbage:
					if err == nil {
						bad("error-not-reported", "returned nil error but the raw bytes cannot be decoded")
					}
				default:
					if err != nil {
						bad("spurious-error", fmt.Sprintf("raw key holds %d but Get failed: %s", cur, errStr(err)))
					} else {
						checkV(gotV, cur, "Get's result")
					}
				}
			case "kvs":
				if err != nil {
					bad("wrong-result", err.Error())
				}
			case "has":
				if err != nil {
					bad("spurious-error", "Has failed: "+errStr(err))
				} else if gotHas != exists {
					bad("wrong-result", fmt.Sprintf("returned %v, raw key present=%v", gotHas, exists))
				}
			case "set":
				if err != nil {
					bad("spurious-error", "Set failed: "+errStr(err))
				} else {
					r.model[key] = cd.enc(o.V)
					wrote = true
				}
			case "del":
				if err != nil {
					bad("spurious-error", "Delete failed: "+errStr(err))
				} else {
					delete(r.model, key)
					wrote = true
				}
			case "cinc", "cconst":
				if garbage {
					if err == nil {
						bad("error-not-reported", "returned nil error but the current raw bytes cannot be decoded")
					}
					break
				}
				if err != nil {
					bad("spurious-error", "Compute failed: "+errStr(err))
				} else {
					checkFn()
					r.model[key] = cd.enc(want)
					wrote = true
				}
			case "cnc":
				if garbage {
					if err == nil {
						bad("error-not-reported", "returned nil error but the current raw bytes cannot be decoded")
					}
					break
				}
				if err != nil {
					bad("spurious-error", "a compute function that aborts with ErrTypedValueNotChanged makes Compute return (current, nil), got: "+errStr(err))
				} else {
					checkFn()
					if exists {
						checkV(gotV, cur, "Compute's result")
					}
				}
			case "cfail":
				if garbage {
					if err == nil {
						bad("error-not-reported", "returned nil error but the current raw bytes cannot be decoded")
					}
					break
				}
				if err == nil {
					bad("error-not-reported", "compute function failed but Compute returned nil")
				} else if !errors.Is(err, errCompute) {
					bad("wrong-error", "compute function's error is not in the returned chain: "+errStr(err))
				} else {
					checkFn()
				}
			}
		}
		if wrote {
			// the library has been handed the new value: whatever the caller scribbled before is history
			r.dirty = r.dirty[:0]
			if o.K == "cinc" || o.K == "cconst" {
				checkV(gotV, want, "Compute's result")
			}
		}
		if r.viol != nil {
			return
		}
		if d := r.rawDiff(); d != "" {
			bad("store-diverged", d)
			return
		}
		// held results: unchanged by later operations of the library
		keep := held[:0]
		for _, h := range held {
			if r.isDirty(vo.span(h.v)) {
				continue
			}
			if n, ok := vo.num(h.v); !ok || n != h.n {
				bad("held-result-changed", fmt.Sprintf("%s (stood for %d when it was returned %d step(s) ago) now stands for %d without the caller having touched it", h.what, h.n, h.age+1, n))
				return
			}
			r.ev["held_results_rechecked"]++
			if h.age++; h.age < 3 {
				keep = append(keep, h)
			}
		}
		held = keep
		hold := func(v V, what string) {
			if !vo.ref() || vo.reused(v) || r.isDirty(vo.span(v)) {
				return
			}
			if n, ok := vo.num(v); ok {
				held = append(held, heldV[V]{v, n, 0, what})
			}
		}
		scrib := func(v V, what string) {
			if !vo.ref() {
				return
			}
			if _, ok := vo.num(v); !ok && vo.span(v).lo == 0 {
				return
			}
			vo.scribble(v)
			s := vo.span(v)
			r.dirty = append(r.dirty, s)
			held = dropOverlapping(held, vo, s)
			r.ev["scribbled:"+what]++
		}
		if err == nil && p == nil {
			switch o.K {
			case "get":
				if o.Mem&memScribResult != 0 {
					scrib(gotV, "Get result")
				} else {
					hold(gotV, "the result of Get")
				}
			case "cinc", "cconst", "cnc":
				if o.K == "cnc" && !exists {
					break
				}
				if o.Mem&memScribResult != 0 {
					scrib(gotV, "Compute result")
				} else {
					hold(gotV, "the result of Compute")
				}
			case "set":
				prevArg, havePrev = arg, true
				if o.Mem&memScribArg != 0 {
					scrib(arg, "Set argument")
				}
			}
		}
		if fnCalls > 0 && fnExists && o.Mem&memInPlace == 0 && o.Mem&memScribArg != 0 && p == nil {
			scrib(fnCur, "value handed to the compute function")
		}
		vo.poison()
		r.ev["scratch_buffers_overwritten_after_a_step"]++
	}
}

func dropOverlapping[V any](held []heldV[V], vo vops[V], s span) []heldV[V] {
	keep := held[:0]
	for _, h := range held {
		if !vo.span(h.v).overlaps(s) {
			keep = append(keep, h)
		}
	}
	return keep
}

// ---------------------------------------------------------------- TypedStore

// rawTwin runs one iteration with re-entrant user code on a raw copy of the store under the
// reference codec and returns the event log and the resulting content.
func rawTwin(r *drun, o dop) (log []string, content map[string][]byte, panicked bool) {
	cd := r.cd
	twin := mapdb.NewMapDB()
	for k, v := range r.model {
		twin.Set([]byte(k), v)
	}
	dir := kvstore.IterDirectionForward
	if o.Back {
		dir = kvstore.IterDirectionBackward
	}
	emit := func(f string, a ...any) { log = append(log, fmt.Sprintf(f, a...)) }
	rawRe := func() {
		for _, q := range o.Re {
			kb, _ := encK(q.Key)
			switch q.K {
			case "get":
				b, err := twin.Get(kb)
				if err != nil {
					emit("get %s -> error notfound=%v", q.Key, errors.Is(err, kvstore.ErrKeyNotFound))
				} else if v, _, e := cd.dec(b); e != nil {
					emit("get %s -> error notfound=false", q.Key)
				} else {
					emit("get %s -> %d", q.Key, v)
				}
			case "has":
				h, _ := twin.Has(kb)
				emit("has %s -> %v", q.Key, h)
			case "set":
				twin.Set(kb, cd.enc(q.V))
				emit("set %s", q.Key)
			case "del":
				twin.Delete(kb)
				emit("del %s", q.Key)
			case "delins":
				twin.Delete(kb)
				twin.Set(kb, cd.enc(q.V))
				emit("delins %s", q.Key)
			case "iter":
				twin.Iterate([]byte(q.Prefix), func(k, v []byte) bool {
					kk, _, e1 := decK(k)
					vv, _, e2 := cd.dec(v)
					if e1 != nil || e2 != nil {
						emit("nested undecodable")
						return false
					}
					emit("nested %s=%d", kk, vv)
					return true
				})
			case "iterk":
				twin.IterateKeys([]byte(q.Prefix), func(k []byte) bool {
					kk, _, e1 := decK(k)
					if e1 != nil {
						emit("nested undecodable")
						return false
					}
					emit("nestedk %s", kk)
					return true
				})
			case "delp":
				twin.DeletePrefix([]byte(q.Prefix))
				emit("delp %s", q.Prefix)
			case "clear":
				twin.Clear()
				emit("clear")
			}
		}
	}
	n := 0
	p := recovered(func() {
		visit := func(kk string, vv int64, keysOnly bool) bool {
			n++
			if keysOnly {
				emit("deliver %s", kk)
			} else {
				emit("deliver %s=%d", kk, vv)
			}
			if n == o.At && o.Site == "" {
				rawRe()
				if o.Pan {
					panic(&userPanic{"consumer"})
				}
			}
			return o.Stop == 0 || n < o.Stop
		}
		if o.K == "iterk" {
			twin.IterateKeys([]byte(o.Prefix), func(k []byte) bool {
				kk, _, e1 := decK(k)
				if e1 != nil {
					emit("undecodable")
					return false
				}
				return visit(kk, 0, true)
			}, dir)
		} else {
			twin.Iterate([]byte(o.Prefix), func(k, v []byte) bool {
				kk, _, e1 := decK(k)
				vv, _, e2 := cd.dec(v)
				if e1 != nil || e2 != nil {
					emit("undecodable")
					return false
				}
				return visit(kk, vv, false)
			}, dir)
		}
	})
	content = map[string][]byte{}
	twin.Iterate(kvstore.EmptyPrefix, func(k, v []byte) bool {
		content[string(k)] = append([]byte(nil), v...)
		return true
	})
	return log, content, p != nil
}

func runDS[K, V any](r *drun, ko kops[K], vo vops[V]) {
	cd := r.cd
	var ts *kvstore.TypedStore[K, V]
	ts = kvstore.NewTypedStore[K, V](r.st,
		func(k K) ([]byte, error) {
			if err := r.hit("enc.key"); err != nil {
				return nil, err
			}
			return ko.enc(k)
		},
		func(b []byte) (K, int, error) {
			if err := r.hit("dec.key"); err != nil {
				var z K
				return z, 0, err
			}
			return ko.dec(b)
		},
		func(v V) ([]byte, error) {
			if err := r.hit("enc.value"); err != nil {
				return nil, err
			}
			return vo.enc(v), nil
		},
		func(b []byte) (V, int, error) {
			if err := r.hit("dec.value"); err != nil {
				var z V
				return z, 0, err
			}
			return vo.dec(b)
		})

	var held []heldV[V]
	var prevArg V
	havePrev := false

	for i, o := range r.dr.Ops {
		name := dopName("store", o)
		r.progress(name)
		kb, keyErr := encK(o.Key)
		mb, exists := r.model[string(kb)]
		cur, _, decErr := cd.dec(mb)
		garbage := exists && decErr != nil
		label := "nofault"
		bad := func(cls, what string) {
			if r.viol == nil {
				r.viol = &violation{name + "/" + label + "/" + cls, fmt.Sprintf("step %d %s [%s keys, %s values] (%s): %s", i, name, r.dr.KK, r.dr.VK, label, what)}
			}
		}
		dir := kvstore.IterDirectionForward
		if o.Back {
			dir = kvstore.IterDirectionBackward
		}
		isIter := o.K == "iter" || o.K == "iterk"
		reentrant := isIter && (len(o.Re) > 0 || o.Pan)

		// expectation of an iteration: the raw iteration under the reference codec, with the
		// same user code run against a raw twin of the store
		var expLog []string
		var expContent map[string][]byte
		expPanic := false
		expErr := false
		if isIter {
			expLog, expContent, expPanic = rawTwin(r, o)
			expErr = len(expLog) > 0 && expLog[len(expLog)-1] == "undecodable"
			if expErr {
				expLog = expLog[:len(expLog)-1]
			}
		}

		var log []string
		emit := func(f string, a ...any) { log = append(log, fmt.Sprintf(f, a...)) }
		reRan := false
		typedRe := func(where string) {
			if reRan {
				return
			}
			reRan = true
			for _, q := range o.Re {
				r.ev["reentrant_calls:from "+where]++
				r.ev["reentrant_calls:same TypedStore "+q.K]++
				r.pairs["store:"+where+":"+q.K] = true
				switch q.K {
				case "get":
					v, err := ts.Get(ko.mk(q.Key))
					if err != nil {
						emit("get %s -> error notfound=%v", q.Key, errors.Is(err, kvstore.ErrKeyNotFound))
					} else {
						n, _ := vo.num(v)
						emit("get %s -> %d", q.Key, n)
					}
				case "has":
					h, _ := ts.Has(ko.mk(q.Key))
					emit("has %s -> %v", q.Key, h)
				case "set":
					ts.Set(ko.mk(q.Key), vo.mk(q.V))
					emit("set %s", q.Key)
				case "del":
					ts.Delete(ko.mk(q.Key))
					emit("del %s", q.Key)
				case "delins":
					ts.Delete(ko.mk(q.Key))
					ts.Set(ko.mk(q.Key), vo.mk(q.V))
					emit("delins %s", q.Key)
				case "iter":
					if err := ts.Iterate([]byte(q.Prefix), func(k K, v V) bool {
						n, _ := vo.num(v)
						emit("nested %s=%d", ko.str(k), n)
						return true
					}); err != nil {
						emit("nested undecodable")
					}
				case "iterk":
					if err := ts.IterateKeys([]byte(q.Prefix), func(k K) bool {
						emit("nestedk %s", ko.str(k))
						return true
					}); err != nil {
						emit("nested undecodable")
					}
				case "delp":
					ts.DeletePrefix([]byte(q.Prefix))
					emit("delp %s", q.Prefix)
				case "clear":
					ts.Clear()
					emit("clear")
				}
			}
		}
		r.hook = nil
		if o.Site != "" && len(o.Re) > 0 {
			r.hook = func(kind string) {
				if kind == o.Site {
					typedRe(kind)
				}
			}
		}

		// arguments
		var argK K
		var argV V
		var argN int64
		switch o.K {
		case "get", "has", "set", "del":
			argK = ko.mk(o.Key)
		}
		if o.K == "set" {
			if o.Mem&memRecycleArg != 0 && havePrev && vo.ref() {
				argV = vo.recycle(prevArg, o.V)
				held = dropOverlapping(held, vo, vo.span(argV))
				r.ev["arguments_recycled_for_the_next_write"]++
			} else {
				argV = vo.mk(o.V)
			}
			argN, _ = vo.num(argV)
		}
		prefix := append(make([]byte, 0, len(o.Prefix)+4), o.Prefix...)

		f0 := r.in.FiredCount()
		var gotKVS kvstore.KVStore
		var err error
		var gotV V
		var gotHas bool
		deliveries := 0
		consumerPanicked := false
		var heldK []K
		var heldKS []string
		deliver := func(k K, v V, keysOnly bool) bool {
			deliveries++
			ks := ko.str(k)
			if keysOnly {
				emit("deliver %s", ks)
			} else {
				n, ok := vo.num(v)
				if !ok {
					emit("deliver %s=<invalid value>", ks)
				} else {
					emit("deliver %s=%d", ks, n)
				}
			}
			// keys / values delivered earlier must not have been changed by later deliveries
			for j, hk := range heldK {
				if ko.str(hk) != heldKS[j] {
					bad("held-result-changed", fmt.Sprintf("the key delivered %d callbacks ago (%q) now reads %q", len(heldK)-j, heldKS[j], ko.str(hk)))
				}
				r.ev["held_results_rechecked"]++
			}
			if o.Mem&memScribInCb != 0 {
				ko.scribble(k)
				if !keysOnly && !vo.reused(v) {
					vo.scribble(v)
				}
				r.ev["scribbled:objects handed to the iteration consumer"]++
			} else {
				heldK, heldKS = append(heldK, k), append(heldKS, ks)
				if !keysOnly && vo.ref() && !vo.reused(v) {
					if n, ok := vo.num(v); ok {
						held = append(held, heldV[V]{v, n, 0, "a value delivered to the iteration consumer"})
					}
				}
			}
			if deliveries == o.At && o.Site == "" {
				typedRe("consumer")
				if o.Pan {
					consumerPanicked = true
					panic(&userPanic{"consumer"})
				}
			}
			return o.Stop == 0 || deliveries < o.Stop
		}
		p := recovered(func() {
			switch o.K {
			case "get":
				gotV, err = ts.Get(argK)
			case "has":
				gotHas, err = ts.Has(argK)
			case "set":
				err = ts.Set(argK, argV)
			case "del":
				err = ts.Delete(argK)
			case "iter":
				err = ts.Iterate(prefix, func(k K, v V) bool { return deliver(k, v, false) }, dir)
			case "iterk":
				var z V
				err = ts.IterateKeys(prefix, func(k K) bool { return deliver(k, z, true) }, dir)
			case "delp":
				err = ts.DeletePrefix(prefix)
			case "clear":
				err = ts.Clear()
			case "kvs":
				gotKVS = ts.KVStore()
			}
		})
		r.hook = nil
		fired := r.in.Fired()[f0:]
		keysOnly := o.K == "iterk" || o.K == "has" || o.K == "del" || o.K == "delp" || o.K == "clear"
		if keysOnly && len(fired) > 0 && strings.HasSuffix(fired[0].Kind, ".value") && p == nil {
			fired = nil
		}
		if len(fired) > 0 {
			label = "fault@" + fired[0].Kind
			if fired[0].Action != faultkv.Fail {
				label = "panic@" + fired[0].Kind
			}
			r.ctx = append(r.ctx, name+"/"+label)
		} else if consumerPanicked {
			label = "panic@consumer"
			r.ctx = append(r.ctx, name+"/"+label)
		} else if reentrant {
			label = "reentrant"
		}
		if r.want {
			gn, _ := vo.num(gotV)
			r.trace = append(r.trace, fmt.Sprintf("%d %s(%q%s)[%s] mem=%d at=%d re=%v -> v=%d has=%v log=%v err=%s panic=%v", i, name, o.Key, o.Prefix, label, o.Mem, o.At, o.Re, gn, gotHas, log, errStr(err), p != nil))
		}
		r.ev["steps"]++
		if p != nil {
			if !ourPanic(p) || (len(fired) == 0 && !consumerPanicked) {
				bad("panic", fmt.Sprintf("panicked: %v", p))
				return
			}
			r.notePanic(name + "/" + label)
			r.ev["recovered_panics_followed_by_further_use"]++
		}
		if r.viol != nil {
			return
		}
		// arguments are the caller's
		if !bytes.Equal(prefix, []byte(o.Prefix)) {
			bad("argument-changed-by-call", fmt.Sprintf("the prefix passed was %q and reads %q after the call", o.Prefix, prefix))
		}
		switch o.K {
		case "get", "has", "set", "del":
			if ko.str(argK) != o.Key {
				bad("argument-changed-by-call", fmt.Sprintf("the key passed was %q and reads %q after the call", o.Key, ko.str(argK)))
			}
			r.ev["arguments_compared_after_the_call"]++
		}
		if o.K == "set" && vo.ref() {
			if n, ok := vo.num(argV); !ok || n != argN {
				bad("argument-changed-by-call", fmt.Sprintf("the value passed to Set stood for %d before the call and for %d after it", argN, n))
			}
		}
		isPrefix := func() bool {
			if len(log) > len(expLog) {
				return false
			}
			for j := range log {
				if log[j] != expLog[j] {
					return false
				}
			}
			return true
		}
		switch {
		case len(fired) > 0:
			crashAfterWrite := fired[0].Action == faultkv.CrashAfter && (fired[0].Kind == "store.Set" || fired[0].Kind == "store.Delete" || fired[0].Kind == "store.DeletePrefix" || fired[0].Kind == "store.Clear")
			if p == nil && err == nil {
				bad("error-not-reported", fmt.Sprintf("%s failed at site %d but the call returned err=nil", fired[0].Kind, fired[0].Site))
			} else if p == nil && fired[0].Action == faultkv.Fail && !errors.Is(err, faultkv.ErrInjected) {
				bad("wrong-error", fmt.Sprintf("%s failed but the returned error %q does not carry the injected failure", fired[0].Kind, errStr(err)))
			} else if isIter && !isPrefix() {
				bad("callback-after-error", fmt.Sprintf("callbacks %v are not a prefix of the raw iteration %v", log, expLog))
			}
			if crashAfterWrite {
				// the typed store keeps no state of its own: the model simply follows the raw store
				r.model = map[string][]byte{}
				r.root.Iterate(kvstore.EmptyPrefix, func(k, v []byte) bool {
					r.model[string(k)] = append([]byte(nil), v...)
					return true
				})
				r.ev["panics_behind_an_applied_write"]++
			}
		case o.K == "kvs":
			if gotKVS != r.st {
				bad("wrong-result", "KVStore() does not return the store the TypedStore was built on")
			}
		case keyErr != nil && (o.K == "get" || o.K == "has" || o.K == "set" || o.K == "del"):
			if err == nil {
				bad("error-not-reported", "key codec failed but the call returned nil")
			}
		default:
			switch o.K {
			case "get":
				switch {
				case !exists:
					if err == nil {
						bad("wrong-result", "returned a value and nil but the raw key is absent")
					} else if !errors.Is(err, kvstore.ErrKeyNotFound) {
						bad("wrong-error", fmt.Sprintf("raw key is absent but the error %q is not ErrKeyNotFound", errStr(err)))
					}
				case garbage:
					if err == nil {
						bad("error-not-reported", "returned nil error but the raw bytes cannot be decoded")
					}
				default:
					if err != nil {
						bad("spurious-error", "Get failed: "+errStr(err))
					} else if n, ok := vo.num(gotV); !ok || n != cur {
						bad("wrong-result", fmt.Sprintf("returned %d (valid=%v), raw key holds %d", n, ok, cur))
					}
				}
			case "has":
				if err != nil {
					bad("spurious-error", "Has failed: "+errStr(err))
				} else if gotHas != exists {
					bad("wrong-result", fmt.Sprintf("returned %v, raw key present=%v", gotHas, exists))
				}
			case "set":
				if err != nil {
					bad("spurious-error", "Set failed: "+errStr(err))
				} else {
					r.model[string(kb)] = cd.enc(o.V)
				}
			case "del":
				if err != nil {
					bad("spurious-error", "Delete failed: "+errStr(err))
				} else {
					delete(r.model, string(kb))
				}
			case "delp":
				if err != nil {
					bad("spurious-error", "DeletePrefix failed: "+errStr(err))
				} else {
					for k := range r.model {
						if strings.HasPrefix(k, o.Prefix) {
							delete(r.model, k)
						}
					}
				}
			case "clear":
				if err != nil {
					bad("spurious-error", "Clear failed: "+errStr(err))
				} else {
					for k := range r.model {
						delete(r.model, k)
					}
				}
			case "iter", "iterk":
				cls := "wrong-result"
				if reentrant {
					cls = "reentrant-iteration-differs-from-raw"
				}
				switch {
				case expPanic != (p != nil):
					bad(cls, fmt.Sprintf("the consumer's panic reached the caller: %v, on the raw store: %v; typed log %v, raw log %v", p != nil, expPanic, log, expLog))
				case p != nil:
					if len(log) != len(expLog) || !isPrefix() {
						bad(cls, fmt.Sprintf("typed log %v, raw iteration with the same user code %v", log, expLog))
					}
				case expErr && err == nil:
					bad("error-not-reported", fmt.Sprintf("an entry under prefix %q cannot be decoded but the iteration returned nil (log %v)", o.Prefix, log))
				case !expErr && err != nil:
					bad("spurious-error", "iteration failed: "+errStr(err))
				case len(log) != len(expLog) || !isPrefix():
					if expErr {
						cls = "callback-after-error"
					}
					bad(cls, fmt.Sprintf("typed log %v, raw iteration under the codec with the same user code %v", log, expLog))
				}
				r.model = expContent
			}
		}
		if r.viol != nil {
			return
		}
		if d := r.rawDiff(); d != "" {
			bad("store-diverged", d)
			return
		}
		// held values: unchanged by later operations
		keep := held[:0]
		for _, h := range held {
			if n, ok := vo.num(h.v); !ok || n != h.n {
				bad("held-result-changed", fmt.Sprintf("%s (stood for %d when it was handed out %d step(s) ago) now stands for %d without the caller having touched it", h.what, h.n, h.age+1, n))
				return
			}
			r.ev["held_results_rechecked"]++
			if h.age++; h.age < 3 {
				keep = append(keep, h)
			}
		}
		held = keep
		if err == nil && p == nil {
			switch o.K {
			case "get":
				if !vo.ref() || vo.reused(gotV) {
					break
				}
				if o.Mem&memScribResult != 0 {
					vo.scribble(gotV)
					held = dropOverlapping(held, vo, vo.span(gotV))
					r.ev["scribbled:Get result"]++
				} else if n, ok := vo.num(gotV); ok {
					held = append(held, heldV[V]{gotV, n, 0, "the result of Get"})
				}
			case "set":
				prevArg, havePrev = argV, true
				if o.Mem&memScribArg != 0 {
					ko.scribble(argK)
					if vo.ref() {
						vo.scribble(argV)
						held = dropOverlapping(held, vo, vo.span(argV))
					}
					r.ev["scribbled:Set arguments"]++
				}
			}
		}
		if o.Mem&memScribArg != 0 {
			for j := range prefix[:cap(prefix)] {
				prefix[:cap(prefix)][j] = '#'
			}
			switch o.K {
			case "get", "has", "del":
				ko.scribble(argK)
				r.ev["scribbled:key arguments"]++
			}
		}
		ko.poison()
		vo.poison()
		r.ev["scratch_buffers_overwritten_after_a_step"]++
	}
}

// ---------------------------------------------------------------- generation

var discVK = []string{"int", "bytes", "ptr", "ptrreuse"}

func genMem(rng *rand.Rand) int {
	m := 0
	for b := 1; b <= memScribInCb; b <<= 1 {
		if rng.Intn(2) == 0 {
			m |= b
		}
	}
	return m
}

func genDiscValue(rng *rand.Rand, vk string) discRec {
	dr := discRec{Disc: "value", VK: vk}
	if rng.Intn(3) == 0 {
		dr.Codec = "varlen"
	}
	switch rng.Intn(4) {
	case 0:
	case 1, 2:
		dr.Init = []initEnt{{Key: "tv", State: "present", V: genVal(rng, dr.Codec)}}
	case 3:
		dr.Init = []initEnt{{Key: "tv", State: "garbage"}}
	}
	for _, k := range []string{"sib", "sraw", "st"} {
		if rng.Intn(3) == 0 {
			dr.Init = append(dr.Init, initEnt{Key: k, State: "present", V: int64(1 + rng.Intn(5))})
		}
	}
	kinds := []string{"get", "has", "set", "set", "del", "cinc", "cinc", "cnc", "cfail", "cpanic", "cconst", "kvs"}
	reK := []string{"kvs", "sget", "sset", "sdel", "scinc", "kget", "kset", "tget", "tset", "titer"}
	sites := []string{"", "", "enc.value", "dec.value", "store.Get", "store.Set", "store.Has", "store.Delete"}
	n := 2 + rng.Intn(6)
	for i := 0; i < n; i++ {
		o := dop{K: kinds[rng.Intn(len(kinds))], Mem: genMem(rng)}
		if o.K == "set" || o.K == "cconst" {
			o.V = genVal(rng, dr.Codec)
		}
		if rng.Intn(3) == 0 {
			for j := 1 + rng.Intn(3); j > 0; j-- {
				o.Re = append(o.Re, rop{K: reK[rng.Intn(len(reK))], V: int64(1 + rng.Intn(9))})
			}
			o.Site = sites[rng.Intn(len(sites))]
		}
		dr.Ops = append(dr.Ops, o)
	}
	return dr
}

func genDiscStore(rng *rand.Rand, kk, vk string, reentrant bool) discRec {
	dr := discRec{Disc: "store", KK: kk, VK: vk}
	if rng.Intn(3) == 0 {
		dr.Codec = "varlen"
	}
	for _, k := range storeKeys {
		switch rng.Intn(6) {
		case 0, 1:
		case 5:
			if !reentrant {
				dr.Init = append(dr.Init, initEnt{Key: k, State: "garbage"})
				break
			}
			fallthrough
		default:
			dr.Init = append(dr.Init, initEnt{Key: k, State: "present", V: genVal(rng, dr.Codec)})
		}
	}
	if !reentrant && rng.Intn(8) == 0 {
		dr.Init = append(dr.Init, initEnt{Key: "a!", State: "present", V: 3}) // undecodable key
	}
	kinds := []string{"get", "has", "set", "set", "del", "iter", "iter", "iterk", "delp", "clear", "kvs"}
	reK := []string{"get", "has", "set", "del", "delins", "iter", "iterk", "delp", "clear"}
	keys := append([]string{"c"}, storeKeys...)
	codecSites := []string{"enc.key", "dec.key", "enc.value", "dec.value", "store.Get", "store.Set", "store.Iterate", "store.IterateKeys"}
	n := 2 + rng.Intn(6)
	for i := 0; i < n; i++ {
		o := dop{K: kinds[rng.Intn(len(kinds))], Mem: genMem(rng)}
		o.Key = keys[rng.Intn(len(keys))]
		if !reentrant && rng.Intn(25) == 0 {
			o.Key = "a?"
		}
		if o.K == "set" {
			o.V = genVal(rng, dr.Codec)
		}
		if o.K == "iter" || o.K == "iterk" || o.K == "delp" {
			o.Prefix = viewPrefixes[rng.Intn(len(viewPrefixes))]
			o.Back = rng.Intn(3) == 0
			if rng.Intn(3) == 0 {
				o.Stop = 1 + rng.Intn(3)
			}
		}
		if reentrant && (o.K == "iter" || o.K == "iterk") {
			o.At = 1 + rng.Intn(3)
			for j := 1 + rng.Intn(3); j > 0; j-- {
				q := rop{K: reK[rng.Intn(len(reK))], Key: keys[rng.Intn(len(keys))], V: genVal(rng, dr.Codec), Prefix: viewPrefixes[rng.Intn(len(viewPrefixes))]}
				o.Re = append(o.Re, q)
			}
			o.Pan = rng.Intn(3) == 0
		} else if reentrant && rng.Intn(2) == 0 {
			// a codec / the store below re-enters the same TypedStore (codecs must not share a scratch buffer then)
			dr.Fresh = true
			o.Site = codecSites[rng.Intn(len(codecSites))]
			for j := 1 + rng.Intn(2); j > 0; j-- {
				o.Re = append(o.Re, rop{K: []string{"get", "has", "iterk", "iter"}[rng.Intn(4)], Key: keys[rng.Intn(len(keys))], Prefix: viewPrefixes[rng.Intn(len(viewPrefixes))]})
			}
		}
		dr.Ops = append(dr.Ops, o)
	}
	if reentrant {
		dr.Fault = -1 // marker: no site enumeration (user code runs operations with sites of their own)
	}
	return dr
}

// ---------------------------------------------------------------- driving: actor + structural liveness

func strictlyParked(g gdump.G) bool {
	if !g.Parked() {
		return false
	}
	if strings.HasPrefix(g.State, "semacquire") {
		return len(g.Frames) > 0 && strings.HasPrefix(g.Frames[0], "sync.runtime_Semacquire")
	}
	return true
}

// settle waits until the actor's closure returned (true) or the actor is parked on a
// synchronisation primitive in 3 consecutive snapshots with identical frames while no other
// goroutine can run (false). No time-out: verdicts never depend on a duration.
func settle(a *gdump.Actor, first int) bool {
	last, stable := "", 0
	next := first // spins before the first look; once the actor looks parked, look again soon
	for i := 1; ; i++ {
		if !a.Busy() {
			return true
		}
		runtime.Gosched()
		if i < next {
			continue
		}
		if i > 4000000 {
			time.Sleep(200 * time.Microsecond) // something runs for long: stop burning the core
		}
		gs := gdump.Snapshot()
		if !a.Busy() {
			return true
		}
		g, ok := gdump.Find(gs, a.ID())
		idle := ok && strictlyParked(g)
		if idle {
			running := 0
			for _, o := range gs {
				if o.ID == a.ID() {
					continue
				}
				if o.State == "running" {
					running++
					continue
				}
				if !strictlyParked(o) && !sysGoroutine(o) {
					idle = false
				}
			}
			if running > 1 {
				idle = false
			}
		}
		if !idle {
			last, stable = "", 0
			next = i + 20000
			continue
		}
		next = i + 200
		key := g.State + "|" + strings.Join(g.Frames, ";")
		if key == last {
			if stable++; stable >= 3 {
				return false
			}
		} else {
			last, stable = key, 0
		}
	}
}

func sysGoroutine(g gdump.G) bool {
	for _, f := range g.Frames {
		if strings.HasPrefix(f, "os/signal.") || strings.HasPrefix(f, "runtime.ensureSigM") || strings.HasPrefix(f, "runtime.bgsweep") ||
			strings.HasPrefix(f, "runtime.bgscavenge") || strings.HasPrefix(f, "runtime.gcBgMarkWorker") || strings.HasPrefix(f, "runtime.forcegchelper") ||
			strings.HasPrefix(f, "runtime.runfinq") {
			return true
		}
	}
	return false
}

type discDriver struct {
	c     *vf.Ctx
	actor *gdump.Actor
	viols int
	ev    map[string]int
	ctx   map[string]int
	pairs map[string]bool

	mu      sync.Mutex
	cur     *drun // run in flight on the actor
	blocked int
}

// onActor runs f on the actor; false = the actor is parked for ever (it is abandoned and a
// new one is created for the next piece of work).
func (d *discDriver) onActor(f func()) bool {
	if d.actor == nil {
		d.actor = gdump.NewActor("caller")
	}
	d.actor.Start(f)
	returned := settle(d.actor, 20000)
	if p := d.actor.TakePanic(); p != "" {
		d.c.Violation("harness/panic", "the harness (or the library outside a call the harness protects) panicked: "+p, discRec{Disc: "harness"})
	}
	if !returned {
		d.actor = nil
	}
	return returned
}

// exec executes one case on the CALLING goroutine (which is the actor).
func (d *discDriver) exec(dr discRec, trace bool) *drun {
	r := newRun(dr, trace)
	d.mu.Lock()
	d.cur = r
	d.mu.Unlock()
	r.execute()
	d.mu.Lock()
	d.cur = nil
	for k, v := range r.ev {
		d.ev[k] += v
	}
	for _, k := range r.ctx {
		d.ctx[k]++
	}
	for k := range r.pairs {
		d.pairs[k] = true
	}
	d.mu.Unlock()
	return r
}

func (d *discDriver) report(r *drun) {
	if r.viol == nil || d.viols >= 40 {
		return
	}
	d.viols++
	rec := r.dr
	if rec.Fault < 0 {
		rec.Fault = 0
	}
	if r.trace == nil && rec.Blocked == "" {
		t := d.exec(rec, true)
		rec.Trace, rec.Kinds = t.trace, t.in.Kinds()
	} else {
		rec.Trace, rec.Kinds = r.trace, r.in.Kinds()
	}
	d.c.Violation(r.viol.fp, r.viol.what, rec)
}

// blockedVerdict is called by the observer when the actor is parked for ever inside a run.
func (d *discDriver) blockedVerdict() {
	d.mu.Lock()
	r := d.cur
	d.cur = nil
	d.blocked++
	d.mu.Unlock()
	if r == nil {
		d.c.Violation("harness/parked", "the caller is parked for ever outside a run", discRec{Disc: "harness"})
		return
	}
	r.mu.Lock()
	step, lp, pan := r.step, r.lastPanic, r.panicked
	r.mu.Unlock()
	dr := r.dr
	if pan {
		r.viol = &violation{lp + "/next-call-never-returns", fmt.Sprintf("[%s values] after the panic of user code inside %s was recovered by the caller, the next call on the same object (%s) never returns: the caller is parked on a synchronisation primitive and no goroutine is left that could wake it (a lock is still held)", dr.VK, lp, step)}
	} else {
		r.viol = &violation{step + "/nofault/never-returns", fmt.Sprintf("[%s values] %s never returns: the caller is parked on a synchronisation primitive and no goroutine is left that could wake it", dr.VK, step)}
	}
	r.dr.Blocked = step
	d.report(r)
}

// enumerate: fault-free, then every site failing / panicking before / panicking after. The
// whole enumeration of one history is one piece of work of the actor.
func (d *discDriver) enumerate(dr discRec) {
	if !d.onActor(func() { d.enumerateOnActor(dr) }) {
		d.blockedVerdict()
	}
}

func (d *discDriver) enumerateOnActor(dr discRec) {
	c := d.c
	noSites := dr.Fault < 0
	dr.Fault = 0
	base := d.exec(dr, false)
	c.Count("evaluations", 1)
	c.Count("disc_runs", 1)
	c.Count("disc_histories", 1)
	if base.viol != nil {
		d.report(base)
		return
	}
	if noSites {
		c.Count("disc_reentrant_store_histories", 1)
		return
	}
	sites := base.in.Sites()
	kinds := base.in.Kinds()
	for s := 1; s <= sites; s++ {
		for _, act := range []string{"fail", "panic", "panic-after"} {
			if act == "panic-after" && (s > len(kinds) || !strings.HasPrefix(kinds[s-1], "store.")) {
				continue // a codec has no "after"
			}
			fc := dr
			fc.Fault, fc.Act = s, act
			r := d.exec(fc, false)
			c.Count("evaluations", 1)
			c.Count("disc_runs", 1)
			if len(r.in.Fired()) > 0 {
				c.Count("disc_fault_runs:"+act, 1)
				c.DistinctHash("nontrivial", caseHashAny(fc))
			}
			if r.viol != nil {
				d.report(r)
				return // one defect -> one report per history
			}
		}
	}
}

// ---------------------------------------------------------------- self-dead-lock table (evidence) and what must return

type tableEntry struct {
	Outer, Site, Inner string
}

func reentTable(d *discDriver) {
	c := d.c
	outers := []struct {
		name  string
		sites []string
	}{
		{"Compute", []string{"compute-fn", "store.Get", "dec.value", "enc.value", "store.Set"}},
		{"Set", []string{"enc.value", "store.Set"}},
		{"Get", []string{"store.Get", "dec.value"}},
		{"Has", []string{"store.Has"}},
		{"Delete", []string{"store.Delete"}},
	}
	inners := []string{"Get", "Has", "Set", "Delete", "Compute", "KVStore"}
	for _, o := range outers {
		for _, site := range o.sites {
			for _, inner := range inners {
				in := faultkv.NewInjector(nil, false)
				root := mapdb.NewMapDB()
				root.Set(tvKey, encV(5))
				st := faultkv.Wrap(root, in)
				var tv *kvstore.TypedValue[int64]
				done := false
				ran := false
				call := func() {
					if ran {
						return
					}
					ran = true
					switch inner {
					case "Get":
						tv.Get()
					case "Has":
						tv.Has()
					case "Set":
						tv.Set(9)
					case "Delete":
						tv.Delete()
					case "Compute":
						tv.Compute(func(c int64, _ bool) (int64, error) { return c, nil })
					case "KVStore":
						tv.KVStore()
					}
					done = true
				}
				in.Hook = func(_ int, kind string) {
					if kind == site {
						call()
					}
				}
				tv = kvstore.NewTypedValue[int64](st, tvKey,
					func(v int64) ([]byte, error) { in.Hit("enc.value"); return encV(v), nil },
					func(b []byte) (int64, int, error) { in.Hit("dec.value"); return decV(b) })
				if d.actor == nil {
					d.actor = gdump.NewActor("caller")
				}
				d.actor.Start(func() {
					switch o.name {
					case "Compute":
						tv.Compute(func(c int64, _ bool) (int64, error) {
							if site == "compute-fn" {
								call()
							}
							return c + 1, nil
						})
					case "Set":
						tv.Set(7)
					case "Get":
						tv.Get()
					case "Has":
						tv.Has()
					case "Delete":
						tv.Delete()
					}
				})
				returned := settle(d.actor, 1000)
				d.actor.TakePanic()
				c.Count("evaluations", 1)
				c.Count("reentrant_same_object_probes", 1)
				if !returned {
					d.actor = nil
				}
				switch {
				case !ran:
					c.Note(fmt.Sprintf("re-entrancy table: TypedValue.%s did not reach site %s", o.name, site))
				case inner == "KVStore":
					c.Count("reentrant_same_object_calls_that_must_return", 1)
					if !returned || !done {
						c.Violation("TypedValue."+o.name+"/reentrant@"+site+"/KVStore-never-returns", fmt.Sprintf("user code running at %s inside TypedValue.%s called KVStore() on the same TypedValue and never returned (it returns on the unchanged tree)", site, o.name), discRec{Disc: "table", Blocked: o.name + "/" + site + "/" + inner})
					}
				case returned:
					c.Count("reentrant_same_object_calls_returned", 1) // not demanded either way
				default:
					c.Count("reentrant_same_object_calls_self_deadlocked_not_demanded", 1)
				}
			}
		}
	}
}

// ---------------------------------------------------------------- the child

func discChild(c *vf.Ctx) {
	d := &discDriver{c: c, ev: map[string]int{}, ctx: map[string]int{}, pairs: map[string]bool{}}
	if len(c.ChildArgs) > 0 && c.ChildArgs[0] == "replay" {
		var dr discRec
		b, _ := io.ReadAll(os.Stdin)
		if err := json.Unmarshal(b, &dr); err != nil {
			fmt.Fprintln(os.Stderr, "cannot decode the replay case:", err)
			os.Exit(3)
		}
		if dr.Disc == "table" {
			reentTable(d)
			return
		}
		if dr.Fault < 0 {
			dr.Fault = 0
		}
		if !d.onActor(func() {
			r := d.exec(dr, true)
			for _, l := range r.trace {
				fmt.Fprintln(os.Stderr, "  ", l)
			}
			if r.viol != nil {
				rec := r.dr
				rec.Trace, rec.Kinds = r.trace, r.in.Kinds()
				c.Violation(r.viol.fp, r.viol.what, rec)
			}
		}) {
			d.blockedVerdict()
		}
		c.Count("evaluations", 1)
		return
	}
	reentTable(d)

	// fixed cases: the two canonical memory patterns and a panic at every user-code site of Compute
	fixed := []discRec{
		{Disc: "value", VK: "int", Ops: []dop{{K: "set", V: 1}, {K: "set", V: 2}, {K: "cinc"}, {K: "get"}}},
		{Disc: "value", VK: "bytes", Ops: []dop{{K: "set", V: 1}, {K: "set", V: 2, Mem: memRecycleArg}, {K: "get"}}},
		{Disc: "value", VK: "ptr", Ops: []dop{{K: "set", V: 1}, {K: "set", V: 2, Mem: memRecycleArg}, {K: "cinc", Mem: memInPlace}, {K: "get"}}},
		{Disc: "value", VK: "int", Init: []initEnt{{Key: "tv", State: "present", V: 7}}, Ops: []dop{{K: "cpanic"}, {K: "get"}, {K: "has"}, {K: "cinc"}, {K: "set", V: 9}, {K: "del"}}},
		{Disc: "value", VK: "ptrreuse", Init: []initEnt{{Key: "tv", State: "present", V: 7}}, Ops: []dop{{K: "get"}, {K: "set", V: 3}, {K: "cinc"}, {K: "get"}, {K: "cnc"}}},
		{Disc: "store", KK: "str", VK: "int", Ops: []dop{{K: "set", Key: "a", V: 1}, {K: "set", Key: "b", V: 2}, {K: "get", Key: "a"}, {K: "iter"}}},
		{Disc: "store", KK: "bytes", VK: "bytes", Ops: []dop{{K: "set", Key: "a", V: 1}, {K: "set", Key: "b", V: 2, Mem: memRecycleArg}, {K: "iter", Mem: memScribInCb}, {K: "iter"}}},
	}
	for _, dr := range fixed {
		d.enumerate(dr)
	}

	nv := c.Pick(260, 9000)
	ns := c.Pick(60, 2500)
	nr := c.Pick(700, 25000)
	for _, vk := range discVK {
		rng := c.Rand("disc/value/" + vk)
		for i := 0; i < nv && d.blocked < 6; i++ {
			d.enumerate(genDiscValue(rng, vk))
		}
		for _, kk := range []string{"str", "bytes"} {
			rng := c.Rand("disc/store/" + kk + "/" + vk)
			for i := 0; i < ns && d.blocked < 6; i++ {
				d.enumerate(genDiscStore(rng, kk, vk, false))
			}
			for i := 0; i < nr && d.blocked < 6; i++ {
				d.enumerate(genDiscStore(rng, kk, vk, true)) // one run each: user code re-entering the same TypedStore
			}
		}
	}
	keys := make([]string, 0, len(d.ev))
	for k := range d.ev {
		keys = append(keys, k)
	}
	sort.Strings(keys)
	held, scrib, re, reSame := 0, 0, 0, 0
	for _, k := range keys {
		c.Count("disc:"+k, d.ev[k])
		switch {
		case k == "held_results_rechecked":
			held += d.ev[k]
		case strings.HasPrefix(k, "scribbled:"), k == "arguments_recycled_for_the_next_write":
			scrib += d.ev[k]
		case strings.HasPrefix(k, "reentrant_calls:from "):
			re += d.ev[k]
		case strings.HasPrefix(k, "reentrant_calls:same TypedStore "):
			reSame += d.ev[k]
		}
	}
	for k := range d.pairs {
		c.Distinct("disc_reentrant_call_kinds", k)
	}
	c.Count("disc_reentrant_calls_into_the_same_typed_store", reSame)
	c.Count("disc_held_results_rechecked", held)
	c.Count("disc_objects_scribbled_or_recycled", scrib)
	c.Count("disc_reentrant_calls", re)
	c.Count("disc_recovered_panics_followed_by_further_use", d.ev["recovered_panics_followed_by_further_use"])
	for k, v := range d.ctx {
		c.Count("disc_fault:"+k, v)
		c.Distinct("disc_fault_contexts", k)
		if strings.Contains(k, "/panic@") {
			c.Distinct("disc_panic_contexts", k)
		}
	}
	c.Count("disc_blocked_runs", d.blocked)
	// a sample
	d.onActor(func() {
		s := d.exec(discRec{Disc: "value", VK: "bytes", Init: []initEnt{{Key: "tv", State: "present", V: 5}}, Ops: []dop{{K: "cpanic"}, {K: "set", V: 6}, {K: "set", V: 8, Mem: memRecycleArg | memScribArg}, {K: "get"}}}, true)
		smp := s.dr
		smp.Trace, smp.Kinds = s.trace, s.in.Kinds()
		c.Sample(smp)
	})
}

// discPart is called by the parent.
func discPart(c *vf.Ctx) {
	res := c.RunChild(vf.ChildOpts{Name: "disc", Timeout: 10 * time.Minute})
	if res.TimedOut {
		c.Inconclusive("disciplines child: watchdog fired (last case: " + res.LastMark + ")")
	} else if res.ExitCode != 0 {
		if res.Fatal != "" && !strings.HasPrefix(res.Fatal, "start:") {
			c.Violation("disciplines/fatal", "the disciplines child died: "+res.Fatal, map[string]any{"concurrent": "fatal", "stderr": tail(res.Stderr, 4000)})
		} else {
			c.Inconclusive(fmt.Sprintf("disciplines child exit code %d", res.ExitCode))
		}
	}
	c.Require("disc_histories", 1000)
	c.Require("disc_held_results_rechecked", 2000)
	c.Require("disc_objects_scribbled_or_recycled", 5000)
	c.Require("disc:scratch_buffers_overwritten_after_a_step", 50000)
	c.Require("disc_reentrant_calls", 2000)
	c.Require("disc_reentrant_calls_into_the_same_typed_store", 5000)
	c.Require("disc_reentrant_store_histories", 3000)
	c.Require("disc_reentrant_call_kinds", 30)
	c.Require("disc_recovered_panics_followed_by_further_use", 5000)
	c.Require("disc_panic_contexts", 30)
	c.Require("reentrant_same_object_probes", 60)
	c.Require("reentrant_same_object_calls_that_must_return", 11)
}

func discReplay(c *vf.Ctx) {
	var dr discRec
	if err := c.LoadReplay(&dr); err != nil {
		fmt.Fprintln(os.Stderr, err)
		os.Exit(3)
	}
	raw, _ := json.Marshal(dr)
	res := c.RunChild(vf.ChildOpts{Name: "disc", Args: []string{"replay"}, Stdin: raw, Timeout: 2 * time.Minute, KeepStderr: true})
	fmt.Fprint(os.Stderr, res.Stderr)
	if res.TimedOut {
		c.Inconclusive("replay child: watchdog fired")
	}
}
