package main

import (
	"fmt"
	"strconv"
	"strings"

	"github.com/iotaledger/hive.go/runtime/event"
	"github.com/iotaledger/hive.go/runtime/promise"
	"verif/harness/internal/vf"
)

// Redundant removals: Unhook called again on a handle whose hook is already detached
// (by an earlier Unhook, or lazily by Trigger after its WithMaxTriggerCount was
// exhausted), an OnTrigger unsubscribe function called twice, a second Deregister – each
// must leave every OTHER hook / callback / listener alone. The oracle is the unchanged
// one: every Trigger invokes exactly the currently attached hooks once, in order.
// Deterministic: every history up to a bounded length is executed on one goroutine.
const (
	fpEvRedundant = "event/redundant-unhook-affects-other-hook"        // after an Unhook on an already detached handle another attached hook is not invoked
	fpPrRedundant = "promise/redundant-unsubscribe-affects-other"      // after a repeated unsubscribe another callback did not run exactly once
	fpVnRedundant = "valuenotifier/redundant-deregister-affects-other" // removing the redundant deregistrations from the history changes the outcome of another listener's Wait
)

// ---------------------------------------------------------------- event

// evHistOp: "H" hook, "M" hook with WithMaxTriggerCount(1), "U<i>" Unhook handle i (any
// handle created so far, attached or not), "T" Trigger, "K1" linked.LinkTo(event),
// "K0" linked.LinkTo(nil).
func evHistEnumerate(maxLen, maxHandles int, visit func(h []string)) {
	var h []string
	var rec func(nh int)
	rec = func(nh int) {
		if len(h) == maxLen {
			visit(h)
			return
		}
		try := func(op string, nh2 int) {
			h = append(h, op)
			rec(nh2)
			h = h[:len(h)-1]
		}
		if nh < maxHandles {
			try("H", nh+1)
			try("M", nh+1)
		}
		for i := 0; i < nh; i++ {
			try("U"+strconv.Itoa(i), nh)
		}
		try("T", nh)
		try("K1", nh)
		try("K0", nh)
	}
	rec(0)
}

type evHistReplay struct {
	Variant string   `json:"variant"`
	History []string `json:"history"`
}

func (e *evEnv) runEvHist(variant string, hist []string, count bool) {
	var cur uint64
	T := newEvAbs(variant, &cur)
	L := newEvAbs(variant, &cur)
	var calls []int
	record := func(id int) func(uint64) {
		return func(arg uint64) {
			if arg != cur {
				id = -99
			}
			calls = append(calls, id)
		}
	}
	L.hook(record(-2))
	var unhooks []func()
	// specification
	var order []int
	live := map[int]bool{}
	maxLeft := map[int]int{}
	linkID, nextLink := -1, 100
	redundant := false
	rep := func() replayRec {
		return e.rec("redundant", 0, evHistReplay{variant, append([]string(nil), hist...)})
	}
	var panicked any
	trigger := func(step int) {
		calls = calls[:0]
		cur = argBase.Add(1)
		T.trigger(cur)
		var expected []int
		for _, id := range order {
			if !live[id] {
				continue
			}
			if maxLeft[id] == 0 {
				live[id] = false
				continue
			}
			if maxLeft[id] > 0 {
				maxLeft[id]--
			}
			expected = append(expected, id)
		}
		got := make([]int, len(calls))
		for i, id := range calls {
			if id == -2 {
				id = linkID
			}
			got[i] = id
		}
		if fmt.Sprint(got) == fmt.Sprint(expected) {
			return
		}
		gotN := map[int]int{}
		for _, id := range got {
			gotN[id]++
		}
		what := fmt.Sprintf("%s history %s (+ final Trigger): Trigger at step %d invoked hooks %v, attached hooks are %v (ids = handle numbers, >=100 = link hook)", variant, strings.Join(hist, " "), step+1, got, expected)
		fp := fpEvOrder
		for _, id := range expected {
			if gotN[id] == 0 {
				fp = fpEvMissed
				if redundant {
					fp = fpEvRedundant
				}
			}
		}
		for id, n := range gotN {
			if n > 1 {
				fp = fpEvTwice
			} else if !live[id] && fp == fpEvOrder {
				fp = fpEvUnhooked
			}
			if id == -99 {
				fp = fpEvArgs
			}
		}
		e.rep.viol(fp, what, rep())
	}
	func() {
		defer func() { panicked = recover() }()
		for step, op := range append(append([]string(nil), hist...), "T") {
			switch {
			case op == "H" || op == "M":
				id := len(unhooks)
				var opts []event.Option
				maxLeft[id] = -1
				if op == "M" {
					opts = append(opts, event.WithMaxTriggerCount(1))
					maxLeft[id] = 1
				}
				unhooks = append(unhooks, T.hook(record(id), opts...))
				order = append(order, id)
				live[id] = true
			case op == "T":
				trigger(step)
			case op == "K1":
				L.linkTo(T)
				if linkID >= 0 {
					live[linkID] = false
				}
				linkID = nextLink
				nextLink++
				order = append(order, linkID)
				live[linkID] = true
				maxLeft[linkID] = -1
			case op == "K0":
				L.linkTo(nil)
				if linkID >= 0 {
					live[linkID] = false
				}
				linkID = -1
			default:
				i, _ := strconv.Atoi(op[1:])
				// the hook may also have been detached lazily by a Trigger (exhausted max count)
				if !live[i] || maxLeft[i] == 0 {
					redundant = true
				}
				unhooks[i]()
				live[i] = false
			}
		}
	}()
	if panicked != nil {
		e.rep.viol(fpEvPanic, fmt.Sprintf("%s history %s: a call into runtime/event panicked", variant, strings.Join(hist, " ")), rep())
	}
	if count {
		e.c.Count("evaluations", 1)
		e.c.Count("ev_redundant_histories", 1)
		if redundant {
			e.c.Count("ev_redundant_histories_with_redundant_unhook", 1)
		}
	}
}

func (e *evEnv) redundantAll() {
	for _, v := range []struct {
		variant string
		maxLen  int
	}{{"Event1", e.c.Pick(6, 7)}, {"Event", e.c.Pick(5, 6)}, {"Event2", e.c.Pick(5, 6)}} {
		if e.race {
			v.maxLen-- // the -race twin is ~10x slower; the plain child covers the full length
		}
		n := 0
		evHistEnumerate(v.maxLen, 4, func(h []string) {
			e.runEvHist(v.variant, h, true)
			if n%5003 == 0 {
				e.c.Distinct("nontrivial", "ev/redundant/"+v.variant+"/"+strings.Join(h, ""))
			}
			n++
		})
	}
}

// ---------------------------------------------------------------- promise

// ops: "R" OnTrigger(new callback), "X<i>" call the unsubscribe function of callback i
// (again), "T" Trigger.
func prHistEnumerate(maxLen, maxCB int, visit func(h []string)) {
	var h []string
	var rec func(n int)
	rec = func(n int) {
		if len(h) == maxLen {
			visit(h)
			return
		}
		try := func(op string, n2 int) {
			h = append(h, op)
			rec(n2)
			h = h[:len(h)-1]
		}
		if n < maxCB {
			try("R", n+1)
		}
		for i := 0; i < n; i++ {
			try("X"+strconv.Itoa(i), n)
		}
		try("T", n)
	}
	rec(0)
}

type prHistReplay struct {
	WithValue bool     `json:"with_value"`
	History   []string `json:"history"`
}

func runPrHist(c *vf.Ctx, rep *reporter, withValue bool, hist []string, race bool) {
	var ev prEvent
	if withValue {
		ev = prE1{promise.NewEvent1[uint64]()}
	} else {
		ev = prE0{promise.NewEvent()}
	}
	var cbs []*prCB
	var unsub []int // number of unsubscribe calls before the first Trigger
	var regAfter []bool
	triggered, redundant := false, false
	trueCount := 0
	var panicked any
	r := replayRec{Kind: "conc", Child: "promise", Round: "redundant", Seed: c.Seed, Race: race, Detail: prHistReplay{withValue, append([]string(nil), hist...)}}
	func() {
		defer func() { panicked = recover() }()
		for _, op := range append(append([]string(nil), hist...), "T") {
			switch {
			case op == "R":
				cb := &prCB{}
				cbs = append(cbs, cb)
				unsub = append(unsub, 0)
				regAfter = append(regAfter, triggered)
				cb.unsubscribeF = ev.onTrigger(cb)
			case op == "T":
				if ev.trigger(7) {
					trueCount++
				}
				triggered = true
			default:
				i, _ := strconv.Atoi(op[1:])
				if unsub[i] > 0 || triggered {
					redundant = true
				}
				cbs[i].unsubscribeF()
				if !triggered {
					unsub[i]++
				}
			}
		}
	}()
	name := "promise.Event"
	if withValue {
		name = "promise.Event1"
	}
	if panicked != nil {
		rep.viol(fpPrPanic, fmt.Sprintf("%s history %s: a call into runtime/promise panicked", name, strings.Join(hist, " ")), r)
		return
	}
	if trueCount != 1 {
		rep.viol(fpPrTrigger, fmt.Sprintf("%s history %s (+ final Trigger): Trigger returned true %d times", name, strings.Join(hist, " "), trueCount), r)
	}
	for i, cb := range cbs {
		want := int64(1)
		if !regAfter[i] && unsub[i] > 0 {
			want = 0
		}
		got := cb.n.Load()
		if got == want {
			continue
		}
		fp := fpPrLost
		switch {
		case got > 1:
			fp = fpPrTwice
		case got == 1:
			fp = fpPrUnsub
		case redundant:
			fp = fpPrRedundant
		}
		rep.viol(fp, fmt.Sprintf("%s history %s (+ final Trigger): callback %d ran %d times, expected %d", name, strings.Join(hist, " "), i, got, want), r)
	}
	c.Count("evaluations", 1)
	c.Count("pr_redundant_histories", 1)
	if redundant {
		c.Count("pr_redundant_histories_with_repeated_unsubscribe", 1)
	}
}

func prRedundantAll(c *vf.Ctx, rep *reporter, race bool) {
	for _, wv := range []bool{false, true} {
		prHistEnumerate(c.Pick(7, 8), 4, func(h []string) { runPrHist(c, rep, wv, h, race) })
	}
}

// ---------------------------------------------------------------- valuenotifier

// vnRedundantSteps returns the indices of steps (other than the last) that are
// deregistrations of an already deregistered listener: a second Deregister(l), a
// Deregister(l) after Wait(l) returned, a Wait(l) on a deregistered listener.
func vnRedundantSteps(h []vnOp) []int {
	dereg := map[int]bool{}
	var out []int
	for i, op := range h[:len(h)-1] {
		if op.K == "D" || op.K == "W" || op.K == "C" {
			if dereg[op.X] {
				out = append(out, i)
			}
			dereg[op.X] = true
		}
	}
	return out
}

// vnRedundantCheck: the outcome of the judged (last) Wait must not change when the
// redundant deregistrations are removed from the history.
func vnRedundantCheck(c *vf.Ctx, rep *reporter, x *seqExec, h []vnOp, got string) {
	red := vnRedundantSteps(h)
	if len(red) == 0 || h[len(h)-1].K != "W" {
		return
	}
	skip := map[int]bool{}
	for _, i := range red {
		skip[i] = true
	}
	var reduced []vnOp
	for i, op := range h {
		if !skip[i] {
			reduced = append(reduced, op)
		}
	}
	out := x.run(reduced)
	ref := out[len(out)-1]
	c.Count("evaluations", 1)
	c.Count("vn_seq_redundant_deregister_comparisons", 1)
	if ref != got && (ref == "ok" || ref == "dereg" || ref == "blocked") && (got == "ok" || got == "dereg" || got == "blocked") {
		rep.viol(fpVnRedundant, fmt.Sprintf("history %s: the last Wait returned %q, but %q in the same history without its redundant deregistrations (%s)", histString(h), got, ref, histString(reduced)),
			replayRec{Kind: "vn-seq", History: append([]vnOp(nil), h...)})
	}
}
