package main

import (
	"context"
	"errors"
	"fmt"
	"math/rand"

	"github.com/iotaledger/hive.go/runtime/event"
	"github.com/iotaledger/hive.go/runtime/promise"
	"github.com/iotaledger/hive.go/runtime/valuenotifier"
)

// Discipline 2 (re-entrant user code). Hook/Unhook/LinkTo from inside a hook are covered
// exhaustively by ev_seq.go; here: Trigger of the same event from inside a hook (directly,
// through a link, of the linked event), promise callbacks calling OnTrigger / Trigger /
// unsubscribe functions, and a context whose Done() calls into the notifier.
// On the unchanged tree every one of these returns (user code never runs under a lock of
// the library); a case that parks is decided by the runtime dead-lock detector (disc.go).

// ---------------------------------------------------------------- nested Trigger

type nHook struct {
	id     int
	ev     *nEvent
	limit  int
	count  int
	live   bool
	link   *nEvent // the hook LinkTo created for this event
	actor  bool
	expect []uint64 // model: arguments it is invoked with, in order (exact for unlimited hooks)
	got    []uint64
}

type nEvent struct {
	name     string
	limit    int
	calls    int
	hooks    []*nHook
	accepted []uint64
	real     *evN
}

// caseNested: all hooks run in place. Demanded (statement, applied to every Trigger call,
// whoever makes it): the first min(limit, calls) Trigger calls of an event in call order are
// its accepted ones; every unlimited hook is invoked exactly once for every accepted call of
// its event with that call's arguments, a hook limited to n exactly min(n, accepted calls)
// times with arguments of accepted calls and never twice for one call; within one call the
// hooks of an event run in attachment order. Which of the accepted calls a limited hook
// serves is not demanded.
func (d *discEnv) caseNested(no int, rng *rand.Rand) {
	arity := []int{0, 1, 1, 2, 2, 4, 9}[rng.Intn(7)]
	nT := 1 + rng.Intn(4)
	withL := rng.Intn(2) == 0
	linkPos := rng.Intn(nT + 1)
	nL := 1 + rng.Intn(2)
	tLimit := []int{0, 0, 0, 1, 2, 3, 4}[rng.Intn(7)]
	lLimit := []int{0, 0, 1, 2}[rng.Intn(4)]
	nPlain := nT
	if withL {
		nPlain += nL
	}
	limited, hLimit := -1, 0
	if rng.Intn(2) == 0 {
		limited, hLimit = rng.Intn(nPlain), 1+rng.Intn(3)
	}
	actor := rng.Intn(nPlain)
	budget := 1 + rng.Intn(3)
	nestL := withL && rng.Intn(3) == 0 // the nested call triggers the linked event itself
	outer := 2 + rng.Intn(3)
	directL := withL && rng.Intn(4) == 0
	cfg := map[string]any{"arity": arity, "hooks_on_T": nT, "linked_event": withL, "link_slot": linkPos, "hooks_on_L": nL, "limit_T": tLimit, "limit_L": lLimit,
		"limited_hook": limited, "hook_limit": hLimit, "actor": actor, "nested_calls": budget, "nested_call_triggers_L": nestL, "outer_triggers": outer}
	descr := fmt.Sprintf("Event%s T (limit %d) with %d hooks", arityName(arity), tLimit, nT)
	if withL {
		descr += fmt.Sprintf(", event L (limit %d, %d hooks) linked to T after %d of them", lLimit, nL, linkPos)
	}
	descr += fmt.Sprintf("; hook #%d calls Trigger of %s from inside its callback (%d times in all); hook #%d limited to %d (-1 = none); %d outer Triggers",
		actor, map[bool]string{false: "T", true: "L"}[nestL], budget, limited, hLimit, outer)

	// ---- build model and real objects side by side
	var cur uint64
	mT := &nEvent{name: "T", limit: tLimit}
	mL := &nEvent{name: "L", limit: lLimit}
	var plain []*nHook
	var log []struct {
		h   *nHook
		arg uint64
	}
	var args []uint64 // arguments by Trigger call number (call order)
	argOf := func(i int) uint64 {
		for len(args) <= i {
			args = append(args, argBase.Add(1))
		}
		return args[i]
	}
	optsOf := func(n int) []event.Option {
		if n > 0 {
			return []event.Option{event.WithMaxTriggerCount(uint64(n))}
		}
		return nil
	}
	realCalls, realBudget := 0, budget
	var target *nEvent
	doTrigger := func(e *nEvent) {
		arg := argOf(realCalls)
		realCalls++
		saved := cur
		cur = arg
		e.real.trigger(arg)
		cur = saved
	}
	var panicked any
	func() {
		defer func() { panicked = recover() }()
		mT.real = newEvN(arity, &cur, optsOf(tLimit)...)
		mL.real = newEvN(arity, &cur, optsOf(lLimit)...)
		addPlain := func(e *nEvent) {
			h := &nHook{id: len(plain), ev: e, live: true}
			if h.id == limited {
				h.limit = hLimit
			}
			h.actor = h.id == actor
			plain = append(plain, h)
			e.hooks = append(e.hooks, h)
			e.real.hook(func(arg uint64) {
				h.got = append(h.got, arg)
				log = append(log, struct {
					h   *nHook
					arg uint64
				}{h, arg})
				if h.actor && realBudget > 0 {
					realBudget--
					d.count("disc_reent_nested_triggers", 1)
					doTrigger(target)
				}
			}, optsOf(h.limit)...)
		}
		if withL {
			for i := 0; i < nL; i++ {
				addPlain(mL)
			}
		}
		for i := 0; i <= nT; i++ {
			if withL && i == linkPos {
				mT.hooks = append(mT.hooks, &nHook{id: -1, ev: mT, live: true, link: mL})
				mL.real.linkTo(mT.real)
			}
			if i < nT {
				addPlain(mT)
			}
		}
	}()
	target = mT
	if nestL {
		target = mL
	}

	// ---- model
	mCalls, mBudget := 0, budget
	var mTrigger func(e *nEvent, viaLink bool, arg uint64)
	mStart := func(e *nEvent) {
		arg := argOf(mCalls)
		mCalls++
		mTrigger(e, false, arg)
	}
	nestedDepth := 0
	mTrigger = func(e *nEvent, viaLink bool, arg uint64) {
		e.calls++
		if e.limit > 0 && e.calls > e.limit {
			if nestedDepth > 0 {
				d.count("disc_reent_nested_triggers_beyond_event_limit", 1)
			}
			return
		}
		e.accepted = append(e.accepted, arg)
		for _, h := range e.hooks {
			if !h.live {
				continue
			}
			h.count++
			if h.limit > 0 && h.count > h.limit {
				h.live = false
				continue
			}
			if h.link != nil {
				if nestedDepth > 0 {
					d.count("disc_reent_nested_triggers_through_link", 1)
				}
				mTrigger(h.link, true, arg)
				continue
			}
			h.expect = append(h.expect, arg)
			if h.actor && mBudget > 0 {
				mBudget--
				nestedDepth++
				mStart(target)
				nestedDepth--
			}
		}
	}
	for i := 0; i < outer; i++ {
		mStart(mT)
	}
	if directL {
		mStart(mL)
	}

	// ---- real
	if panicked == nil {
		func() {
			defer func() { panicked = recover() }()
			for i := 0; i < outer; i++ {
				doTrigger(mT)
			}
			if directL {
				doTrigger(mL)
			}
		}()
	}
	if panicked != nil {
		d.viol(fpEvPanic, descr+": a call into runtime/event panicked: "+fmt.Sprint(panicked), cfg)
		return
	}

	// ---- judge
	for _, h := range plain {
		d.count("evaluations", 1)
		acc := map[uint64]bool{}
		for _, a := range h.ev.accepted {
			acc[a] = true
		}
		seen := map[uint64]int{}
		for _, a := range h.got {
			seen[a]++
		}
		name := fmt.Sprintf("hook #%d (on %s, limit %d)", h.id, h.ev.name, h.limit)
		for a, n := range seen {
			switch {
			case n > 1:
				d.viol(fpEvTwice, fmt.Sprintf("%s: one Trigger call invoked %s %d times", descr, name, n), cfg)
			case !acc[a]:
				fp := fpEvArgs
				if h.ev.limit > 0 {
					fp = fpEvMaxEvent
				}
				d.viol(fp, fmt.Sprintf("%s: %s was invoked for a Trigger call that is not among the first %d calls of its event (or with arguments of no call of its event)", descr, name, h.ev.limit), cfg)
			}
		}
		if h.limit > 0 {
			want := len(h.ev.accepted)
			if h.limit < want {
				want = h.limit
			}
			if len(h.got) != want {
				d.viol(fpEvMaxHook, fmt.Sprintf("%s: %s fired %d times, its event accepted %d Trigger calls, expected min = %d", descr, name, len(h.got), len(h.ev.accepted), want), cfg)
			}
			continue
		}
		for _, a := range h.ev.accepted {
			if seen[a] == 0 {
				fp := fpEvMissed
				if h.ev == mL {
					fp = fpEvLinkMissed
				}
				if h.ev.limit > 0 {
					fp = fpEvMaxEvent
				}
				d.viol(fp, fmt.Sprintf("%s: %s was not invoked for an accepted Trigger call of its event (accepted calls %d of %d; it was invoked %d times, the model says %d)", descr, name, len(h.ev.accepted), h.ev.calls, len(h.got), len(h.expect)), cfg)
				break
			}
		}
	}
	// attachment order within one call
	last := map[uint64]map[*nEvent]int{}
	for _, r := range log {
		m := last[r.arg]
		if m == nil {
			m = map[*nEvent]int{}
			last[r.arg] = m
		}
		if prev, ok := m[r.h.ev]; ok && prev > r.h.id {
			d.viol(fpEvOrder, fmt.Sprintf("%s: within one Trigger call hook #%d ran before hook #%d", descr, prev, r.h.id), cfg)
			break
		}
		m[r.h.ev] = r.h.id
	}
}

// ---------------------------------------------------------------- promise callbacks

type prNode struct {
	id          int
	actions     []string // reg:<id> | trigger | unsub:<id>
	ran         int
	val         uint64
	unsub       func()
	registered  bool
	unsubBefore bool // its unsubscribe returned before the first Trigger was invoked
	unsubLate   bool // its unsubscribe was called by a callback while it had not run yet
}

// casePrReent. Demanded: a registered callback whose unsubscribe was never called runs
// exactly once with the value of the first Trigger, whether it was registered before
// Trigger, from inside a callback that Trigger runs, from inside a callback that OnTrigger
// runs inline, or afterwards; one unsubscribed before Trigger does not run; nobody runs
// twice; exactly the first Trigger returns true (those issued by callbacks return false).
// Not demanded: whether a callback unsubscribed by an earlier callback of the same Trigger
// still runs.
func (d *discEnv) casePrReent(no int, rng *rand.Rand) {
	withValue := rng.Intn(3) != 0
	var nodes []*prNode
	var gen func(depth int) *prNode
	gen = func(depth int) *prNode {
		n := &prNode{id: len(nodes)}
		nodes = append(nodes, n)
		na := rng.Intn(3)
		if depth == 0 && na == 0 && rng.Intn(2) == 0 {
			na = 1
		}
		for i := 0; i < na; i++ {
			switch r := rng.Intn(10); {
			case r < 4 && depth < 3 && len(nodes) < 12:
				c := gen(depth + 1)
				n.actions = append(n.actions, fmt.Sprintf("reg:%d", c.id))
			case r < 6:
				n.actions = append(n.actions, "trigger")
			default:
				n.actions = append(n.actions, fmt.Sprintf("unsub:%d", rng.Intn(12)))
			}
		}
		return n
	}
	var before, after []*prNode
	for i, k := 0, 1+rng.Intn(4); i < k; i++ {
		before = append(before, gen(0))
	}
	for i, k := 0, rng.Intn(3); i < k; i++ {
		after = append(after, gen(0))
	}
	unsubBefore := map[int]bool{}
	for _, n := range before {
		if rng.Intn(6) == 0 {
			unsubBefore[n.id] = true
		}
	}
	var shape []string
	for _, n := range nodes {
		shape = append(shape, fmt.Sprintf("%d%v", n.id, n.actions))
	}
	detail := map[string]any{"with_value": withValue, "callbacks": shape, "registered_before": len(before), "registered_after": len(after), "unsubscribed_before": fmt.Sprint(unsubBefore)}
	descr := fmt.Sprintf("promise event (value %v), callbacks and what they do when they run: %v; %d registered before Trigger, %d after", withValue, shape, len(before), len(after))

	var e0 *promise.Event
	var e1 *promise.Event1[uint64]
	if withValue {
		e1 = promise.NewEvent1[uint64]()
	} else {
		e0 = promise.NewEvent()
	}
	v := argBase.Add(1)
	trueCount, trigCalls := 0, 0
	trigger := func(val uint64) {
		trigCalls++
		myNo := trigCalls
		var r bool
		if withValue {
			r = e1.Trigger(val)
		} else {
			r = e0.Trigger()
		}
		if r {
			trueCount++
			if myNo != 1 {
				d.viol(fpPrTrigger, descr+": a Trigger call other than the first returned true", detail)
			}
		}
	}
	var register func(n *prNode)
	run := func(n *prNode, val uint64) {
		n.ran++
		n.val = val
		if n.ran > 1 {
			return
		}
		for _, a := range n.actions {
			d.count("disc_reent_promise_calls_from_callbacks", 1)
			var id int
			switch {
			case a == "trigger":
				d.count("disc_reent_promise_calls:Trigger", 1)
				trigger(v + 1000)
			case len(a) > 4 && a[:4] == "reg:":
				fmt.Sscanf(a, "reg:%d", &id)
				d.count("disc_reent_promise_calls:OnTrigger", 1)
				register(nodes[id])
			default:
				fmt.Sscanf(a, "unsub:%d", &id)
				if id < len(nodes) && nodes[id].unsub != nil {
					d.count("disc_reent_promise_calls:unsubscribe", 1)
					if nodes[id].ran == 0 {
						nodes[id].unsubLate = true
					}
					nodes[id].unsub()
				}
			}
		}
	}
	register = func(n *prNode) {
		n.registered = true
		var u func()
		if withValue {
			u = e1.OnTrigger(func(val uint64) { run(n, val) })
		} else {
			u = e0.OnTrigger(func() { run(n, v) })
		}
		n.unsub = u
	}
	var panicked any
	func() {
		defer func() { panicked = recover() }()
		for _, n := range before {
			register(n)
		}
		for _, n := range before {
			if unsubBefore[n.id] {
				n.unsubBefore = true
				n.unsub()
				if n.id%2 == 0 {
					n.unsub()
				}
			}
		}
		trigger(v)
		for _, n := range after {
			register(n)
		}
		trigger(v + 2000)
	}()
	if panicked != nil {
		d.viol(fpPrPanic, descr+": a call into runtime/promise panicked: "+fmt.Sprint(panicked), detail)
		return
	}
	if trueCount != 1 {
		d.viol(fpPrTrigger, fmt.Sprintf("%s: %d Trigger calls, %d returned true", descr, trigCalls, trueCount), detail)
	}
	for _, n := range nodes {
		if !n.registered {
			continue
		}
		d.count("evaluations", 1)
		switch {
		case n.ran > 1:
			d.viol(fpPrTwice, fmt.Sprintf("%s: callback %d ran %d times", descr, n.id, n.ran), detail)
		case n.unsubBefore:
			if n.ran != 0 {
				d.viol(fpPrUnsub, fmt.Sprintf("%s: callback %d was unsubscribed before Trigger and still ran", descr, n.id), detail)
			}
		case n.unsubLate:
			d.count("disc_reent_promise_unsubscribed_by_earlier_callback_still_ran(not demanded)", n.ran)
		case n.ran == 0:
			d.viol(fpPrLost, fmt.Sprintf("%s: callback %d was registered (before Trigger, by a callback, or afterwards) and never ran", descr, n.id), detail)
		}
		if n.ran >= 1 && withValue && n.val != v {
			d.viol(fpPrValue, fmt.Sprintf("%s: callback %d ran with %d, the first Trigger passed %d", descr, n.id, n.val, v), detail)
		}
	}
}

// ---------------------------------------------------------------- valuenotifier: a context that calls back

type reCtx struct {
	context.Context
	ch       chan struct{}
	onDone   func()
	panicAt  string // "", "done", "err"
	doneHits int
}

var errReCtx = errors.New("c15: context done")

type discPanic struct{ what string }

func (r *reCtx) Done() <-chan struct{} {
	r.doneHits++
	if f := r.onDone; f != nil {
		r.onDone = nil
		f()
	}
	if r.panicAt == "done" {
		panic(discPanic{"Done"})
	}
	return r.ch
}

func (r *reCtx) Err() error {
	if r.panicAt == "err" {
		panic(discPanic{"Err"})
	}
	return errReCtx
}

var closedChan = func() chan struct{} { c := make(chan struct{}); close(c); return c }()

var vnActions = []string{"none", "notify-v", "notify-w", "dereg-self", "dereg-self,notify-v", "notify-v,dereg-self", "dereg-sibling", "new-listener", "new-listener,notify-v", "wait-sibling", "dereg-sibling,notify-v"}

// vnScenario drives one listener l0 whose Wait gets a context that calls back into the
// notifier from Done() (and, for the panic family, panics in Done() or Err()). The oracle
// is the statement's rule evaluated on this single-goroutine history: Wait returns nil only
// if Notify(value) was invoked after the listener was created and before its deregistration
// was invoked; demanded the other way round (as in vn.go): a listener that was never
// deregistered and whose value was notified during its registration returns nil from a
// Wait whose context never ends. Afterwards the notifier must still serve a fresh listener.
func (d *discEnv) vnScenario(rng *rand.Rand, panicAt string) {
	sibling := rng.Intn(2) == 0
	preNotify := rng.Intn(4) == 0
	action := vnActions[rng.Intn(len(vnActions))]
	doneClosed := rng.Intn(2) == 0
	if panicAt == "err" {
		doneClosed = true
	}
	detail := map[string]any{"sibling_listener": sibling, "notify_before_wait": preNotify, "done_calls": action, "done_channel_closed": doneClosed, "panic_in": panicAt}
	descr := fmt.Sprintf("Notifier: l0 = Listener(1)%s%s; l0.Wait(ctx) where ctx.Done() does [%s] and returns a channel that is %s%s",
		map[bool]string{true: ", l1 = Listener(1)", false: ""}[sibling], map[bool]string{true: ", Notify(1)", false: ""}[preNotify], action,
		map[bool]string{true: "closed", false: "never closed"}[doneClosed], map[string]string{"": "", "done": ", then panics in Done()", "err": "; ctx.Err() panics"}[panicAt])

	n := valuenotifier.New[int]()
	var l1 *valuenotifier.Listener
	notified0, dereg0 := false, false
	notified1, dereg1 := false, false
	var nestedRes error
	nestedRan := false
	var panicked any
	var res error
	returned := false
	func() {
		defer func() { panicked = recover() }()
		l0 := n.Listener(1)
		if sibling {
			l1 = n.Listener(1)
		}
		notify := func() {
			n.Notify(1)
			if !dereg0 {
				notified0 = true
			}
			if sibling && !dereg1 {
				notified1 = true
			}
		}
		if preNotify {
			notify()
		}
		ctx := &reCtx{Context: context.Background(), ch: make(chan struct{}), panicAt: panicAt}
		if doneClosed {
			ctx.ch = closedChan
		}
		ctx.onDone = func() {
			for _, a := range splitComma(action) {
				d.count("disc_reent_context_calls_into_notifier", 1)
				switch a {
				case "notify-v":
					notify()
				case "notify-w":
					n.Notify(2)
				case "dereg-self":
					dereg0 = true
					l0.Deregister()
				case "dereg-sibling":
					if sibling {
						dereg1 = true
						l1.Deregister()
					}
				case "new-listener":
					n.Listener(1)
				case "wait-sibling":
					if sibling {
						dereg1 = true // Wait deregisters on its way out
						nestedRan = true
						wasNotified := notified1
						nestedRes = l1.Wait(&reCtx{Context: context.Background(), ch: closedChan})
						if nestedRes == nil && !wasNotified {
							d.viol(fpNoNotify, descr+": the nested Wait of the sibling listener returned success although Notify(1) was never invoked", detail)
						}
					}
				}
			}
		}
		// would the Wait return at all? (only then is it issued: a parked Wait is a verdict of the detector)
		willNotify, willDereg := notified0, false
		for _, a := range splitComma(action) {
			if a == "notify-v" && !willDereg {
				willNotify = true
			}
			if a == "dereg-self" {
				willDereg = true
			}
		}
		if !willNotify && !willDereg && !doneClosed && panicAt != "done" {
			ctx.ch = closedChan
			doneClosed = true
			detail["done_channel_closed"] = true
		}
		func() {
			defer func() {
				if p := recover(); p != nil {
					if _, ours := p.(discPanic); !ours {
						panic(p)
					}
					d.count("disc_panic_contexts_panicked", 1)
				}
			}()
			res = l0.Wait(ctx)
			returned = true
		}()
		d.count("evaluations", 1)
		if returned {
			switch {
			case res == nil && !notified0:
				fp := fpNoNotify
				if dereg0 {
					fp = fpNotifyAfter
				}
				d.viol(fp, descr+": Wait returned success although Notify(1) was not invoked between the creation of l0 and its deregistration", detail)
			case res != nil && notified0 && !dereg0 && !doneClosed:
				d.viol(fpLost, descr+": Notify(1) ran while l0 was registered, l0 was not deregistered and its context never ends, yet Wait returned "+res.Error(), detail)
			}
		} else if panicAt == "" {
			return
		}
		// l0 again: whatever happened, success needs a Notify inside its registration
		d.count("disc_reent_listener_waits_after_user_code", 1)
		if r2 := l0.Wait(&reCtx{Context: context.Background(), ch: closedChan}); r2 == nil && !notified0 {
			d.viol(fpNoNotify, descr+": a second Wait on l0 returned success although Notify(1) was never invoked during its registration", detail)
		}
		// the sibling shares l0's channel
		if sibling && !dereg1 {
			if notified1 {
				if r := l1.Wait(context.Background()); r != nil {
					d.viol(fpLost, descr+": afterwards the sibling l1 (notified, never deregistered) got "+r.Error()+" from Wait", detail)
				}
			} else if r := l1.Wait(&reCtx{Context: context.Background(), ch: closedChan}); r == nil {
				d.viol(fpNoNotify, descr+": afterwards the sibling l1 returned success although Notify(1) was never invoked", detail)
			}
		}
		// the notifier is still usable: a fresh listener, a Notify, a Wait that never times out
		lf := n.Listener(1)
		lg := n.Listener(1)
		lg.Deregister()
		n.Notify(1)
		if r := lf.Wait(context.Background()); r != nil {
			d.viol(fpLost, descr+": afterwards lf = Listener(1), Notify(1), lf.Wait returned "+r.Error(), detail)
		}
		if panicAt != "" {
			d.count("disc_panic_contexts_panicked_then_notifier_used", 1)
		}
	}()
	_ = nestedRan
	if panicked != nil {
		d.viol("valuenotifier/panic", descr+": a call into runtime/valuenotifier panicked: "+fmt.Sprint(panicked), detail)
	}
}

func splitComma(s string) []string {
	var out []string
	cur := ""
	for _, r := range s {
		if r == ',' {
			out = append(out, cur)
			cur = ""
		} else {
			cur += string(r)
		}
	}
	return append(out, cur)
}

func (d *discEnv) caseVnReent(no int, rng *rand.Rand) { d.vnScenario(rng, "") }

func (d *discEnv) casePanicVn(no int, rng *rand.Rand) {
	d.vnScenario(rng, []string{"done", "done", "err"}[rng.Intn(3)])
}
