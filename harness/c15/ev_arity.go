package main

// Code below the header is mechanical: one case per exported event arity (Event, Event1..Event9).

import "github.com/iotaledger/hive.go/runtime/event"

// tsQ are the exported counting queries that events and hooks share.
type tsQ interface {
	WasTriggered() bool
	TriggerCount() int
	MaxTriggerCount() int
	MaxTriggerCountReached() bool
}

// argStride separates the parameters of one Trigger call: parameter i carries arg+i*argStride.
var argStride = uint64(0x9E3779B97F4A7C15)

// badArg is what a recording callback receives when the parameters of one call do not belong together.
const badArg = ^uint64(0)

func joinArgs(xs ...uint64) uint64 {
	for i, x := range xs {
		if x != xs[0]+uint64(i)*argStride {
			return badArg
		}
	}
	return xs[0]
}

// evN hides the arity of Event / Event1 .. Event9. For arity 0 the callback receives *cur.
type evN struct {
	arity   int
	q       tsQ
	hook    func(cb func(arg uint64), opts ...event.Option) (unhook func(), q tsQ)
	trigger func(arg uint64)
	linkTo  func(target *evN) // nil unlinks
	raw     any
}

func newEvN(arity int, cur *uint64, opts ...event.Option) *evN {
	a := &evN{arity: arity}
	switch arity {
	case 0:
		e := event.New(opts...)
		a.raw, a.q = e, e
		a.hook = func(cb func(uint64), o ...event.Option) (func(), tsQ) {
			h := e.Hook(func() { cb(*cur) }, o...)
			return h.Unhook, h
		}
		a.trigger = func(uint64) { e.Trigger() }
		a.linkTo = func(t *evN) {
			if t == nil {
				e.LinkTo(nil)
			} else {
				e.LinkTo(t.raw.(*event.Event))
			}
		}
	case 1:
		e := event.New1[uint64](opts...)
		a.raw, a.q = e, e
		a.hook = func(cb func(uint64), o ...event.Option) (func(), tsQ) {
			h := e.Hook(func(x0 uint64) { cb(joinArgs(x0)) }, o...)
			return h.Unhook, h
		}
		a.trigger = func(v uint64) { e.Trigger(v) }
		a.linkTo = func(t *evN) {
			if t == nil {
				e.LinkTo(nil)
			} else {
				e.LinkTo(t.raw.(*event.Event1[uint64]))
			}
		}
	case 2:
		e := event.New2[uint64, uint64](opts...)
		a.raw, a.q = e, e
		a.hook = func(cb func(uint64), o ...event.Option) (func(), tsQ) {
			h := e.Hook(func(x0, x1 uint64) { cb(joinArgs(x0, x1)) }, o...)
			return h.Unhook, h
		}
		a.trigger = func(v uint64) { e.Trigger(v, v+1*argStride) }
		a.linkTo = func(t *evN) {
			if t == nil {
				e.LinkTo(nil)
			} else {
				e.LinkTo(t.raw.(*event.Event2[uint64, uint64]))
			}
		}
	case 3:
		e := event.New3[uint64, uint64, uint64](opts...)
		a.raw, a.q = e, e
		a.hook = func(cb func(uint64), o ...event.Option) (func(), tsQ) {
			h := e.Hook(func(x0, x1, x2 uint64) { cb(joinArgs(x0, x1, x2)) }, o...)
			return h.Unhook, h
		}
		a.trigger = func(v uint64) { e.Trigger(v, v+1*argStride, v+2*argStride) }
		a.linkTo = func(t *evN) {
			if t == nil {
				e.LinkTo(nil)
			} else {
				e.LinkTo(t.raw.(*event.Event3[uint64, uint64, uint64]))
			}
		}
	case 4:
		e := event.New4[uint64, uint64, uint64, uint64](opts...)
		a.raw, a.q = e, e
		a.hook = func(cb func(uint64), o ...event.Option) (func(), tsQ) {
			h := e.Hook(func(x0, x1, x2, x3 uint64) { cb(joinArgs(x0, x1, x2, x3)) }, o...)
			return h.Unhook, h
		}
		a.trigger = func(v uint64) { e.Trigger(v, v+1*argStride, v+2*argStride, v+3*argStride) }
		a.linkTo = func(t *evN) {
			if t == nil {
				e.LinkTo(nil)
			} else {
				e.LinkTo(t.raw.(*event.Event4[uint64, uint64, uint64, uint64]))
			}
		}
	case 5:
		e := event.New5[uint64, uint64, uint64, uint64, uint64](opts...)
		a.raw, a.q = e, e
		a.hook = func(cb func(uint64), o ...event.Option) (func(), tsQ) {
			h := e.Hook(func(x0, x1, x2, x3, x4 uint64) { cb(joinArgs(x0, x1, x2, x3, x4)) }, o...)
			return h.Unhook, h
		}
		a.trigger = func(v uint64) { e.Trigger(v, v+1*argStride, v+2*argStride, v+3*argStride, v+4*argStride) }
		a.linkTo = func(t *evN) {
			if t == nil {
				e.LinkTo(nil)
			} else {
				e.LinkTo(t.raw.(*event.Event5[uint64, uint64, uint64, uint64, uint64]))
			}
		}
	case 6:
		e := event.New6[uint64, uint64, uint64, uint64, uint64, uint64](opts...)
		a.raw, a.q = e, e
		a.hook = func(cb func(uint64), o ...event.Option) (func(), tsQ) {
			h := e.Hook(func(x0, x1, x2, x3, x4, x5 uint64) { cb(joinArgs(x0, x1, x2, x3, x4, x5)) }, o...)
			return h.Unhook, h
		}
		a.trigger = func(v uint64) {
			e.Trigger(v, v+1*argStride, v+2*argStride, v+3*argStride, v+4*argStride, v+5*argStride)
		}
		a.linkTo = func(t *evN) {
			if t == nil {
				e.LinkTo(nil)
			} else {
				e.LinkTo(t.raw.(*event.Event6[uint64, uint64, uint64, uint64, uint64, uint64]))
			}
		}
	case 7:
		e := event.New7[uint64, uint64, uint64, uint64, uint64, uint64, uint64](opts...)
		a.raw, a.q = e, e
		a.hook = func(cb func(uint64), o ...event.Option) (func(), tsQ) {
			h := e.Hook(func(x0, x1, x2, x3, x4, x5, x6 uint64) { cb(joinArgs(x0, x1, x2, x3, x4, x5, x6)) }, o...)
			return h.Unhook, h
		}
		a.trigger = func(v uint64) {
			e.Trigger(v, v+1*argStride, v+2*argStride, v+3*argStride, v+4*argStride, v+5*argStride, v+6*argStride)
		}
		a.linkTo = func(t *evN) {
			if t == nil {
				e.LinkTo(nil)
			} else {
				e.LinkTo(t.raw.(*event.Event7[uint64, uint64, uint64, uint64, uint64, uint64, uint64]))
			}
		}
	case 8:
		e := event.New8[uint64, uint64, uint64, uint64, uint64, uint64, uint64, uint64](opts...)
		a.raw, a.q = e, e
		a.hook = func(cb func(uint64), o ...event.Option) (func(), tsQ) {
			h := e.Hook(func(x0, x1, x2, x3, x4, x5, x6, x7 uint64) { cb(joinArgs(x0, x1, x2, x3, x4, x5, x6, x7)) }, o...)
			return h.Unhook, h
		}
		a.trigger = func(v uint64) {
			e.Trigger(v, v+1*argStride, v+2*argStride, v+3*argStride, v+4*argStride, v+5*argStride, v+6*argStride, v+7*argStride)
		}
		a.linkTo = func(t *evN) {
			if t == nil {
				e.LinkTo(nil)
			} else {
				e.LinkTo(t.raw.(*event.Event8[uint64, uint64, uint64, uint64, uint64, uint64, uint64, uint64]))
			}
		}
	case 9:
		e := event.New9[uint64, uint64, uint64, uint64, uint64, uint64, uint64, uint64, uint64](opts...)
		a.raw, a.q = e, e
		a.hook = func(cb func(uint64), o ...event.Option) (func(), tsQ) {
			h := e.Hook(func(x0, x1, x2, x3, x4, x5, x6, x7, x8 uint64) { cb(joinArgs(x0, x1, x2, x3, x4, x5, x6, x7, x8)) }, o...)
			return h.Unhook, h
		}
		a.trigger = func(v uint64) {
			e.Trigger(v, v+1*argStride, v+2*argStride, v+3*argStride, v+4*argStride, v+5*argStride, v+6*argStride, v+7*argStride, v+8*argStride)
		}
		a.linkTo = func(t *evN) {
			if t == nil {
				e.LinkTo(nil)
			} else {
				e.LinkTo(t.raw.(*event.Event9[uint64, uint64, uint64, uint64, uint64, uint64, uint64, uint64, uint64]))
			}
		}
	default:
		panic("arity")
	}
	return a
}
