// C15 – events, promises and notifiers deliver exactly the right calls.
//
// Runtime monitoring of runtime/event, runtime/promise and runtime/valuenotifier:
//
//   - valuenotifier (vn.go): every sequential history up to length 7 (8 in the
//     thorough tier) over {Listener(v), Notify(v), Deregister(l), Wait(l), Wait(l) with a cancelled context} is executed
//     on the real Notifier; "Wait would block" is observed structurally (goroutine
//     parked in select inside Listener.Wait in a stop-the-world snapshot, then its
//     context is cancelled). Gated schedules through a context whose Done() method is
//     the yield point, and free-running concurrent rounds judged on logical ticks.
//   - event (ev.go): concurrent Trigger/Hook/Unhook/LinkTo rounds with per-hook call
//     logs (unique arguments), max-trigger-count rounds, pooled hooks.
//   - trigger counting (ev_count.go, ev_arity.go): model-checked histories with triggers that
//     arrive while no hook is attached and the exported counting queries, all arities;
//     concurrent hookless/hooked phases and limit ladders.
//   - promise (pr.go): callbacks registered before/during/after concurrent Triggers.
//
// All concurrent rounds run in a plain child and in a -race child; data races whose
// two stacks are both inside the three packages are violations.
package main

import (
	"encoding/json"
	"fmt"
	"runtime"
	"strconv"
	"strings"
	"sync"
	"sync/atomic"
	"time"

	"verif/harness/internal/vf"
)

// ---------------------------------------------------------------- logical clock

var clock atomic.Uint64

func tick() uint64 { return clock.Add(1) }

// ---------------------------------------------------------------- replay record

type replayRec struct {
	Kind     string   `json:"kind"`               // vn-seq | vn-gate | conc
	History  []vnOp   `json:"history,omitempty"`  // vn-seq
	Outcomes []string `json:"outcomes,omitempty"` // vn-seq: observed outcome per op
	Scenario string   `json:"scenario,omitempty"` // vn-gate
	Child    string   `json:"child,omitempty"`    // conc: child mode (event|promise|vn-conc)
	Round    string   `json:"round,omitempty"`    // conc: round kind
	RoundNo  int      `json:"round_no,omitempty"` // conc: round index (selects the PRNG stream)
	Seed     int64    `json:"seed,omitempty"`
	Race     bool     `json:"race,omitempty"`
	Detail   any      `json:"detail,omitempty"`
}

// ---------------------------------------------------------------- violation throttling in children

type reporter struct {
	c     *vf.Ctx
	mu    sync.Mutex
	perFP map[string]int
}

func newReporter(c *vf.Ctx) *reporter { return &reporter{c: c, perFP: map[string]int{}} }

// viol forwards at most 12 violations per fingerprint per process; all are counted.
func (r *reporter) viol(fp, what string, rep replayRec) {
	r.mu.Lock()
	r.perFP[fp]++
	n := r.perFP[fp]
	r.mu.Unlock()
	r.c.Count("violations_seen:"+fp, 1)
	if n <= 12 {
		r.c.Violation(fp, what, rep)
	}
}

// ---------------------------------------------------------------- parent

const evCountShards = 4

var pkgs = []string{"hive.go/runtime/event.", "hive.go/runtime/promise.", "hive.go/runtime/valuenotifier."}

func run(c *vf.Ctx) {
	if c.Replay != "" {
		replay(c)
		return
	}
	c.SetRule("evaluations = oracle verdicts: one per executed valuenotifier history step that is a Wait (sequential enumeration: every history up to the tier's length over {Listener(v),Notify(v),Deregister(l),Wait(l),Wait(l) with an already cancelled context}, 2 values, <=3 listeners per value, each history executed on a fresh Notifier and only its last step judged, so every (history, step) pair is judged once), one per gated schedule, one per Wait of a concurrent notifier round, one per (Trigger, hook) pair of an event round (concurrent rounds and the deterministic single-goroutine scenarios in which a hook's callback unhooks itself / its successor / a later / an earlier hook, hooks a new one or re-links a linked event while the Trigger is walking the hooks – all combinations for 2..5 hooks, Event/Event1/Event2, with and without a hook whose WithMaxTriggerCount is exhausted in that Trigger), one per executed trigger-counting history (ev_count.go: histories over Hook/limited Hook on a target and a linked event, Unhook, Trigger of either, LinkTo/unlink, for events with and without WithMaxTriggerCount and all arities Event..Event9, every Trigger's delivered calls and after every step the exported TriggerCount/WasTriggered/MaxTriggerCount/MaxTriggerCountReached of both events and all hooks compared with a model that counts every Trigger call, also those made while no hook is attached; all histories up to the tier's length plus seeded longer ones), one per hook of a concurrent hookless/hooked phase round or limit ladder round, one per promise callback, one per judged (call, hook) pair / callback / Wait of the disciplines part (disc*.go: single-goroutine cases drawn from the seed in which option slices share a backing array with sibling slices, trigger arguments are pointers/slices/maps that hooks scribble on, hooks trigger their own event again, promise callbacks call OnTrigger/Trigger/unsubscribe, a context's Done() calls into the notifier, and hooks / pre-trigger functions / promise callbacks / contexts panic and the object is used again). distinct_nontrivial = distinct sequential histories whose judged step is a Wait on a listener that was created after a Notify of the same value (the re-created-listener pattern the repository test never builds) plus distinct concurrent round configurations (kind/goroutine counts/build) in which at least one pair of constrained operations overlapped on the logical clock")
	maxLen := c.Pick(7, 8)
	shards := 16
	workers := runtime.NumCPU()
	if workers > 16 {
		workers = 16
	}
	if workers < 4 {
		workers = 4
	}

	type job struct {
		o vf.ChildOpts
	}
	var jobs []job
	for s := 0; s < shards; s++ {
		jobs = append(jobs, job{vf.ChildOpts{Name: "vn-enum", Args: []string{strconv.Itoa(maxLen), strconv.Itoa(s), strconv.Itoa(shards)}, Timeout: 12 * time.Minute}})
	}
	jobs = append(jobs, job{vf.ChildOpts{Name: "vn-gate", Timeout: 5 * time.Minute}})
	for s := 0; s < evCountShards; s++ {
		jobs = append(jobs, job{vf.ChildOpts{Name: "ev-count", Args: []string{strconv.Itoa(s), strconv.Itoa(evCountShards)}, Timeout: 12 * time.Minute}})
	}
	for _, race := range []bool{false, true} {
		for _, name := range []string{"vn-conc", "event", "promise"} {
			parts := c.Pick(1, 3)
			for p := 0; p < parts; p++ {
				jobs = append(jobs, job{vf.ChildOpts{Name: name, Args: []string{strconv.Itoa(p), strconv.FormatBool(race)}, Race: race, Timeout: 12 * time.Minute}})
			}
		}
	}
	// the three workload disciplines (disc*.go): one plain, timer-free child that is restarted behind a dead-locked case
	discDone := make(chan struct{})
	go func() { defer close(discDone); discPart(c) }()
	vf.Parallel(len(jobs), workers, func(i int) {
		o := jobs[i].o
		res := c.RunChild(o)
		label := o.Name + " " + strings.Join(o.Args, " ")
		switch {
		case res.TimedOut:
			c.Inconclusive("child " + label + " hit the watchdog (stderr " + res.StderrPath + ")")
		case o.Race && res.ExitCode == 66 && res.Fatal == "":
			// exit status of a -race binary that reported races; the reports are judged below
		case res.ExitCode != 0 || res.Fatal != "":
			// a crashed process cannot have delivered its callbacks; attribute it only if the
			// crash stack is inside the three packages
			if res.Fatal != "" && touches(res.Stderr) {
				c.Violation("crash/"+o.Name, "child "+label+" died: "+res.Fatal+" (last mark "+res.LastMark+")",
					replayRec{Kind: "conc", Child: o.Name, Seed: c.Seed, Race: o.Race, Detail: tail(res.Stderr, 4000)})
			} else {
				c.Inconclusive(fmt.Sprintf("child %s exited with %d %s (stderr %s)", label, res.ExitCode, res.Fatal, res.StderrPath))
			}
		}
		if o.Race {
			reportRaces(c, res.Races, o.Name)
		}
		c.Count("children_run", 1)
	})
	<-discDone

	c.SetExhaustive(false)
	c.Extra("exhaustive_note", fmt.Sprintf("valuenotifier: all sequential histories of length <= %d (2 values, <= 3 listeners per value) were executed; concurrent rounds are sampled schedules", maxLen))
	c.Extra("vn_max_history_length", maxLen)
	c.Require("evaluations", 100000)
	c.Require("vn_seq_histories", c.Pick(1615400, 19905680))
	c.Require("vn_seq_woken_after_older_generation_left", 100)
	c.Require("vn_seq_cancelled_wait_outcome:canceled", 10000)
	c.Require("vn_seq_blocked_waits_observed_parked", 10000)
	c.Require("vn_seq_recreated_listener_waits", 1000)
	c.Require("vn_gate_window_entered", 100)
	c.Require("vn_conc_waits_overlapping_notify_or_deregister", 200)
	c.Require("ev_trigger_hook_pairs_overlapping", 200)
	c.Require("ev_link_triggers_overlapping_linkto", 20)
	c.Require("ev_max_rounds", 50)
	c.Require("ev_count_histories", 100000)
	c.Require("ev_count_histories_limit_used_up_by_hookless_triggers", 5000)
	c.Require("ev_count_query_checks", 1000000)
	c.Require("ev_hookless_rounds_limit_used_up_by_hookless_triggers", 30)
	c.Require("ev_rounds:max-ladder", 50)
	c.Require("ev_reentrant_scenarios", 20000)
	c.Require("ev_redundant_histories_with_redundant_unhook", 10000)
	c.Require("pr_redundant_histories_with_repeated_unsubscribe", 1000)
	c.Require("vn_seq_redundant_deregister_comparisons", 1000)
	c.Require("pr_callbacks_registered_during_trigger", 100)
	c.Require("race_children_run", 3)
	discRequire(c)
	c.Assume("sync/atomic counter used as logical clock is linearizable; a goroutine shown in state `select` inside valuenotifier.(*Listener).Wait by runtime.Stack(all) is parked; the Go race detector reports only real races")
}

func tail(s string, n int) string {
	if len(s) > n {
		return s[len(s)-n:]
	}
	return s
}

func touches(s string) bool {
	for _, p := range pkgs {
		if strings.Contains(s, p) {
			return true
		}
	}
	return false
}

// ---------------------------------------------------------------- child dispatch

func child(c *vf.Ctx) {
	switch c.Child {
	case "vn-enum":
		maxLen, _ := strconv.Atoi(c.ChildArgs[0])
		shard, _ := strconv.Atoi(c.ChildArgs[1])
		shards, _ := strconv.Atoi(c.ChildArgs[2])
		vnEnumChild(c, maxLen, shard, shards)
	case "vn-gate":
		vnGateChild(c, "")
	case "ev-count":
		shard, _ := strconv.Atoi(c.ChildArgs[0])
		shards, _ := strconv.Atoi(c.ChildArgs[1])
		env := &evEnv{c: c, rep: newReporter(c)}
		env.countEnumShard(shard, shards)
		env.countRandShard(shard, shards)
	case "disc":
		discChild(c)
	case "vn-conc", "event", "promise":
		part, _ := strconv.Atoi(c.ChildArgs[0])
		race := len(c.ChildArgs) > 1 && c.ChildArgs[1] == "true"
		only := ""
		onlyNo := -1
		if len(c.ChildArgs) > 3 {
			only = c.ChildArgs[2]
			onlyNo, _ = strconv.Atoi(c.ChildArgs[3])
		}
		if race {
			c.Count("race_children_run", 1)
		}
		switch c.Child {
		case "vn-conc":
			vnConcChild(c, part, race, only, onlyNo)
		case "event":
			evChild(c, part, race, only, onlyNo)
		case "promise":
			prChild(c, part, race, only, onlyNo)
		}
	}
}

// ---------------------------------------------------------------- replay

func replay(c *vf.Ctx) {
	var r replayRec
	if err := c.LoadReplay(&r); err != nil {
		c.Inconclusive("cannot load replay: " + err.Error())
		return
	}
	switch r.Kind {
	case "vn-seq":
		x := newSeqExec()
		if !x.blindCheck(c) {
			return
		}
		out := x.run(r.History)
		rep := newReporter(c)
		vnJudge(c, rep, r.History, out, false)
		vnRedundantCheck(c, rep, x, r.History, out[len(out)-1])
		fmt.Printf("replayed history %s -> outcomes %v\n", histString(r.History), out)
		c.Count("evaluations", 1)
	case "vn-gate":
		vnGateChild(c, r.Scenario)
	case "disc":
		discReplay(c, r)
	case "conc":
		if r.Round == "count" {
			// deterministic single-goroutine history against the counting model
			b, _ := json.Marshal(r.Detail)
			var cfg cntCfg
			json.Unmarshal(b, &cfg)
			(&evEnv{c: c, rep: newReporter(c)}).runCountHist(cfg, true)
			return
		}
		if r.Round == "redundant" {
			// deterministic single-goroutine history: re-executed in this process
			b, _ := json.Marshal(r.Detail)
			switch r.Child {
			case "event":
				var h evHistReplay
				json.Unmarshal(b, &h)
				(&evEnv{c: c, rep: newReporter(c)}).runEvHist(h.Variant, h.History, true)
			case "promise":
				var h prHistReplay
				json.Unmarshal(b, &h)
				runPrHist(c, newReporter(c), h.WithValue, h.History, false)
			}
			return
		}
		// re-run the recorded round (same PRNG stream, same build flavour) in a child; the
		// schedule is not recorded, so the round is repeated a fixed number of times
		seed := r.Seed
		if seed == 0 {
			seed = c.Seed
		}
		args := []string{"0", strconv.FormatBool(r.Race)}
		if r.Round != "" {
			args = append(args, r.Round, strconv.Itoa(r.RoundNo))
		} // else: process crash or race report – the whole first part of that child is re-run
		res := c.RunChild(vf.ChildOpts{Name: r.Child, Args: args, Race: r.Race, Seed: seed, Timeout: 10 * time.Minute})
		if res.TimedOut {
			c.Inconclusive("replay child hit the watchdog")
		}
		if r.Race {
			reportRaces(c, res.Races, r.Child)
		}
	default:
		c.Inconclusive("unknown replay kind " + r.Kind)
	}
}

func main() { vf.Main("C15", "exploration", run, child) }
