package main

import (
	"context"
	"errors"
	"fmt"
	"hash/fnv"
	"runtime"
	"strings"
	"sync"

	"github.com/iotaledger/hive.go/runtime/valuenotifier"
	"verif/harness/internal/gdump"
	"verif/harness/internal/vf"
)

// Fingerprints of the value-notifier clause.
const (
	fpStale        = "valuenotifier/stale-deregister"               // deregistration of a listener of an already notified generation hits the successor entry
	fpDeregClose   = "valuenotifier/deregister-closes-channel"      // Wait racing with Deregister reports success although no Notify happened at all
	fpNotifyAfter  = "valuenotifier/notify-after-deregister"        // Wait reports success for a Notify invoked after Deregister had returned
	fpNoNotify     = "valuenotifier/success-without-notify"         // any other success without a Notify in the listener's life time
	fpDeregNoError = "valuenotifier/deregistered-listener-no-error" // Wait on a deregistered listener does not return ErrListenerDeregistered
	fpLost         = "valuenotifier/notified-listener-not-woken"    // sequential history: Notify(value) ran while the listener was registered, yet its Wait parks for ever
)

// vnOp is one step of a sequential history. K: "L" Listener(value X), "N" Notify(value X),
// "D" Deregister(listener #X), "W" Wait(listener #X) with a live context, "C" Wait(listener #X)
// with an already cancelled context (the third way a listener leaves); listeners are numbered
// in creation order.
type vnOp struct {
	K string `json:"k"`
	X int    `json:"x"`
}

func (o vnOp) String() string {
	switch o.K {
	case "L":
		return fmt.Sprintf("Listener(%c)", 'a'+o.X)
	case "N":
		return fmt.Sprintf("Notify(%c)", 'a'+o.X)
	case "D":
		return fmt.Sprintf("Deregister(l%d)", o.X)
	case "C":
		return fmt.Sprintf("WaitCancelled(l%d)", o.X)
	default:
		return fmt.Sprintf("Wait(l%d)", o.X)
	}
}

func histString(h []vnOp) string {
	s := make([]string, len(h))
	for i, o := range h {
		s[i] = o.String()
	}
	return strings.Join(s, " ")
}

func outcome(err error) string {
	switch {
	case err == nil:
		return "ok"
	case errors.Is(err, valuenotifier.ErrListenerDeregistered):
		return "dereg"
	case errors.Is(err, context.Canceled):
		return "canceled"
	}
	return "err:" + err.Error()
}

// ---------------------------------------------------------------- sequential executor

type waitReq struct {
	l   *valuenotifier.Listener
	ctx context.Context
}

// seqExec executes histories on the real Notifier. Wait runs on one persistent
// goroutine whose state is read from stop-the-world snapshots.
type seqExec struct {
	reqs      chan waitReq
	res       chan error
	gid       uint64
	snapshots int
	parked    int
}

func newSeqExec() *seqExec {
	x := &seqExec{reqs: make(chan waitReq), res: make(chan error, 1)}
	ready := make(chan struct{})
	go func() {
		x.gid = gdump.GoID()
		close(ready)
		for r := range x.reqs {
			x.res <- func() (err error) {
				defer func() {
					if p := recover(); p != nil {
						err = fmt.Errorf("panic: %v", p)
					}
				}()
				return r.l.Wait(r.ctx)
			}()
		}
	}()
	<-ready
	return x
}

// wait calls l.Wait on the waiter goroutine. If the goroutine is observed parked in the
// select of Listener.Wait, nothing else in this (sequential) process can wake it: the
// call would block for ever. Its context is then cancelled and the outcome is "blocked".
func (x *seqExec) wait(l *valuenotifier.Listener) string {
	ctx, cancel := context.WithCancel(context.Background())
	defer cancel()
	x.reqs <- waitReq{l, ctx}
	for i := 0; ; i++ {
		select {
		case err := <-x.res:
			return outcome(err)
		default:
		}
		if i < 3 {
			runtime.Gosched()
			continue
		}
		if i > 20000 {
			// neither returned nor recognisably parked inside the exported Wait: the rule is blind
			cancel()
			<-x.res
			return "undecided"
		}
		x.snapshots++
		gs := gdump.Snapshot()
		// only the exported API frame and the runtime's wait state are consulted
		if g, ok := gdump.Find(gs, x.gid); ok && g.Parked() && g.Has("valuenotifier.(*Listener).Wait") {
			x.parked++
			cancel()
			err := <-x.res
			if errors.Is(err, context.Canceled) {
				return "blocked"
			}
			return "parked-then:" + outcome(err)
		}
		runtime.Gosched()
	}
}

func (x *seqExec) run(h []vnOp) []string {
	n := valuenotifier.New[int]()
	var ls []*valuenotifier.Listener
	out := make([]string, len(h))
	for i, op := range h {
		func() {
			defer func() {
				if p := recover(); p != nil {
					out[i] = fmt.Sprintf("panic: %v", p)
					if op.K == "L" {
						ls = append(ls, nil)
					}
				}
			}()
			out[i] = "-"
			switch op.K {
			case "L":
				ls = append(ls, n.Listener(op.X))
			case "N":
				n.Notify(op.X)
			case "D":
				ls[op.X].Deregister()
			case "W":
				out[i] = x.wait(ls[op.X])
			case "C":
				ctx, cancel := context.WithCancel(context.Background())
				cancel()
				out[i] = outcome(ls[op.X].Wait(ctx))
			}
		}()
	}
	return out
}

// ---------------------------------------------------------------- sequential oracle

type mGen struct {
	count    int
	notified bool
}
type mL struct {
	val, created, dereg int
	gen                 *mGen
}

// vnJudge replays the history on the specification and judges Wait outcomes (only the
// last step when onlyLast). Statement: success only if Notify(value) was called after the
// listener's creation and before its deregistration; a deregistered listener reports
// ErrListenerDeregistered. Not demanded: that a notified listener's Wait succeeds (a
// lost notification is counted and noted, not reported).
func vnJudge(c *vf.Ctx, rep *reporter, h []vnOp, out []string, onlyLast bool) {
	var ls []*mL
	cur := map[int]*mGen{}
	stale := map[int]bool{} // value -> a stale deregistration hit a successor generation earlier in the history
	notifies := map[int][]int{}
	dereg := func(l *mL, i int) {
		if l.dereg >= 0 {
			return
		}
		l.dereg = i
		g := l.gen
		if g == cur[l.val] {
			g.count--
			if g.count == 0 {
				delete(cur, l.val)
			}
		} else if g.notified && cur[l.val] != nil {
			stale[l.val] = true
		}
	}
	for i, op := range h {
		judge := !onlyLast || i == len(h)-1
		if judge && strings.HasPrefix(out[i], "panic") {
			c.Count("vn_seq_panics", 1)
			c.Note("valuenotifier: " + histString(h[:i+1]) + " => " + out[i])
		}
		switch op.K {
		case "L":
			g := cur[op.X]
			if g == nil {
				g = &mGen{}
				cur[op.X] = g
			}
			g.count++
			ls = append(ls, &mL{op.X, i, -1, g})
		case "N":
			notifies[op.X] = append(notifies[op.X], i)
			if g := cur[op.X]; g != nil {
				g.notified = true
				delete(cur, op.X)
			}
		case "D":
			dereg(ls[op.X], i)
		case "C":
			// Wait with an already cancelled context: may report the cancellation in every case
			// (both select branches can be ready); success still needs a Notify in the window.
			l := ls[op.X]
			if judge {
				got := out[i]
				end := i
				if l.dereg >= 0 {
					end = l.dereg
				}
				notified := false
				for _, j := range notifies[l.val] {
					if j > l.created && j < end {
						notified = true
					}
				}
				c.Count("evaluations", 1)
				c.Count("vn_seq_cancelled_wait_outcome:"+strings.SplitN(got, ":", 2)[0], 1)
				r := replayRec{Kind: "vn-seq", History: append([]vnOp(nil), h[:i+1]...), Outcomes: append([]string(nil), out[:i+1]...)}
				switch {
				case got == "ok" && !notified:
					fp := fpNoNotify
					if stale[l.val] {
						fp = fpStale
					}
					rep.viol(fp, fmt.Sprintf("history %s: the last Wait (cancelled context) returned success although no Notify(%c) was called between the creation of l%d and its deregistration/this Wait", histString(h[:i+1]), 'a'+l.val, op.X), r)
				case got == "ok" && l.dereg >= 0:
					rep.viol(fpDeregNoError, fmt.Sprintf("history %s: l%d was deregistered at step %d but Wait returned success", histString(h[:i+1]), op.X, l.dereg+1), r)
				case got != "ok" && got != "dereg" && got != "canceled":
					c.Count("vn_seq_anomalies", 1)
					c.Inconclusive("valuenotifier: unexpected outcome " + got + " in " + histString(h[:i+1]))
				}
			}
			dereg(l, i)
		case "W":
			l := ls[op.X]
			if judge {
				got := out[i]
				wasDereg := l.dereg >= 0
				end := i
				if wasDereg {
					end = l.dereg
				}
				notified, recreated := false, false
				for _, j := range notifies[l.val] {
					if j > l.created && j < end {
						notified = true
					}
					if j < l.created {
						recreated = true
					}
				}
				c.Count("evaluations", 1)
				c.Count("vn_seq_wait_outcome:"+strings.SplitN(got, ":", 2)[0], 1)
				if recreated {
					c.Count("vn_seq_recreated_listener_waits", 1)
					hh := fnv.New64a()
					hh.Write([]byte(histString(h[:i+1])))
					c.DistinctHash("nontrivial", hh.Sum64())
				}
				r := replayRec{Kind: "vn-seq", History: append([]vnOp(nil), h[:i+1]...), Outcomes: append([]string(nil), out[:i+1]...)}
				switch {
				case got == "ok" && !notified:
					fp := fpNoNotify
					if stale[l.val] {
						fp = fpStale
					}
					rep.viol(fp, fmt.Sprintf("history %s: the last Wait returned success although no Notify(%c) was called between the creation of l%d and its deregistration/this Wait", histString(h[:i+1]), 'a'+l.val, op.X), r)
				case wasDereg && (got == "ok" || got == "blocked"):
					rep.viol(fpDeregNoError, fmt.Sprintf("history %s: l%d was deregistered at step %d but Wait returned %q instead of ErrListenerDeregistered", histString(h[:i+1]), op.X, l.dereg+1, got), r)
				case !wasDereg && got == "blocked" && notified:
					// One goroutine, so the Notify ran strictly inside the listener's registration:
					// its generation was the current one and had to be woken. (Was only counted
					// while the tree still had the stale-deregistration defect that caused it.)
					fp := fpLost
					if stale[l.val] {
						fp = fpStale
					}
					rep.viol(fp, fmt.Sprintf("history %s: Notify(%c) was called after the creation of l%d and before this Wait, l%d was never deregistered, yet the Wait parks for ever (observed parked in its select; returned only after its context was cancelled)", histString(h[:i+1]), 'a'+l.val, op.X, op.X), r)
				case !wasDereg && got == "ok" && notified:
					if recreated {
						c.Count("vn_seq_recreated_listener_woken", 1)
					}
					if stale[l.val] {
						c.Count("vn_seq_woken_after_older_generation_left", 1)
					}
				case !wasDereg && got == "dereg":
					c.Count("vn_seq_spurious_deregistered(not demanded)", 1)
				case got != "ok" && got != "dereg" && got != "blocked":
					c.Count("vn_seq_anomalies", 1)
					c.Inconclusive("valuenotifier: unexpected outcome " + got + " in " + histString(h[:i+1]))
				}
				if sampleSeq && recreated && got == "blocked" && len(h) >= 5 && c.WantSample() {
					sampleSeq = false
					c.Sample(map[string]any{"history": histString(h[:i+1]), "observed": "last Wait parked in select, returned context.Canceled after cancel", "expected": "no success (no Notify since the listener's creation)"})
				}
			}
			dereg(l, i)
		}
	}
}

// vnEnumerate visits every history of length 1..maxLen (2 values, <= 3 listeners per value).
func vnEnumerate(maxLen int, visit func(h []vnOp)) {
	var h []vnOp
	cnt := [2]int{}
	nl := 0
	var rec func()
	rec = func() {
		if len(h) > 0 {
			visit(h)
		}
		if len(h) == maxLen {
			return
		}
		for v := 0; v < 2; v++ {
			if cnt[v] < 3 {
				h = append(h, vnOp{"L", v})
				cnt[v]++
				nl++
				rec()
				nl--
				cnt[v]--
				h = h[:len(h)-1]
			}
		}
		for v := 0; v < 2; v++ {
			h = append(h, vnOp{"N", v})
			rec()
			h = h[:len(h)-1]
		}
		for i := 0; i < nl; i++ {
			for _, k := range []string{"D", "W", "C"} {
				h = append(h, vnOp{k, i})
				rec()
				h = h[:len(h)-1]
			}
		}
	}
	rec()
}

var sampleSeq bool

// blindCheck: a Wait that must block (fresh listener, no Notify) has to be recognised as
// parked by the snapshot rule; otherwise the rule cannot see and the run is INCONCLUSIVE.
func (x *seqExec) blindCheck(c *vf.Ctx) bool {
	got := x.wait(valuenotifier.New[int]().Listener(0))
	if got != "blocked" {
		c.Inconclusive("valuenotifier snapshot rule is blind: a Wait on a never-notified listener was classified " + got + " (expected: observed parked inside (*Listener).Wait)")
		return false
	}
	return true
}

func vnEnumChild(c *vf.Ctx, maxLen, shard, shards int) {
	runtime.GOMAXPROCS(2)
	sampleSeq = shard == 0
	x := newSeqExec()
	if !x.blindCheck(c) {
		return
	}
	rep := newReporter(c)
	idx, done := 0, 0
	vnEnumerate(maxLen, func(h []vnOp) {
		idx++
		if idx%shards != shard {
			return
		}
		out := x.run(h)
		vnJudge(c, rep, h, out, true)
		vnRedundantCheck(c, rep, x, h, out[len(out)-1])
		done++
	})
	c.Count("vn_seq_histories", done)
	c.Count("vn_seq_snapshots", x.snapshots)
	c.Count("vn_seq_blocked_waits_observed_parked", x.parked)
}

// ---------------------------------------------------------------- gated schedules

// gateCtx is a legal context.Context whose Done() – called by Listener.Wait while it
// evaluates its select, i.e. after the `deregistered` check and before parking – blocks
// until the harness has run the other party. It is equivalent to a pre-emption at that
// point; it adds no behaviour.
type gateCtx struct {
	context.Context
	reached, release chan struct{}
	once             sync.Once
}

func newGateCtx() *gateCtx {
	return &gateCtx{Context: context.Background(), reached: make(chan struct{}), release: make(chan struct{})}
}

func (g *gateCtx) Done() <-chan struct{} {
	g.once.Do(func() {
		close(g.reached)
		<-g.release
	})
	return g.Context.Done()
}

func vnGateChild(c *vf.Ctx, only string) {
	rep := newReporter(c)
	reps := c.Pick(400, 4000)
	type scen struct {
		name, fp, what string
		siblings       int
		between        func(n *valuenotifier.Notifier[int], l *valuenotifier.Listener)
		successAllowed bool
	}
	scens := []scen{
		{"deregister-inside-wait", fpDeregClose, "Wait(l) passed its deregistered check, Deregister(l) ran to completion (no Notify was ever called), Wait then returned success", 0,
			func(n *valuenotifier.Notifier[int], l *valuenotifier.Listener) { l.Deregister() }, false},
		{"deregister-inside-wait-with-sibling", fpDeregClose, "as deregister-inside-wait with a second live listener of the same value", 1,
			func(n *valuenotifier.Notifier[int], l *valuenotifier.Listener) { l.Deregister() }, false},
		{"notify-after-deregister-inside-wait", fpNotifyAfter, "Wait(l) passed its deregistered check, Deregister(l) returned, then Notify(value) was called (a sibling listener keeps the value registered), Wait(l) returned success for a Notify that came after its deregistration", 1,
			func(n *valuenotifier.Notifier[int], l *valuenotifier.Listener) { l.Deregister(); n.Notify(1) }, false},
		{"notify-inside-wait", "", "control: Notify while Wait is between check and select", 0,
			func(n *valuenotifier.Notifier[int], l *valuenotifier.Listener) { n.Notify(1) }, true},
	}
	for _, s := range scens {
		if only != "" && only != s.name {
			continue
		}
		nilCount := 0
		for r := 0; r < reps; r++ {
			n := valuenotifier.New[int]()
			l := n.Listener(1)
			for k := 0; k < s.siblings; k++ {
				n.Listener(1)
			}
			g := newGateCtx()
			res := make(chan error, 1)
			go func() { res <- l.Wait(g) }()
			<-g.reached
			c.Count("vn_gate_window_entered", 1)
			s.between(n, l)
			close(g.release)
			err := <-res
			c.Count("evaluations", 1)
			c.Count("vn_gate:"+s.name+":"+outcome(err), 1)
			if err == nil {
				nilCount++
				if !s.successAllowed {
					rep.viol(s.fp, "gated schedule "+s.name+": "+s.what, replayRec{Kind: "vn-gate", Scenario: s.name})
				}
			}
		}
		if s.successAllowed && nilCount != reps {
			c.Note(fmt.Sprintf("valuenotifier gate %s: %d/%d Waits did not report the Notify (not demanded)", s.name, reps-nilCount, reps))
		}
	}
}

// ---------------------------------------------------------------- concurrent rounds

type vnProgOp struct {
	K    byte // 'L' create (Wait says whether a waiter goroutine is started), 'N', 'D', 'Y'
	Val  int  // L, N
	Wait bool // L
	Idx  int  // D: index into the worker's own listeners
}

type vnCL struct {
	val          int
	cCall, cRet  uint64
	l            *valuenotifier.Listener
	dCall, dRet  uint64 // explicit Deregister by the owner (0 = none)
	waited       bool
	wCall, wRet  uint64
	wRes         string
	cancel       context.CancelFunc
	owner, index int
}

type vnCN struct {
	val       int
	call, ret uint64
}

func vnConcChild(c *vf.Ctx, part int, race bool, only string, onlyNo int) {
	rep := newReporter(c)
	rounds := c.Pick(2500, 8000)
	if race {
		rounds = c.Pick(800, 2500)
	}
	if only != "" {
		for k := 0; k < 50; k++ {
			vnConcRound(c, rep, onlyNo, race)
		}
		return
	}
	for r := 0; r < rounds; r++ {
		vnConcRound(c, rep, part*1000000+r, race)
	}
}

func vnConcRound(c *vf.Ctx, rep *reporter, roundNo int, race bool) {
	rng := c.Rand(fmt.Sprintf("vn-conc/%d", roundNo))
	G := 2 + rng.Intn(7)
	V := 1 + rng.Intn(4)
	nops := 8 + rng.Intn(30)
	notifyPct := 5 + rng.Intn(25)
	progs := make([][]vnProgOp, G)
	for g := range progs {
		nl := 0
		for k := 0; k < nops; k++ {
			p := rng.Intn(100)
			switch {
			case p < 40 || nl == 0 && p < 70:
				progs[g] = append(progs[g], vnProgOp{K: 'L', Val: rng.Intn(V), Wait: rng.Intn(4) != 0})
				nl++
			case p < 40+notifyPct:
				progs[g] = append(progs[g], vnProgOp{K: 'N', Val: rng.Intn(V)})
			case p < 90 && nl > 0:
				progs[g] = append(progs[g], vnProgOp{K: 'D', Idx: rng.Intn(nl)})
			default:
				progs[g] = append(progs[g], vnProgOp{K: 'Y'})
			}
		}
	}
	n := valuenotifier.New[int]()
	listeners := make([][]*vnCL, G)
	notifies := make([][]vnCN, G)
	var workers, waiters sync.WaitGroup
	start := &barrier{n: int32(G)}
	for g := 0; g < G; g++ {
		workers.Add(1)
		go func(g int) {
			defer workers.Done()
			start.wait()
			for _, op := range progs[g] {
				switch op.K {
				case 'L':
					x := &vnCL{val: op.Val, owner: g, index: len(listeners[g])}
					x.cCall = tick()
					x.l = n.Listener(op.Val)
					x.cRet = tick()
					listeners[g] = append(listeners[g], x)
					if op.Wait {
						x.waited = true
						ctx, cancel := context.WithCancel(context.Background())
						x.cancel = cancel
						waiters.Add(1)
						go func() {
							defer waiters.Done()
							x.wCall = tick()
							err := x.l.Wait(ctx)
							x.wRet = tick()
							x.wRes = outcome(err)
						}()
					}
				case 'N':
					nn := vnCN{val: op.Val}
					nn.call = tick()
					n.Notify(op.Val)
					nn.ret = tick()
					notifies[g] = append(notifies[g], nn)
				case 'D':
					x := listeners[g][op.Idx]
					if x.dCall == 0 {
						dc := tick()
						x.l.Deregister()
						x.dRet = tick()
						x.dCall = dc
					} else {
						x.l.Deregister() // redundant: must not affect any other listener
					}
				case 'Y':
					runtime.Gosched()
				}
			}
		}(g)
	}
	workers.Wait()
	// every still-blocked Wait is released through its context (result then is not success)
	for _, ls := range listeners {
		for _, x := range ls {
			if x.cancel != nil {
				x.cancel()
			}
		}
	}
	waiters.Wait()

	var all []*vnCL
	var ns []vnCN
	for g := 0; g < G; g++ {
		all = append(all, listeners[g]...)
		ns = append(ns, notifies[g]...)
	}
	overlapped := false
	for _, x := range all {
		if !x.waited {
			continue
		}
		c.Count("evaluations", 1)
		c.Count("vn_conc_wait_outcome:"+strings.SplitN(x.wRes, ":", 2)[0], 1)
		// overlap evidence
		ov := x.dCall != 0 && x.dCall < x.wRet && x.dRet > x.wCall
		for _, nn := range ns {
			if nn.val == x.val && nn.call < x.wRet && nn.ret > x.wCall {
				ov = true
			}
		}
		if ov {
			overlapped = true
			c.Count("vn_conc_waits_overlapping_notify_or_deregister", 1)
		}
		if x.wRes != "ok" {
			continue
		}
		// rule (b): success requires a Notify(value) with ret > creation call and call < Wait's return
		qual, qualBeforeDereg := 0, 0
		for _, nn := range ns {
			if nn.val == x.val && nn.ret > x.cCall && nn.call < x.wRet {
				qual++
				if x.dCall == 0 || nn.call < x.dRet {
					qualBeforeDereg++
				}
			}
		}
		r := replayRec{Kind: "conc", Child: "vn-conc", Round: "vn", RoundNo: roundNo, Seed: c.Seed, Race: race,
			Detail: map[string]any{"goroutines": G, "values": V, "listener_value": x.val, "create": [2]uint64{x.cCall, x.cRet}, "wait": [2]uint64{x.wCall, x.wRet}, "deregister": [2]uint64{x.dCall, x.dRet}, "notifies_of_value": notifiesOf(ns, x.val)}}
		switch {
		case qual == 0:
			fp := fpNoNotify
			ownDereg := x.dCall != 0 && x.dCall < x.wRet
			otherDereg := false
			for _, y := range all {
				if y != x && y.val == x.val && y.cCall < x.cRet {
					// deregistration of an older listener (explicit, or implicit at the end of its Wait) inside x's life time
					if y.dCall != 0 && y.dRet > x.cCall && y.dCall < x.wRet {
						otherDereg = true
					}
					if y.waited && y.wRet > x.cCall && y.wCall < x.wRet {
						otherDereg = true
					}
				}
			}
			if ownDereg {
				fp = fpDeregClose
			} else if otherDereg {
				fp = fpStale
			}
			rep.viol(fp, fmt.Sprintf("concurrent round %d: Wait of a listener for value %d returned success, but no Notify(%d) returned after the listener's creation was invoked (tick %d) and was invoked before the Wait returned (tick %d)", roundNo, x.val, x.val, x.cCall, x.wRet), r)
		case qualBeforeDereg == 0:
			rep.viol(fpNotifyAfter, fmt.Sprintf("concurrent round %d: Wait returned success, but every Notify(%d) in the listener's window was invoked after Deregister(l) had returned (tick %d)", roundNo, x.val, x.dRet), r)
		}
	}
	if overlapped {
		c.Distinct("nontrivial", fmt.Sprintf("vn-conc/G%d/V%d/race=%v", G, V, race))
		if roundNo%1000000 == 3 && c.WantSample() {
			oc := map[string]int{}
			for _, x := range all {
				if x.waited {
					oc[x.wRes]++
				}
			}
			c.Sample(map[string]any{"kind": "valuenotifier concurrent round", "round": roundNo, "race_build": race, "goroutines": G, "values": V, "listeners": len(all), "notifies": len(ns), "wait_outcomes": oc})
		}
	}
	c.Count("vn_conc_rounds", 1)
}

func notifiesOf(ns []vnCN, v int) [][2]uint64 {
	var out [][2]uint64
	for _, n := range ns {
		if n.val == v && len(out) < 40 {
			out = append(out, [2]uint64{n.call, n.ret})
		}
	}
	return out
}
