package main

import (
	"sort"
	"strings"
	"sync"

	"verif/harness/internal/vf"
)

var raceSeen sync.Map

// reportRaces: a report is a violation when BOTH access stacks contain a frame of
// runtime/event, runtime/promise or runtime/valuenotifier (operations the statement
// constrains); other reports are notes.
func reportRaces(c *vf.Ctx, rs []vf.RaceReport, childName string) {
	for _, r := range rs {
		c.Count("race_reports", 1)
		inside, key := bothStacksInside(r.Text)
		if _, dup := raceSeen.LoadOrStore(key, true); dup {
			continue
		}
		if inside {
			txt := r.Text
			if len(txt) > 6000 {
				txt = txt[:6000]
			}
			c.Violation("race:"+key, "data race between "+key, replayRec{Kind: "conc", Child: childName, Race: true, Seed: c.Seed, Detail: txt})
		} else {
			c.Note("race outside statement: " + key)
		}
	}
}

// frameFunc extracts the function name of a stack line of a race report
// ("  pkg.(*T[...]).Method.func1()" -> "pkg.(*T).Method.func1"); "" for other lines.
func frameFunc(line string) string {
	if !strings.HasPrefix(line, "  ") || strings.HasPrefix(line, "   ") {
		return ""
	}
	f := strings.TrimSpace(line)
	if i := strings.LastIndexByte(f, '('); i > 0 {
		f = f[:i]
	}
	// drop type arguments
	for {
		i := strings.IndexByte(f, '[')
		j := strings.IndexByte(f, ']')
		if i < 0 || j < i {
			break
		}
		f = f[:i] + f[j+1:]
	}
	return strings.TrimPrefix(f, "github.com/iotaledger/hive.go/")
}

// entryName strips closure suffixes (".func1", ".func1.2", ".gowrap1").
func entryName(f string) string {
	for {
		i := strings.LastIndexByte(f, '.')
		if i < 0 {
			return f
		}
		suf := f[i+1:]
		if strings.HasPrefix(suf, "func") || strings.HasPrefix(suf, "gowrap") || strings.Trim(suf, "0123456789") == "" {
			f = f[:i]
			continue
		}
		return f
	}
}

// bothStacksInside reports whether each of the two access stacks has a frame in one of
// the three packages, and a key made of the innermost such frame of each stack (else the
// innermost frame).
func bothStacksInside(text string) (bool, string) {
	head := text
	if i := strings.Index(head, "\nGoroutine "); i >= 0 {
		head = head[:i]
	}
	n, inside := 0, 0
	var keys []string
	for _, blk := range strings.Split(head, "\n\n") {
		if !strings.Contains(blk, " by goroutine ") && !strings.Contains(blk, " by main goroutine") {
			continue
		}
		n++
		first, in := "", ""
		for _, l := range strings.Split(blk, "\n") {
			f := frameFunc(l)
			if f == "" {
				continue
			}
			if first == "" {
				first = f
			}
			if touches("hive.go/" + f) {
				in = entryName(f) // outermost frame inside the packages = the API entry point of the operation
			}
		}
		if in != "" {
			inside++
			keys = append(keys, in)
		} else {
			keys = append(keys, first)
		}
	}
	sort.Strings(keys)
	return n >= 2 && inside == n, strings.Join(keys, " <-> ")
}
